/-
  C05 — filter banks are laid out on the scale as documented, with unit gain.

  The definitions these theorems are about are *generated from*
  `/repo/src/pydrobert/speech/filters.py` (`Generated/BankConsts.lean`) and `scales.py`
  (`Generated/Scales.lean`) on every run, instantiated at `ℝ`, and plugged into the Python plumbing of
  `Model/BankLayout.lean`.
-/
import PdsVerif.Lemmas.BankReal
import PdsVerif.Lemmas.CauchyPow
import PdsVerif.Props.C19
import Mathlib.Analysis.SpecialFunctions.Gaussian.GaussianIntegral
import Mathlib.Analysis.SpecialFunctions.Gamma.Basic
import Mathlib.Tactic

namespace PdsVerif.C05
open PdsVerif PdsVerif.Gen PdsVerif.Gen.BankConsts PdsVerif.Gen.Scales PdsVerif.Gen.UtilFns
open PdsVerif.Model.BankLayout PdsVerif.BankReal Set

/-! ## 1. scales: what the layout needs, from the C19 theorems -/

/-- constructor / domain conditions under which a scale is usable from `lo` Hz upwards
(linear: positive slope; octave: positive `low_hz`; mel / Bark: above the pole of the formula) -/
def Scale.Valid : Scale ℝ → ℝ → Prop
  | .linear _ slope, _ => 0 < slope
  | .octave _, lo => 0 < lo
  | .mel, lo => -700 < lo
  | .bark, lo => -1960 < lo

/-- the four facts every layout theorem uses, on the band `[lo, hi]` -/
structure ScaleOK (sc : Scale ℝ) (lo hi : ℝ) : Prop where
  left_inv : ∀ f, lo ≤ f → sc.s2h (sc.h2s f) = f
  right_inv : ∀ s, s ≤ sc.h2s hi → sc.h2s (sc.s2h s) = s
  h2s_lt : ∀ a b, lo ≤ a → a < b → sc.h2s a < sc.h2s b
  s2h_lt : ∀ s t, s < t → t ≤ sc.h2s hi → sc.s2h s < sc.s2h t

theorem z_lt_pole (f : ℝ) (hf : -1960 < f) : C19.z f < 26.28 := by
  unfold C19.z
  have h : (0:ℝ) < 1960.0 + f := by norm_num; linarith
  have : (26.81:ℝ) * f / (1960.0 + f) < 26.81 := by
    rw [div_lt_iff₀ h]; norm_num
  norm_num at this ⊢; linarith

theorem uncorr_lt_pole (s hi : ℝ) (hhi : -1960 < hi) (hs : s ≤ bark_h2s hi) : C19.uncorr s < 26.28 := by
  have h1 : C19.uncorr s ≤ C19.uncorr (bark_h2s hi) := C19.uncorr_strictMono.monotone hs
  rw [C19.bark_h2s_eq, C19.uncorr_corr] at h1
  exact lt_of_le_of_lt h1 (z_lt_pole hi hhi)

/-- all four scales satisfy `ScaleOK` on every band that starts inside their domain -/
theorem scaleOK (sc : Scale ℝ) (lo hi : ℝ) (hv : Scale.Valid sc lo) (hlh : lo ≤ hi) : ScaleOK sc lo hi := by
  cases sc with
  | linear l s =>
    have hs : 0 < s := hv
    exact ⟨fun f _ => C19.linear_left_inv l s f hs.ne', fun x _ => C19.linear_right_inv l s x hs.ne',
      fun a b _ hab => C19.linear_h2s_strictMono l s hs hab, fun a b hab _ => C19.linear_s2h_strictMono l s hs hab⟩
  | octave l =>
    have hl : 0 < lo := hv
    exact ⟨fun f hf => C19.octave_left_inv l f (lt_of_lt_of_le hl hf), fun x _ => C19.octave_right_inv l x,
      fun a b ha hab => C19.octave_h2s_strictMonoOn l (mem_Ioi.mpr (lt_of_lt_of_le hl ha))
        (mem_Ioi.mpr (lt_trans (lt_of_lt_of_le hl ha) hab)) hab,
      fun a b hab _ => C19.octave_s2h_strictMono l hab⟩
  | mel =>
    have hl : -700 < lo := hv
    exact ⟨fun f hf => C19.mel_left_inv f (lt_of_lt_of_le hl hf), fun x _ => C19.mel_right_inv x,
      fun a b ha hab => C19.mel_h2s_strictMonoOn (mem_Ioi.mpr (lt_of_lt_of_le hl ha))
        (mem_Ioi.mpr (lt_trans (lt_of_lt_of_le hl ha) hab)) hab,
      fun a b hab _ => C19.mel_s2h_strictMono hab⟩
  | bark =>
    have hl : -1960 < lo := hv
    have hhi : -1960 < hi := lt_of_lt_of_le hl hlh
    refine ⟨fun f hf => C19.bark_left_inv f (lt_of_lt_of_le hl hf), fun x hx => ?_, fun a b ha hab => ?_,
      fun a b hab hb => ?_⟩
    · exact C19.bark_right_inv x (uncorr_lt_pole x hi hhi hx).ne
    · exact C19.bark_h2s_strictMonoOn (mem_Ioi.mpr (lt_of_lt_of_le hl ha))
        (mem_Ioi.mpr (lt_trans (lt_of_lt_of_le hl ha) hab)) hab
    · exact C19.bark_s2h_strictMonoOn (uncorr_lt_pole a hi hhi (le_trans hab.le hb))
        (uncorr_lt_pole b hi hhi hb) hab

/-! ## 2. the grid on the scale -/

/-- position `t` (in steps) on the scale: `scale_low + scale_delta * t` -/
noncomputable def gridPos (sc : Scale ℝ) (lo hi : ℝ) (n : ℕ) (t : ℝ) : ℝ :=
  sc.h2s lo + (sc.h2s hi - sc.h2s lo) / ((n:ℝ) + 1) * t

/-- the step `scale_delta` -/
noncomputable def gridStep (sc : Scale ℝ) (lo hi : ℝ) (n : ℕ) : ℝ := (sc.h2s hi - sc.h2s lo) / ((n:ℝ) + 1)

theorem gridPos_eq (sc : Scale ℝ) (lo hi : ℝ) (n : ℕ) (t : ℝ) :
    gridPos sc lo hi n t = sc.h2s lo + t * gridStep sc lo hi n := by
  unfold gridPos gridStep; ring

theorem tri_vertex_eq (sc : Scale ℝ) (lo hi : ℝ) (n : ℕ) (t : ℝ) :
    tri_vertex sc.h2s sc.s2h lo hi n t = sc.s2h (gridPos sc lo hi n t) := by
  simp only [tri_vertex, gridPos]; norm_num

theorem fbank_vertex_eq (lo hi : ℝ) (n : ℕ) (t : ℝ) :
    fbank_vertex lo hi n t = (Scale.mel : Scale ℝ).s2h (gridPos .mel lo hi n t) := by
  simp only [fbank_vertex, gridPos, Scale.s2h, Scale.h2s]; norm_num

theorem gabor_edge_eq (sc : Scale ℝ) (lo hi : ℝ) (n : ℕ) (t : ℝ) :
    gabor_edge sc.h2s sc.s2h lo hi n t = sc.s2h (gridPos sc lo hi n (t + 1/2)) := by
  simp only [gabor_edge, gridPos]; norm_num

theorem gammatone_edge_eq (sc : Scale ℝ) (lo hi : ℝ) (n : ℕ) (t : ℝ) :
    gammatone_edge sc.h2s sc.s2h lo hi n t = sc.s2h (gridPos sc lo hi n (t + 1/2)) := by
  simp only [gammatone_edge, gridPos]; norm_num

section Grid
variable {sc : Scale ℝ} {lo hi : ℝ} (ok : ScaleOK sc lo hi) (hlt : lo < hi) (n : ℕ)
include ok hlt

theorem gridStep_pos : 0 < gridStep sc lo hi n := by
  unfold gridStep
  have := ok.h2s_lt lo hi le_rfl hlt
  have hn : (0:ℝ) < (n:ℝ) + 1 := by positivity
  exact div_pos (by linarith) hn

theorem gridPos_le_top (t : ℝ) (ht : t ≤ (n:ℝ) + 1) : gridPos sc lo hi n t ≤ sc.h2s hi := by
  have hn : (0:ℝ) < (n:ℝ) + 1 := by positivity
  have hs := gridStep_pos ok hlt n
  rw [gridPos_eq]
  have : ((n:ℝ) + 1) * gridStep sc lo hi n = sc.h2s hi - sc.h2s lo := by
    unfold gridStep; field_simp
  nlinarith

omit ok hlt in
theorem gridPos_top : gridPos sc lo hi n ((n:ℝ) + 1) = sc.h2s hi := by
  have hn : ((n:ℝ) + 1) ≠ 0 := by positivity
  unfold gridPos; field_simp; ring

omit ok hlt in
theorem gridPos_zero : gridPos sc lo hi n 0 = sc.h2s lo := by
  unfold gridPos; ring

theorem gridPos_lt (s t : ℝ) (hst : s < t) : gridPos sc lo hi n s < gridPos sc lo hi n t := by
  have hs := gridStep_pos ok hlt n
  rw [gridPos_eq, gridPos_eq]; nlinarith

/-- **Equal spacing.**  Going back to the scale from the Hz value placed at step `t` gives exactly
`scale_low + t * scale_delta`, for every (real) step `t ≤ num_filts + 1` — vertices are `t = 0, 1, …`,
Gabor / gammatone edges are `t = 1/2, 3/2, …`. -/
theorem edges_equally_spaced (t : ℝ) (ht : t ≤ (n:ℝ) + 1) :
    sc.h2s (sc.s2h (gridPos sc lo hi n t)) = sc.h2s lo + t * gridStep sc lo hi n := by
  rw [ok.right_inv _ (gridPos_le_top ok hlt n t ht), gridPos_eq]

/-- the first position is `low_hz`, the last is `high_hz` -/
theorem vertex_ends :
    sc.s2h (gridPos sc lo hi n 0) = lo ∧ sc.s2h (gridPos sc lo hi n ((n:ℝ) + 1)) = hi := by
  rw [gridPos_zero, gridPos_top]
  exact ⟨ok.left_inv lo le_rfl, ok.left_inv hi hlt.le⟩

/-- Hz values placed on the grid are strictly increasing in the step -/
theorem grid_hz_strictMono (s t : ℝ) (hst : s < t) (ht : t ≤ (n:ℝ) + 1) :
    sc.s2h (gridPos sc lo hi n s) < sc.s2h (gridPos sc lo hi n t) :=
  ok.s2h_lt _ _ (gridPos_lt ok hlt n s t hst) (gridPos_le_top ok hlt n t ht)

end Grid

/-! ## 3. constructor range validation -/

/-- the property's rejection clause: `low_hz < 0`, or a positive `high_hz` that is not above `low_hz`
or lies more than 1 Hz above the Nyquist frequency -/
def MustReject (low : ℝ) (high : Option ℝ) (rate : ℝ) : Prop :=
  low < 0 ∨ ∃ h, high = some h ∧ 0 < h ∧ (h ≤ low ∨ rate / 2 + 1 < h)

/-- `TriangularOverlappingFilterBank.__init__` accepts exactly `0 ≤ low < high ≤ rate/2 + 1`
(`high` defaulting to `rate/2`). -/
theorem tri_rejects_iff (low : ℝ) (high : Option ℝ) (rate : ℝ) :
    tri_ctor_rejects low high rate = false ↔
      0 ≤ low ∧ low < high.getD (rate / 2) ∧ high.getD (rate / 2) ≤ rate / 2 + 1 := by
  cases high <;> simp [tri_ctor_rejects, Option.getD, and_assoc] <;> norm_num

/-- `Fbank.__init__` fills the default `high = ⌊rate/2⌋` (`sampling_rate // 2`) first and then accepts
exactly `0 ≤ low < high ≤ ⌊rate/2⌋` (so `high_hz = 0` and a `low_hz` at or above the default top are rejected). -/
theorem fbank_rejects_iff (low : ℝ) (high : Option ℝ) (rate : ℝ) :
    fbank_ctor_rejects low high rate = false ↔
      0 ≤ low ∧ low < high.getD (⌊rate / 2⌋ : ℝ) ∧ high.getD (⌊rate / 2⌋ : ℝ) ≤ (⌊rate / 2⌋ : ℝ) := by
  cases high <;> simp [fbank_ctor_rejects, Option.getD, and_assoc] <;> norm_num

/-- `GaborFilterBank.__init__` accepts exactly `0 ≤ low` with `high` absent, `0`, or `low < high ≤ ⌊rate/2⌋`
(`sampling_rate // 2`, not `rate/2 + 1`; the default is not compared with `low`). -/
theorem gabor_rejects_iff (low : ℝ) (high : Option ℝ) (rate : ℝ) :
    gabor_ctor_rejects low high rate = false ↔
      0 ≤ low ∧ ∀ h, high = some h → h ≠ 0 → low < h ∧ h ≤ (⌊rate / 2⌋ : ℝ) := by
  cases high with
  | none => simp [gabor_ctor_rejects]; norm_num
  | some h =>
    simp only [gabor_ctor_rejects, Bool.or_eq_false_iff, decide_eq_false_iff_not, not_lt,
      Bool.and_eq_false_imp, Bool.or_eq_true, decide_eq_true_eq, not_le, floorI_real,
      Option.some.injEq, forall_eq']
    norm_num

/-- `ComplexGammatoneFilterBank.__init__`: the same validation as `GaborFilterBank` (plus `order ≥ 1`) -/
theorem gammatone_rejects_iff (low : ℝ) (high : Option ℝ) (rate : ℝ) :
    gammatone_ctor_rejects low high rate = false ↔
      0 ≤ low ∧ ∀ h, high = some h → h ≠ 0 → low < h ∧ h ≤ (⌊rate / 2⌋ : ℝ) := by
  cases high with
  | none => simp [gammatone_ctor_rejects]; norm_num
  | some h =>
    simp only [gammatone_ctor_rejects, Bool.or_eq_false_iff, decide_eq_false_iff_not, not_lt,
      Bool.and_eq_false_imp, Bool.or_eq_true, decide_eq_true_eq, not_le, floorI_real,
      Option.some.injEq, forall_eq']
    norm_num

theorem floor_half_le (rate : ℝ) : ((⌊rate / 2⌋ : ℤ) : ℝ) ≤ rate / 2 := Int.floor_le _

/-- **range_rejected**, `TriangularOverlappingFilterBank` -/
theorem tri_range_rejected (sc : Scale ℝ) (n : ℕ) (high : Option ℝ) (low rate : ℝ)
    (h : MustReject low high rate) : triVertices sc n high low rate = .error "ValueError" := by
  have : tri_ctor_rejects low high rate = true := by
    by_contra hc
    rw [Bool.not_eq_true] at hc
    have := (tri_rejects_iff low high rate).mp hc
    rcases h with h | ⟨x, rfl, hx, h | h⟩
    · linarith
    · simp only [Option.getD] at this; linarith
    · simp only [Option.getD] at this; linarith
  simp [triVertices, this]

/-- what the floor-style acceptance condition gives against the property's rejection clause -/
theorem floor_style_rejected {low rate : ℝ} {high : Option ℝ} (h : MustReject low high rate)
    (acc : 0 ≤ low ∧ ∀ h, high = some h → h ≠ 0 → low < h ∧ h ≤ (⌊rate / 2⌋ : ℝ)) : False := by
  have hf := floor_half_le rate
  rcases h with h | ⟨x, rfl, hx, h | h⟩
  · linarith [acc.1]
  · have := acc.2 x rfl hx.ne'; linarith
  · have := acc.2 x rfl hx.ne'; linarith

/-- **range_rejected**, `Fbank` -/
theorem fbank_range_rejected (n : ℕ) (high : Option ℝ) (low rate : ℝ)
    (h : MustReject low high rate) : fbankVertices n high low rate = .error "ValueError" := by
  have : fbank_ctor_rejects low high rate = true := by
    by_contra hc
    rw [Bool.not_eq_true] at hc
    have acc := (fbank_rejects_iff low high rate).mp hc
    have hf := floor_half_le rate
    rcases h with h | ⟨x, rfl, hx, h | h⟩
    · linarith [acc.1]
    · simp only [Option.getD] at acc; linarith [acc.2.1]
    · simp only [Option.getD] at acc; linarith [acc.2.2]
  simp [fbankVertices, this]

/-- **range_rejected**, `GaborFilterBank` -/
theorem gabor_range_rejected (sc : Scale ℝ) (n : ℕ) (high : Option ℝ) (low rate : ℝ) (l2 erb : Bool)
    (h : MustReject low high rate) : gaborBank sc n high low rate l2 erb = .error "ValueError" := by
  have : gabor_ctor_rejects low high rate = true := by
    by_contra hc
    rw [Bool.not_eq_true] at hc
    exact floor_style_rejected h ((gabor_rejects_iff low high rate).mp hc)
  simp [gaborBank, gaborEdges, this, Except.bind]

/-- **range_rejected**, `ComplexGammatoneFilterBank` (a non-positive `order` is rejected too) -/
theorem gammatone_range_rejected (sc : Scale ℝ) (n : ℕ) (high : Option ℝ) (low rate : ℝ) (order : ℤ)
    (mc l2 erb : Bool) (h : MustReject low high rate ∨ order ≤ 0) :
    gammaBank sc n high low rate order mc l2 erb = .error "ValueError" := by
  rcases h with h | h
  · have : gammatone_ctor_rejects low high rate = true := by
      by_contra hc
      rw [Bool.not_eq_true] at hc
      exact floor_style_rejected h ((gammatone_rejects_iff low high rate).mp hc)
    simp [gammaBank, gammaEdges, this, Except.map]
  · have : gammatone_order_rejects order = true := by simp [gammatone_order_rejects, h]
    simp only [gammaBank, gammaEdges, this]
    split_ifs <;> rfl

example : MustReject (-1) none 8000 := Or.inl (by norm_num)
example : MustReject 300 (some 200) 8000 := Or.inr ⟨200, rfl, by norm_num, Or.inl (by norm_num)⟩
example : MustReject 20 (some 4001.5) 8000 := Or.inr ⟨4001.5, rfl, by norm_num, Or.inr (by norm_num)⟩
/-- the two validation styles differ between the Nyquist frequency and 1 Hz above it:
`high_hz = 4000.5` at 8 kHz is accepted by the triangular bank (and clamped) and rejected by the others -/
example : tri_ctor_rejects (20:ℝ) (some 4000.5) 8000 = false ∧ fbank_ctor_rejects (20:ℝ) (some 4000.5) 8000 = true := by
  constructor
  · rw [tri_rejects_iff]; simp only [Option.getD]; norm_num
  · by_contra hc
    rw [Bool.not_eq_true] at hc
    have := ((fbank_rejects_iff 20 (some 4000.5) 8000).mp hc).2.2
    simp only [Option.getD] at this
    norm_num at this

/-! ## 4. layout of the constructed banks -/

/-- a list of Hz values placed at steps `off, off+1, …` of the grid -/
noncomputable def onGrid (sc : Scale ℝ) (lo hi : ℝ) (n m : ℕ) (off : ℝ) : List ℝ :=
  tabulate m fun i => sc.s2h (gridPos sc lo hi n ((i:ℝ) + off))

theorem triVertices_ok {sc : Scale ℝ} {n : ℕ} {high : Option ℝ} {low rate : ℝ} {vs : List ℝ}
    (h : triVertices sc n high low rate = .ok vs) :
    tri_ctor_rejects low high rate = false ∧ vs = onGrid sc low (tri_high high rate) n (n + 2) 0 := by
  unfold triVertices at h
  split_ifs at h with hr
  simp only [Except.ok.injEq] at h
  refine ⟨by simpa using hr, ?_⟩
  rw [← h]; unfold onGrid tri_num_vertices
  congr 1; funext i; rw [tri_vertex_eq]; simp

theorem fbankVertices_ok {n : ℕ} {high : Option ℝ} {low rate : ℝ} {vs : List ℝ}
    (h : fbankVertices n high low rate = .ok vs) :
    fbank_ctor_rejects low high rate = false ∧ vs = onGrid .mel low (fbank_high high rate) n (n + 2) 0 := by
  unfold fbankVertices at h
  split_ifs at h with hr
  simp only [Except.ok.injEq] at h
  refine ⟨by simpa using hr, ?_⟩
  rw [← h]; unfold onGrid fbank_num_vertices
  congr 1; funext i; rw [fbank_vertex_eq]; simp

theorem gaborEdges_ok {sc : Scale ℝ} {n : ℕ} {high : Option ℝ} {low rate : ℝ} {es : List ℝ}
    (h : gaborEdges sc n high low rate = .ok es) :
    gabor_ctor_rejects low high rate = false ∧ es = onGrid sc low (gabor_high high rate) n (n + 1) (1/2) := by
  unfold gaborEdges at h
  split_ifs at h with hr
  simp only [Except.ok.injEq] at h
  refine ⟨by simpa using hr, ?_⟩
  rw [← h]; unfold onGrid gabor_num_edges
  congr 1; funext i; rw [gabor_edge_eq]

theorem gammaEdges_ok {sc : Scale ℝ} {n : ℕ} {high : Option ℝ} {low rate : ℝ} {order : ℤ} {es : List ℝ}
    (h : gammaEdges sc n high low rate order = .ok es) :
    gammatone_ctor_rejects low high rate = false ∧ 0 < order ∧
      es = onGrid sc low (gammatone_high high rate) n (n + 1) (1/2) := by
  unfold gammaEdges at h
  split_ifs at h with hr ho
  simp only [Except.ok.injEq] at h
  refine ⟨by simpa using hr, by simpa [gammatone_order_rejects] using ho, ?_⟩
  rw [← h]; unfold onGrid gammatone_num_edges
  congr 1; funext i; rw [gammatone_edge_eq]

section OnGrid
variable {sc : Scale ℝ} {lo hi : ℝ} (ok : ScaleOK sc lo hi) (hlt : lo < hi) (n m : ℕ) (off : ℝ)

@[simp] theorem onGrid_length : (onGrid sc lo hi n m off).length = m := by simp [onGrid]

theorem onGrid_getElem (i : ℕ) (h : i < (onGrid sc lo hi n m off).length) :
    (onGrid sc lo hi n m off)[i] = sc.s2h (gridPos sc lo hi n ((i:ℝ) + off)) := by
  simp [onGrid, tabulate_getElem]

include ok hlt in
/-- positions on the scale are `scale_low + (i + off) * scale_delta` -/
theorem onGrid_scale (hm : (m:ℝ) - 1 + off ≤ (n:ℝ) + 1) (i : ℕ) (h : i < (onGrid sc lo hi n m off).length) :
    sc.h2s (onGrid sc lo hi n m off)[i] = sc.h2s lo + ((i:ℝ) + off) * gridStep sc lo hi n := by
  rw [onGrid_getElem]
  have hi' : i < m := by simpa using h
  have : ((i:ℝ) + 1) ≤ m := by exact_mod_cast hi'
  exact edges_equally_spaced ok hlt n _ (by linarith)

include ok hlt in
/-- strictly increasing in Hz -/
theorem onGrid_strictMono (hm : (m:ℝ) - 1 + off ≤ (n:ℝ) + 1) (i j : ℕ) (hij : i < j)
    (hj : j < (onGrid sc lo hi n m off).length) :
    (onGrid sc lo hi n m off)[i]'(lt_trans hij hj) < (onGrid sc lo hi n m off)[j] := by
  rw [onGrid_getElem, onGrid_getElem]
  have hj' : j < m := by simpa using hj
  have h1 : ((j:ℝ) + 1) ≤ m := by exact_mod_cast hj'
  have h2 : (i:ℝ) < j := by exact_mod_cast hij
  exact grid_hz_strictMono ok hlt n _ _ (by linarith) (by linarith)

end OnGrid

/-- index form of "strictly increasing" -/
def StrictIncr (l : List ℝ) : Prop := ∀ i j (hij : i < j) (hj : j < l.length), l[i]'(lt_trans hij hj) < l[j]

theorem tri_high_eq (high : Option ℝ) (rate : ℝ) :
    tri_high high rate = min (high.getD (rate / 2)) (rate / 2) := by
  cases high <;> simp [tri_high, Option.getD] <;> norm_num

theorem floor_high_eq (high : Option ℝ) (rate : ℝ) :
    fbank_high high rate = high.getD (⌊rate / 2⌋ : ℝ) ∧ gabor_high high rate = high.getD (⌊rate / 2⌋ : ℝ) ∧
      gammatone_high high rate = high.getD (⌊rate / 2⌋ : ℝ) := by
  refine ⟨?_, ?_, ?_⟩
  · cases high <;> simp [fbank_high, Option.getD]
    norm_num
  · cases high <;> simp [gabor_high, Option.getD]
    norm_num
  · cases high <;> simp [gammatone_high, Option.getD]
    norm_num

/-- an accepted `Fbank` range has `low < high` after the default (the guard now checks it) -/
theorem fbank_accepted_lt {low rate : ℝ} {high : Option ℝ} (h : fbank_ctor_rejects low high rate = false) :
    0 ≤ low ∧ low < fbank_high high rate := by
  have acc := (fbank_rejects_iff low high rate).mp h
  rw [(floor_high_eq high rate).1]
  exact ⟨acc.1, acc.2.1⟩

/-- an accepted triangular range with `low_hz` below the Nyquist frequency has `low < high` after the clamp -/
theorem tri_accepted_lt {low rate : ℝ} {high : Option ℝ} (h : tri_ctor_rejects low high rate = false)
    (hlow : low < rate / 2) : 0 ≤ low ∧ low < tri_high high rate ∧ tri_high high rate ≤ rate / 2 := by
  have := (tri_rejects_iff low high rate).mp h
  rw [tri_high_eq]
  exact ⟨this.1, lt_min this.2.1 hlow, min_le_right _ _⟩

/-- what all layout statements say about a list of Hz values `l` of a constructed bank:
`m` values at steps `off, off+1, …` of a grid of `n+1` steps between `lo` and `hi`. -/
structure Layout (sc : Scale ℝ) (lo hi : ℝ) (n m : ℕ) (off : ℝ) (l : List ℝ) : Prop where
  length : l.length = m
  /-- equally spaced on the scale -/
  spaced : ∀ i (h : i < l.length), sc.h2s l[i] = sc.h2s lo + ((i:ℝ) + off) * gridStep sc lo hi n
  /-- the step is positive -/
  step_pos : 0 < gridStep sc lo hi n
  /-- the grid runs from `low_hz` to `high_hz` -/
  ends : sc.s2h (sc.h2s lo) = lo ∧ sc.s2h (sc.h2s lo + ((n:ℝ) + 1) * gridStep sc lo hi n) = hi
  /-- strictly increasing in Hz -/
  incr : StrictIncr l
  /-- the Hz values themselves -/
  value : ∀ i (h : i < l.length), l[i] = sc.s2h (sc.h2s lo + ((i:ℝ) + off) * gridStep sc lo hi n)

theorem layout_onGrid {sc : Scale ℝ} {lo hi : ℝ} (ok : ScaleOK sc lo hi) (hlt : lo < hi) (n m : ℕ) (off : ℝ)
    (hm : (m:ℝ) - 1 + off ≤ (n:ℝ) + 1) : Layout sc lo hi n m off (onGrid sc lo hi n m off) where
  length := onGrid_length n m off
  spaced := onGrid_scale ok hlt n m off hm
  step_pos := gridStep_pos ok hlt n
  ends := by
    have := vertex_ends ok hlt n
    rw [gridPos_eq, gridPos_eq] at this
    simpa using this
  incr := fun i j hij hj => onGrid_strictMono ok hlt n m off hm i j hij hj
  value := fun i h => by rw [onGrid_getElem, gridPos_eq]

/-- **Layout of `TriangularOverlappingFilterBank`** (any scale, any `num_filts`, any accepted range with
`low_hz` below the Nyquist frequency): `num_filts + 2` vertices at steps `0 … num_filts+1`. -/
theorem tri_layout {sc : Scale ℝ} {n : ℕ} {high : Option ℝ} {low rate : ℝ} {vs : List ℝ}
    (hv : Scale.Valid sc low) (hok : triVertices sc n high low rate = .ok vs) (hlow : low < rate / 2) :
    Layout sc low (tri_high high rate) n (n + 2) 0 vs := by
  obtain ⟨hr, rfl⟩ := triVertices_ok hok
  have hlt := (tri_accepted_lt hr hlow).2.1
  exact layout_onGrid (scaleOK sc low _ hv hlt.le) hlt n (n + 2) 0 (by push_cast; linarith)

/-- **Layout of `Fbank`** (mel scale fixed).  The constructor does not compare `low_hz` with the default
`high_hz = sampling_rate // 2`, hence the hypothesis. -/
theorem fbank_layout {n : ℕ} {high : Option ℝ} {low rate : ℝ} {vs : List ℝ}
    (hok : fbankVertices n high low rate = .ok vs) (hlt : low < fbank_high high rate) :
    0 ≤ low ∧ Layout .mel low (fbank_high high rate) n (n + 2) 0 vs := by
  obtain ⟨hr, rfl⟩ := fbankVertices_ok hok
  have h0 := ((fbank_rejects_iff low high rate).mp hr).1
  have hv : Scale.Valid (.mel : Scale ℝ) low := by show (-700:ℝ) < low; linarith
  exact ⟨h0, layout_onGrid (scaleOK .mel low _ hv hlt.le) hlt n (n + 2) 0 (by push_cast; linarith)⟩

/-- **Band edges of `GaborFilterBank`**: `num_filts + 1` edges at the half steps `1/2, 3/2, …`. -/
theorem gabor_layout {sc : Scale ℝ} {n : ℕ} {high : Option ℝ} {low rate : ℝ} {es : List ℝ}
    (hv : Scale.Valid sc low) (hok : gaborEdges sc n high low rate = .ok es) (hlt : low < gabor_high high rate) :
    0 ≤ low ∧ Layout sc low (gabor_high high rate) n (n + 1) (1/2) es := by
  obtain ⟨hr, rfl⟩ := gaborEdges_ok hok
  have h0 := ((gabor_rejects_iff low high rate).mp hr).1
  exact ⟨h0, layout_onGrid (scaleOK sc low _ hv hlt.le) hlt n (n + 1) (1/2) (by push_cast; linarith)⟩

/-- **Band edges of `ComplexGammatoneFilterBank`** -/
theorem gammatone_layout {sc : Scale ℝ} {n : ℕ} {high : Option ℝ} {low rate : ℝ} {order : ℤ} {es : List ℝ}
    (hv : Scale.Valid sc low) (hok : gammaEdges sc n high low rate order = .ok es)
    (hlt : low < gammatone_high high rate) :
    0 ≤ low ∧ 0 < order ∧ Layout sc low (gammatone_high high rate) n (n + 1) (1/2) es := by
  obtain ⟨hr, ho, rfl⟩ := gammaEdges_ok hok
  have h0 := ((gammatone_rejects_iff low high rate).mp hr).1
  exact ⟨h0, ho, layout_onGrid (scaleOK sc low _ hv hlt.le) hlt n (n + 1) (1/2) (by push_cast; linarith)⟩

/-- the lowest value of a layout is at or above `low_hz`, the highest at or below `high_hz` -/
theorem Layout.bounds {sc : Scale ℝ} {lo hi : ℝ} {n m : ℕ} {off : ℝ} {l : List ℝ} (L : Layout sc lo hi n m off l)
    (ok : ScaleOK sc lo hi) (hoff : 0 ≤ off) (hm : (m:ℝ) - 1 + off ≤ (n:ℝ) + 1) (i : ℕ) (h : i < l.length) :
    lo ≤ l[i] ∧ l[i] ≤ hi := by
  have hs := L.step_pos
  have him : ((i:ℝ) + 1) ≤ m := by rw [L.length] at h; exact_mod_cast h
  have hi0 : (0:ℝ) ≤ i := Nat.cast_nonneg i
  rw [L.value i h]
  constructor
  · rcases eq_or_lt_of_le (show (0:ℝ) ≤ (i:ℝ) + off by linarith) with h0 | h0
    · rw [← h0, zero_mul, add_zero, L.ends.1]
    · have := ok.s2h_lt (sc.h2s lo) (sc.h2s lo + ((i:ℝ) + off) * gridStep sc lo hi n) (by nlinarith) ?_
      · rw [L.ends.1] at this; exact this.le
      · have : ((n:ℝ) + 1) * gridStep sc lo hi n = sc.h2s hi - sc.h2s lo := by
          unfold gridStep; field_simp
        nlinarith
  · have htop : ((n:ℝ) + 1) * gridStep sc lo hi n = sc.h2s hi - sc.h2s lo := by
      unfold gridStep; field_simp
    rcases eq_or_lt_of_le (show (i:ℝ) + off ≤ (n:ℝ) + 1 by linarith) with h0 | h0
    · rw [h0, L.ends.2]
    · have := ok.s2h_lt (sc.h2s lo + ((i:ℝ) + off) * gridStep sc lo hi n)
        (sc.h2s lo + ((n:ℝ) + 1) * gridStep sc lo hi n) (by nlinarith) (by rw [htop]; linarith)
      rw [L.ends.2] at this; exact this.le

/-! ### centres and supports: triangular / Fbank -/

/-- **centers_strictMono** for vertex banks: `centers_hz = vertices[1:-1]` is strictly increasing -/
theorem centers_strictMono_of_vertices {vs : List ℝ} (h : StrictIncr vs) : StrictIncr (centersOf vs) := by
  intro i j hij hj
  rw [centersOf_getElem, centersOf_getElem]
  rw [centersOf_length] at hj
  exact h (i + 1) (j + 1) (by omega) (by omega)

/-- **center_mem_support** for vertex banks: `supports_hz[i] = (v[i], v[i+2])` strictly contains `v[i+1]` -/
theorem center_mem_support_of_vertices {vs : List ℝ} (h : StrictIncr vs) (i : ℕ) (hi : i < (centersOf vs).length) :
    ((supportsOf vs)[i]'(by rw [supportsOf_length]; rw [centersOf_length] at hi; exact hi)).1 < (centersOf vs)[i] ∧
      (centersOf vs)[i] < ((supportsOf vs)[i]'(by rw [supportsOf_length]; rw [centersOf_length] at hi; exact hi)).2 := by
  rw [centersOf_getElem, supportsOf_getElem]
  rw [centersOf_length] at hi
  exact ⟨h i (i + 1) (by omega) (by omega), h (i + 1) (i + 2) (by omega) (by omega)⟩

theorem tri_centers_strictMono {sc : Scale ℝ} {n : ℕ} {high : Option ℝ} {low rate : ℝ} {vs : List ℝ}
    (hv : Scale.Valid sc low) (hok : triVertices sc n high low rate = .ok vs) (hlow : low < rate / 2) :
    StrictIncr (centersOf vs) ∧ (centersOf vs).length = n :=
  ⟨centers_strictMono_of_vertices (tri_layout hv hok hlow).incr, by
    rw [centersOf_length, (tri_layout hv hok hlow).length]; omega⟩

theorem fbank_centers_strictMono {n : ℕ} {high : Option ℝ} {low rate : ℝ} {vs : List ℝ}
    (hok : fbankVertices n high low rate = .ok vs) (hlt : low < fbank_high high rate) :
    StrictIncr (centersOf vs) ∧ (centersOf vs).length = n :=
  ⟨centers_strictMono_of_vertices (fbank_layout hok hlt).2.incr, by
    rw [centersOf_length, (fbank_layout hok hlt).2.length]; omega⟩

theorem tri_center_mem_support {sc : Scale ℝ} {n : ℕ} {high : Option ℝ} {low rate : ℝ} {vs : List ℝ}
    (hv : Scale.Valid sc low) (hok : triVertices sc n high low rate = .ok vs) (hlow : low < rate / 2)
    (i : ℕ) (hi : i < (centersOf vs).length) :
    ((supportsOf vs)[i]'(by rw [supportsOf_length]; rw [centersOf_length] at hi; exact hi)).1 < (centersOf vs)[i] ∧
      (centersOf vs)[i] < ((supportsOf vs)[i]'(by rw [supportsOf_length]; rw [centersOf_length] at hi; exact hi)).2 :=
  center_mem_support_of_vertices (tri_layout hv hok hlow).incr i hi

theorem fbank_center_mem_support {n : ℕ} {high : Option ℝ} {low rate : ℝ} {vs : List ℝ}
    (hok : fbankVertices n high low rate = .ok vs) (hlt : low < fbank_high high rate)
    (i : ℕ) (hi : i < (centersOf vs).length) :
    ((supportsOf vs)[i]'(by rw [supportsOf_length]; rw [centersOf_length] at hi; exact hi)).1 < (centersOf vs)[i] ∧
      (centersOf vs)[i] < ((supportsOf vs)[i]'(by rw [supportsOf_length]; rw [centersOf_length] at hi; exact hi)).2 :=
  center_mem_support_of_vertices (fbank_layout hok hlt).2.incr i hi

/-! ## 5. Gabor / gammatone: centres between their band edges -/

theorem h2a_eq (f rate : ℝ) : hertz_to_angular f rate = f * 2 * Real.pi / rate := by
  simp only [hertz_to_angular, transc_pi]; norm_num

theorem a2h_eq (a rate : ℝ) : angular_to_hertz a rate = a * rate / (2 * Real.pi) := by
  simp only [angular_to_hertz, transc_pi]; norm_num

theorem a2h_h2a_add (c d rate : ℝ) (hr : rate ≠ 0) :
    angular_to_hertz (hertz_to_angular c rate + d) rate = c + d * rate / (2 * Real.pi) := by
  rw [a2h_eq, h2a_eq]
  have := Real.pi_ne_zero
  field_simp

/-- midpoints of consecutive entries of a strictly increasing list lie strictly between them and are
strictly increasing -/
theorem midpoints_between {es : List ℝ} (h : StrictIncr es) (i : ℕ) (hi : i + 1 < es.length) :
    es[i] < (es[i] + es[i + 1]) / 2 ∧ (es[i] + es[i + 1]) / 2 < es[i + 1] := by
  have := h i (i + 1) (by omega) hi
  constructor <;> linarith

theorem incr_le {es : List ℝ} (h : StrictIncr es) (i j : ℕ) (hij : i ≤ j) (hj : j < es.length) :
    es[i]'(lt_of_le_of_lt hij hj) ≤ es[j] := by
  rcases Nat.eq_or_lt_of_le hij with rfl | hlt
  · exact le_rfl
  · exact (h i j hlt hj).le

theorem gaborBank_ok {sc : Scale ℝ} {n : ℕ} {high : Option ℝ} {low rate : ℝ} {l2 erb : Bool}
    {fs : List (GaborFilt ℝ)} (h : gaborBank sc n high low rate l2 erb = .ok fs) :
    ∃ es, gaborEdges sc n high low rate = .ok es ∧
      fs = (pairs es).map fun lr => gaborFilt l2 erb rate lr.1 lr.2 := by
  unfold gaborBank at h
  cases hE : gaborEdges sc n high low rate with
  | error e => rw [hE] at h; simp [Except.bind] at h
  | ok es =>
    rw [hE] at h
    simp only [Except.bind] at h
    split_ifs at h
    simp only [Except.ok.injEq] at h
    exact ⟨es, rfl, h.symm⟩

theorem gammaBank_ok {sc : Scale ℝ} {n : ℕ} {high : Option ℝ} {low rate : ℝ} {order : ℤ} {mc l2 erb : Bool}
    {fs : List (GammaFilt ℝ)} (h : gammaBank sc n high low rate order mc l2 erb = .ok fs) :
    ∃ es, gammaEdges sc n high low rate order = .ok es ∧
      fs = (pairs es).map fun lr => gammaFilt l2 erb mc order.toNat rate lr.1 lr.2 := by
  unfold gammaBank at h
  cases hE : gammaEdges sc n high low rate order with
  | error e => rw [hE] at h; simp [Except.map] at h
  | ok es => rw [hE] at h; simp only [Except.map, Except.ok.injEq] at h; exact ⟨es, rfl, h.symm⟩

theorem gaborFilt_centerHz (l2 erb : Bool) (rate l r : ℝ) :
    (gaborFilt l2 erb rate l r).centerHz = (l + r) / 2 := by
  simp only [gaborFilt, gabor_center_hz, gabor_centers_hz_entry]; norm_num

theorem gammaFilt_centerHz (l2 erb mc : Bool) (order : ℕ) (rate l r : ℝ) :
    (gammaFilt l2 erb mc order rate l r).centerHz = (l + r) / 2 := by
  simp only [gammaFilt, gammatone_center_hz, gammatone_centers_hz_entry]; norm_num

/-- shared by the two edge banks: `n` filters, centre `i` is the midpoint of edges `i`, `i+1`,
strictly between them, and the centres are strictly increasing -/
theorem centers_of_edges {es : List ℝ} {n : ℕ} (hlen : es.length = n + 1) (hincr : StrictIncr es)
    (cs : List ℝ) (hcl : cs.length = n)
    (hc : ∀ i (h : i < cs.length), cs[i] = (es[i]'(by omega) + es[i + 1]'(by omega)) / 2) :
    StrictIncr cs ∧ ∀ i (h : i < cs.length), es[i]'(by omega) < cs[i] ∧ cs[i] < es[i + 1]'(by omega) := by
  have hb : ∀ i (h : i < cs.length), es[i]'(by omega) < cs[i] ∧ cs[i] < es[i + 1]'(by omega) := by
    intro i h
    rw [hc i h]
    exact midpoints_between hincr i (by omega)
  refine ⟨fun i j hij hj => ?_, hb⟩
  have h1 := (hb i (lt_trans hij hj)).2
  have h2 := (hb j hj).1
  have h3 := incr_le hincr (i + 1) j (by omega) (by omega)
  linarith

/-- **centers_strictMono / centres between band edges, `GaborFilterBank`** -/
theorem gabor_centers_strictMono {sc : Scale ℝ} {n : ℕ} {high : Option ℝ} {low rate : ℝ} {l2 erb : Bool}
    {fs : List (GaborFilt ℝ)} (hv : Scale.Valid sc low) (hok : gaborBank sc n high low rate l2 erb = .ok fs)
    (hlt : low < gabor_high high rate) :
    ∃ es, gaborEdges sc n high low rate = .ok es ∧ es.length = n + 1 ∧ fs.length = n ∧
      StrictIncr (fs.map (·.centerHz)) ∧
      ∀ i (h : i < (fs.map (·.centerHz)).length), es[i]! < (fs.map (·.centerHz))[i] ∧
        (fs.map (·.centerHz))[i] < es[i + 1]! := by
  obtain ⟨es, hE, rfl⟩ := gaborBank_ok hok
  have L := (gabor_layout hv hE hlt).2
  have hlen := L.length
  refine ⟨es, hE, hlen, by simp [pairs_length, hlen], ?_⟩
  have hcl : (List.map (·.centerHz) ((pairs es).map fun lr => gaborFilt l2 erb rate lr.1 lr.2)).length = n := by
    simp [pairs_length, hlen]
  have := centers_of_edges hlen L.incr _ hcl (fun i h => by
    simp only [List.getElem_map, pairs_getElem, gaborFilt_centerHz])
  refine ⟨this.1, fun i h => ?_⟩
  have hi : i < n := by rw [hcl] at h; exact h
  have := this.2 i h
  rw [getElem!_pos es i (by omega), getElem!_pos es (i + 1) (by omega)]
  exact this

/-- **centers_strictMono / centres between band edges, `ComplexGammatoneFilterBank`** -/
theorem gammatone_centers_strictMono {sc : Scale ℝ} {n : ℕ} {high : Option ℝ} {low rate : ℝ} {order : ℤ}
    {mc l2 erb : Bool} {fs : List (GammaFilt ℝ)} (hv : Scale.Valid sc low)
    (hok : gammaBank sc n high low rate order mc l2 erb = .ok fs) (hlt : low < gammatone_high high rate) :
    ∃ es, gammaEdges sc n high low rate order = .ok es ∧ es.length = n + 1 ∧ fs.length = n ∧
      StrictIncr (fs.map (·.centerHz)) ∧
      ∀ i (h : i < (fs.map (·.centerHz)).length), es[i]! < (fs.map (·.centerHz))[i] ∧
        (fs.map (·.centerHz))[i] < es[i + 1]! := by
  obtain ⟨es, hE, rfl⟩ := gammaBank_ok hok
  have L := (gammatone_layout hv hE hlt).2.2
  have hlen := L.length
  refine ⟨es, hE, hlen, by simp [pairs_length, hlen], ?_⟩
  have hcl : (List.map (·.centerHz)
      ((pairs es).map fun lr => gammaFilt l2 erb mc order.toNat rate lr.1 lr.2)).length = n := by
    simp [pairs_length, hlen]
  have := centers_of_edges hlen L.incr _ hcl (fun i h => by
    simp only [List.getElem_map, pairs_getElem, gammaFilt_centerHz])
  refine ⟨this.1, fun i h => ?_⟩
  have hi : i < n := by rw [hcl] at h; exact h
  have := this.2 i h
  rw [getElem!_pos es i (by omega), getElem!_pos es (i + 1) (by omega)]
  exact this

/-! ## 6. Gabor: supports, peak, 3 dB crossing, ERB, L2 norm -/

theorem gabor_bandwidth_const_pos (erb : Bool) : 0 < (gabor_bandwidth_const erb : ℝ) := by
  cases erb
  · simp only [gabor_bandwidth_const, Bool.false_eq_true, ↓reduceIte, transc_sqrt, transc_log]
    apply Real.sqrt_pos.mpr
    have : 0 < Real.log 10.0 := Real.log_pos (by norm_num)
    positivity
  · simp only [gabor_bandwidth_const, ↓reduceIte, transc_sqrt, transc_pi]
    have := Real.sqrt_pos.mpr Real.pi_pos
    positivity

/-- half the band width in rad/sample, `hertz_to_angular(center_hz - left_intersect)` -/
theorem gabor_half_width (rate l r : ℝ) :
    hertz_to_angular ((l + r) / 2 - l) rate = (r - l) * Real.pi / rate := by
  rw [h2a_eq]; ring

theorem gaborFilt_std (l2 erb : Bool) (rate l r : ℝ) :
    (gaborFilt l2 erb rate l r).std = gabor_bandwidth_const erb / ((r - l) * Real.pi / rate) := by
  simp only [gaborFilt, gabor_std, gabor_stds_entry, gabor_center_hz]
  rw [← gabor_half_width]; norm_num

theorem gaborFilt_std_pos (l2 erb : Bool) (rate l r : ℝ) (hrate : 0 < rate) (hlr : l < r) :
    0 < (gaborFilt l2 erb rate l r).std := by
  rw [gaborFilt_std]
  have h1 := gabor_bandwidth_const_pos erb
  have h2 : 0 < r - l := by linarith
  exact div_pos h1 (div_pos (mul_pos h2 Real.pi_pos) hrate)

theorem gaborFilt_centerAng (l2 erb : Bool) (rate l r : ℝ) :
    (gaborFilt l2 erb rate l r).centerAng = hertz_to_angular ((l + r) / 2) rate := by
  simp only [gaborFilt, gabor_center_ang, gabor_center_hz]; norm_num

theorem log_eps_neg : Real.log (effective_support_threshold : ℝ) < 0 :=
  Real.log_neg (by simp only [effective_support_threshold]; norm_num)
    (by simp only [effective_support_threshold]; norm_num)

/-- **center_mem_support, `GaborFilterBank`** (default normalisation): the centre lies strictly inside
`supports_hz`, which is symmetric around it. -/
theorem gabor_center_mem_support (erb : Bool) (rate l r : ℝ) (hrate : 0 < rate) (hlr : l < r) :
    let f := gaborFilt false erb rate l r
    (f.suppHz rate).1 < f.centerHz ∧ f.centerHz < (f.suppHz rate).2 ∧
      f.centerHz - (f.suppHz rate).1 = (f.suppHz rate).2 - f.centerHz := by
  intro f
  have hstd : 0 < f.std := gaborFilt_std_pos false erb rate l r hrate hlr
  have hd : 0 < gabor_diff_ang false f.std (gabor_f_support_const false) := by
    simp only [gabor_diff_ang, gabor_f_support_const, Bool.false_eq_true, ↓reduceIte, transc_sqrt, transc_log]
    apply div_pos _ hstd
    apply Real.sqrt_pos.mpr
    have := log_eps_neg
    nlinarith
  have hc : f.centerHz = (l + r) / 2 := gaborFilt_centerHz ..
  have hlo : (f.suppHz rate).1 = (l + r) / 2 + (-gabor_diff_ang false f.std (gabor_f_support_const false)) * rate / (2 * Real.pi) := by
    rw [← a2h_h2a_add _ _ _ hrate.ne']
    simp only [GaborFilt.suppHz, f, gaborFilt, gabor_supp_ang_lo, gabor_center_ang, gabor_center_hz, gabor_stds_entry]
    norm_num; rfl
  have hhi : (f.suppHz rate).2 = (l + r) / 2 + (gabor_diff_ang false f.std (gabor_f_support_const false)) * rate / (2 * Real.pi) := by
    rw [← a2h_h2a_add _ _ _ hrate.ne']
    simp only [GaborFilt.suppHz, f, gaborFilt, gabor_supp_ang_hi, gabor_center_ang, gabor_center_hz, gabor_stds_entry]
    norm_num
  have hq : 0 < gabor_diff_ang false f.std (gabor_f_support_const false) * rate / (2 * Real.pi) := by
    have := Real.pi_pos; positivity
  rw [hlo, hhi, hc]
  refine ⟨?_, ?_, ?_⟩
  · have : -gabor_diff_ang false f.std (gabor_f_support_const false) * rate / (2 * Real.pi)
        = -(gabor_diff_ang false f.std (gabor_f_support_const false) * rate / (2 * Real.pi)) := by ring
    linarith
  · linarith
  · ring

/-- the continuous-frequency response of one filter: the per-bin formula `gabor_fr_term` of
`get_frequency_response` at a real-valued bin (`idx := ω`, `width := 2π`, `period := 0`). -/
noncomputable def gaborH (l2 : Bool) (f : GaborFilt ℝ) (ω : ℝ) : ℝ :=
  gabor_fr_term (gabor_fr_num_term f.std) f.centerAng (gabor_fr_const_term l2 f.std) ω (2 * Real.pi) 0

theorem gabor_fr_term_eq (std ca ct idx width period : ℝ) :
    gabor_fr_term (gabor_fr_num_term std) ca ct idx width period =
      Real.exp (-(std ^ 2) / 2 * (ca - (idx / width + period) * 2 * Real.pi) ^ 2 + ct) := by
  simp only [gabor_fr_term, gabor_fr_num_term, transc_exp, transc_pi]; norm_num; ring_nf

theorem gaborH_eq (l2 : Bool) (f : GaborFilt ℝ) (ω : ℝ) :
    gaborH l2 f ω = Real.exp (-(f.std ^ 2) / 2 * (f.centerAng - ω) ^ 2 + gabor_fr_const_term l2 f.std) := by
  unfold gaborH
  rw [gabor_fr_term_eq]
  have h : (ω / (2 * Real.pi) + 0) * 2 * Real.pi = ω := by
    have := Real.pi_ne_zero
    field_simp
    ring
  rw [h]

/-- every summand of the DFT-bin loop is the continuous response at the bin's (periodised) frequency -/
theorem gabor_bin_term (l2 : Bool) (f : GaborFilt ℝ) (idx width period : ℝ) :
    gabor_fr_term (gabor_fr_num_term f.std) f.centerAng (gabor_fr_const_term l2 f.std) idx width period =
      gaborH l2 f ((idx / width + period) * 2 * Real.pi) := by
  rw [gaborH_eq, gabor_fr_term_eq]

/-- `get_frequency_response` is the sum of the periodic images over the period range of the code -/
theorem gabor_response_bins (l2 : Bool) (f : GaborFilt ℝ) (width : ℕ) (half : Bool) (k : ℕ)
    (hk : k < dftSize width half) :
    (gaborResponse l2 f width half)[k]? = some
      (sumRange 0 (· + ·) (gabor_fr_period_lo f.suppAngLo) (gabor_fr_period_hi f.suppAngHi)
        fun p => gaborH l2 f (((k:ℝ) / (width:ℝ) + (p:ℝ)) * 2 * Real.pi)) := by
  unfold gaborResponse
  rw [tabulate_getElem?, if_pos hk]
  simp only [gabor_bin_term]
  rw [show (0.0:ℝ) = 0 by norm_num]

/-- **gabor_peak**: without L2 scaling the response is 1 at the centre and at most 1 elsewhere -/
theorem gabor_peak (f : GaborFilt ℝ) (ω : ℝ) :
    gaborH false f f.centerAng = 1 ∧ gaborH false f ω ≤ 1 := by
  simp only [gaborH_eq, gabor_fr_const_term, Bool.false_eq_true, ↓reduceIte]
  constructor
  · norm_num
  · rw [← Real.exp_zero]
    apply Real.exp_le_exp.mpr
    have : 0 ≤ f.std ^ 2 / 2 * (f.centerAng - ω) ^ 2 := by positivity
    norm_num; nlinarith

/-- **gabor_3dB** (`erb=False`): at both band edges the power gain is `10^(-3/10)`, i.e. exactly −3 dB;
neighbouring filters share an edge, so they cross there. -/
theorem gabor_3dB (rate l r : ℝ) (hrate : 0 < rate) (hlr : l < r) :
    let f := gaborFilt false false rate l r
    (gaborH false f (hertz_to_angular l rate)) ^ 2 = (10:ℝ) ^ (-(3/10) : ℝ) ∧
      (gaborH false f (hertz_to_angular r rate)) ^ 2 = (10:ℝ) ^ (-(3/10) : ℝ) := by
  intro f
  have hstd : f.std = gabor_bandwidth_const false / ((r - l) * Real.pi / rate) := gaborFilt_std ..
  have hca : f.centerAng = hertz_to_angular ((l + r) / 2) rate := gaborFilt_centerAng ..
  have hbc : (gabor_bandwidth_const false : ℝ) ^ 2 = 3 / 10 * Real.log 10 := by
    simp only [gabor_bandwidth_const, Bool.false_eq_true, ↓reduceIte, transc_sqrt, transc_log]
    rw [Real.sq_sqrt]
    · norm_num
    · have : 0 < Real.log 10.0 := Real.log_pos (by norm_num)
      positivity
  have hd : (r - l) * Real.pi / rate ≠ 0 := by
    have := Real.pi_pos; have : 0 < r - l := by linarith
    positivity
  have key : ∀ e, (e = l ∨ e = r) → (gaborH false f (hertz_to_angular e rate)) ^ 2 = (10:ℝ) ^ (-(3/10) : ℝ) := by
    intro e he
    rw [gaborH_eq, ← Real.exp_nat_mul, Real.rpow_def_of_pos (by norm_num : (0:ℝ) < 10)]
    congr 1
    simp only [gabor_fr_const_term, Bool.false_eq_true, ↓reduceIte]
    have hsq : f.std ^ 2 * (f.centerAng - hertz_to_angular e rate) ^ 2 = 3 / 10 * Real.log 10 := by
      rw [hstd, hca, h2a_eq, h2a_eq, div_pow, hbc]
      have hrl : r - l ≠ 0 := by linarith
      have hpi := Real.pi_ne_zero
      have hr := hrate.ne'
      rcases he with rfl | rfl
      · field_simp; ring
      · field_simp; ring
    push_cast
    nlinarith
  exact ⟨key l (Or.inl rfl), key r (Or.inr rfl)⟩

/-- **gabor_erb** (`erb=True`): the equivalent rectangular bandwidth `∫|H|² / max|H|²` (rad/sample) equals
the angular distance between the filter's two band edges. -/
theorem gabor_erb (rate l r : ℝ) (hrate : 0 < rate) (hlr : l < r) :
    let f := gaborFilt false true rate l r
    (∫ ω : ℝ, (gaborH false f ω) ^ 2) / (gaborH false f f.centerAng) ^ 2 = hertz_to_angular (r - l) rate := by
  intro f
  have hstd : f.std = gabor_bandwidth_const true / ((r - l) * Real.pi / rate) := gaborFilt_std ..
  have hpos : 0 < f.std := gaborFilt_std_pos false true rate l r hrate hlr
  rw [(gabor_peak f 0).1, one_pow, div_one]
  have h1 : ∀ ω, (gaborH false f ω) ^ 2 = Real.exp (-(f.std ^ 2) * (ω - f.centerAng) ^ 2) := by
    intro ω
    rw [gaborH_eq, ← Real.exp_nat_mul]
    simp only [gabor_fr_const_term, Bool.false_eq_true, ↓reduceIte]
    congr 1; push_cast; norm_num; ring
  simp_rw [h1]
  rw [MeasureTheory.integral_sub_right_eq_self (fun x => Real.exp (-(f.std ^ 2) * x ^ 2)) f.centerAng,
    integral_gaussian]
  have hbc : (gabor_bandwidth_const true : ℝ) = Real.sqrt Real.pi / 2 := by
    simp only [gabor_bandwidth_const, ↓reduceIte, transc_sqrt, transc_pi]; norm_num
  rw [Real.sqrt_div Real.pi_pos.le, Real.sqrt_sq hpos.le, hstd, hbc, h2a_eq]
  have h2 : Real.sqrt Real.pi ≠ 0 := (Real.sqrt_pos.mpr Real.pi_pos).ne'
  have h3 : r - l ≠ 0 := by linarith
  have := Real.pi_ne_zero
  field_simp

/-- squared modulus of a complex number given as a pair -/
def nsq (z : ℝ × ℝ) : ℝ := z.1 ^ 2 + z.2 ^ 2

theorem nsq_cexp (z : ℝ × ℝ) : nsq (cexp z) = Real.exp (2 * z.1) := by
  simp only [nsq, cexp, transc_exp, transc_cos, transc_sin]
  have := Real.cos_sq_add_sin_sq z.2
  have : Real.exp (2 * z.1) = Real.exp z.1 ^ 2 := by rw [← Real.exp_nat_mul]; norm_num
  rw [this]; nlinarith [Real.cos_sq_add_sin_sq z.2]

/-- **gabor_l2** (`scale_l2_norm=True`): the (continuous-time) impulse response has unit L2 norm -/
theorem gabor_l2 (std ca : ℝ) (hstd : 0 < std) :
    ∫ t : ℝ, nsq (gabor_ir_val t (gabor_ir_denom_term std) (gabor_ir_const_term true std) ca) = 1 := by
  have h1 : ∀ t : ℝ, nsq (gabor_ir_val t (gabor_ir_denom_term std) (gabor_ir_const_term true std) ca) =
      Real.exp (-(1 / std ^ 2) * t ^ 2) * (1 / (std * Real.sqrt Real.pi)) := by
    intro t
    simp only [gabor_ir_val, nsq_cexp, cadd, cofReal, cscale, cI, gabor_ir_denom_term, gabor_ir_const_term,
      ↓reduceIte, transc_log, transc_pi]
    have hsp : 0 < Real.sqrt Real.pi := Real.sqrt_pos.mpr Real.pi_pos
    have e1 : (1:ℝ) / (std * Real.sqrt Real.pi) = Real.exp (-(Real.log std) - Real.log Real.pi / 2) := by
      rw [Real.exp_sub, Real.exp_neg, Real.exp_log hstd, ← Real.log_sqrt Real.pi_pos.le, Real.exp_log hsp]
      field_simp
    rw [e1, ← Real.exp_add]
    congr 1
    norm_num
    field_simp
    ring
  simp_rw [h1]
  rw [MeasureTheory.integral_mul_const, integral_gaussian]
  have hsp : 0 < Real.sqrt Real.pi := Real.sqrt_pos.mpr Real.pi_pos
  rw [show Real.pi / (1 / std ^ 2) = Real.pi * std ^ 2 by field_simp,
    Real.sqrt_mul Real.pi_pos.le, Real.sqrt_sq hstd.le]
  field_simp

example : (0:ℝ) < 8000 ∧ (300:ℝ) < 500 := by norm_num

/-! ## 7. complex gammatone: peak, 3 dB crossing, L2 constant, ERB constant -/

theorem nsq_cmul (a b : ℝ × ℝ) : nsq (cmul a b) = nsq a * nsq b := by
  simp only [nsq, cmul]; ring

theorem nsq_cpow (a : ℝ × ℝ) (n : ℕ) : nsq (cpow a n) = nsq a ^ n := by
  induction n with
  | zero => simp only [cpow, nsq]; norm_num
  | succ n ih => rw [cpow, nsq_cmul, ih, pow_succ]

theorem nsq_cscale (r : ℝ) (a : ℝ × ℝ) : nsq (cscale r a) = r ^ 2 * nsq a := by
  simp only [nsq, cscale]; ring

theorem nsq_cdiv (a b : ℝ × ℝ) (hb : nsq b ≠ 0) : nsq (cdiv a b) = nsq a / nsq b := by
  simp only [nsq, cdiv] at hb ⊢
  have hb' : b.1 * b.1 + b.2 * b.2 ≠ 0 := by rw [← sq, ← sq]; exact hb
  field_simp
  ring

/-- **|H(ω)|²** of one gammatone image: `(c (n-1)!)² / (α² + (ω-ξ)²)^n` (the time shift only turns the phase) -/
theorem gammatone_H_nsq (n : ℕ) (alpha c xi offset omega : ℝ) (ha : 0 < alpha) :
    nsq (gammatone_H n alpha c xi offset omega) =
      (c * ((n - 1).factorial : ℝ)) ^ 2 / (alpha ^ 2 + (omega - xi) ^ 2) ^ n := by
  have hden : nsq (cadd (cofReal alpha) (cscale (omega - xi) cI)) = alpha ^ 2 + (omega - xi) ^ 2 := by
    simp only [nsq, cadd, cofReal, cscale, cI]; norm_num
  have hpos : 0 < alpha ^ 2 + (omega - xi) ^ 2 := by positivity
  simp only [gammatone_H]
  rw [nsq_cdiv _ _ (by rw [nsq_cpow, hden]; positivity), nsq_cpow, hden, nsq_cscale, nsq_cscale, nsq_cexp,
    fact_eq]
  have : (cscale offset (cscale omega (cneg (cI : ℝ × ℝ)))).1 = 0 := by
    simp only [cscale, cneg, cI]; norm_num
  rw [this]; norm_num; ring

/-- `alpha = exp(alpha_const) * Δω` and `c = exp(log_c)` for a filter between band edges `l < r` -/
theorem gammaFilt_alpha (l2 erb mc : Bool) (n : ℕ) (rate l r : ℝ) (hrate : 0 < rate) (hlr : l < r) :
    (gammaFilt l2 erb mc n rate l r).alpha =
      Real.exp (gammatone_alpha_const erb n) * hertz_to_angular (r - l) rate ∧
    0 < hertz_to_angular (r - l) rate ∧ 0 < (gammaFilt l2 erb mc n rate l r).alpha := by
  have hd : 0 < hertz_to_angular (r - l) rate := by
    rw [h2a_eq]; have := Real.pi_pos; have : 0 < r - l := by linarith
    positivity
  have h1 : (gammaFilt l2 erb mc n rate l r).alpha =
      Real.exp (gammatone_alpha_const erb n) * hertz_to_angular (r - l) rate := by
    simp only [gammaFilt, gammatone_alphas_entry, gammatone_alpha, gammatone_log_alpha, transc_exp, transc_log]
    rw [Real.exp_add, Real.exp_log hd]
  refine ⟨h1, hd, ?_⟩
  rw [h1]; positivity

theorem gammaFilt_xi (l2 erb mc : Bool) (n : ℕ) (rate l r : ℝ) :
    (gammaFilt l2 erb mc n rate l r).xi = hertz_to_angular ((l + r) / 2) rate := by
  simp only [gammaFilt, gammatone_xi, gammatone_center_hz]; norm_num

theorem fact_pos_real (n : ℕ) : (0:ℝ) < ((n.factorial : ℕ) : ℝ) := by exact_mod_cast n.factorial_pos

/-- **gammatone_peak** (no L2 scaling): `c (n-1)! / αⁿ = 1`, hence `|H(ξ)| = 1` and `|H(ω)| ≤ 1` everywhere -/
theorem gammatone_peak (erb mc : Bool) (n : ℕ) (rate l r : ℝ) (hrate : 0 < rate) (hlr : l < r) :
    let f := gammaFilt false erb mc n rate l r
    f.c * ((n - 1).factorial : ℝ) / f.alpha ^ n = 1 ∧
      nsq (gammatone_H n f.alpha f.c f.xi f.offset f.xi) = 1 ∧
      ∀ ω, nsq (gammatone_H n f.alpha f.c f.xi f.offset ω) ≤ 1 := by
  intro f
  obtain ⟨-, -, ha⟩ := gammaFilt_alpha false erb mc n rate l r hrate hlr
  have hfp := fact_pos_real (n - 1)
  have hc : f.c * ((n - 1).factorial : ℝ) = f.alpha ^ n := by
    simp only [f, gammaFilt, gammatone_cs_entry, gammatone_c, gammatone_log_c, gammatone_alphas_entry,
      gammatone_alpha, Bool.false_eq_true, ↓reduceIte, transc_exp, transc_log, fact_eq]
    rw [Real.exp_sub, Real.exp_log hfp, ← Real.exp_nat_mul]
    field_simp
  have han : 0 < f.alpha ^ n := pow_pos ha n
  refine ⟨by rw [hc]; exact div_self han.ne', ?_, fun ω => ?_⟩
  · rw [gammatone_H_nsq _ _ _ _ _ _ ha, hc]
    simp only [sub_self, ne_eq, OfNat.ofNat_ne_zero, not_false_eq_true, zero_pow, add_zero]
    rw [← pow_mul, ← pow_mul, mul_comm]; exact div_self (pow_pos ha _).ne'
  · rw [gammatone_H_nsq _ _ _ _ _ _ ha, hc, div_le_one (by positivity), ← pow_mul, mul_comm, pow_mul]
    apply pow_le_pow_left₀ (by positivity)
    nlinarith [sq_nonneg (ω - f.xi)]

/-- **center_mem_support, `ComplexGammatoneFilterBank`** (default normalisation): the centre lies strictly
inside `supports_hz`, which is symmetric around it. -/
theorem gammatone_center_mem_support (erb mc : Bool) (n : ℕ) (hn : 1 ≤ n) (rate l r : ℝ) (hrate : 0 < rate)
    (_hlr : l < r) :
    let f := gammaFilt false erb mc n rate l r
    (f.suppHz rate).1 < f.centerHz ∧ f.centerHz < (f.suppHz rate).2 ∧
      f.centerHz - (f.suppHz rate).1 = (f.suppHz rate).2 - f.centerHz := by
  intro f
  have hn' : (0:ℝ) < n := by exact_mod_cast hn
  set la := gammatone_log_alpha (gammatone_alpha_const erb n) l r rate with hla
  set d := gammatone_diff_ang n (gammatone_log_c false n la) la with hd
  have hdpos : 0 < d := by
    simp only [hd, gammatone_diff_ang, gammatone_log_c, Bool.false_eq_true, ↓reduceIte, transc_sqrt, transc_exp,
      transc_log]
    apply Real.sqrt_pos.mpr
    rw [sub_pos]
    apply Real.exp_lt_exp.mpr
    have he := log_eps_neg
    have : (2.0:ℝ) / n * ((n:ℝ) * la - Real.log ((fact (n - 1) : ℕ) : ℝ) + Real.log ((fact (n - 1) : ℕ) : ℝ)
        - Real.log effective_support_threshold) = 2 * la - 2 / n * Real.log effective_support_threshold := by
      norm_num; field_simp
    rw [this]
    have : 0 < -(2 / (n:ℝ) * Real.log effective_support_threshold) := by
      have : 0 < 2 / (n:ℝ) := by positivity
      nlinarith
    norm_num; linarith
  have hc : f.centerHz = (l + r) / 2 := gammaFilt_centerHz ..
  have hlo : (f.suppHz rate).1 = (l + r) / 2 + (-d) * rate / (2 * Real.pi) := by
    rw [← a2h_h2a_add _ _ _ hrate.ne']
    simp only [GammaFilt.suppHz, f, gammaFilt, gammatone_supp_ang_lo, gammatone_xi, gammatone_center_hz]
    norm_num; rfl
  have hhi : (f.suppHz rate).2 = (l + r) / 2 + d * rate / (2 * Real.pi) := by
    rw [← a2h_h2a_add _ _ _ hrate.ne']
    simp only [GammaFilt.suppHz, f, gammaFilt, gammatone_supp_ang_hi, gammatone_xi, gammatone_center_hz]
    norm_num; rfl
  have hq : 0 < d * rate / (2 * Real.pi) := by have := Real.pi_pos; positivity
  rw [hlo, hhi, hc]
  refine ⟨?_, ?_, ?_⟩
  · have : -d * rate / (2 * Real.pi) = -(d * rate / (2 * Real.pi)) := by ring
    linarith
  · linarith
  · ring

/-- `exp(alpha_const)` for `erb=False` -/
theorem gammatone_alpha_const_3dB (n : ℕ) (hn : 1 ≤ n) :
    0 < (4 * (2:ℝ) ^ ((1:ℝ) / n) - 4) ∧
    Real.exp (gammatone_alpha_const false n) ^ 2 = 1 / (4 * (2:ℝ) ^ ((1:ℝ) / n) - 4) := by
  have hn' : (0:ℝ) < n := by exact_mod_cast hn
  have h1 : (1:ℝ) < (2:ℝ) ^ ((1:ℝ) / n) := Real.one_lt_rpow (by norm_num) (by positivity)
  have hpos : 0 < (4 * (2:ℝ) ^ ((1:ℝ) / n) - 4) := by linarith
  refine ⟨hpos, ?_⟩
  simp only [gammatone_alpha_const, Bool.false_eq_true, ↓reduceIte, transc_log, transc_pow2]
  rw [← Real.exp_nat_mul]
  have : ((2:ℕ):ℝ) * (-0.5 * Real.log (4.0 * (2:ℝ) ^ ((1.0:ℝ) / n) - 4.0)) = -Real.log (4 * (2:ℝ) ^ ((1:ℝ) / n) - 4) := by
    norm_num; ring
  rw [this, Real.exp_neg, Real.exp_log hpos]
  exact (one_div _).symm

/-- **gammatone_3dB** (`erb=False`): the power gain at both band edges is exactly 1/2 of the peak -/
theorem gammatone_3dB (mc : Bool) (n : ℕ) (hn : 1 ≤ n) (rate l r : ℝ) (hrate : 0 < rate) (hlr : l < r) :
    let f := gammaFilt false false mc n rate l r
    nsq (gammatone_H n f.alpha f.c f.xi f.offset (hertz_to_angular l rate)) = 1 / 2 ∧
      nsq (gammatone_H n f.alpha f.c f.xi f.offset (hertz_to_angular r rate)) = 1 / 2 := by
  intro f
  obtain ⟨hal, hd, ha⟩ := gammaFilt_alpha false false mc n rate l r hrate hlr
  obtain ⟨hpk, -, -⟩ := gammatone_peak false mc n rate l r hrate hlr
  obtain ⟨hpos, hexp⟩ := gammatone_alpha_const_3dB n hn
  have hn' : (0:ℝ) < n := by exact_mod_cast hn
  have hxi : f.xi = hertz_to_angular ((l + r) / 2) rate := gammaFilt_xi ..
  have hc : f.c * ((n - 1).factorial : ℝ) = f.alpha ^ n := by
    have han : f.alpha ^ n ≠ 0 := (pow_pos ha n).ne'
    have := hpk
    field_simp at this
    linarith
  -- (α² + (Δω/2)²) = α² · 2^(1/n)
  have hkey : ∀ e, (e = l ∨ e = r) → f.alpha ^ 2 + (hertz_to_angular e rate - f.xi) ^ 2 =
      f.alpha ^ 2 * (2:ℝ) ^ ((1:ℝ) / n) := by
    intro e he
    have hsq : (hertz_to_angular e rate - f.xi) ^ 2 = (hertz_to_angular (r - l) rate) ^ 2 / 4 := by
      rw [hxi, h2a_eq, h2a_eq, h2a_eq]
      rcases he with rfl | rfl <;> (field_simp; ring)
    have ha2 : f.alpha ^ 2 = (hertz_to_angular (r - l) rate) ^ 2 / (4 * (2:ℝ) ^ ((1:ℝ) / n) - 4) := by
      show (gammaFilt false false mc n rate l r).alpha ^ 2 = _
      rw [hal, mul_pow, hexp]; ring
    rw [hsq, ha2]
    have hx : (4 * (2:ℝ) ^ ((1:ℝ) / n) - 4) ≠ 0 := hpos.ne'
    have hx1 : (2:ℝ) ^ ((1:ℝ) / n) - 1 ≠ 0 := by
      have : 0 < (2:ℝ) ^ ((1:ℝ) / n) - 1 := by linarith
      exact this.ne'
    generalize (2:ℝ) ^ ((1:ℝ) / n) = x at hx hx1 ⊢
    field_simp
    ring
  have h2n : ((2:ℝ) ^ ((1:ℝ) / n)) ^ n = 2 := by
    rw [← Real.rpow_natCast, ← Real.rpow_mul (by norm_num)]
    rw [one_div, inv_mul_cancel₀ hn'.ne', Real.rpow_one]
  have key : ∀ e, (e = l ∨ e = r) →
      nsq (gammatone_H n f.alpha f.c f.xi f.offset (hertz_to_angular e rate)) = 1 / 2 := by
    intro e he
    rw [gammatone_H_nsq _ _ _ _ _ _ ha, hc, hkey e he, mul_pow, h2n, ← pow_mul, ← pow_mul, mul_comm n 2]
    have : (f.alpha ^ (2 * n)) ≠ 0 := (pow_pos ha _).ne'
    field_simp
  exact ⟨key l (Or.inl rfl), key r (Or.inr rfl)⟩

/-- **gammatone_l2** (`scale_l2_norm=True`): `c² (2n-2)! / (2α)^(2n-1) = 1`, which is
`∫₀^∞ |c t^(n-1) e^(-αt)|² dt = 1` by the Gamma integral (`gammatone_l2_integral`). -/
theorem gammatone_l2 (erb mc : Bool) (n : ℕ) (hn : 1 ≤ n) (rate l r : ℝ) (hrate : 0 < rate) (hlr : l < r) :
    let f := gammaFilt true erb mc n rate l r
    f.c ^ 2 * ((2 * n - 2).factorial : ℝ) / (2 * f.alpha) ^ (2 * n - 1) = 1 := by
  intro f
  obtain ⟨-, -, ha⟩ := gammaFilt_alpha true erb mc n rate l r hrate hlr
  have hfp := fact_pos_real (2 * n - 2)
  -- log_alpha is the log of alpha
  obtain ⟨la, hla, hc⟩ : ∃ la, f.alpha = Real.exp la ∧
      f.c = Real.exp ((n:ℝ) * (la + Real.log 2) - 0.5 * ((Real.log 2 + la) + Real.log ((2 * n - 2).factorial : ℝ))) := by
    refine ⟨gammatone_log_alpha (gammatone_alpha_const erb n) l r rate, rfl, ?_⟩
    simp only [f, gammaFilt, gammatone_cs_entry, gammatone_c, gammatone_log_c, ↓reduceIte, transc_exp,
      transc_log, fact_eq]
    norm_num
  have h2a : 2 * f.alpha = Real.exp (la + Real.log 2) := by
    rw [Real.exp_add, Real.exp_log (by norm_num), hla]; ring
  rw [h2a, hc, ← Real.exp_nat_mul, ← Real.exp_nat_mul]
  have hsplit : ((2:ℕ):ℝ) * ((n:ℝ) * (la + Real.log 2) - 0.5 * ((Real.log 2 + la) + Real.log ((2 * n - 2).factorial : ℝ)))
      = ((2 * n - 1 : ℕ) : ℝ) * (la + Real.log 2) - Real.log ((2 * n - 2).factorial : ℝ) := by
    have : ((2 * n - 1 : ℕ) : ℝ) = 2 * (n:ℝ) - 1 := by
      rw [Nat.cast_sub (by omega)]; push_cast; ring
    rw [this]; push_cast; ring
  rw [hsplit, Real.exp_sub, Real.exp_log hfp]
  have : Real.exp (((2 * n - 1 : ℕ) : ℝ) * (la + Real.log 2)) ≠ 0 := (Real.exp_pos _).ne'
  field_simp

/-- **gammatone_erb_const** (`erb=True`): `α = Δω · 2^(2n-2) ((n-1)!)² / (π (2n-2)!)` -/
theorem gammatone_erb_const (n : ℕ) (hn : 1 ≤ n) :
    Real.exp (gammatone_alpha_const true n) =
      (2:ℝ) ^ (2 * n - 2) * ((n - 1).factorial : ℝ) ^ 2 / (Real.pi * ((2 * n - 2).factorial : ℝ)) := by
  have h1 := fact_pos_real (n - 1)
  have h2 := fact_pos_real (2 * n - 2)
  simp only [gammatone_alpha_const, ↓reduceIte, transc_log, transc_pi, fact_eq]
  have e2 : Real.log 2.0 * (2.0 * (n:ℝ) - 1.0) = ((2 * n - 1 : ℕ) : ℝ) * Real.log 2 := by
    rw [Nat.cast_sub (by omega)]; push_cast; norm_num; ring
  rw [e2, Real.exp_sub, Real.exp_sub, Real.exp_add, Real.exp_nat_mul, Real.exp_log (by norm_num),
    Real.exp_log h2, Real.exp_log (by positivity)]
  have e3 : Real.exp (2.0 * Real.log ((n - 1).factorial : ℝ)) = ((n - 1).factorial : ℝ) ^ 2 := by
    rw [show (2.0:ℝ) = ((2:ℕ):ℝ) by norm_num, Real.exp_nat_mul, Real.exp_log h1]
  rw [e3]
  have e4 : (2:ℝ) ^ (2 * n - 1) = 2 * 2 ^ (2 * n - 2) := by
    rw [show 2 * n - 1 = (2 * n - 2) + 1 by omega, pow_succ]; ring
  rw [e4]
  have := Real.pi_pos
  field_simp
  norm_num

/-- **|h(t)|²** of the gammatone impulse response after its onset: `c² s^(2n-2) e^(-2αs)`, `s = t - offset` -/
theorem gammatone_h_nsq (n : ℕ) (hn : 1 ≤ n) (alpha c xi offset s : ℝ) (hc : 0 < c) (hs : 0 < s) :
    nsq (gammatone_h n alpha c xi offset (s + offset)) =
      c ^ 2 * (s ^ (((2 * n - 1 : ℕ) : ℝ) - 1) * Real.exp (-(2 * alpha * s))) := by
  simp only [gammatone_h, nsq_cexp, cadd, cofReal, cscale, cI, transc_log, add_sub_cancel_right]
  have e1 : (((2 * n - 1 : ℕ) : ℝ) - 1) = ((2 * n - 2 : ℕ) : ℝ) := by
    rw [Nat.cast_sub (by omega), Nat.cast_sub (by omega)]; push_cast; ring
  rw [e1, Real.rpow_natCast]
  have e2 : (2:ℝ) * (Real.log c + ((n:ℝ) - 1.0) * Real.log s + s * (-alpha + xi * 0.0)) =
      ((2:ℕ):ℝ) * Real.log c + ((2 * n - 2 : ℕ) : ℝ) * Real.log s + -(2 * alpha * s) := by
    rw [Nat.cast_sub (by omega)]; push_cast; norm_num; ring
  rw [e2, Real.exp_add, Real.exp_add, Real.exp_nat_mul, Real.exp_nat_mul, Real.exp_log hc, Real.exp_log hs]
  ring

/-- **gammatone_l2_integral**: with `scale_l2_norm=True` the (continuous-time) impulse response has unit L2
norm, `∫₀^∞ |h(s + offset)|² ds = c² (2n-2)! / (2α)^(2n-1) = 1` (Gamma integral + `gammatone_l2`). -/
theorem gammatone_l2_integral (erb mc : Bool) (n : ℕ) (hn : 1 ≤ n) (rate l r : ℝ) (hrate : 0 < rate)
    (hlr : l < r) :
    let f := gammaFilt true erb mc n rate l r
    ∫ s in Ioi (0:ℝ), nsq (gammatone_h n f.alpha f.c f.xi f.offset (s + f.offset)) = 1 := by
  intro f
  obtain ⟨-, -, ha⟩ := gammaFilt_alpha true erb mc n rate l r hrate hlr
  have hcpos : 0 < f.c := by
    simp only [f, gammaFilt, gammatone_cs_entry, gammatone_c, transc_exp]; exact Real.exp_pos _
  have hl2 := gammatone_l2 erb mc n hn rate l r hrate hlr
  rw [MeasureTheory.setIntegral_congr_fun measurableSet_Ioi
    (fun s hs => gammatone_h_nsq n hn f.alpha f.c f.xi f.offset s hcpos hs)]
  rw [MeasureTheory.integral_const_mul]
  have h2a : 0 < 2 * f.alpha := by positivity
  have hnn : (0:ℝ) < ((2 * n - 1 : ℕ) : ℝ) := by exact_mod_cast (by omega : 0 < 2 * n - 1)
  have key := Real.integral_rpow_mul_exp_neg_mul_Ioi hnn h2a
  simp only [mul_assoc] at key ⊢
  rw [key]
  have hG : Real.Gamma (((2 * n - 1 : ℕ) : ℝ)) = ((2 * n - 2).factorial : ℝ) := by
    have : ((2 * n - 1 : ℕ) : ℝ) = ((2 * n - 2 : ℕ) : ℝ) + 1 := by
      rw [show 2 * n - 1 = (2 * n - 2) + 1 by omega]; push_cast; ring
    rw [this, Real.Gamma_nat_eq_factorial]
  rw [hG, Real.rpow_natCast, one_div, inv_pow]
  have := hl2
  simp only [f] at this ⊢
  rw [div_eq_mul_inv] at this
  linarith [this]

/-- **gammatone_erb_partial** (`erb=True`).  ASSUMING the integral identity
`∫ (1+v²)^(-n) dv = π (2n-2)! / (2^(2n-2) ((n-1)!)²)` (hypothesis `hI`; not available in Mathlib), the
equivalent rectangular bandwidth `∫|H|² / |H(ξ)|²` equals the angular distance between the band edges.
Everything else — `|H|²` from the generated `_H`, the shift / scaling of the integral, and the generated
constant `alpha_const` (`gammatone_erb_const`) — is proved.
Full statement (not proved): the same without `hI`. -/
theorem gammatone_erb_partial (mc : Bool) (n : ℕ) (hn : 1 ≤ n) (rate l r : ℝ) (hrate : 0 < rate) (hlr : l < r)
    (hI : ∫ v : ℝ, ((1 + v ^ 2) ^ n)⁻¹ =
      Real.pi * ((2 * n - 2).factorial : ℝ) / ((2:ℝ) ^ (2 * n - 2) * ((n - 1).factorial : ℝ) ^ 2)) :
    let f := gammaFilt false true mc n rate l r
    (∫ ω : ℝ, nsq (gammatone_H n f.alpha f.c f.xi f.offset ω)) /
      nsq (gammatone_H n f.alpha f.c f.xi f.offset f.xi) = hertz_to_angular (r - l) rate := by
  intro f
  obtain ⟨hal, hd, ha⟩ := gammaFilt_alpha false true mc n rate l r hrate hlr
  obtain ⟨hpk, hpk1, -⟩ := gammatone_peak true mc n rate l r hrate hlr
  have han : f.alpha ^ n ≠ 0 := (pow_pos ha n).ne'
  have hc : f.c * ((n - 1).factorial : ℝ) = f.alpha ^ n := by
    have := hpk
    field_simp at this
    linarith
  rw [hpk1, div_one]
  have hane : f.alpha ≠ 0 := ha.ne'
  have h1 : ∀ ω : ℝ, nsq (gammatone_H n f.alpha f.c f.xi f.offset ω) =
      ((1 + ((ω - f.xi) / f.alpha) ^ 2) ^ n)⁻¹ := by
    intro ω
    rw [gammatone_H_nsq _ _ _ _ _ _ ha, hc]
    have : f.alpha ^ 2 + (ω - f.xi) ^ 2 = f.alpha ^ 2 * (1 + ((ω - f.xi) / f.alpha) ^ 2) := by
      field_simp
    rw [this, mul_pow, ← pow_mul, ← pow_mul, mul_comm n 2]
    have : f.alpha ^ (2 * n) ≠ 0 := (pow_pos ha _).ne'
    field_simp
  simp_rw [h1]
  have h2 : ∫ ω : ℝ, ((1 + ((ω - f.xi) / f.alpha) ^ 2) ^ n)⁻¹ = ∫ x : ℝ, ((1 + (x / f.alpha) ^ 2) ^ n)⁻¹ :=
    MeasureTheory.integral_sub_right_eq_self (fun x : ℝ => ((1 + (x / f.alpha) ^ 2) ^ n)⁻¹) f.xi
  have h3 : ∫ x : ℝ, ((1 + (x / f.alpha) ^ 2) ^ n)⁻¹ = |f.alpha| • ∫ y : ℝ, ((1 + y ^ 2) ^ n)⁻¹ :=
    MeasureTheory.Measure.integral_comp_div (fun v : ℝ => ((1 + v ^ 2) ^ n)⁻¹) f.alpha
  rw [h2, h3, hI, abs_of_pos ha, smul_eq_mul]
  show (gammaFilt false true mc n rate l r).alpha * _ = _
  rw [hal, gammatone_erb_const n hn]
  have h3 := fact_pos_real (n - 1)
  have h4 := fact_pos_real (2 * n - 2)
  have := Real.pi_pos
  field_simp

example : (1:ℕ) ≤ 4 ∧ (0:ℝ) < 16000 ∧ (100:ℝ) < 180 := by norm_num

/-! ## 8. triangular / Fbank responses at every DFT bin -/

theorem zero_lit : (0.0:ℝ) = 0 := by norm_num

/-- the documented triangle through `(l,0)`, `(c,1)`, `(r,0)`, zero outside `[l, r]` -/
noncomputable def docTri (l c r f : ℝ) : ℝ := max 0 (min ((f - l) / (c - l)) ((r - f) / (r - c)))

theorem docTri_outside (l c r f : ℝ) (hlc : l < c) (hcr : c < r) (h : f < l ∨ r < f) : docTri l c r f = 0 := by
  unfold docTri
  apply max_eq_left
  rcases h with h | h
  · exact le_trans (min_le_left _ _) (div_nonpos_of_nonpos_of_nonneg (by linarith) (by linarith))
  · exact le_trans (min_le_right _ _) (div_nonpos_of_nonpos_of_nonneg (by linarith) (by linarith))

theorem docTri_inside (l c r f : ℝ) (hlc : l < c) (hcr : c < r) (h1 : l ≤ f) (h2 : f ≤ r) :
    docTri l c r f = if f ≤ c then (f - l) / (c - l) else (r - f) / (r - c) := by
  unfold docTri
  have hcl : 0 < c - l := by linarith
  have hrc : 0 < r - c := by linarith
  split_ifs with h
  · have a : (f - l) / (c - l) ≤ 1 := by rw [div_le_one hcl]; linarith
    have b : 1 ≤ (r - f) / (r - c) := by rw [le_div_iff₀ hrc]; linarith
    rw [min_eq_left (le_trans a b), max_eq_right (div_nonneg (by linarith) hcl.le)]
  · rw [not_le] at h
    have a : 1 ≤ (f - l) / (c - l) := by rw [le_div_iff₀ hcl]; linarith
    have b : (r - f) / (r - c) ≤ 1 := by rw [div_le_one hrc]; linarith
    rw [min_eq_right (le_trans b a), max_eq_right (div_nonneg (by linarith) hrc.le)]

/-- **tri_peak**: the documented triangle is 1 at the centre and at most 1 (at least 0) everywhere -/
theorem tri_peak (l c r f : ℝ) (hlc : l < c) (hcr : c < r) :
    docTri l c r c = 1 ∧ docTri l c r f ≤ 1 ∧ 0 ≤ docTri l c r f := by
  have hcl : 0 < c - l := by linarith
  have hrc : 0 < r - c := by linarith
  refine ⟨?_, ?_, le_max_left _ _⟩
  · rw [docTri_inside l c r c hlc hcr hlc.le hcr.le, if_pos le_rfl, div_self hcl.ne']
  · unfold docTri
    apply max_le (by norm_num)
    rcases le_or_gt f c with h | h
    · exact le_trans (min_le_left _ _) (by rw [div_le_one hcl]; linarith)
    · exact le_trans (min_le_right _ _) (by rw [div_le_one hrc]; linarith)

/-- the loop `range(left_idx, min(dft_size, right_idx + 1))` visits exactly the bins whose frequency lies
in `[l, r]` (floor / ceil arithmetic) and stays inside the buffer, in the lower half for a real filter -/
theorem loop_range (rate l r : ℝ) (W dft : ℕ) (hrate : 0 < rate) (hW : 0 < W) (hl : 0 ≤ l) (hlr : l ≤ r)
    (hny : r ≤ rate / 2) (hdft : W / 2 + 1 ≤ dft ∨ (W % 2 = 1 ∧ (W + 1) / 2 ≤ dft)) :
    let lo : ℤ := ⌈(W:ℝ) * l / rate⌉
    let hi : ℤ := min (dft:ℤ) (⌊(W:ℝ) * r / rate⌋ + 1)
    0 ≤ lo ∧ hi ≤ dft ∧ lo.toNat + (hi - lo).toNat ≤ dft ∧ 2 * (lo.toNat + (hi - lo).toNat) ≤ W + 2 ∧
      ∀ k : ℕ, k < dft → ((lo.toNat ≤ k ∧ k < lo.toNat + (hi - lo).toNat) ↔
        (l ≤ rate * k / W ∧ rate * k / W ≤ r)) := by
  intro lo hi
  have hWr : (0:ℝ) < W := by exact_mod_cast hW
  have hx : 0 ≤ (W:ℝ) * l / rate := by positivity
  have hxy : (W:ℝ) * l / rate ≤ (W:ℝ) * r / rate := by
    apply div_le_div_of_nonneg_right _ hrate.le; nlinarith
  have hy2 : (W:ℝ) * r / rate ≤ (W:ℝ) / 2 := by
    rw [div_le_div_iff₀ hrate (by norm_num)]; nlinarith
  have hlo0 : 0 ≤ lo := Int.ceil_nonneg hx
  have hfy : 2 * ⌊(W:ℝ) * r / rate⌋ ≤ W := by
    have h1 : (⌊(W:ℝ) * r / rate⌋ : ℝ) ≤ (W:ℝ) / 2 := le_trans (Int.floor_le _) hy2
    have h2 : ((2 * ⌊(W:ℝ) * r / rate⌋ : ℤ) : ℝ) ≤ ((W:ℤ):ℝ) := by push_cast; linarith
    exact_mod_cast h2
  have hlofy : lo ≤ ⌊(W:ℝ) * r / rate⌋ + 1 := by
    have h1 : lo ≤ ⌈(W:ℝ) * r / rate⌉ := Int.ceil_mono hxy
    have h2 := Int.ceil_le_floor_add_one ((W:ℝ) * r / rate)
    omega
  have hhi : hi ≤ dft := min_le_left _ _
  have hhi2 : hi ≤ ⌊(W:ℝ) * r / rate⌋ + 1 := min_le_right _ _
  have hhi3 : hi = dft ∨ hi = ⌊(W:ℝ) * r / rate⌋ + 1 := by
    rcases min_choice (dft:ℤ) (⌊(W:ℝ) * r / rate⌋ + 1) with h | h
    · exact Or.inl h
    · exact Or.inr h
  refine ⟨hlo0, hhi, by omega, by omega, fun k hk => ?_⟩
  have e1 : (lo ≤ (k:ℤ)) ↔ l ≤ rate * k / W := by
    show ⌈(W:ℝ) * l / rate⌉ ≤ (k:ℤ) ↔ _
    rw [Int.ceil_le, div_le_iff₀ hrate, le_div_iff₀ hWr]
    push_cast
    constructor <;> intro h <;> nlinarith
  have e2 : ((k:ℤ) < ⌊(W:ℝ) * r / rate⌋ + 1) ↔ rate * k / W ≤ r := by
    rw [Int.lt_add_one_iff, Int.le_floor, le_div_iff₀ hrate, div_le_iff₀ hWr]
    push_cast
    constructor <;> intro h <;> nlinarith
  rw [← e1, ← e2]
  omega

/-- what the generic bin theorem needs to know about the parts of a filter (all true of `triParts` and
`fbankParts` by unfolding the generated definitions) -/
structure PartsSpec (p : TriParts ℝ) (rate l r : ℝ) (W : ℕ) (half analytic : Bool) (g : ℝ → ℝ) : Prop where
  left : p.leftIdx = ⌈(W:ℝ) * l / rate⌉
  right : p.rightIdx = FloorCeil.truncI ((W:ℝ) * r / rate)
  aL : p.assertLeft = decide ((p.leftIdx : ℝ) - 1 ≤ (W:ℝ) * l / rate)
  aR : p.assertRight = decide ((W:ℝ) * r / rate ≤ (p.rightIdx : ℝ) + 1)
  lo : p.lo = p.leftIdx
  hi : p.hi = min ((dftSize W half : ℕ) : ℤ) (p.rightIdx + 1)
  mirror : p.mirror = (!half && !analytic)
  val : ∀ k : ℕ, p.val k = g (rate * k / W)

theorem dftSize_ge (W : ℕ) (half : Bool) :
    W / 2 + 1 ≤ dftSize W half ∨ (W % 2 = 1 ∧ (W + 1) / 2 ≤ dftSize W half) ∨ (W = 0) := by
  unfold dftSize
  split_ifs <;> omega

/-- **Generic bin theorem.**  For vertices `0 ≤ l ≤ r ≤ rate/2`: both asserts hold, no write leaves the
buffer, and bin `k` holds `g(f_k)` if `f_k ∈ [l, r]`, for a real full-length response the mirrored value
`g(f_{W-k})` if `f_{W-k} ∈ [l, r]`, and `0` otherwise. -/
theorem bins_generic {p : TriParts ℝ} {rate l r : ℝ} {W : ℕ} {half analytic : Bool} {g : ℝ → ℝ}
    (S : PartsSpec p rate l r W half analytic g) (hrate : 0 < rate) (hW : 0 < W) (hl : 0 ≤ l) (hlr : l ≤ r)
    (hny : r ≤ rate / 2) :
    ∃ res, triResponse p W half = .ok res ∧ res.length = dftSize W half ∧
      ∀ k, k < dftSize W half → res[k]? = some
        (if l ≤ rate * k / W ∧ rate * k / W ≤ r then g (rate * k / W)
         else if (half = false ∧ analytic = false) ∧ k ≠ 0 ∧
            l ≤ rate * ((W - k : ℕ) : ℝ) / W ∧ rate * ((W - k : ℕ) : ℝ) / W ≤ r
           then g (rate * ((W - k : ℕ) : ℝ) / W)
         else 0) := by
  have hWr : (0:ℝ) < W := by exact_mod_cast hW
  have hy : 0 ≤ (W:ℝ) * r / rate := by have : 0 ≤ r := le_trans hl hlr; positivity
  have hR : p.rightIdx = ⌊(W:ℝ) * r / rate⌋ := by rw [S.right, truncI_nonneg _ hy]
  have hd : W / 2 + 1 ≤ dftSize W half ∨ (W % 2 = 1 ∧ (W + 1) / 2 ≤ dftSize W half) := by
    rcases dftSize_ge W half with h | h | h
    · exact Or.inl h
    · exact Or.inr h
    · omega
  obtain ⟨hlo0, hhi, hb, hh, hiff⟩ := loop_range rate l r W (dftSize W half) hrate hW hl hlr hny hd
  -- the asserts
  have hA1 : p.assertLeft = true := by
    rw [S.aL, decide_eq_true_eq, S.left]
    have h1 := Int.ceil_lt_add_one ((W:ℝ) * l / rate)
    linarith
  have hA2 : p.assertRight = true := by
    rw [S.aR, decide_eq_true_eq, hR]
    have h1 := Int.lt_floor_add_one ((W:ℝ) * r / rate)
    linarith
  have hlo : p.lo = ⌈(W:ℝ) * l / rate⌉ := by rw [S.lo, S.left]
  have hhi' : p.hi = min ((dftSize W half : ℕ) : ℤ) (⌊(W:ℝ) * r / rate⌋ + 1) := by rw [S.hi, hR]
  have hB : boundsOk p (dftSize W half) = true := by
    simp only [boundsOk, Bool.and_eq_true, decide_eq_true_eq, hlo, hhi']
    exact ⟨hlo0, hhi⟩
  refine ⟨writeLoop p.mirror p.val p.lo.toNat (p.hi - p.lo).toNat (List.replicate (dftSize W half) 0.0),
    by simp [triResponse, hA1, hA2, hB], by simp, fun k hk => ?_⟩
  rw [writeLoop_get _ _ _ _ _ (by simpa [hlo, hhi'] using hb)
    (fun _ => by simpa [hlo, hhi'] using (by
      have hm : p.mirror = true := ‹_›
      rw [S.mirror] at hm
      have : half = false := by cases half <;> simp_all
      simp only [dftSize, this, Bool.false_eq_true, ↓reduceIte] at hh ⊢
      exact hh)) k (by simpa using hk)]
  simp only [List.length_replicate, hlo, hhi', S.val]
  have hk' := hiff k hk
  by_cases hin : l ≤ rate * k / W ∧ rate * k / W ≤ r
  · rw [if_pos (hk'.mpr hin), if_pos hin]
  · rw [if_neg (fun h => hin (hk'.mp h)), if_neg hin]
    by_cases hm : half = false ∧ analytic = false
    · have hmir : p.mirror = true := by rw [S.mirror]; simp [hm.1, hm.2]
      have hdW : dftSize W half = W := by simp [dftSize, hm.1]
      by_cases hk0 : k = 0
      · rw [if_neg (by simp [hk0]), if_neg (by simp [hk0])]
        simp [hk, zero_lit]
      · have hWk : W - k < dftSize W half := by omega
        have hk2 := hiff (W - k) hWk
        rw [hdW] at hk2 ⊢
        by_cases hin2 : l ≤ rate * ((W - k : ℕ) : ℝ) / W ∧ rate * ((W - k : ℕ) : ℝ) / W ≤ r
        · rw [if_pos ⟨hmir, hk0, (hk2.mpr hin2).1, (hk2.mpr hin2).2⟩, if_pos ⟨hm, hk0, hin2⟩]
        · rw [if_neg (fun h => hin2 (hk2.mp ⟨h.2.2.1, h.2.2.2⟩)), if_neg (fun h => hin2 h.2.2)]
          simp [hdW ▸ hk, zero_lit]
    · have hmir : p.mirror = false := by
        rw [S.mirror]; cases half <;> cases analytic <;> simp_all
      rw [if_neg (by simp [hmir]), if_neg (fun h => hm h.1)]
      simp [hk, zero_lit]

/-- the generic bin theorem against a documented response `doc` that agrees with the per-bin formula on
`[l, r]` and vanishes outside: every bin of the half spectrum / analytic response is `doc(f_k)`, and a real
full-length response is its Hermitian extension (`doc(f_{W-k})` above the Nyquist bin). -/
theorem bins_doc {p : TriParts ℝ} {rate l r : ℝ} {W : ℕ} {half analytic : Bool} {g doc : ℝ → ℝ}
    (S : PartsSpec p rate l r W half analytic g) (hrate : 0 < rate) (hW : 0 < W) (hl : 0 ≤ l) (hlr : l ≤ r)
    (hny : r ≤ rate / 2) (hin : ∀ f, l ≤ f → f ≤ r → g f = doc f)
    (hout : ∀ f, 0 ≤ f → (f < l ∨ r < f) → doc f = 0) :
    ∃ res, triResponse p W half = .ok res ∧ res.length = dftSize W half ∧
      ∀ k, k < dftSize W half → res[k]? = some
        (if (half = false ∧ analytic = false) ∧ W < 2 * k then doc (rate * ((W - k : ℕ) : ℝ) / W)
         else doc (rate * k / W)) := by
  obtain ⟨res, h1, h2, h3⟩ := bins_generic S hrate hW hl hlr hny
  refine ⟨res, h1, h2, fun k hk => ?_⟩
  rw [h3 k hk]
  congr 1
  have hWr : (0:ℝ) < W := by exact_mod_cast hW
  have fk0 : ∀ j : ℕ, 0 ≤ rate * (j:ℝ) / W := fun j => by positivity
  -- a bin frequency inside [l, r] is at most the Nyquist frequency
  have hhalf : ∀ j : ℕ, rate * (j:ℝ) / W ≤ r → 2 * j ≤ W := by
    intro j hj
    have : rate * (j:ℝ) / W ≤ rate / 2 := le_trans hj hny
    rw [div_le_div_iff₀ hWr (by norm_num)] at this
    have h' : (2:ℝ) * j ≤ W := by nlinarith
    exact_mod_cast h'
  by_cases hM : (half = false ∧ analytic = false) ∧ W < 2 * k
  · rw [if_pos hM]
    have hnot : ¬(l ≤ rate * k / W ∧ rate * k / W ≤ r) := fun h => by have := hhalf k h.2; omega
    rw [if_neg hnot]
    have hk0 : k ≠ 0 := by omega
    by_cases hin2 : l ≤ rate * ((W - k : ℕ) : ℝ) / W ∧ rate * ((W - k : ℕ) : ℝ) / W ≤ r
    · rw [if_pos ⟨hM.1, hk0, hin2⟩, hin _ hin2.1 hin2.2]
    · rw [if_neg (fun h => hin2 h.2.2), hout _ (fk0 _) (by
        by_contra hc
        rw [not_or, not_lt, not_lt] at hc
        exact hin2 hc)]
  · rw [if_neg hM]
    by_cases hin1 : l ≤ rate * k / W ∧ rate * k / W ≤ r
    · rw [if_pos hin1, hin _ hin1.1 hin1.2]
    · rw [if_neg hin1]
      have hz : doc (rate * k / W) = 0 := hout _ (fk0 k) (by
        by_contra hc
        rw [not_or, not_lt, not_lt] at hc
        exact hin1 hc)
      rw [hz]
      apply if_neg
      rintro ⟨hm, hk0, hin2⟩
      have h1 := hhalf (W - k) hin2.2
      have hkW : k < W := by
        have : dftSize W half = W := by simp [dftSize, hm.1]
        omega
      have : ¬ W < 2 * k := fun h => hM ⟨hm, h⟩
      have hkk : W - k = k := by omega
      rw [hkk] at hin2
      exact hin1 hin2

theorem triParts_spec (rate l c r : ℝ) (W : ℕ) (half analytic : Bool) :
    PartsSpec (triParts rate l c r W half analytic) rate l r W half analytic (fun f => tri_val f l c r) where
  left := by simp [triParts, tri_left_idx]
  right := by simp [triParts, tri_right_idx]
  aL := by simp only [triParts, tri_assert_left]; norm_num <;> rfl
  aR := by simp only [triParts, tri_assert_right]; norm_num <;> rfl
  lo := by simp [triParts, tri_loop_lo]
  hi := by simp [triParts, tri_loop_hi]
  mirror := by simp [triParts, tri_mirror]
  val := fun k => by simp [triParts, tri_written, tri_bin_hz]

/-- the documented Fbank response: square root of the triangle in mel -/
noncomputable def docFbank (l c r f : ℝ) : ℝ :=
  Real.sqrt (docTri (mel_h2s l) (mel_h2s c) (mel_h2s r) (mel_h2s f))

/-- clamping at zero before the square root changes nothing over the reals (`Real.sqrt` is 0 on negative numbers): the
clamp in the source only guards against a floating-point value a hair below zero at an outer vertex -/
theorem sqrt_max_zero (v : ℝ) : Real.sqrt (max v 0) = Real.sqrt v := by
  rcases le_total v 0 with h | h
  · rw [max_eq_right h, Real.sqrt_zero, Real.sqrt_eq_zero_of_nonpos h]
  · rw [max_eq_left h]

theorem fbankParts_spec (rate l c r : ℝ) (W : ℕ) (half analytic : Bool) :
    PartsSpec (fbankParts rate l c r W half analytic) rate l r W half analytic
      (fun f => Real.sqrt (fbank_val f l c r)) where
  left := by simp [fbankParts, fbank_left_idx]
  right := by simp [fbankParts, fbank_right_idx]
  aL := by simp only [fbankParts, fbank_assert_left]; norm_num <;> rfl
  aR := by simp only [fbankParts, fbank_assert_right]; norm_num <;> rfl
  lo := by simp [fbankParts, fbank_loop_lo]
  hi := by simp [fbankParts, fbank_loop_hi]
  mirror := by simp [fbankParts, fbank_mirror]
  val := fun k => by
    simp only [fbankParts, fbank_written, fbank_bin_hz, transc_sqrt]
    first
      | rfl
      | (rw [show ((0.0 : ℝ)) = 0 by norm_num, sqrt_max_zero])

/-- **tri_is_triangle**: for vertices `0 ≤ l < c < r ≤ rate/2` and every DFT width `W ≥ 1`,
`get_frequency_response` raises nothing and equals the documented triangle (linear in Hz) at every bin;
zero outside `[⌈W·l/rate⌉, ⌊W·r/rate⌋]`; Hermitian extension for the real full-length response. -/
theorem tri_is_triangle (rate l c r : ℝ) (W : ℕ) (half analytic : Bool) (hrate : 0 < rate) (hW : 0 < W)
    (hl : 0 ≤ l) (hlc : l < c) (hcr : c < r) (hny : r ≤ rate / 2) :
    ∃ res, triResponse (triParts rate l c r W half analytic) W half = .ok res ∧
      res.length = dftSize W half ∧
      ∀ k, k < dftSize W half → res[k]? = some
        (if (half = false ∧ analytic = false) ∧ W < 2 * k then docTri l c r (rate * ((W - k : ℕ) : ℝ) / W)
         else docTri l c r (rate * k / W)) :=
  bins_doc (triParts_spec rate l c r W half analytic) hrate hW hl (by linarith) hny
    (fun f h1 h2 => by rw [docTri_inside l c r f hlc hcr h1 h2]; simp [tri_val])
    (fun f _ h => docTri_outside l c r f hlc hcr h)

theorem mel_lt {a b : ℝ} (ha : 0 ≤ a) (hab : a < b) : mel_h2s a < mel_h2s b :=
  C19.mel_h2s_strictMonoOn (mem_Ioi.mpr (by linarith)) (mem_Ioi.mpr (by linarith)) hab

theorem mel_le {a b : ℝ} (ha : 0 ≤ a) (hab : a ≤ b) : mel_h2s a ≤ mel_h2s b := by
  rcases eq_or_lt_of_le hab with rfl | h
  · exact le_rfl
  · exact (mel_lt ha h).le

/-- **fbank_is_sqrt_mel_triangle**: the same for `Fbank`, with the square root of the triangle in mel -/
theorem fbank_is_sqrt_mel_triangle (rate l c r : ℝ) (W : ℕ) (half analytic : Bool) (hrate : 0 < rate)
    (hW : 0 < W) (hl : 0 ≤ l) (hlc : l < c) (hcr : c < r) (hny : r ≤ rate / 2) :
    ∃ res, triResponse (fbankParts rate l c r W half analytic) W half = .ok res ∧
      res.length = dftSize W half ∧
      ∀ k, k < dftSize W half → res[k]? = some
        (if (half = false ∧ analytic = false) ∧ W < 2 * k then docFbank l c r (rate * ((W - k : ℕ) : ℝ) / W)
         else docFbank l c r (rate * k / W)) := by
  have hmlc := mel_lt hl hlc
  have hmcr := mel_lt (by linarith) hcr
  refine bins_doc (fbankParts_spec rate l c r W half analytic) hrate hW hl (by linarith) hny
    (fun f h1 h2 => ?_) (fun f hf h => ?_)
  · show Real.sqrt (fbank_val f l c r) = docFbank l c r f
    unfold docFbank
    rw [docTri_inside _ _ _ _ hmlc hmcr (mel_le hl h1) (mel_le (by linarith) h2)]
    simp [fbank_val]
  · unfold docFbank
    rw [docTri_outside _ _ _ _ hmlc hmcr (by
      rcases h with h | h
      · exact Or.inl (mel_lt hf h)
      · exact Or.inr (mel_lt (by linarith) h)), Real.sqrt_zero]

/-- **fbank_peak**: the documented Fbank response is 1 at the centre and within `[0, 1]` everywhere -/
theorem fbank_peak (l c r f : ℝ) (hl : 0 ≤ l) (hlc : l < c) (hcr : c < r) :
    docFbank l c r c = 1 ∧ docFbank l c r f ≤ 1 ∧ 0 ≤ docFbank l c r f := by
  have hmlc := mel_lt hl hlc
  have hmcr := mel_lt (by linarith) hcr
  obtain ⟨h1, -, -⟩ := tri_peak (mel_h2s l) (mel_h2s c) (mel_h2s r) (mel_h2s f) hmlc hmcr
  obtain ⟨-, h2, h3⟩ := tri_peak (mel_h2s l) (mel_h2s c) (mel_h2s r) (mel_h2s f) hmlc hmcr
  unfold docFbank
  refine ⟨by rw [h1, Real.sqrt_one], ?_, Real.sqrt_nonneg _⟩
  rw [← Real.sqrt_one]
  exact Real.sqrt_le_sqrt h2

/-- the bank's own vertices satisfy the hypotheses of the bin theorems: consecutive vertices of a
constructed triangular bank are `0 ≤ l < c < r ≤ rate/2` -/
theorem tri_vertices_valid {sc : Scale ℝ} {n : ℕ} {high : Option ℝ} {low rate : ℝ} {vs : List ℝ}
    (hv : Scale.Valid sc low) (hok : triVertices sc n high low rate = .ok vs) (hlow : low < rate / 2)
    (i : ℕ) (hi : i + 2 < vs.length) :
    0 ≤ vs[i] ∧ vs[i] < vs[i + 1] ∧ vs[i + 1] < vs[i + 2] ∧ vs[i + 2] ≤ rate / 2 := by
  have L := tri_layout hv hok hlow
  obtain ⟨hr, -⟩ := triVertices_ok hok
  obtain ⟨h0, hlt, hny⟩ := tri_accepted_lt hr hlow
  have ok := scaleOK sc low _ hv hlt.le
  have hm : (((n + 2 : ℕ) : ℝ)) - 1 + 0 ≤ (n:ℝ) + 1 := by push_cast; linarith
  have b1 := L.bounds ok le_rfl hm i (by omega)
  have b2 := L.bounds ok le_rfl hm (i + 2) hi
  exact ⟨le_trans h0 b1.1, L.incr i (i + 1) (by omega) (by omega), L.incr (i + 1) (i + 2) (by omega) hi,
    le_trans b2.2 hny⟩

example : (0:ℝ) < 8000 ∧ 0 < 64 ∧ (0:ℝ) ≤ 20 ∧ (20:ℝ) < 300 ∧ (300:ℝ) < 700 ∧ (700:ℝ) ≤ 8000 / 2 := by norm_num

/-! ## 8b. bank level: neighbouring filters of a constructed bank cross at their shared band edge -/

/-- filter `i` of a constructed Gabor bank is built from the consecutive, strictly increasing band edges
`es[i] < es[i+1]` of the layout -/
theorem gabor_bank_filters {sc : Scale ℝ} {n : ℕ} {high : Option ℝ} {low rate : ℝ} {l2 erb : Bool}
    {fs : List (GaborFilt ℝ)} (hv : Scale.Valid sc low) (hok : gaborBank sc n high low rate l2 erb = .ok fs)
    (hlt : low < gabor_high high rate) :
    ∃ es : List ℝ, gaborEdges sc n high low rate = .ok es ∧ es.length = n + 1 ∧ fs.length = n ∧
      ∀ i (hi : i < fs.length), es[i]! < es[i + 1]! ∧ fs[i] = gaborFilt l2 erb rate es[i]! es[i + 1]! := by
  obtain ⟨es, hE, rfl⟩ := gaborBank_ok hok
  have L := (gabor_layout hv hE hlt).2
  have hlen := L.length
  have hfl : ((pairs es).map fun lr => gaborFilt l2 erb rate lr.1 lr.2).length = n := by
    simp [pairs_length, hlen]
  refine ⟨es, hE, hlen, hfl, fun i hi => ?_⟩
  have hi' : i < n := by rw [hfl] at hi; exact hi
  rw [getElem!_pos es i (by omega), getElem!_pos es (i + 1) (by omega)]
  refine ⟨L.incr i (i + 1) (by omega) (by omega), ?_⟩
  simp only [List.getElem_map, pairs_getElem]

/-- **neighbours cross at the 3 dB point** (Gabor, `erb=False`, default normalisation): at the edge shared by
filters `i` and `i+1` both have power gain `10^(-3/10)`. -/
theorem gabor_neighbours_cross {sc : Scale ℝ} {n : ℕ} {high : Option ℝ} {low rate : ℝ}
    {fs : List (GaborFilt ℝ)} (hv : Scale.Valid sc low) (hok : gaborBank sc n high low rate false false = .ok fs)
    (hlt : low < gabor_high high rate) (hrate : 0 < rate) :
    ∃ es : List ℝ, gaborEdges sc n high low rate = .ok es ∧
      ∀ i (hi : i + 1 < fs.length),
        (gaborH false (fs[i]'(by omega)) (hertz_to_angular es[i + 1]! rate)) ^ 2 = (10:ℝ) ^ (-(3/10) : ℝ) ∧
        (gaborH false fs[i + 1] (hertz_to_angular es[i + 1]! rate)) ^ 2 = (10:ℝ) ^ (-(3/10) : ℝ) := by
  obtain ⟨es, hE, -, -, hf⟩ := gabor_bank_filters hv hok hlt
  refine ⟨es, hE, fun i hi => ?_⟩
  obtain ⟨h1, e1⟩ := hf i (by omega)
  obtain ⟨h2, e2⟩ := hf (i + 1) hi
  rw [e1, e2]
  exact ⟨(gabor_3dB rate _ _ hrate h1).2, (gabor_3dB rate _ _ hrate h2).1⟩

theorem gammatone_bank_filters {sc : Scale ℝ} {n : ℕ} {high : Option ℝ} {low rate : ℝ} {order : ℤ}
    {mc l2 erb : Bool} {fs : List (GammaFilt ℝ)} (hv : Scale.Valid sc low)
    (hok : gammaBank sc n high low rate order mc l2 erb = .ok fs) (hlt : low < gammatone_high high rate) :
    ∃ es : List ℝ, gammaEdges sc n high low rate order = .ok es ∧ es.length = n + 1 ∧ fs.length = n ∧
      1 ≤ order.toNat ∧
      ∀ i (hi : i < fs.length), es[i]! < es[i + 1]! ∧
        fs[i] = gammaFilt l2 erb mc order.toNat rate es[i]! es[i + 1]! := by
  obtain ⟨es, hE, rfl⟩ := gammaBank_ok hok
  obtain ⟨-, ho, L⟩ := gammatone_layout hv hE hlt
  have hlen := L.length
  have hfl : ((pairs es).map fun lr => gammaFilt l2 erb mc order.toNat rate lr.1 lr.2).length = n := by
    simp [pairs_length, hlen]
  refine ⟨es, hE, hlen, hfl, by omega, fun i hi => ?_⟩
  have hi' : i < n := by rw [hfl] at hi; exact hi
  rw [getElem!_pos es i (by omega), getElem!_pos es (i + 1) (by omega)]
  refine ⟨L.incr i (i + 1) (by omega) (by omega), ?_⟩
  simp only [List.getElem_map, pairs_getElem]

/-- **neighbours cross at the 3 dB point** (gammatone, `erb=False`, default normalisation): at the edge shared
by filters `i` and `i+1` both have exactly half the peak power. -/
theorem gammatone_neighbours_cross {sc : Scale ℝ} {n : ℕ} {high : Option ℝ} {low rate : ℝ} {order : ℤ} {mc : Bool}
    {fs : List (GammaFilt ℝ)} (hv : Scale.Valid sc low)
    (hok : gammaBank sc n high low rate order mc false false = .ok fs)
    (hlt : low < gammatone_high high rate) (hrate : 0 < rate) :
    ∃ es : List ℝ, gammaEdges sc n high low rate order = .ok es ∧
      ∀ i (hi : i + 1 < fs.length),
        let a := fs[i]'(by omega)
        let b := fs[i + 1]
        nsq (gammatone_H order.toNat a.alpha a.c a.xi a.offset (hertz_to_angular es[i + 1]! rate)) = 1 / 2 ∧
        nsq (gammatone_H order.toNat b.alpha b.c b.xi b.offset (hertz_to_angular es[i + 1]! rate)) = 1 / 2 := by
  obtain ⟨es, hE, -, -, ho, hf⟩ := gammatone_bank_filters hv hok hlt
  refine ⟨es, hE, fun i hi => ?_⟩
  obtain ⟨h1, e1⟩ := hf i (by omega)
  obtain ⟨h2, e2⟩ := hf (i + 1) hi
  simp only [e1, e2]
  exact ⟨(gammatone_3dB mc _ ho rate _ _ hrate h1).2, (gammatone_3dB mc _ ho rate _ _ hrate h2).1⟩

/-! ## 9. non-vacuity: concrete instances of the hypotheses -/

/-- mel scale, 20 Hz … 4 kHz -/
example : ScaleOK .mel 20 4000 := scaleOK .mel 20 4000 (by show (-700:ℝ) < 20; norm_num) (by norm_num)
/-- Bark scale from 0 Hz -/
example : ScaleOK .bark 0 8000 := scaleOK .bark 0 8000 (by show (-1960:ℝ) < 0; norm_num) (by norm_num)
/-- octave scale needs a positive `low_hz` -/
example : Scale.Valid (.octave 27.5) 27.5 := by show (0:ℝ) < 27.5; norm_num
example : Scale.Valid (.linear 0 0.5) 0 := by show (0:ℝ) < 0.5; norm_num

/-- the default triangular bank at 8 kHz is accepted, its range is (20, 4000) -/
example : tri_ctor_rejects (20:ℝ) none 8000 = false ∧ (20:ℝ) < tri_high none 8000 ∧ (20:ℝ) < 8000 / 2 := by
  refine ⟨?_, ?_, by norm_num⟩
  · rw [tri_rejects_iff]; simp only [Option.getD]; norm_num
  · rw [tri_high_eq]; simp only [Option.getD]; norm_num

/-- a constructed triangular bank exists (hypothesis `hok` of the layout theorems) -/
example : ∃ vs, triVertices (.mel : Scale ℝ) 5 none 20 8000 = .ok vs := by
  have : tri_ctor_rejects (20:ℝ) none 8000 = false := by
    rw [tri_rejects_iff]; simp only [Option.getD]; norm_num
  simp [triVertices, this]

/-- the floor-style constructors accept (20, default) at 11025 Hz, where the default top is 5512 -/
example : fbank_ctor_rejects (20:ℝ) none 11025 = false ∧ fbank_high none (11025:ℝ) = 5512 := by
  have hfl : ⌊(11025:ℝ) / 2⌋ = 5512 := by rw [Int.floor_eq_iff]; norm_num
  refine ⟨?_, ?_⟩
  · rw [fbank_rejects_iff]; simp only [Option.getD]; rw [hfl]; norm_num
  · rw [(floor_high_eq none 11025).1]; simp only [Option.getD]; rw [hfl]; norm_num

/-- since the repair of `Fbank`, `high_hz = 0` and a `low_hz` above the default top are rejected by `Fbank`
(and still accepted by the Gabor / gammatone constructors) -/
example : fbank_ctor_rejects (20:ℝ) (some 0) 8000 = true ∧ gabor_ctor_rejects (20:ℝ) (some 0) 8000 = false := by
  constructor
  · by_contra hc
    rw [Bool.not_eq_true] at hc
    have := ((fbank_rejects_iff 20 (some 0) 8000).mp hc).2.1
    simp only [Option.getD] at this
    norm_num at this
  · rw [gabor_rejects_iff]; exact ⟨by norm_num, fun h hh hne => absurd (by simpa using hh.symm) hne⟩

example : ∃ es, gaborEdges (.bark : Scale ℝ) 10 (some 3800) 50 8000 = .ok es := by
  have : gabor_ctor_rejects (50:ℝ) (some 3800) 8000 = false := by
    rw [gabor_rejects_iff]
    refine ⟨by norm_num, fun h hh _ => ?_⟩
    have : h = 3800 := by simpa using hh.symm
    subst this
    have : ⌊(8000:ℝ) / 2⌋ = 4000 := by rw [Int.floor_eq_iff]; norm_num
    rw [this]; norm_num
  simp [gaborEdges, this]

/-- `gammatone_erb_partial`'s hypothesis holds for order 1 (`∫ 1/(1+v²) = π`), so for order 1 the ERB clause
is proved outright -/
theorem gammatone_erb_order1 (mc : Bool) (rate l r : ℝ) (hrate : 0 < rate) (hlr : l < r) :
    let f := gammaFilt false true mc 1 rate l r
    (∫ ω : ℝ, nsq (gammatone_H 1 f.alpha f.c f.xi f.offset ω)) /
      nsq (gammatone_H 1 f.alpha f.c f.xi f.offset f.xi) = hertz_to_angular (r - l) rate := by
  apply gammatone_erb_partial mc 1 le_rfl rate l r hrate hlr
  simp

/-- **gammatone_erb** (`erb=True`), the full statement, for every order `n ≥ 1`: the equivalent rectangular
bandwidth `∫|H|² / |H(ξ)|²` of the generated gammatone response equals the angular distance between the band
edges.  The integral identity that `gammatone_erb_partial` assumes is
`CauchyPow.integral_inv_one_add_sq_pow` (reduction formula + induction, `Lemmas/CauchyPow.lean`). -/
theorem gammatone_erb (mc : Bool) (n : ℕ) (hn : 1 ≤ n) (rate l r : ℝ) (hrate : 0 < rate) (hlr : l < r) :
    let f := gammaFilt false true mc n rate l r
    (∫ ω : ℝ, nsq (gammatone_H n f.alpha f.c f.xi f.offset ω)) /
      nsq (gammatone_H n f.alpha f.c f.xi f.offset f.xi) = hertz_to_angular (r - l) rate :=
  gammatone_erb_partial mc n hn rate l r hrate hlr (CauchyPow.integral_inv_one_add_sq_pow n hn)

/-- bin-theorem hypotheses: vertices 20 < 300 < 700 Hz at 8 kHz, width 64 -/
example : ∃ res, triResponse (triParts (8000:ℝ) 20 300 700 64 true false) 64 true = .ok res ∧ res.length = 33 := by
  obtain ⟨res, h1, h2, -⟩ := tri_is_triangle 8000 20 300 700 64 true false (by norm_num) (by norm_num) (by norm_num)
    (by norm_num) (by norm_num) (by norm_num)
  exact ⟨res, h1, by rw [h2]; decide⟩

end PdsVerif.C05

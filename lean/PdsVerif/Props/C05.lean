/-
  C05 — filter banks are laid out on the scale as documented, with unit gain.

  The definitions these theorems are about are *generated from*
  `/repo/src/pydrobert/speech/filters.py` (`Generated/BankConsts.lean`) and `scales.py`
  (`Generated/Scales.lean`) on every run, instantiated at `ℝ`, and plugged into the Python plumbing of
  `Model/BankLayout.lean`.
-/
import PdsVerif.Lemmas.BankReal
import PdsVerif.Props.C19
import Mathlib.Analysis.SpecialFunctions.Gaussian.GaussianIntegral
import Mathlib.Analysis.SpecialFunctions.Gamma.Basic
import Mathlib.Tactic

namespace PdsVerif.C05
open PdsVerif PdsVerif.Gen PdsVerif.Gen.BankConsts PdsVerif.Gen.Scales PdsVerif.Gen.UtilFns
open PdsVerif.Model.BankLayout PdsVerif.BankReal Set

/-! ## 1. scales: what the layout needs, from the C19 theorems -/

/-- constructor / domain conditions under which a scale is usable from `lo` Hz upwards
(linear: positive slope; octave: positive `low_hz`; mel / Bark: above the pole of the formula) -/
def Scale.Valid : Scale ℝ → ℝ → Prop
  | .linear _ slope, _ => 0 < slope
  | .octave _, lo => 0 < lo
  | .mel, lo => -700 < lo
  | .bark, lo => -1960 < lo

/-- the four facts every layout theorem uses, on the band `[lo, hi]` -/
structure ScaleOK (sc : Scale ℝ) (lo hi : ℝ) : Prop where
  left_inv : ∀ f, lo ≤ f → sc.s2h (sc.h2s f) = f
  right_inv : ∀ s, s ≤ sc.h2s hi → sc.h2s (sc.s2h s) = s
  h2s_lt : ∀ a b, lo ≤ a → a < b → sc.h2s a < sc.h2s b
  s2h_lt : ∀ s t, s < t → t ≤ sc.h2s hi → sc.s2h s < sc.s2h t

theorem z_lt_pole (f : ℝ) (hf : -1960 < f) : C19.z f < 26.28 := by
  unfold C19.z
  have h : (0:ℝ) < 1960.0 + f := by norm_num; linarith
  have : (26.81:ℝ) * f / (1960.0 + f) < 26.81 := by
    rw [div_lt_iff₀ h]; norm_num
  norm_num at this ⊢; linarith

theorem uncorr_lt_pole (s hi : ℝ) (hhi : -1960 < hi) (hs : s ≤ bark_h2s hi) : C19.uncorr s < 26.28 := by
  have h1 : C19.uncorr s ≤ C19.uncorr (bark_h2s hi) := C19.uncorr_strictMono.monotone hs
  rw [C19.bark_h2s_eq, C19.uncorr_corr] at h1
  exact lt_of_le_of_lt h1 (z_lt_pole hi hhi)

/-- all four scales satisfy `ScaleOK` on every band that starts inside their domain -/
theorem scaleOK (sc : Scale ℝ) (lo hi : ℝ) (hv : Scale.Valid sc lo) (hlh : lo ≤ hi) : ScaleOK sc lo hi := by
  cases sc with
  | linear l s =>
    have hs : 0 < s := hv
    exact ⟨fun f _ => C19.linear_left_inv l s f hs.ne', fun x _ => C19.linear_right_inv l s x hs.ne',
      fun a b _ hab => C19.linear_h2s_strictMono l s hs hab, fun a b hab _ => C19.linear_s2h_strictMono l s hs hab⟩
  | octave l =>
    have hl : 0 < lo := hv
    exact ⟨fun f hf => C19.octave_left_inv l f (lt_of_lt_of_le hl hf), fun x _ => C19.octave_right_inv l x,
      fun a b ha hab => C19.octave_h2s_strictMonoOn l (mem_Ioi.mpr (lt_of_lt_of_le hl ha))
        (mem_Ioi.mpr (lt_trans (lt_of_lt_of_le hl ha) hab)) hab,
      fun a b hab _ => C19.octave_s2h_strictMono l hab⟩
  | mel =>
    have hl : -700 < lo := hv
    exact ⟨fun f hf => C19.mel_left_inv f (lt_of_lt_of_le hl hf), fun x _ => C19.mel_right_inv x,
      fun a b ha hab => C19.mel_h2s_strictMonoOn (mem_Ioi.mpr (lt_of_lt_of_le hl ha))
        (mem_Ioi.mpr (lt_trans (lt_of_lt_of_le hl ha) hab)) hab,
      fun a b hab _ => C19.mel_s2h_strictMono hab⟩
  | bark =>
    have hl : -1960 < lo := hv
    have hhi : -1960 < hi := lt_of_lt_of_le hl hlh
    refine ⟨fun f hf => C19.bark_left_inv f (lt_of_lt_of_le hl hf), fun x hx => ?_, fun a b ha hab => ?_,
      fun a b hab hb => ?_⟩
    · exact C19.bark_right_inv x (uncorr_lt_pole x hi hhi hx).ne
    · exact C19.bark_h2s_strictMonoOn (mem_Ioi.mpr (lt_of_lt_of_le hl ha))
        (mem_Ioi.mpr (lt_trans (lt_of_lt_of_le hl ha) hab)) hab
    · exact C19.bark_s2h_strictMonoOn (uncorr_lt_pole a hi hhi (le_trans hab.le hb))
        (uncorr_lt_pole b hi hhi hb) hab

/-! ## 2. the grid on the scale -/

/-- position `t` (in steps) on the scale: `scale_low + scale_delta * t` -/
noncomputable def gridPos (sc : Scale ℝ) (lo hi : ℝ) (n : ℕ) (t : ℝ) : ℝ :=
  sc.h2s lo + (sc.h2s hi - sc.h2s lo) / ((n:ℝ) + 1) * t

/-- the step `scale_delta` -/
noncomputable def gridStep (sc : Scale ℝ) (lo hi : ℝ) (n : ℕ) : ℝ := (sc.h2s hi - sc.h2s lo) / ((n:ℝ) + 1)

theorem gridPos_eq (sc : Scale ℝ) (lo hi : ℝ) (n : ℕ) (t : ℝ) :
    gridPos sc lo hi n t = sc.h2s lo + t * gridStep sc lo hi n := by
  unfold gridPos gridStep; ring

theorem tri_vertex_eq (sc : Scale ℝ) (lo hi : ℝ) (n : ℕ) (t : ℝ) :
    tri_vertex sc.h2s sc.s2h lo hi n t = sc.s2h (gridPos sc lo hi n t) := by
  simp only [tri_vertex, gridPos]; norm_num

theorem fbank_vertex_eq (lo hi : ℝ) (n : ℕ) (t : ℝ) :
    fbank_vertex lo hi n t = (Scale.mel : Scale ℝ).s2h (gridPos .mel lo hi n t) := by
  simp only [fbank_vertex, gridPos, Scale.s2h, Scale.h2s]; norm_num

theorem gabor_edge_eq (sc : Scale ℝ) (lo hi : ℝ) (n : ℕ) (t : ℝ) :
    gabor_edge sc.h2s sc.s2h lo hi n t = sc.s2h (gridPos sc lo hi n (t + 1/2)) := by
  simp only [gabor_edge, gridPos]; norm_num

theorem gammatone_edge_eq (sc : Scale ℝ) (lo hi : ℝ) (n : ℕ) (t : ℝ) :
    gammatone_edge sc.h2s sc.s2h lo hi n t = sc.s2h (gridPos sc lo hi n (t + 1/2)) := by
  simp only [gammatone_edge, gridPos]; norm_num

section Grid
variable {sc : Scale ℝ} {lo hi : ℝ} (ok : ScaleOK sc lo hi) (hlt : lo < hi) (n : ℕ)
include ok hlt

theorem gridStep_pos : 0 < gridStep sc lo hi n := by
  unfold gridStep
  have := ok.h2s_lt lo hi le_rfl hlt
  have hn : (0:ℝ) < (n:ℝ) + 1 := by positivity
  exact div_pos (by linarith) hn

theorem gridPos_le_top (t : ℝ) (ht : t ≤ (n:ℝ) + 1) : gridPos sc lo hi n t ≤ sc.h2s hi := by
  have hn : (0:ℝ) < (n:ℝ) + 1 := by positivity
  have hs := gridStep_pos ok hlt n
  rw [gridPos_eq]
  have : ((n:ℝ) + 1) * gridStep sc lo hi n = sc.h2s hi - sc.h2s lo := by
    unfold gridStep; field_simp
  nlinarith

omit ok hlt in
theorem gridPos_top : gridPos sc lo hi n ((n:ℝ) + 1) = sc.h2s hi := by
  have hn : ((n:ℝ) + 1) ≠ 0 := by positivity
  unfold gridPos; field_simp; ring

omit ok hlt in
theorem gridPos_zero : gridPos sc lo hi n 0 = sc.h2s lo := by
  unfold gridPos; ring

theorem gridPos_lt (s t : ℝ) (hst : s < t) : gridPos sc lo hi n s < gridPos sc lo hi n t := by
  have hs := gridStep_pos ok hlt n
  rw [gridPos_eq, gridPos_eq]; nlinarith

/-- **Equal spacing.**  Going back to the scale from the Hz value placed at step `t` gives exactly
`scale_low + t * scale_delta`, for every (real) step `t ≤ num_filts + 1` — vertices are `t = 0, 1, …`,
Gabor / gammatone edges are `t = 1/2, 3/2, …`. -/
theorem edges_equally_spaced (t : ℝ) (ht : t ≤ (n:ℝ) + 1) :
    sc.h2s (sc.s2h (gridPos sc lo hi n t)) = sc.h2s lo + t * gridStep sc lo hi n := by
  rw [ok.right_inv _ (gridPos_le_top ok hlt n t ht), gridPos_eq]

/-- the first position is `low_hz`, the last is `high_hz` -/
theorem vertex_ends :
    sc.s2h (gridPos sc lo hi n 0) = lo ∧ sc.s2h (gridPos sc lo hi n ((n:ℝ) + 1)) = hi := by
  rw [gridPos_zero, gridPos_top]
  exact ⟨ok.left_inv lo le_rfl, ok.left_inv hi hlt.le⟩

/-- Hz values placed on the grid are strictly increasing in the step -/
theorem grid_hz_strictMono (s t : ℝ) (hst : s < t) (ht : t ≤ (n:ℝ) + 1) :
    sc.s2h (gridPos sc lo hi n s) < sc.s2h (gridPos sc lo hi n t) :=
  ok.s2h_lt _ _ (gridPos_lt ok hlt n s t hst) (gridPos_le_top ok hlt n t ht)

end Grid

end PdsVerif.C05

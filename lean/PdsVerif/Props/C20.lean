/-
  C20 — windows and helper functions follow their documented closed forms.

  The theorems are about
  * `PdsVerif/Generated/UtilFns.lean` — regenerated from `util.py` / `filters.py` on every run
    (`hertz_to_angular`, `angular_to_hertz`, the whole Odeh–Evans body, each window's NumPy shape and
    normaliser, `GammaWindow`'s `alpha`, branch test, `offs`, `ln_c`, kernel), instantiated at `ℝ`;
  * `PdsVerif/Model/Windows.lean` and `PdsVerif/Model/Circshift.lean` — the hand-written list / index
    plumbing around them (the same definitions the driver runs at `Float`).
  Helper lemmas live in `PdsVerif/Lemmas/C20*.lean`.
-/
import PdsVerif.Lemmas.C20Windows
import PdsVerif.Lemmas.C20Gamma
import PdsVerif.Lemmas.C20Circshift
import PdsVerif.Lemmas.C20Gauss

namespace PdsVerif.C20
open PdsVerif PdsVerif.Gen.UtilFns PdsVerif.Model.Windows PdsVerif.Model.Circshift Set

/-! ## 1. Windows: length -/

/-- every NumPy-based window has exactly `width` samples — for *every* width (0 and 1 included) and over
every numeric type the model is run at (`Float`, `ℝ`) -/
theorem window_len {α : Type} [Add α] [Sub α] [Mul α] [Div α] [OfScientific α] [LE α] [DecidableLE α]
    [Transc α] [NatCast α] [Max α] (k : Kind) (width : ℕ) : (window (α := α) k width).length = width :=
  Win.window_length k width

/-- `GammaWindow`: whenever it returns, it returns `width` samples … -/
theorem gamma_window_len {α : Type} [Add α] [Sub α] [Mul α] [Div α] [Neg α] [OfScientific α] [LT α]
    [DecidableLT α] [Transc α] [NatCast α] (order : ℕ) (peak : α) (width : ℕ) (l : List α)
    (h : gamma order peak width = .ok l) : l.length = width :=
  Win.gamma_length order peak width l h

/-- … and it returns unless `order = 0` meets `width ≥ 2` (`math.factorial(-1)`). -/
theorem gamma_window_raises_iff (order : ℕ) (peak : ℝ) (width : ℕ) :
    gamma order peak width = .error .valueError ↔ (order = 0 ∧ 2 ≤ width) := by
  unfold gamma
  split_ifs with h1 h2 h3 <;> simp <;> omega

example : (window (α := ℝ) .hann 0).length = 0 ∧ (window (α := ℝ) .blackman 1).length = 1 :=
  ⟨window_len _ _, window_len _ _⟩
example : gamma (α := ℝ) 0 0.75 2 = .error .valueError := (gamma_window_raises_iff 0 0.75 2).mpr ⟨rfl, le_refl 2⟩
example : gamma (α := ℝ) 0 0.75 1 = .ok [1.0] := rfl

/-! ## 2. Windows: non-negativity (over `ℝ`) -/

theorem bartlett_nonneg (width : ℕ) : ∀ x ∈ window (α := ℝ) .bartlett width, 0 ≤ x := Win.window_nonneg _ _
theorem blackman_nonneg (width : ℕ) : ∀ x ∈ window (α := ℝ) .blackman width, 0 ≤ x := Win.window_nonneg _ _
theorem hamming_nonneg (width : ℕ) : ∀ x ∈ window (α := ℝ) .hamming width, 0 ≤ x := Win.window_nonneg _ _
theorem hann_nonneg (width : ℕ) : ∀ x ∈ window (α := ℝ) .hann width, 0 ≤ x := Win.window_nonneg _ _

/-- the textbook form of the Blackman inequality: `0.42 − 0.5 cos θ + 0.08 cos 2θ = 0.16 (1 − cos θ)(2.125 − cos θ) ≥ 0` -/
theorem blackman_poly_nonneg (θ : ℝ) : 0 ≤ 0.42 - 0.5 * Real.cos θ + 0.08 * Real.cos (2 * θ) := by
  rw [Real.cos_two_mul]
  have h2 := Real.cos_le_one θ
  nlinarith [mul_nonneg (by linarith : (0:ℝ) ≤ 1 - Real.cos θ) (by linarith : (0:ℝ) ≤ 2.125 - Real.cos θ)]

/-- every `GammaWindow` sample is non-negative -/
theorem gamma_nonneg (order : ℕ) (peak : ℝ) (width : ℕ) (l : List ℝ)
    (h : gamma order peak width = .ok l) : ∀ x ∈ l, 0 ≤ x := by
  unfold gamma at h
  split_ifs at h with h1 h2 h3
  · cases h; simp
  · cases h; intro x hx; simp at hx; rw [hx]; norm_num
  · cases h
    intro x hx
    simp only [List.mem_map, List.mem_range] at hx
    obtain ⟨k, _, rfl⟩ := hx
    unfold gammaSample
    simp only []
    split_ifs
    · simp only [gamma_kernel, transc_rpow, transc_exp]
      exact mul_nonneg (Real.rpow_nonneg (Nat.cast_nonneg _) _) (Real.exp_pos _).le
    · exact Nat.cast_nonneg _

/-! ## 3. Windows: the shape divided by its closed-form area, and what the samples then sum to -/

/-- The classes divide NumPy's shape by a *closed form* (not by the actual sum): for `width ≥ 2` the
generated normalisers are `(width−1)/2`, `0.42(width−1)`, `0.54(width−1)`, `0.5(width−1)`. -/
theorem norms_closed_form {width : ℕ} (hw : 2 ≤ width) :
    normOf (α := ℝ) .bartlett width = ((width : ℝ) - 1) / 2 ∧
    normOf (α := ℝ) .blackman width = 0.42 * ((width : ℝ) - 1) ∧
    normOf (α := ℝ) .hamming width = 0.54 * ((width : ℝ) - 1) ∧
    normOf (α := ℝ) .hann width = 0.5 * ((width : ℝ) - 1) := by
  simp only [normOf, bartlett_norm, blackman_norm, hamming_norm, hann_norm, Win.max_one_sub hw]
  norm_num

/-- which NumPy shape each class calls (generated) -/
theorem shapes : shapeOf .bartlett = .bartlett ∧ shapeOf .blackman = .blackman ∧
    shapeOf .hamming = .hamming ∧ shapeOf .hann = .hanning := ⟨rfl, rfl, rfl, rfl⟩

/-- Hann: `Σ_k (0.5 − 0.5cos(2πk/(N−1))) = 0.5(N−1)` exactly (roots-of-unity sum), so the samples sum to 1. -/
theorem hann_sum {width : ℕ} (hw : 3 ≤ width) : (window (α := ℝ) .hann width).sum = 1 := by
  obtain ⟨L, rfl⟩ : ∃ L, width = L + 1 := ⟨width - 1, by omega⟩
  have hL : (0:ℝ) < L := by exact_mod_cast (by omega : 0 < L)
  have hL' : (L:ℝ) ≠ 0 := hL.ne'
  have eL : ((L + 1 : ℕ) : ℝ) - 1 = L := by push_cast; ring
  rw [Win.window_sum_eq _ (by omega), (norms_closed_form (by omega)).2.2.2]
  show (∑ i ∈ Finset.range (L + 1), npSample (α := ℝ) hann_shape (L + 1) i) / _ = 1
  rw [show hann_shape = NpShape.hanning from rfl, Win.hann_shape_sum (by omega), eL]
  field_simp

/-- Blackman: both harmonics cancel for `N−1 ≥ 3`; the sum is exactly 1. -/
theorem blackman_sum {width : ℕ} (hw : 4 ≤ width) : (window (α := ℝ) .blackman width).sum = 1 := by
  obtain ⟨L, rfl⟩ : ∃ L, width = L + 1 := ⟨width - 1, by omega⟩
  have hL : (0:ℝ) < L := by exact_mod_cast (by omega : 0 < L)
  have hL' : (L:ℝ) ≠ 0 := hL.ne'
  have eL : ((L + 1 : ℕ) : ℝ) - 1 = L := by push_cast; ring
  rw [Win.window_sum_eq _ (by omega), (norms_closed_form (by omega)).2.1]
  show (∑ i ∈ Finset.range (L + 1), npSample (α := ℝ) blackman_shape (L + 1) i) / _ = 1
  rw [show blackman_shape = NpShape.blackman from rfl, Win.blackman_shape_sum (by omega), eL]
  field_simp

/-- Hamming: the end samples `0.08` are not cancelled: `Σ = 1 + 0.08 / (0.54 (N−1))`. -/
theorem hamming_sum {width : ℕ} (hw : 3 ≤ width) :
    (window (α := ℝ) .hamming width).sum = 1 + 0.08 / (0.54 * ((width : ℝ) - 1)) := by
  obtain ⟨L, rfl⟩ : ∃ L, width = L + 1 := ⟨width - 1, by omega⟩
  have hL : (0:ℝ) < L := by exact_mod_cast (by omega : 0 < L)
  have hL' : (L:ℝ) ≠ 0 := hL.ne'
  have eL : ((L + 1 : ℕ) : ℝ) - 1 = L := by push_cast; ring
  rw [Win.window_sum_eq _ (by omega), (norms_closed_form (by omega)).2.2.1]
  show (∑ i ∈ Finset.range (L + 1), npSample (α := ℝ) hamming_shape (L + 1) i) / _ = _
  rw [show hamming_shape = NpShape.hamming from rfl, Win.hamming_shape_sum (by omega), eL]
  field_simp

theorem hamming_sum_bound {width : ℕ} (hw : 3 ≤ width) :
    |(window (α := ℝ) .hamming width).sum - 1| ≤ 1 / (width : ℝ) := by
  rw [hamming_sum hw]
  have h3 : (3:ℝ) ≤ width := by exact_mod_cast hw
  have hpos : (0:ℝ) < 0.54 * ((width : ℝ) - 1) := by nlinarith
  rw [add_sub_cancel_left, abs_of_pos (div_pos (by norm_num) hpos), div_le_div_iff₀ hpos (by linarith)]
  nlinarith

/-- Bartlett: exactly 1 for odd widths, `1 − 1/(N−1)²` for even widths. -/
theorem bartlett_sum {width : ℕ} (hw : 2 ≤ width) :
    (window (α := ℝ) .bartlett width).sum
      = if (width - 1) % 2 = 0 then 1 else 1 - 1 / ((width : ℝ) - 1) ^ 2 := by
  obtain ⟨L, rfl⟩ : ∃ L, width = L + 1 := ⟨width - 1, by omega⟩
  have hL0 : L ≠ 0 := by omega
  have hL : (0:ℝ) < L := by exact_mod_cast (by omega : 0 < L)
  have hL' : (L:ℝ) ≠ 0 := hL.ne'
  have eL : ((L + 1 : ℕ) : ℝ) - 1 = L := by push_cast; ring
  rw [Win.window_sum_eq _ (by omega), (norms_closed_form (by omega)).1]
  show (∑ i ∈ Finset.range (L + 1), npSample (α := ℝ) bartlett_shape (L + 1) i) / _ = _
  rw [show bartlett_shape = NpShape.bartlett from rfl, Win.bartlett_shape_sum hL0]
  have hT := Win.T_closed L
  have e : L + 1 - 1 = L := by omega
  rw [e, eL]
  split_ifs with hpar
  · rw [if_pos hpar] at hT
    have : Win.T L = (((L : ℝ) + 1) ^ 2 - 1) / 2 := by linarith
    rw [this]; field_simp; ring
  · rw [if_neg hpar] at hT
    have : Win.T L = (((L : ℝ) + 1) ^ 2) / 2 := by linarith
    rw [this]; field_simp; ring

theorem bartlett_sum_bound {width : ℕ} (hw : 2 ≤ width) :
    |(window (α := ℝ) .bartlett width).sum - 1| ≤ 2 / (width : ℝ) := by
  rw [bartlett_sum hw]
  have h2 : (2:ℝ) ≤ width := by exact_mod_cast hw
  split_ifs
  · simp; positivity
  · have hpos : (0:ℝ) < ((width : ℝ) - 1) ^ 2 := by nlinarith
    rw [sub_sub_cancel_left, abs_neg, abs_of_pos (div_pos one_pos hpos), div_le_div_iff₀ hpos (by linarith)]
    nlinarith

/-- **"sum to 1 up to O(1/width)" at full strength**: for every class and *every* width ≥ 1
(width 1 gives `[1/c]`; width 2 gives `[0,0]` for Hann/Blackman/Bartlett; Blackman width 3 gives `1/0.84`). -/
theorem window_sum_bound (k : Kind) {width : ℕ} (hw : 1 ≤ width) :
    |(window (α := ℝ) k width).sum - 1| ≤ 2 / (width : ℝ) := by
  have hwpos : (0:ℝ) < width := by exact_mod_cast hw
  rcases Nat.lt_or_ge width 2 with h | h2
  · -- width = 1
    have : width = 1 := by omega
    subst this
    rw [Win.window_one]
    cases k <;>
      simp only [normOf, bartlett_norm, blackman_norm, hamming_norm, hann_norm, List.sum_cons, List.sum_nil] <;>
      norm_num [abs_le]
  · rcases Nat.lt_or_ge width 3 with h | h3
    · -- width = 2
      have : width = 2 := by omega
      subst this
      have nf := norms_closed_form (width := 2) (le_refl 2)
      have e1 : (∑ i ∈ Finset.range 2, npSample (α := ℝ) .hanning 2 i) = 0 := Win.shape_sum_two.1
      have e2 : (∑ i ∈ Finset.range 2, npSample (α := ℝ) .hamming 2 i) = 0.16 := Win.shape_sum_two.2.1
      have e3 : (∑ i ∈ Finset.range 2, npSample (α := ℝ) .blackman 2 i) = 0 := Win.shape_sum_two.2.2
      cases k
      · exact bartlett_sum_bound (le_refl 2)
      · rw [Win.window_sum_eq _ (le_refl 2), nf.2.1]
        show |(∑ i ∈ Finset.range 2, npSample (α := ℝ) .blackman 2 i) / _ - 1| ≤ _
        rw [e3]; norm_num
      · rw [Win.window_sum_eq _ (le_refl 2), nf.2.2.1]
        show |(∑ i ∈ Finset.range 2, npSample (α := ℝ) .hamming 2 i) / _ - 1| ≤ _
        rw [e2]; norm_num [abs_le]
      · rw [Win.window_sum_eq _ (le_refl 2), nf.2.2.2]
        show |(∑ i ∈ Finset.range 2, npSample (α := ℝ) .hanning 2 i) / _ - 1| ≤ _
        rw [e1]; norm_num
    · have h3' : (3:ℝ) ≤ width := by exact_mod_cast h3
      have hpos2 : (0:ℝ) ≤ 2 / (width : ℝ) := by positivity
      cases k
      · exact bartlett_sum_bound h2
      · rcases Nat.lt_or_ge width 4 with h | h4
        · have : width = 3 := by omega
          subst this
          have nf := norms_closed_form (width := 3) (by norm_num)
          have e : (∑ i ∈ Finset.range 3, npSample (α := ℝ) .blackman 3 i) = 1 := Win.blackman_shape_sum_three
          rw [Win.window_sum_eq _ (by norm_num), nf.2.1]
          show |(∑ i ∈ Finset.range 3, npSample (α := ℝ) .blackman 3 i) / _ - 1| ≤ _
          rw [e]; norm_num [abs_le]
        · rw [blackman_sum h4]; simpa using hpos2
      · have := hamming_sum_bound h3
        have h12 : 1 / (width : ℝ) ≤ 2 / (width : ℝ) := by
          rw [div_le_div_iff_of_pos_right hwpos]; norm_num
        linarith
      · rw [hann_sum h3]; simpa using hpos2

example : (window (α := ℝ) .hann 400).sum = 1 := hann_sum (by norm_num)
example : (window (α := ℝ) .blackman 4).sum = 1 := blackman_sum (by norm_num)
example : (window (α := ℝ) .bartlett 4).sum = 1 - 1 / 9 := by
  rw [bartlett_sum (by norm_num)]; norm_num
example : (window (α := ℝ) .bartlett 401).sum = 1 := by
  rw [bartlett_sum (by norm_num)]; norm_num

/-! ## 4. GammaWindow: reflected gamma density with its mode at `peak × width` -/

/-- For `width ≥ 2`, `order ≥ 1`, *every* sample (the untouched last one included when `order ≥ 2`) is the
kernel `e^{ln_c} · t^(n−1) · e^{−αt}` at the reversed time `t = width−1−k`. -/
theorem gamma_sample_kernel {order : ℕ} (ho : 1 ≤ order) (peak : ℝ) {width k : ℕ} (hk : k < width) :
    gammaSample (α := ℝ) order peak width k =
      gamma_kernel (α := ℝ) order (gamma_alpha (α := ℝ) order peak width)
        (gamma_ln_c (α := ℝ) order (gamma_alpha (α := ℝ) order peak width) ((fact (order - 1) : ℕ) : ℝ))
        ((width - 1 - k : ℕ) : ℝ) := by
  unfold gammaSample
  simp only []
  split_ifs with h
  · rfl
  · -- only reached for order ≥ 2 and k = width − 1, where t = 0 and the kernel is 0 as well
    have hoffs : gamma_offs (α := ℝ) (order : ℝ) width = if 1 < order then width - 1 else width := by
      unfold gamma_offs; rw [Gam.hi_iff]; simp
    rw [hoffs] at h
    split_ifs at h with h1
    · have hk' : width - 1 - k = 0 := by omega
      rw [hk', Gam.kernel_real ho]
      have : order - 1 ≠ 0 := by omega
      simp [this]
    · omega

/-- the samples are the gamma density `α^n/(n−1)! · t^(n−1) e^{−αt}`, time-reversed (`t = width−1−k`) -/
theorem gamma_density_form {order : ℕ} (ho : 2 ≤ order) {peak : ℝ} {width k : ℕ} (hk : k < width)
    (hp : peak * (width : ℝ) < width) :
    gammaSample (α := ℝ) order peak width k =
      (gamma_alpha (α := ℝ) order peak width) ^ order / ((order - 1).factorial : ℝ)
        * (((width - 1 - k : ℕ) : ℝ) ^ (order - 1)
            * Real.exp (-(gamma_alpha (α := ℝ) order peak width) * ((width - 1 - k : ℕ) : ℝ))) := by
  rw [gamma_sample_kernel (by omega) peak hk, Gam.kernel_real (by omega), Gam.exp_ln_c (Gam.alpha_pos ho hp)]

/-- **mode**: with the code's `α = (n−1)/(width − peak·width)`, no time `t ≥ 0` gives a larger kernel value
than `t* = width − peak·width = (n−1)/α`, i.e. than sample position `k* = width−1−t* = peak·width − 1`. -/
theorem gamma_window_mode {order : ℕ} (ho : 2 ≤ order) {peak : ℝ} {width : ℕ}
    (hp : peak * (width : ℝ) < width) (lnc t : ℝ) (ht : 0 ≤ t) :
    gamma_kernel (α := ℝ) order (gamma_alpha (α := ℝ) order peak width) lnc t
      ≤ gamma_kernel (α := ℝ) order (gamma_alpha (α := ℝ) order peak width) lnc ((width : ℝ) - peak * width) := by
  have ha := Gam.alpha_pos ho hp
  rw [Gam.kernel_real (by omega), Gam.kernel_real (by omega), ← Gam.mode_location ho hp]
  exact mul_le_mul_of_nonneg_left (Gam.kernel_le_mode (by omega) ha ht) (Real.exp_pos _).le

/-- every sample is bounded by the kernel at the mode -/
theorem gamma_samples_le_mode {order : ℕ} (ho : 2 ≤ order) {peak : ℝ} {width k : ℕ} (hk : k < width)
    (hp : peak * (width : ℝ) < width) :
    gammaSample (α := ℝ) order peak width k ≤
      gamma_kernel (α := ℝ) order (gamma_alpha (α := ℝ) order peak width)
        (gamma_ln_c (α := ℝ) order (gamma_alpha (α := ℝ) order peak width) ((fact (order - 1) : ℕ) : ℝ))
        ((width : ℝ) - peak * width) := by
  rw [gamma_sample_kernel (by omega) peak hk]
  exact gamma_window_mode ho hp _ _ (Nat.cast_nonneg _)

/-- **unimodal**: samples do not decrease up to index `peak·width − 1` and do not increase after it, so the
largest *sample* is at `⌊peak·width − 1⌋` or `⌈peak·width − 1⌉` (what the oracle checks as "± 1 sample"). -/
theorem gamma_window_unimodal {order : ℕ} (ho : 2 ≤ order) {peak : ℝ} {width k₁ k₂ : ℕ}
    (hp : peak * (width : ℝ) < width) (h12 : k₁ ≤ k₂) (h2 : k₂ < width) :
    ((k₂ : ℝ) ≤ peak * width - 1 →
        gammaSample (α := ℝ) order peak width k₁ ≤ gammaSample (α := ℝ) order peak width k₂) ∧
    (peak * width - 1 ≤ (k₁ : ℝ) →
        gammaSample (α := ℝ) order peak width k₂ ≤ gammaSample (α := ℝ) order peak width k₁) := by
  have ha := Gam.alpha_pos ho hp
  have hm := Gam.mode_location ho hp
  have c1 : ((width - 1 - k₁ : ℕ) : ℝ) = (width : ℝ) - 1 - k₁ := by
    rw [Nat.cast_sub (by omega), Nat.cast_sub (by omega)]; norm_num
  have c2 : ((width - 1 - k₂ : ℕ) : ℝ) = (width : ℝ) - 1 - k₂ := by
    rw [Nat.cast_sub (by omega), Nat.cast_sub (by omega)]; norm_num
  have hk : (k₁ : ℝ) ≤ k₂ := by exact_mod_cast h12
  have hw : (k₂ : ℝ) + 1 ≤ width := by exact_mod_cast h2
  rw [gamma_sample_kernel (by omega) peak (by omega), gamma_sample_kernel (by omega) peak h2,
    Gam.kernel_real (by omega), Gam.kernel_real (by omega), c1, c2]
  constructor
  · intro h
    apply mul_le_mul_of_nonneg_left _ (Real.exp_pos _).le
    -- both times are ≥ the mode: decreasing in t, t₁ ≥ t₂
    exact Gam.kernel_anti_after (by omega) ha (by rw [hm]; linarith) (by linarith)
  · intro h
    apply mul_le_mul_of_nonneg_left _ (Real.exp_pos _).le
    exact Gam.kernel_mono_before ha (by linarith) (by linarith) (by rw [hm]; linarith)

example : gamma_alpha (α := ℝ) (4 : ℕ) 0.75 (400 : ℕ) = 0.03 := by
  rw [Gam.alpha_hi (by norm_num)]; norm_num
example : ((4 - 1 : ℕ) : ℝ) / gamma_alpha (α := ℝ) (4 : ℕ) 0.75 (400 : ℕ) = 400 - 0.75 * 400 := by
  have := Gam.mode_location (order := 4) (peak := 0.75) (w := ((400 : ℕ) : ℝ)) (by norm_num) (by norm_num)
  simpa using this

/-! ## 5. circshift_fourier -/

open Circ in
/-- **DFT shift theorem at index level.**  Whatever the segment, integer shift (negative, larger than `D`),
start index, and DFT size (given, or defaulted to `start + len`): the inverse DFT of the returned spectrum,
at every time `n`, is the inverse DFT of the input at time `(n − shift) mod D` — a circular shift by `shift`.
The factor is exactly the code's `exp(-2j*pi*(shift % D)/D * ((start+j) % D))` (`Circ.mulPhaseC`, which
`Circ.mulPhasePair_real_eq` identifies with the `(cos, sin)` pair the driver runs at `Float`). -/
theorem circshift_spec (filt : List ℂ) (shift : ℤ) (start : ℕ) (dft : Option ℕ) (copy c128 : Bool)
    (p : Plan) (r : Result ℂ)
    (hp : plan filt.length shift start dft = .ok p)
    (hr : run mulPhaseC filt shift start dft copy c128 = .ok r) (n : ℤ) :
    idftSeg p.D p.ks r.out n = idftSeg p.D p.ks filt ((n - shift) % (p.D : ℤ)) := by
  unfold plan at hp
  simp only [] at hp
  split_ifs at hp with hD
  cases hp
  have hrun : r.out = List.zipWith (fun x k => mulPhaseC x (shiftRed shift (dftSize filt.length start dft))
      (dftSize filt.length start dft) k) filt (bins filt.length start (dftSize filt.length start dft)) := by
    unfold run plan at hr
    simp only [if_neg hD] at hr
    split_ifs at hr <;> cases hr <;> rfl
  simp only [hrun, shiftRed]
  rw [idftSeg_shift _ hD, idftSeg_emod _ hD]

/-- the `(cos θ, sin θ)` pair arithmetic the driver runs at `Float` is, at `ℝ`, multiplication by the
complex exponential `circshift_spec` is about -/
theorem circshift_model_phase (x : ℂ) (s : ℤ) (D k : ℕ) :
    (⟨(mulPhasePair (α := ℝ) (x.re, x.im) s D k).1, (mulPhasePair (α := ℝ) (x.re, x.im) s D k).2⟩ : ℂ)
      = Circ.mulPhaseC x s D k := Circ.mulPhasePair_real_eq x s D k

/-- the documented default: `dft_size=None` behaves exactly as `dft_size = start_idx + len(filt)` -/
theorem circshift_default_size {β : Type} (f : β → ℤ → ℕ → ℕ → β) (filt : List β) (shift : ℤ) (start : ℕ)
    (copy c128 : Bool) :
    run f filt shift start none copy c128 = run f filt shift start (some (filt.length + start)) copy c128 := rfl

/-- `copy=True` (or a non-`complex128` input) leaves the caller's array untouched and returns a new one -/
theorem circshift_copy_pure {β : Type} (f : β → ℤ → ℕ → ℕ → β) (filt : List β) (shift : ℤ) (start : ℕ)
    (dft : Option ℕ) (copy c128 : Bool) (r : Result β) (hc : copy = true ∨ c128 = false)
    (hr : run f filt shift start dft copy c128 = .ok r) : r.filtAfter = filt ∧ r.sameObject = false := by
  unfold run at hr
  split at hr
  · cases hr
  · have : (copy || !c128) = true := by rcases hc with h | h <;> simp [h]
    simp only [this, if_true] at hr
    cases hr; exact ⟨rfl, rfl⟩

/-- `copy=False` on a `complex128` array works in place: the caller's array *is* the result -/
theorem circshift_inplace {β : Type} (f : β → ℤ → ℕ → ℕ → β) (filt : List β) (shift : ℤ) (start : ℕ)
    (dft : Option ℕ) (r : Result β)
    (hr : run f filt shift start dft false true = .ok r) : r.filtAfter = r.out ∧ r.sameObject = true := by
  unfold run at hr
  split at hr
  · cases hr
  · simp at hr; cases hr; exact ⟨rfl, rfl⟩

/-- the call fails (`ZeroDivisionError` at `shift %= dft_size`) exactly when the DFT size is 0 -/
theorem circshift_raises_iff (len : ℕ) (shift : ℤ) (start : ℕ) (dft : Option ℕ) :
    plan len shift start dft = .error .zeroDivision ↔ dftSize len start dft = 0 := by
  unfold plan; simp only []; split_ifs with h <;> simp [h]

/-- shape of a successful call: one output per input, bins in `[0, D)`, reduced shift in `[0, D)` -/
theorem circshift_plan_bounds (len : ℕ) (shift : ℤ) (start : ℕ) (dft : Option ℕ) (p : Plan)
    (hp : plan len shift start dft = .ok p) :
    p.D = dftSize len start dft ∧ 0 < p.D ∧ p.ks.length = len ∧ (∀ k ∈ p.ks, k < p.D) ∧
      0 ≤ p.s ∧ p.s < p.D ∧ (p.D : ℤ) ∣ (shift - p.s) := by
  unfold plan at hp; simp only [] at hp
  split_ifs at hp with hD
  cases hp
  have hpos : 0 < dftSize len start dft := Nat.pos_of_ne_zero hD
  have hposz : (0:ℤ) < (dftSize len start dft : ℤ) := by exact_mod_cast hpos
  refine ⟨rfl, hpos, by simp [bins], ?_, Int.emod_nonneg _ hposz.ne', Int.emod_lt_of_pos _ hposz, ?_⟩
  · intro k hk
    simp only [bins, List.mem_map] at hk
    obtain ⟨a, _, rfl⟩ := hk
    exact Nat.mod_lt _ hpos
  · simp only [shiftRed]; exact ⟨shift / (dftSize len start dft : ℤ), by rw [Int.emod_def]; ring⟩

theorem circshift_out_len {β : Type} (f : β → ℤ → ℕ → ℕ → β) (filt : List β) (shift : ℤ) (start : ℕ)
    (dft : Option ℕ) (copy c128 : Bool) (r : Result β)
    (hr : run f filt shift start dft copy c128 = .ok r) : r.out.length = filt.length := by
  unfold run at hr
  split at hr
  · cases hr
  · rename_i p hp
    have hlen := (circshift_plan_bounds _ _ _ _ p hp).2.2.1
    split_ifs at hr <;> cases hr <;> simp [hlen]

open Circ in
/-- The documented one-liner `circshift_fourier(X, shift)` on a full spectrum, in textbook form:
`idft(out)[n] = idft(X)[(n − shift) mod D]` with `idft Y n = (1/D) Σ_{k<D} Y[k] e^{2πikn/D}`. -/
theorem circshift_spec_fullband (X : List ℂ) (shift : ℤ) (copy c128 : Bool) (r : Result ℂ)
    (hr : run mulPhaseC X shift 0 none copy c128 = .ok r) (n : ℤ) :
    idft r.out n = idft X ((n - shift) % (X.length : ℤ)) := by
  have hlen := circshift_out_len _ _ _ _ _ _ _ r hr
  have hD : X.length ≠ 0 := by
    intro h0
    unfold run plan at hr
    simp [dftSize, h0] at hr
  have hp : plan X.length shift 0 none = .ok ⟨X.length, shiftRed shift X.length, bins X.length 0 X.length⟩ := by
    unfold plan; simp [dftSize, hD]
  have := circshift_spec X shift 0 none copy c128 _ r hp hr n
  simp only [] at this
  rw [idftSeg_fullband] at this
  rw [← this, ← hlen, idftSeg_fullband]

example : ∃ r, run Circ.mulPhaseC [1, Complex.I, 2] (-7) 2 none true true = .ok r := ⟨_, rfl⟩
example : ∃ r, run Circ.mulPhaseC [1, Complex.I, 2] 5 0 none false true = .ok r ∧ r.sameObject = true := ⟨_, rfl, rfl⟩
-- non-vacuity: a defaulted call on a 3-bin segment starting at bin 2, shift −7 (so D = 5, s' = 3)
example : plan 3 (-7) 2 none = .ok ⟨5, 3, [2, 3, 4]⟩ := by decide
example : plan 3 12 4 (some 5) = .ok ⟨5, 2, [4, 0, 1]⟩ := by decide
example : plan 0 1 0 none = .error .zeroDivision := by decide
example : residues ⟨5, 3, [2, 3, 4]⟩ = [1, 4, 2] := by decide

/-! ## 6. gauss_quant (Odeh–Evans) -/

/-- the generated body is the published closed form (coefficients, cut-off `1e-20 → 10`, both sign rules) -/
theorem gauss_quant_closed_form (p mu std : ℝ) :
    gauss_quant_odeh_evans p mu std = Gauss.zOf p * std + mu := Gauss.closed_form p mu std

/-- affine in `mu`, `std` -/
theorem gauss_quant_affine (p mu std : ℝ) :
    gauss_quant_odeh_evans p mu std = mu + std * gauss_quant_odeh_evans p 0 1 := by
  rw [Gauss.closed_form, Gauss.closed_form]; ring

/-- the rational part `y ↦ y − N(y)/D(y)` is strictly increasing on `y ≥ 0` (all 25 coefficients of the
divided difference are positive) -/
theorem gauss_quant_rational_strictMono : StrictMonoOn Gauss.G (Ici 0) := Gauss.G_strictMonoOn

/-- non-decreasing in `p` on the whole open interval (cut-off plateaus included), for `std ≥ 0` -/
theorem gauss_quant_mono (mu std : ℝ) (hs : 0 ≤ std) :
    MonotoneOn (fun p => gauss_quant_odeh_evans p mu std) (Ioo 0 1) := by
  intro p1 h1 p2 h2 h12
  simp only [Gauss.closed_form]
  have := Gauss.zOf_mono h1.1 h12 h2.2
  nlinarith

/-- strictly increasing in `p` between the cut-offs, for `std > 0` -/
theorem gauss_quant_strictMono (mu std : ℝ) (hs : 0 < std) :
    StrictMonoOn (fun p => gauss_quant_odeh_evans p mu std) (Icc 1e-20 (1 - 1e-20)) := by
  intro p1 h1 p2 h2 h12
  simp only [Gauss.closed_form]
  have := Gauss.zOf_strictMono h1.1 h12 h2.2
  nlinarith

/-- antisymmetric about the median: `q(1−p) = −q(p)` for the standard quantile, `p ≠ 1/2` -/
theorem gauss_quant_antisymm (p : ℝ) (hp : p ≠ 0.5) :
    gauss_quant_odeh_evans (1 - p) 0 1 = -gauss_quant_odeh_evans p 0 1 := by
  rw [Gauss.closed_form, Gauss.closed_form]
  rcases lt_or_gt_of_ne hp with h | h
  · have e1 : Gauss.rOf (1 - p) = p := by
      unfold Gauss.rOf; rw [if_pos (by norm_num at h ⊢; linarith)]; norm_num
    have e2 : Gauss.rOf p = p := by unfold Gauss.rOf; rw [if_neg (by linarith)]
    unfold Gauss.zOf
    rw [if_neg (by norm_num at h ⊢; linarith), if_pos h, e1, e2]; ring
  · have e1 : Gauss.rOf (1 - p) = 1 - p := by
      unfold Gauss.rOf; rw [if_neg (by norm_num at h ⊢; linarith)]
    have e2 : Gauss.rOf p = 1 - p := by unfold Gauss.rOf; rw [if_pos h]; norm_num
    unfold Gauss.zOf
    rw [if_pos (by norm_num at h ⊢; linarith), if_neg (by linarith), e1, e2]; ring

example : (0.001:ℝ) ∈ Icc (1e-20:ℝ) (1 - 1e-20) ∧ (0.999:ℝ) ∈ Icc (1e-20:ℝ) (1 - 1e-20) := by
  constructor <;> constructor <;> norm_num
example : gauss_quant_odeh_evans (0.001:ℝ) 3 2 < gauss_quant_odeh_evans (0.999:ℝ) 3 2 :=
  gauss_quant_strictMono 3 2 (by norm_num) (by constructor <;> norm_num) (by constructor <;> norm_num) (by norm_num)

/-! ## 7. angular_to_hertz / hertz_to_angular -/

theorem ang_hz_inverse (f rate : ℝ) (hr : rate ≠ 0) :
    angular_to_hertz (hertz_to_angular f rate) rate = f := by
  simp only [angular_to_hertz, hertz_to_angular, transc_pi]
  have := Real.pi_ne_zero
  field_simp

theorem hz_ang_inverse (a rate : ℝ) (hr : rate ≠ 0) :
    hertz_to_angular (angular_to_hertz a rate) rate = a := by
  simp only [angular_to_hertz, hertz_to_angular, transc_pi]
  have := Real.pi_ne_zero
  field_simp

/-- the Nyquist frequency is `π` rad/sample -/
theorem nyquist_is_pi (rate : ℝ) (hr : rate ≠ 0) : hertz_to_angular (rate / 2) rate = Real.pi := by
  simp only [hertz_to_angular, transc_pi]; field_simp; norm_num

example : angular_to_hertz (hertz_to_angular (440:ℝ) 16000) 16000 = 440 := ang_hz_inverse _ _ (by norm_num)

end PdsVerif.C20

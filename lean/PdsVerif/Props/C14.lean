/-
  C14 — the PyTorch STFT module computes what the NumPy computer computes: index-level content.
  * framing: for every signal the symmetric-index padding + `as_strided` hands the spectrum exactly
    `compute_full`'s frames, and never reads outside its storage (`flip_pad_eq_symPad` is kept: the older
    flipped-slice padding equals it whenever neither pad exceeds the signal)
  * the port's segment walk (after the repair: positive-index mirrored slice, DFT-size parity) visits
    exactly the NumPy walk's (bin, conj, tap) triples for every DFT size / start / length
  * empty result: `(0, num_filts + include_energy)` columns on both sides
-/
import PdsVerif.Model.TorchStft
import PdsVerif.Lemmas.StftStream
import PdsVerif.Lemmas.Walk
import PdsVerif.Props.C02
namespace PdsVerif.C14
open PdsVerif.Model PdsVerif.Model.Stft PdsVerif.StftArith PdsVerif.StftCanon PdsVerif.Seg PdsVerif.SymIdx
set_option linter.unusedSectionVars false

variable {α : Type} [Inhabited α]

/-- single reflection by flipped slices is `np.pad(…, 'symmetric')` when neither pad exceeds the signal -/
theorem flip_pad_eq_symPad (x : List α) (pl pr : Nat) (hl : pl ≤ x.length) (hr : pr ≤ x.length) :
    (x.take pl).reverse ++ x ++ (x.drop (x.length - pr)).reverse = symPad x pl pr := by
  rw [symPad_eq_seg]
  apply List.ext_getElem
  · simp; omega
  · intro i h1 h2
    rw [seg_getElem]
    unfold ext
    have hlen1 : ((x.take pl).reverse).length = pl := by simp [hl]
    by_cases hi1 : i < pl
    · rw [List.getElem_append_left (by simp; omega), List.getElem_append_left (by simp; omega)]
      rw [symIdx_left _ _ (by omega) (by omega)]
      simp only [List.getElem_reverse, List.getElem_take, List.getD_eq_getElem?_getD]
      have : (-1 - (-(pl:Int) + i)).toNat < x.length := by omega
      rw [List.getElem?_eq_getElem this]
      simp only [Option.getD_some]
      congr 1; simp [hl]; omega
    · by_cases hi2 : i < pl + x.length
      · rw [List.getElem_append_left (by simp; omega), List.getElem_append_right (by simp; omega)]
        rw [symIdx_mid _ _ (by omega) (by omega)]
        simp only [List.getD_eq_getElem?_getD]
        have : (-(pl:Int) + i).toNat < x.length := by omega
        rw [List.getElem?_eq_getElem this]
        simp only [Option.getD_some]
        congr 1; simp [hl]; omega
      · rw [List.getElem_append_right (by simp; omega)]
        rw [symIdx_right _ _ (by omega) (by simp at h1; omega)]
        simp only [List.getElem_reverse, List.getElem_drop, List.getD_eq_getElem?_getD]
        have : (2 * (x.length:Int) - 1 - (-(pl:Int) + i)).toNat < x.length := by simp at h1; omega
        rw [List.getElem?_eq_getElem this]
        simp only [Option.getD_some]
        congr 1; simp [hl]; simp at h1; omega

theorem symPad_zero (x : List α) : symPad x 0 0 = x := by
  rw [symPad_eq_seg]
  apply List.ext_getElem (by simp)
  intro i h1 h2
  rw [seg_getElem]
  unfold ext
  rw [symIdx_mid _ _ (by omega) (by simp at h1; omega)]
  simp only [List.getD_eq_getElem?_getD]
  have : (-((0:Nat):Int) + (i:Int)).toNat = i := by omega
  rw [this, List.getElem?_eq_getElem h2]; rfl

/-- **torch_frames_eq_numpy.** For every signal long enough to yield a frame (`N ≥ L/2 + 1`; in particular the
property's `N ≥ frame_length`) the PyTorch framing succeeds (no read outside the storage) and yields exactly
`compute_full`'s frames. -/
theorem torch_frames_eq_numpy (c : Cfg) (hS : 0 < c.S) (x : List α) :
    TorchStft.frames c x = some (full c x) := by
  unfold TorchStft.frames full
  by_cases hshort : x.length < c.L / 2 + 1
  · simp [hshort]
  simp only [hshort, if_false]
  generalize hnf : (x.length + c.S / 2) / c.S = nf
  obtain ⟨d1, d2⟩ := div_facts (x.length + c.S / 2) c.S hS
  rw [hnf] at d1 d2
  by_cases hnf0 : nf = 0
  · subst hnf0; simp [TorchStft.asStrided, cut]
  have hnf1 : 1 ≤ nf := by omega
  have e : ((nf : Int) - 1) * c.S = (((nf - 1) * c.S : Nat) : Int) := by
    rw [Int.natCast_mul]; congr 1; omega
  rw [e]
  generalize hq : (nf - 1) * c.S = q at *
  generalize hpr : ((q : Int) - (padL c : Nat) + c.L - (x.length : Nat)).toNat = pr
  have hpad : (if padL c = 0 ∧ pr = 0 then x else symPad x (padL c) pr) = symPad x (padL c) pr := by
    split
    · rename_i h; rw [h.1, h.2, symPad_zero]
    · rfl
  rw [hpad]
  unfold TorchStft.asStrided cut
  have hlen : (symPad x (padL c) pr).length = padL c + x.length + pr := by simp [symPad]
  rw [hlen]
  have : nf = 0 ∨ (nf - 1) * c.S + c.L ≤ padL c + x.length + pr := by
    right; rw [hq, ← hpr]; omega
  rw [if_pos this]

/-- **torch_walk_eq_numpy_walk.** The port's walk equals the NumPy walk, hence (C02 `walk_covers`) the
specification, for every DFT size, start and length. -/
theorem torch_walk_eq_numpy_walk (D start len : Nat) : Walk.runTorch D start len = Walk.run D start len := by
  unfold Walk.runTorch Walk.run
  exact PdsVerif.WalkLemmas.loopTorch_eq_loop D len _ _ _ _

theorem torch_walk_covers (D start len : Nat) (hD : 0 < D) : Walk.runTorch D start len = Walk.spec D start len := by
  rw [torch_walk_eq_numpy_walk]
  unfold Walk.run
  rw [PdsVerif.WalkLemmas.loop_eq D len hD (Walk.fuelFor start len) start 0 false (Nat.zero_le _)
    (by simp [Walk.fuelFor])]
  rw [PdsVerif.WalkLemmas.spec_eq]
  simp [PdsVerif.WalkLemmas.base]

/-- **torch_empty_shape.** Too short a signal: zero frames on both sides (the column count
`num_filts + include_energy` is the same expression in both implementations). -/
theorem torch_empty (c : Cfg) (x : List α) (h : x.length < c.L / 2 + 1) :
    TorchStft.frames c x = some [] ∧ full c x = [] := by
  simp [TorchStft.frames, full, h]

/-- doubling commutes with the segment sum: per-segment `2·v` (PyTorch) vs `2·Σ` at the end (NumPy) -/
theorem doubling_commutes (vs : List Int) : (vs.map (2 * ·)).sum = 2 * vs.sum := by
  induction vs with
  | nil => simp
  | cons v t ih => simp only [List.map_cons, List.sum_cons, ih]; omega

/-! non-vacuity -/
example : WF { L := 4, S := 2, centered := true, kaldi := false } ∧ (4 : Nat) ≤ [1, 2, 3, 4, 5].length :=
  ⟨⟨by decide, by decide⟩, by decide⟩
example : TorchStft.frames { L := 4, S := 2, centered := true, kaldi := false } [1, 2, 3, 4, 5]
    = some (full { L := 4, S := 2, centered := true, kaldi := false } [1, 2, 3, 4, 5]) := by decide
/-- a signal shorter than a frame (but long enough for one): the padding reflects more than once -/
example : TorchStft.frames { L := 8, S := 1, centered := false, kaldi := false } [1, 2, 3, 4, 5]
    = some (full { L := 8, S := 1, centered := false, kaldi := false } [1, 2, 3, 4, 5]) := by decide


/-! ## the capstone for the port: the stored coefficient, in the property's words -/

open PdsVerif.Dft PdsVerif.Gen.FrameCoeff PdsVerif.FrameCoeffTie PdsVerif.C02 in
/-- **The PyTorch port stores the documented coefficient.**  The port's own statements (regenerated from
`pytorch_stft_frame_computer`: per-segment `square of the 2-norm` / `sum of magnitudes`, doubling of every segment for
real banks, `val = val + val_f`, `clamp_min(eps).log()` after stacking), run over the port's own segment walk
(`Walk.runTorch`, cut into segments in any way) on `rfft`'s half spectrum with conjugation on the mirrored pass, give

  `logFloor( (2 if real) · Σ_{b < D} |X[b] · H[b]|^p )`

— the same value `C02.stft_coefficient_spec` proves for the NumPy computer, hence "equal in value" for every
configuration, DFT size and frame. -/
theorem torch_coefficient_spec (D start len : Nat) (hD : 0 < D) (hlen : len ≤ D) (x : Nat → ℂ)
    (hx : ∀ n, (starRingEnd ℂ) (x n) = x n) (tap : Nat → ℂ) (p isReal useLog : Bool) (floor : ℝ)
    (segs : List (List Walk.Hit)) (hsegs : segs.flatten = Walk.runTorch D start len) :
    torch_final useLog floor
        (segs.foldl (fun acc s => torch_accum acc (torch_segval p isReal (s.map fun h => ‖readHit D x h * tap h.tap‖))) 0)
      = logFloor useLog floor ((if isReal then 2 else 1) *
          ∑ b ∈ Finset.range D, entry p ‖dft D x (b : ℤ) * rebuilt D start len tap b‖) := by
  have h1 : segs.foldl (fun acc s => torch_accum acc (torch_segval p isReal (s.map fun h => ‖readHit D x h * tap h.tap‖))) 0
      = (segs.map fun s => s.map fun h => ‖readHit D x h * tap h.tap‖).foldl
          (fun acc s => torch_accum acc (torch_segval p isReal s)) 0 := by
    rw [List.foldl_map]
  rw [h1, torch_coeff_eq_np, List.foldl_map]
  exact stft_coefficient_spec D start len hD hlen x hx tap p isReal useLog floor segs
    (hsegs.trans (torch_walk_eq_numpy_walk D start len))

end PdsVerif.C14

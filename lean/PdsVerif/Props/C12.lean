/-
  C12 — uncompressed NIST SPHERE audio decodes exactly.

  The theorems are about `PdsVerif.Model.Sphere.decode` (literal model of `read_header` +
  `copy_samples` of the repaired `_sphere.py`; every literal and both G.711 tables regenerated from
  the source on every run).  Quantification: every channel count ≥ 1, sample count ≥ 1, header size
  ≥ 1024 holding the header text, both byte orders, every read size ≥ 1 — and, in
  `copy_loop_invariant` / `copy_samples_whole_frames`, every sequence of non-empty reads.
  Explicit hypotheses (see harness ASSUMPTIONS): the data section does not begin with the shorten
  magic `ajkg`; numbers have at most 4300 decimal digits (CPython's `int` limit) and the header size
  is at most 2^26 (the model's read cap); bytes are `< 256`.
-/
import PdsVerif.Lemmas.SphereHeader
import PdsVerif.Lemmas.SphereOld

namespace PdsVerif.C12
open PdsVerif.Model.Sphere PdsVerif.Gen.Sphere

/-! ## G.711 tables (all 256 codes, by kernel evaluation) -/

theorem ulaw_table_is_g711 : ULAW2PCM = (List.range 256).map G711.ulawExpand := by decide +kernel
theorem alaw_table_is_g711 : ALAW2PCM = (List.range 256).map G711.alawExpand := by decide +kernel

theorem ulaw_table_entry (code : Nat) (h : code < 256) : ULAW2PCM[code]? = some (G711.ulawExpand code) := by
  rw [ulaw_table_is_g711]; simp [h]

theorem alaw_table_entry (code : Nat) (h : code < 256) : ALAW2PCM[code]? = some (G711.alawExpand code) := by
  rw [alaw_table_is_g711]; simp [h]

theorem g711_fits_int16 :
    ∀ code, code < 256 → (-32768 ≤ G711.ulawExpand code ∧ G711.ulawExpand code < 32768)
      ∧ (-32768 ≤ G711.alawExpand code ∧ G711.alawExpand code < 32768) := by decide +kernel

example : ULAW2PCM[0]? = some (-32124) ∧ ULAW2PCM[255]? = some 0 ∧ ALAW2PCM[213]? = some 8 := by decide

/-! ## the read loop -/

/--
  Induction over reads.  Invariant: bytes consumed so far = whole frames delivered + carried partial
  frame (`st.left`).  For ANY sequence of non-empty reads the loop delivers exactly the first
  `min (count - done) (avail / frame)` frames of `left ++ (everything still to be read)`.
-/
theorem copy_loop_invariant (p : Plan) (f : Int → Int)
    (hframe : p.frame = p.chans * p.itemBytes) (hpos : 0 < p.frame)
    (hitem : ∀ (c : Nat) (bs : Bytes), (∀ b ∈ bs, b < 256) →
      mapE p.item (unpack p.itemBytes p.dec c bs) = .ok ((unpack p.itemBytes p.dec c bs).map f))
    (rs : List Bytes) (st : St) (hne : ∀ r ∈ rs, r ≠ [])
    (hb : ∀ b ∈ st.left ++ rs.flatten, b < 256)
    (hl : st.done < p.count → st.left.length < p.frame)
    (hm : st.done = 0 → (st.left ++ rs.flatten).take SHN_MAGIC_LEN ≠ SHN_MAGIC) :
    ∃ st', copyLoop p rs st = .ok st' ∧
      st'.done = st.done + framesLeft p st (st.left ++ rs.flatten).length ∧
      st'.out = st.out ++
        (unpack p.itemBytes p.dec (framesLeft p st (st.left ++ rs.flatten).length * p.chans)
          (st.left ++ rs.flatten)).map f :=
  copyLoop_spec p f hframe hpos hitem rs st hne hb hl hm

/-- `copy_samples` for any sequence of non-empty reads: shape, samples and warning flag. -/
theorem copy_samples_whole_frames (h : Header) (dtype : Option DT) (p : Plan) (f : Int → Int)
    (hp : mkPlan h dtype = .ok p)
    (hframe : p.frame = p.chans * p.itemBytes) (hpos : 0 < p.frame)
    (hitem : ∀ (c : Nat) (bs : Bytes), (∀ b ∈ bs, b < 256) →
      mapE p.item (unpack p.itemBytes p.dec c bs) = .ok ((unpack p.itemBytes p.dec c bs).map f))
    (rs : List Bytes) (hne : ∀ r ∈ rs, r ≠ [])
    (hb : ∀ b ∈ rs.flatten, b < 256)
    (hm : rs.flatten.take SHN_MAGIC_LEN ≠ SHN_MAGIC) :
    copySamplesReads h dtype rs = .ok
      { dtype := p.dtype
        shape := shapeOf p.chans (delivered p rs.flatten.length)
        samples := (unpack p.itemBytes p.dec (delivered p rs.flatten.length * p.chans) rs.flatten).map f
        warn := delivered p rs.flatten.length != p.count } :=
  copySamplesReads_spec h dtype p f hp hframe hpos hitem rs hne hb hm

/-! ## header -/

/-- the header written by `encode` (any padding, any size ≥ 1024 that holds the text) parses to its six fields
    and leaves the stream at the first data byte -/
theorem canonical_header_parses (s : Spec) (count : Nat) (pad data : Bytes)
    (hchans : 1 ≤ s.chans) (hcount : 1 ≤ count) (hrate : 1 ≤ s.rate)
    (hbc : s.chans < 10 ^ maxStrDigits) (hbn : count < 10 ^ maxStrDigits) (hbr : s.rate < 10 ^ maxStrDigits)
    (hsize : (headerText s count).length + pad.length = s.hdrSize)
    (h1024 : 1024 ≤ s.hdrSize) (hcap : s.hdrSize ≤ 2 ^ 26) :
    readHeader (headerText s count ++ pad ++ data) = .ok (hdrOf s count, data) :=
  readHeader_canonical s count pad data hchans hcount hrate hbc hbn hbr hsize h1024 hcap

/-! ## 16-bit PCM -/

/--
  Core statement for PCM, for ANY file whose header parses to the fields of `s` (extra fields, other
  order, other padding ...): the first `n` bytes of the payload are present (`n` ≥ its length: all of
  it); exactly the whole frames among them come back, with the warning iff fewer than promised.
-/
theorem pcm_frames_of_header (R : Nat) (hR : 0 < R) (file : Bytes) (h : Header) (data : Bytes)
    (s : Spec) (count : Nat) (items : List Int) (n : Nat)
    (hh : readHeader file = .ok (h, data)) (hm : Matches h s count) (hc : s.coding = .pcm)
    (hchans : 1 ≤ s.chans) (hcount : 1 ≤ count)
    (hlen : items.length = count * s.chans) (hrange : ∀ x ∈ items, -32768 ≤ x ∧ x < 32768)
    (hdata : data = (payload s items).take n)
    (hmagic : data.take 4 ≠ [97, 106, 107, 103]) :
    decode R none file = .ok
      { dtype := .i16
        shape := shapeOf s.chans (framesIn count s.chans 2 n (items.length * 2))
        samples := items.take (framesIn count s.chans 2 n (items.length * 2) * s.chans)
        warn := framesIn count s.chans 2 n (items.length * 2) != count } := by
  obtain ⟨p, hp, hframe, hch, hcnt, hk, hdec, hitem, hdt⟩ := plan_pcm h s count hm hc hchans hcount
  have hnb : s.nbytes = 2 := by simp [Spec.nbytes, hc]
  have := frames_present_core R hR none file h data hh p (wrapS 16) hp (by rw [hframe, hch, hk])
    (by rw [hframe]; omega) (hitem_cast p _ hitem) (encItem 2 s.be)
    (by intro x; rw [hk]; exact length_encItem 2 s.be x) (fun x => encItem_lt 2 s.be x)
    items (by intro x hx; rw [hdec]; exact decItem_encItem_i16 s.be x (hrange x hx))
    (by rw [hcnt, hch]; exact hlen) n (by rw [hdata, payload, hnb]) hmagic
  rw [this, hdt, hch, hcnt, hk, hframe]
  simp only [framesIn]
  rw [map_wrapS16_id _ (fun x hx => hrange x (List.mem_of_mem_take hx))]

/--
  `pcm_roundtrip`: every channel count ≥ 1, sample count ≥ 1, byte order, header size ≥ 1024 (holding
  the text), padding, read size ≥ 1: the file written by `encode` decodes to exactly the stored samples,
  int16, shape `(count,)` for mono and `(count, chans)` otherwise, without a warning.
-/
theorem pcm_roundtrip (R : Nat) (hR : 0 < R) (s : Spec) (count : Nat) (pad : Bytes) (items : List Int)
    (hc : s.coding = .pcm)
    (hchans : 1 ≤ s.chans) (hcount : 1 ≤ count) (hrate : 1 ≤ s.rate)
    (hbc : s.chans < 10 ^ maxStrDigits) (hbn : count < 10 ^ maxStrDigits) (hbr : s.rate < 10 ^ maxStrDigits)
    (hsize : (headerText s count).length + pad.length = s.hdrSize)
    (h1024 : 1024 ≤ s.hdrSize) (hcap : s.hdrSize ≤ 2 ^ 26)
    (hlen : items.length = count * s.chans) (hrange : ∀ x ∈ items, -32768 ≤ x ∧ x < 32768)
    (hmagic : (payload s items).take 4 ≠ [97, 106, 107, 103]) :
    decode R none (encode s count pad items) = .ok
      { dtype := .i16, shape := shapeOf s.chans count, samples := items, warn := false } := by
  have hh := readHeader_canonical s count pad (payload s items) hchans hcount hrate hbc hbn hbr hsize h1024 hcap
  have hpl : (payload s items).length = count * s.chans * 2 := by
    rw [length_payload, hlen]; simp [Spec.nbytes, hc]
  have := pcm_frames_of_header R hR _ _ _ s count items (count * s.chans * 2) hh (matches_hdrOf s count) hc hchans hcount
    hlen hrange (by rw [← hpl, List.take_length]) hmagic
  rw [encode, this, hlen, framesIn_full count s.chans 2 hchans (by decide), ← hlen, List.take_length]
  simp

/--
  `short_data` (PCM, mono and multi-channel alike): only the first `k` bytes of the data are there
  (`k` less than promised): the warning is raised and exactly the `k / (chans*2)` whole frames
  present are returned — nothing beyond them.
-/
theorem short_data_pcm (R : Nat) (hR : 0 < R) (s : Spec) (count : Nat) (pad : Bytes) (items : List Int) (k : Nat)
    (hc : s.coding = .pcm)
    (hchans : 1 ≤ s.chans) (hcount : 1 ≤ count) (hrate : 1 ≤ s.rate)
    (hbc : s.chans < 10 ^ maxStrDigits) (hbn : count < 10 ^ maxStrDigits) (hbr : s.rate < 10 ^ maxStrDigits)
    (hsize : (headerText s count).length + pad.length = s.hdrSize)
    (h1024 : 1024 ≤ s.hdrSize) (hcap : s.hdrSize ≤ 2 ^ 26)
    (hlen : items.length = count * s.chans) (hrange : ∀ x ∈ items, -32768 ≤ x ∧ x < 32768)
    (hk : k < count * s.chans * 2)
    (hmagic : ((payload s items).take k).take 4 ≠ [97, 106, 107, 103]) :
    decode R none (headerText s count ++ pad ++ (payload s items).take k) = .ok
      { dtype := .i16
        shape := shapeOf s.chans (k / (s.chans * 2))
        samples := items.take (k / (s.chans * 2) * s.chans)
        warn := true } := by
  have hh := readHeader_canonical s count pad ((payload s items).take k) hchans hcount hrate hbc hbn hbr hsize h1024 hcap
  have := pcm_frames_of_header R hR _ _ _ s count items k hh (matches_hdrOf s count) hc hchans hcount
    hlen hrange rfl hmagic
  obtain ⟨e, hlt⟩ := framesIn_short count s.chans 2 k hk
  rw [this, hlen, e]
  have : (k / (s.chans * 2) != count) = true := bne_iff_ne.mpr (Nat.ne_of_lt hlt)
  rw [this]

/-! ## mu-law / A-law -/

theorem tableFn_expand (s : Spec) (hc : s.coding ≠ .pcm) (x : Int) (hx : 0 ≤ x ∧ x < 256) :
    wrapS 16 (tableFn (if s.coding = .alaw then ALAW2PCM else ULAW2PCM) x) = expand s.coding x := by
  have hlt : x.toNat < 256 := by omega
  have hfit := g711_fits_int16 x.toNat hlt
  cases hcd : s.coding with
  | pcm => exact absurd hcd hc
  | ulaw =>
    simp only [reduceCtorEq, if_false, expand, tableFn, List.getD_eq_getElem?_getD, ulaw_table_entry _ hlt,
      Option.getD_some, wrapS]
    omega
  | alaw =>
    simp only [if_true, expand, tableFn, List.getD_eq_getElem?_getD, alaw_table_entry _ hlt,
      Option.getD_some, wrapS]
    omega

theorem g711_frames_of_header (R : Nat) (hR : 0 < R) (file : Bytes) (h : Header) (data : Bytes)
    (s : Spec) (count : Nat) (items : List Int) (n : Nat)
    (hh : readHeader file = .ok (h, data)) (hm : Matches h s count) (hc : s.coding ≠ .pcm)
    (hchans : 1 ≤ s.chans) (hcount : 1 ≤ count)
    (hlen : items.length = count * s.chans) (hrange : ∀ x ∈ items, 0 ≤ x ∧ x < 256)
    (hdata : data = (payload s items).take n)
    (hmagic : data.take 4 ≠ [97, 106, 107, 103]) :
    decode R none file = .ok
      { dtype := .i16
        shape := shapeOf s.chans (framesIn count s.chans 1 n (items.length * 1))
        samples := (items.take (framesIn count s.chans 1 n (items.length * 1) * s.chans)).map (expand s.coding)
        warn := framesIn count s.chans 1 n (items.length * 1) != count } := by
  obtain ⟨p, hp, hframe, hch, hcnt, hk, hdec, hitem, hdt⟩ := plan_g711_expand h s count hm hc hchans hcount
  have hnb : s.nbytes = 1 := by cases hcd : s.coding <;> simp_all [Spec.nbytes]
  have htl : (if s.coding = .alaw then ALAW2PCM else ULAW2PCM).length = 256 := by split <;> decide +kernel
  have := frames_present_core R hR none file h data hh p _ hp (by rw [hframe, hch, hk])
    (by rw [hframe]; omega) (hitem_table p _ _ htl hk hdec hitem) (encItem 1 s.be)
    (by intro x; rw [hk]; exact length_encItem 1 s.be x) (fun x => encItem_lt 1 s.be x)
    items (by intro x hx; rw [hdec]; exact decItem_encItem_u8_any _ _ x (hrange x hx))
    (by rw [hcnt, hch]; exact hlen) n (by rw [hdata, payload, hnb]) hmagic
  rw [this, hdt, hch, hcnt, hk, hframe]
  simp only [framesIn]
  have hmap : ∀ (l : List Int), (∀ x ∈ l, x ∈ items) →
      l.map (fun x => wrapS 16 (tableFn (if s.coding = .alaw then ALAW2PCM else ULAW2PCM) x))
        = l.map (expand s.coding) :=
    fun l hl => List.map_congr_left (fun x hx => tableFn_expand s hc x (hrange x (hl x hx)))
  rw [hmap _ (fun x hx => List.mem_of_mem_take hx)]

/-- `g711_roundtrip`: mu-law / A-law files decode to the ITU-T G.711 expansion of the stored codes, int16 -/
theorem g711_roundtrip (R : Nat) (hR : 0 < R) (s : Spec) (count : Nat) (pad : Bytes) (items : List Int)
    (hc : s.coding ≠ .pcm)
    (hchans : 1 ≤ s.chans) (hcount : 1 ≤ count) (hrate : 1 ≤ s.rate)
    (hbc : s.chans < 10 ^ maxStrDigits) (hbn : count < 10 ^ maxStrDigits) (hbr : s.rate < 10 ^ maxStrDigits)
    (hsize : (headerText s count).length + pad.length = s.hdrSize)
    (h1024 : 1024 ≤ s.hdrSize) (hcap : s.hdrSize ≤ 2 ^ 26)
    (hlen : items.length = count * s.chans) (hrange : ∀ x ∈ items, 0 ≤ x ∧ x < 256)
    (hmagic : (payload s items).take 4 ≠ [97, 106, 107, 103]) :
    decode R none (encode s count pad items) = .ok
      { dtype := .i16, shape := shapeOf s.chans count, samples := items.map (expand s.coding), warn := false } := by
  have hh := readHeader_canonical s count pad (payload s items) hchans hcount hrate hbc hbn hbr hsize h1024 hcap
  have hnb : s.nbytes = 1 := by cases hcd : s.coding <;> simp_all [Spec.nbytes]
  have hpl : (payload s items).length = count * s.chans * 1 := by rw [length_payload, hlen, hnb]
  have := g711_frames_of_header R hR _ _ _ s count items (count * s.chans * 1) hh (matches_hdrOf s count) hc hchans hcount
    hlen hrange (by rw [← hpl, List.take_length]) hmagic
  rw [encode, this, hlen, framesIn_full count s.chans 1 hchans (by decide), ← hlen, List.take_length]
  simp

/-- `short_data` for mu-law / A-law -/
theorem short_data_g711 (R : Nat) (hR : 0 < R) (s : Spec) (count : Nat) (pad : Bytes) (items : List Int) (k : Nat)
    (hc : s.coding ≠ .pcm)
    (hchans : 1 ≤ s.chans) (hcount : 1 ≤ count) (hrate : 1 ≤ s.rate)
    (hbc : s.chans < 10 ^ maxStrDigits) (hbn : count < 10 ^ maxStrDigits) (hbr : s.rate < 10 ^ maxStrDigits)
    (hsize : (headerText s count).length + pad.length = s.hdrSize)
    (h1024 : 1024 ≤ s.hdrSize) (hcap : s.hdrSize ≤ 2 ^ 26)
    (hlen : items.length = count * s.chans) (hrange : ∀ x ∈ items, 0 ≤ x ∧ x < 256)
    (hk : k < count * s.chans * 1)
    (hmagic : ((payload s items).take k).take 4 ≠ [97, 106, 107, 103]) :
    decode R none (headerText s count ++ pad ++ (payload s items).take k) = .ok
      { dtype := .i16
        shape := shapeOf s.chans (k / (s.chans * 1))
        samples := (items.take (k / (s.chans * 1) * s.chans)).map (expand s.coding)
        warn := true } := by
  have hh := readHeader_canonical s count pad ((payload s items).take k) hchans hcount hrate hbc hbn hbr hsize h1024 hcap
  have := g711_frames_of_header R hR _ _ _ s count items k hh (matches_hdrOf s count) hc hchans hcount
    hlen hrange rfl hmagic
  obtain ⟨e, hlt⟩ := framesIn_short count s.chans 1 k hk
  rw [this, hlen, e]
  have : (k / (s.chans * 1) != count) = true := bne_iff_ne.mpr (Nat.ne_of_lt hlt)
  rw [this]

/-- a 1-byte dtype (uint8 / int8) is requested: the raw codes come back (as that type), not expanded -/
theorem g711_raw_roundtrip (R : Nat) (hR : 0 < R) (s : Spec) (count : Nat) (pad : Bytes) (items : List Int)
    (dt : DT) (hdt : dt = .u8 ∨ dt = .i8)
    (hc : s.coding ≠ .pcm)
    (hchans : 1 ≤ s.chans) (hcount : 1 ≤ count) (hrate : 1 ≤ s.rate)
    (hbc : s.chans < 10 ^ maxStrDigits) (hbn : count < 10 ^ maxStrDigits) (hbr : s.rate < 10 ^ maxStrDigits)
    (hsize : (headerText s count).length + pad.length = s.hdrSize)
    (h1024 : 1024 ≤ s.hdrSize) (hcap : s.hdrSize ≤ 2 ^ 26)
    (hlen : items.length = count * s.chans) (hrange : ∀ x ∈ items, 0 ≤ x ∧ x < 256)
    (hmagic : (payload s items).take 4 ≠ [97, 106, 107, 103]) :
    decode R (some dt) (encode s count pad items) = .ok
      { dtype := dt, shape := shapeOf s.chans count, samples := items.map dt.cast, warn := false } := by
  have hh := readHeader_canonical s count pad (payload s items) hchans hcount hrate hbc hbn hbr hsize h1024 hcap
  obtain ⟨p, hp, hframe, hch, hcnt, hk, hdec, hitem, hpdt⟩ :=
    plan_g711_raw (hdrOf s count) s count (matches_hdrOf s count) hc hchans hcount dt hdt
  have hnb : s.nbytes = 1 := by cases hcd : s.coding <;> simp_all [Spec.nbytes]
  have hpl : (payload s items).length = count * s.chans * 1 := by rw [length_payload, hlen, hnb]
  have := frames_present_core R hR (some dt) _ _ _ hh p _ hp (by rw [hframe, hch, hk])
    (by rw [hframe]; omega) (hitem_cast p _ hitem) (encItem 1 s.be)
    (by intro x; rw [hk]; exact length_encItem 1 s.be x) (fun x => encItem_lt 1 s.be x)
    items (by intro x hx; rw [hdec]; exact decItem_encItem_u8_any _ _ x (hrange x hx))
    (by rw [hcnt, hch]; exact hlen) (count * s.chans * 1)
    (by
      have e : payload s items = items.flatMap (encItem 1 s.be) := by rw [payload, hnb]
      rw [← e, ← hpl, List.take_length])
    (by exact hmagic)
  rw [encode, this, hpdt, hch, hcnt, hk, hframe, hlen]
  have e := framesIn_full count s.chans 1 hchans (by decide)
  unfold framesIn at e
  rw [e, ← hlen, List.take_length]
  simp

/-- for `uint8` the returned values are the stored codes themselves -/
theorem g711_raw_u8_is_identity (items : List Int) (hrange : ∀ x ∈ items, 0 ≤ x ∧ x < 256) :
    items.map DT.u8.cast = items := map_wrapU8_id items hrange

/-! ## bad headers -/

/-- `bad_header`: a file that does not start with a NIST_1A header of at least 1024 bytes gives IOError
    (whatever the read size and requested dtype) -/
theorem bad_header (R : Nat) (dt : Option DT) (file : Bytes) (h : ¬ StartsWithNistHeader file) :
    decode R dt file = .error (.io .header) := by
  have hrn : readN (HDR_READ : Int) file = (file.take 1024, file.drop 1024) := by simp [readN, HDR_READ]
  unfold decode readHeader
  simp only [hrn]
  by_cases h1 : (file.take 1024).length ≠ HDR_LEN ∨ (file.take 1024).take MAGIC_LEN ≠ MAGIC
  · simp only [h1, if_true]
  · simp only [h1, if_false]
    have hlen : 1024 ≤ file.length := by
      have : (file.take 1024).length = 1024 := by
        have := (not_or.mp h1).1; simp only [HDR_LEN, ne_eq, Decidable.not_not] at this; exact this
      rw [List.length_take] at this; omega
    have hmg : file.take 7 = kNIST := by
      have := (not_or.mp h1).2
      simp only [ne_eq, Decidable.not_not, List.take_take, MAGIC_LEN] at this
      rw [show min 7 1024 = 7 by decide] at this
      rw [this]; decide
    cases hs : (splitOn LINE_SEP (file.take 1024))[SIZE_LINE_INDEX]? with
    | none => rfl
    | some line =>
      simp only
      cases hp : pyIntBytes line with
      | none => rfl
      | some n =>
        simp only
        by_cases hn : n < HDR_MIN
        · simp only [hn, if_true]
        · exfalso
          apply h
          refine ⟨hlen, hmg, line, n, hs, hp, ?_⟩
          simp only [HDR_MIN] at hn; omega

theorem bad_header_short (R : Nat) (dt : Option DT) (file : Bytes) (h : file.length < 1024) :
    decode R dt file = .error (.io .header) :=
  bad_header R dt file (fun hw => by have := hw.1; omega)

theorem bad_header_magic (R : Nat) (dt : Option DT) (file : Bytes) (h : file.take 7 ≠ kNIST) :
    decode R dt file = .error (.io .header) :=
  bad_header R dt file (fun hw => h hw.2.1)

/-- missing second line, a second line `int()` cannot read, or a declared size below 1024 -/
theorem bad_header_size_line (R : Nat) (dt : Option DT) (file : Bytes)
    (h : ∀ line, (splitOn 10 (file.take 1024))[1]? = some line →
      pyIntBytes line = none ∨ ∃ n, pyIntBytes line = some n ∧ n < 1024) :
    decode R dt file = .error (.io .header) := by
  apply bad_header
  rintro ⟨_, _, line, n, hl, hp, hn⟩
  rcases h line hl with h' | ⟨m, hm, hlt⟩
  · rw [h'] at hp; exact absurd hp (by simp)
  · rw [hm] at hp; injection hp with e; omega

/-! ## concrete instances: the hypotheses are satisfiable, and the model computes what the theorems say

  3 channels of big-endian PCM, 5 frames (30 data bytes), header padded to 1100 bytes, read size 8:
  frames of 6 bytes straddle every 8-byte read.
-/

def ex3 : Spec := { coding := .pcm, be := true, chans := 3, rate := 16000, hdrSize := 1100 }
def ex3Items : List Int := [1, -2, 300, -32768, 32767, 0, 7, 8, 9, -10, -11, -12, 256, -256, 255]
def ex3Pad : Bytes := List.replicate (1100 - (headerText ex3 5).length) 32

example : decode 8 none (encode ex3 5 ex3Pad ex3Items)
    = .ok { dtype := .i16, shape := [5, 3], samples := ex3Items, warn := false } :=
  pcm_roundtrip 8 (by decide) ex3 5 ex3Pad ex3Items rfl (by decide) (by decide) (by decide)
    (Nat.lt_of_lt_of_le (by decide : ex3.chans < 10 ^ 1) (Nat.pow_le_pow_right (by decide) (by decide)))
    (Nat.lt_of_lt_of_le (by decide : 5 < 10 ^ 1) (Nat.pow_le_pow_right (by decide) (by decide)))
    (Nat.lt_of_lt_of_le (by decide : ex3.rate < 10 ^ 5) (Nat.pow_le_pow_right (by decide) (by decide)))
    (by decide +kernel) (by decide) (by decide) (by decide) (by decide) (by decide +kernel)

/-- the same by plain evaluation of the model (no theorem involved) -/
example : decode 8 none (encode ex3 5 ex3Pad ex3Items)
    = .ok { dtype := .i16, shape := [5, 3], samples := ex3Items, warn := false } := by decide +kernel

/-- truncated after 20 of the 30 data bytes: warning, the 3 whole frames present, nothing else -/
example : decode 8 none (headerText ex3 5 ++ ex3Pad ++ (payload ex3 ex3Items).take 20)
    = .ok { dtype := .i16, shape := [3, 3], samples := ex3Items.take 9, warn := true } :=
  short_data_pcm 8 (by decide) ex3 5 ex3Pad ex3Items 20 rfl (by decide) (by decide) (by decide)
    (Nat.lt_of_lt_of_le (by decide : ex3.chans < 10 ^ 1) (Nat.pow_le_pow_right (by decide) (by decide)))
    (Nat.lt_of_lt_of_le (by decide : 5 < 10 ^ 1) (Nat.pow_le_pow_right (by decide) (by decide)))
    (Nat.lt_of_lt_of_le (by decide : ex3.rate < 10 ^ 5) (Nat.pow_le_pow_right (by decide) (by decide)))
    (by decide +kernel) (by decide) (by decide) (by decide) (by decide) (by decide) (by decide +kernel)

/-- truncated MONO file (defect 14 of the unrepaired reader): only the samples present -/
def ex1 : Spec := { coding := .pcm, be := false, chans := 1, rate := 8000, hdrSize := 1024 }
def ex1Pad : Bytes := List.replicate (1024 - (headerText ex1 6).length) 32

example : decode 4 none (headerText ex1 6 ++ ex1Pad ++ (payload ex1 [10, -20, 30, -40, 50, -60]).take 7)
    = .ok { dtype := .i16, shape := [3], samples := [10, -20, 30], warn := true } := by decide +kernel

/-- mu-law, 2 channels, read size 3; default dtype expands, `uint8` returns the codes -/
def exU : Spec := { coding := .ulaw, be := false, chans := 2, rate := 8000, hdrSize := 2048 }
def exUPad : Bytes := List.replicate (2048 - (headerText exU 3).length) 0

example : decode 3 none (encode exU 3 exUPad [0, 255, 127, 128, 1, 254])
    = .ok { dtype := .i16, shape := [3, 2], samples := [-32124, 0, 0, 32124, -31100, 8], warn := false } :=
  g711_roundtrip 3 (by decide) exU 3 exUPad [0, 255, 127, 128, 1, 254] (by decide) (by decide) (by decide) (by decide)
    (Nat.lt_of_lt_of_le (by decide : exU.chans < 10 ^ 1) (Nat.pow_le_pow_right (by decide) (by decide)))
    (Nat.lt_of_lt_of_le (by decide : 3 < 10 ^ 1) (Nat.pow_le_pow_right (by decide) (by decide)))
    (Nat.lt_of_lt_of_le (by decide : exU.rate < 10 ^ 5) (Nat.pow_le_pow_right (by decide) (by decide)))
    (by decide +kernel) (by decide) (by decide) (by decide) (by decide) (by decide +kernel)

example : decode 3 (some .u8) (encode exU 3 exUPad [0, 255, 127, 128, 1, 254])
    = .ok { dtype := .u8, shape := [3, 2], samples := [0, 255, 127, 128, 1, 254], warn := false } := by decide +kernel

/-- bad headers -/
example : decode 16384 none (kNIST ++ [10] ++ List.replicate 900 32) = .error (.io .header) :=
  bad_header_short _ _ _ (by decide +kernel)

example : ¬ StartsWithNistHeader ([88] ++ (encode ex3 5 ex3Pad ex3Items).drop 1) :=
  fun h => absurd h.2.1 (by decide +kernel)

example : StartsWithNistHeader (encode ex3 5 ex3Pad ex3Items) :=
  ⟨by decide +kernel, by decide +kernel, padLeft 7 (dec 1100), 1100, by decide +kernel, by decide +kernel, by decide⟩

end PdsVerif.C12

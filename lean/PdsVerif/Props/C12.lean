import PdsVerif.Model.Sphere
namespace PdsVerif.C12
open PdsVerif.Model.Sphere PdsVerif.Gen.Sphere

theorem ulaw_table_is_g711 : ULAW2PCM = (List.range 256).map G711.ulawExpand := by decide +kernel
theorem alaw_table_is_g711 : ALAW2PCM = (List.range 256).map G711.alawExpand := by decide +kernel

end PdsVerif.C12

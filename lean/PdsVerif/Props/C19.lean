/-
  C19 — scaling functions are strictly increasing and exactly invertible.

  The definitions these theorems are about are *generated from* `/repo/src/pydrobert/speech/scales.py`
  on every run (`PdsVerif/Generated/Scales.lean`), instantiated at `ℝ`.
-/
import PdsVerif.Generated.Scales
import PdsVerif.RealNum
import Mathlib.Analysis.SpecialFunctions.Pow.Continuity
import Mathlib.Analysis.SpecialFunctions.Log.Deriv
import Mathlib.Topology.Order.Lattice
import Mathlib.Tactic

namespace PdsVerif.C19
open PdsVerif PdsVerif.Gen.Scales Set

/-! ## linear -/

theorem linear_left_inv (low slope f : ℝ) (hs : slope ≠ 0) :
    linear_s2h low slope (linear_h2s low slope f) = f := by
  simp only [linear_s2h, linear_h2s]; field_simp; ring

theorem linear_right_inv (low slope s : ℝ) (hs : slope ≠ 0) :
    linear_h2s low slope (linear_s2h low slope s) = s := by
  simp only [linear_s2h, linear_h2s]; field_simp; ring

theorem linear_h2s_strictMono (low slope : ℝ) (hs : 0 < slope) :
    StrictMono (linear_h2s low slope) := by
  intro a b hab; simp only [linear_h2s]; nlinarith

theorem linear_s2h_strictMono (low slope : ℝ) (hs : 0 < slope) :
    StrictMono (linear_s2h low slope) := by
  intro a b hab; simp only [linear_s2h]
  have := div_lt_div_of_pos_right hab hs; linarith

theorem linear_h2s_continuous (low slope : ℝ) : Continuous (linear_h2s low slope) := by
  unfold linear_h2s; fun_prop

theorem linear_s2h_continuous (low slope : ℝ) : Continuous (linear_s2h low slope) := by
  unfold linear_s2h; fun_prop

/-! ## octave -/

theorem octave_base_pos (low : ℝ) : 0 < max (1e-10:ℝ) low :=
  lt_of_lt_of_le (by norm_num) (le_max_left _ _)

theorem octave_left_inv (low f : ℝ) (hf : 0 < f) :
    octave_s2h low (octave_h2s low f) = f := by
  simp only [octave_s2h, octave_h2s, transc_pow2, transc_log2]
  have hb := octave_base_pos low
  rw [Real.rpow_logb (by norm_num) (by norm_num) (div_pos hf hb)]
  field_simp

theorem octave_right_inv (low s : ℝ) :
    octave_h2s low (octave_s2h low s) = s := by
  simp only [octave_s2h, octave_h2s, transc_pow2, transc_log2]
  have hb := octave_base_pos low
  rw [mul_div_assoc, div_self hb.ne', mul_one, Real.logb_rpow (by norm_num) (by norm_num)]

theorem octave_h2s_strictMonoOn (low : ℝ) : StrictMonoOn (octave_h2s low) (Ioi 0) := by
  intro a ha b hb hab
  simp only [octave_h2s, transc_log2]
  have hbase := octave_base_pos low
  exact Real.logb_lt_logb (by norm_num) (div_pos ha hbase) (div_lt_div_of_pos_right hab hbase)

theorem octave_s2h_strictMono (low : ℝ) : StrictMono (octave_s2h low) := by
  intro a b hab
  simp only [octave_s2h, transc_pow2]
  have hbase := octave_base_pos low
  have : (2:ℝ) ^ a < (2:ℝ) ^ b := Real.rpow_lt_rpow_of_exponent_lt (by norm_num) hab
  nlinarith

theorem octave_h2s_continuousOn (low : ℝ) : ContinuousOn (octave_h2s low) (Ioi 0) := by
  have hbase := octave_base_pos low
  unfold octave_h2s; simp only [transc_log2, Real.logb]
  apply ContinuousOn.div_const
  apply ContinuousOn.log
  · fun_prop
  · intro x hx; exact (div_pos hx hbase).ne'

theorem octave_s2h_continuous (low : ℝ) : Continuous (octave_s2h low) := by
  unfold octave_s2h; simp only [transc_pow2]
  have : Continuous fun x : ℝ => (2:ℝ) ^ x := continuous_iff_continuousAt.mpr fun _ => Real.continuousAt_const_rpow (by norm_num)
  fun_prop

/-- `OctaveScaling.__init__` rejects exactly the non-positive `low_hz` (guard generated from source). -/
theorem octave_rejects_nonpos (low : ℝ) : octave_ctor_rejects low ↔ low ≤ 0 := by
  simp only [octave_ctor_rejects]; norm_num

/-- with an accepted `low_hz` (≥ 1e-10) the clamp `max(1e-10, low_hz)` is the identity, so scale 0 is `low_hz`. -/
theorem octave_scale_zero (low : ℝ) (h : 1e-10 ≤ low) : octave_s2h low 0 = low := by
  simp only [octave_s2h, transc_pow2, Real.rpow_zero, one_mul]
  exact max_eq_right h

/-! ## mel -/

theorem mel_left_inv (f : ℝ) (hf : -700 < f) : mel_s2h (mel_h2s f) = f := by
  simp only [mel_s2h, mel_h2s, transc_exp, transc_log]
  have h1 : (0:ℝ) < 1.0 + f / 700.0 := by norm_num; linarith
  have h2 : (1127.0:ℝ) * Real.log (1.0 + f / 700.0) / 1127.0 = Real.log (1.0 + f / 700.0) := by
    norm_num
  rw [h2, Real.exp_log h1]; norm_num

theorem mel_right_inv (s : ℝ) : mel_h2s (mel_s2h s) = s := by
  simp only [mel_s2h, mel_h2s, transc_exp, transc_log]
  have : (1.0:ℝ) + 700.0 * (Real.exp (s / 1127.0) - 1.0) / 700.0 = Real.exp (s / 1127.0) := by
    norm_num
  rw [this, Real.log_exp]; norm_num

theorem mel_h2s_strictMonoOn : StrictMonoOn (mel_h2s : ℝ → ℝ) (Ioi (-700)) := by
  intro a ha b hb hab
  simp only [mel_h2s, transc_log]
  have ha' : (0:ℝ) < 1.0 + a / 700.0 := by have := mem_Ioi.mp ha; norm_num; linarith
  have : Real.log (1.0 + a / 700.0) < Real.log (1.0 + b / 700.0) :=
    Real.log_lt_log ha' (by norm_num; linarith)
  linarith

theorem mel_s2h_strictMono : StrictMono (mel_s2h : ℝ → ℝ) := by
  intro a b hab
  simp only [mel_s2h, transc_exp]
  have : Real.exp (a / 1127.0) < Real.exp (b / 1127.0) :=
    Real.exp_lt_exp.mpr (by norm_num; linarith)
  linarith

theorem mel_h2s_continuousOn : ContinuousOn (mel_h2s : ℝ → ℝ) (Ioi (-700)) := by
  unfold mel_h2s; simp only [transc_log]
  apply ContinuousOn.mul continuousOn_const
  apply ContinuousOn.log (by fun_prop)
  intro x hx; have := mem_Ioi.mp hx
  have : (0:ℝ) < 1.0 + x / 700.0 := by norm_num; linarith
  exact this.ne'

theorem mel_s2h_continuous : Continuous (mel_s2h : ℝ → ℝ) := by
  unfold mel_s2h; simp only [transc_exp]; fun_prop

/-- the published anchor: 1000 Hz is 1000 mel to within 0.02 (log series with 26 terms) -/
theorem mel_1000 : |mel_h2s (1000:ℝ) - 1000| < 0.02 := by
  simp only [mel_h2s, transc_log]
  have h := Real.abs_log_sub_add_sum_range_le (x := 10/17) (by norm_num [abs_of_pos]) 26
  have e : Real.log (1 - 10/17) = - Real.log (1.0 + 1000/700.0) := by
    rw [← Real.log_inv]; norm_num
  rw [e] at h
  norm_num [Finset.sum_range_succ, abs_of_pos] at h
  rw [abs_le] at h; rw [abs_lt]; constructor <;> linarith

/-! ## Bark -/

/-- the uncorrected Traunmüller map -/
noncomputable def z (f : ℝ) : ℝ := 26.81 * f / (1960.0 + f) - 0.53
/-- low / high end corrections, as a `max` (this is what makes continuity at 2 and 20.1 visible) -/
noncomputable def corr (b : ℝ) : ℝ := max b (max (0.85 * b + 0.3) (1.22 * b - 4.422))
noncomputable def uncorr (s : ℝ) : ℝ := min s (min ((20.0 * s - 6.0) / 17.0) ((50.0 * s + 221.1) / 61.0))

theorem bark_h2s_eq (f : ℝ) : bark_h2s f = corr (z f) := by
  simp only [bark_h2s, corr, z]
  generalize (26.81:ℝ) * f / (1960.0 + f) - 0.53 = b
  norm_num
  split_ifs with h1 h2
  · rw [max_eq_right (le_max_of_le_left (by linarith)), max_eq_left (by linarith)]; ring
  · rw [max_eq_right (le_max_of_le_right (by linarith)), max_eq_right (by linarith)]; ring
  · rw [max_eq_left (max_le (by linarith) (by linarith))]

theorem bark_s2h_eq (s : ℝ) :
    bark_s2h s = 1960.0 * (uncorr s + 0.53) / (26.28 - uncorr s) := by
  simp only [bark_s2h, uncorr]
  norm_num
  split_ifs with h1 h2
  · rw [min_eq_right (min_le_of_left_le (by linarith)), min_eq_left (by linarith)]
  · rw [min_eq_right (min_le_of_right_le (by linarith)), min_eq_right (by linarith)]
  · rw [min_eq_left (le_min (by linarith) (by linarith))]

theorem uncorr_corr (b : ℝ) : uncorr (corr b) = b := by
  unfold uncorr corr
  rcases lt_trichotomy b 2 with h | h | h
  · rw [max_eq_right (by apply le_max_of_le_left; linarith), max_eq_left (by linarith)]
    rw [min_eq_right (by apply min_le_of_left_le; linarith), min_eq_left (by linarith)]
    linarith
  · subst h; norm_num
  · rcases le_or_gt b 20.1 with h2 | h2
    · rw [max_eq_left (by apply max_le <;> norm_num at * <;> linarith)]
      rw [min_eq_left (by apply le_min <;> norm_num at * <;> linarith)]
    · rw [max_eq_right (by apply le_max_of_le_right; norm_num at *; linarith),
        max_eq_right (by norm_num at *; linarith)]
      rw [min_eq_right (by apply min_le_of_right_le; norm_num at *; linarith),
        min_eq_right (by norm_num at *; linarith)]
      norm_num; linarith

theorem corr_uncorr (s : ℝ) : corr (uncorr s) = s := by
  unfold uncorr corr
  rcases lt_trichotomy s 2 with h | h | h
  · rw [min_eq_right (by apply min_le_of_left_le; linarith), min_eq_left (by linarith)]
    rw [max_eq_right (by apply le_max_of_le_left; linarith), max_eq_left (by linarith)]
    linarith
  · subst h; norm_num
  · rcases le_or_gt s 20.1 with h2 | h2
    · rw [min_eq_left (by apply le_min <;> norm_num at * <;> linarith)]
      rw [max_eq_left (by apply max_le <;> norm_num at * <;> linarith)]
    · rw [min_eq_right (by apply min_le_of_right_le; norm_num at *; linarith),
        min_eq_right (by norm_num at *; linarith)]
      rw [max_eq_right (by apply le_max_of_le_right; norm_num at *; linarith),
        max_eq_right (by norm_num at *; linarith)]
      norm_num; linarith

theorem z_inv (f : ℝ) (hf : -1960 < f) : 1960.0 * (z f + 0.53) / (26.28 - z f) = f := by
  unfold z
  norm_num
  have h : (1960:ℝ) + f ≠ 0 := by linarith
  have h2 : (657/25:ℝ) - (2681/100 * f / (1960 + f) - 53/100) = 2681/100 * 1960 / (1960 + f) := by
    field_simp; ring
  rw [h2]; field_simp

theorem bark_left_inv (f : ℝ) (hf : -1960 < f) : bark_s2h (bark_h2s f) = f := by
  rw [bark_s2h_eq, bark_h2s_eq, uncorr_corr, z_inv f hf]

theorem inv_z (b : ℝ) (hb : b ≠ 26.28) : z (1960.0 * (b + 0.53) / (26.28 - b)) = b := by
  unfold z
  obtain ⟨d, rfl⟩ : ∃ d : ℝ, b = 657/25 - d := ⟨657/25 - b, by ring⟩
  have hd : d ≠ 0 := by
    intro h; apply hb; rw [h]; norm_num
  norm_num
  have h2 : (1960:ℝ) + 1960 * (657/25 - d + 53/100) / d = 1960 * (2681/100) / d := by
    field_simp; ring
  rw [h2]; field_simp; ring

/-- right inverse on the whole image of `(-1960, ∞)`: `uncorr s < 26.28 ↔ s < 27.6396`. -/
theorem bark_right_inv (s : ℝ) (hs : uncorr s ≠ 26.28) : bark_h2s (bark_s2h s) = s := by
  rw [bark_h2s_eq, bark_s2h_eq, inv_z _ hs, corr_uncorr]

theorem z_strictMonoOn : StrictMonoOn z (Ioi (-1960)) := by
  intro a ha b hb hab
  have ha' : (0:ℝ) < 1960.0 + a := by have := mem_Ioi.mp ha; norm_num; linarith
  have hb' : (0:ℝ) < 1960.0 + b := by have := mem_Ioi.mp hb; norm_num; linarith
  unfold z
  have : (26.81:ℝ) * a / (1960.0 + a) < 26.81 * b / (1960.0 + b) := by
    rw [div_lt_div_iff₀ ha' hb']; nlinarith
  linarith

theorem corr_strictMono : StrictMono corr := by
  intro a b hab
  unfold corr
  apply max_lt_max hab
  apply max_lt_max <;> linarith

theorem uncorr_strictMono : StrictMono uncorr := by
  intro a b hab
  unfold uncorr
  apply min_lt_min hab
  apply min_lt_min
  · exact div_lt_div_of_pos_right (by linarith) (by norm_num)
  · exact div_lt_div_of_pos_right (by linarith) (by norm_num)

theorem bark_h2s_strictMonoOn : StrictMonoOn (bark_h2s : ℝ → ℝ) (Ioi (-1960)) := by
  intro a ha b hb hab
  rw [bark_h2s_eq, bark_h2s_eq]
  exact corr_strictMono (z_strictMonoOn ha hb hab)

/-- `scale_to_hertz` is strictly increasing below the pole (`uncorr s < 26.28`, i.e. `s < 27.6396`). -/
theorem bark_s2h_strictMonoOn : StrictMonoOn (bark_s2h : ℝ → ℝ) {s | uncorr s < 26.28} := by
  intro a ha b hb hab
  rw [bark_s2h_eq, bark_s2h_eq]
  have hu := uncorr_strictMono hab
  have ha' : (0:ℝ) < 26.28 - uncorr a := by have : uncorr a < 26.28 := ha; linarith
  have hb' : (0:ℝ) < 26.28 - uncorr b := by have : uncorr b < 26.28 := hb; linarith
  rw [div_lt_div_iff₀ ha' hb']; nlinarith

theorem corr_continuous : Continuous corr := by unfold corr; fun_prop
theorem uncorr_continuous : Continuous uncorr := by unfold uncorr; fun_prop

/-- the correction is continuous *at* the break-points: both one-sided formulas agree there. -/
theorem corr_breakpoints : corr 2 = 2 ∧ corr 20.1 = 20.1 ∧
    (0.85 * (2:ℝ) + 0.3 = 2) ∧ (1.22 * (20.1:ℝ) - 4.422 = 20.1) := by
  unfold corr; norm_num

theorem bark_h2s_continuousOn : ContinuousOn (bark_h2s : ℝ → ℝ) (Ioi (-1960)) := by
  have : (bark_h2s : ℝ → ℝ) = corr ∘ z := funext bark_h2s_eq
  rw [this]
  apply corr_continuous.comp_continuousOn
  unfold z
  apply ContinuousOn.sub _ continuousOn_const
  apply ContinuousOn.div (by fun_prop) (by fun_prop)
  intro x hx; have := mem_Ioi.mp hx; norm_num; linarith

theorem bark_s2h_continuousOn : ContinuousOn (bark_s2h : ℝ → ℝ) {s | uncorr s < 26.28} := by
  have : (bark_s2h : ℝ → ℝ) = fun s => 1960.0 * (uncorr s + 0.53) / (26.28 - uncorr s) :=
    funext bark_s2h_eq
  rw [this]
  apply ContinuousOn.div
  · exact (continuous_const.mul (uncorr_continuous.add continuous_const)).continuousOn
  · exact (continuous_const.sub uncorr_continuous).continuousOn
  · intro x hx; have : uncorr x < 26.28 := hx; linarith

/-- the two branch tests select the same piece: `h2s f < 2 ↔ z f < 2`, `h2s f > 20.1 ↔ z f > 20.1`. -/
theorem bark_branches_agree (b : ℝ) : (corr b < 2 ↔ b < 2) ∧ (20.1 < corr b ↔ 20.1 < b) := by
  have h2 : corr 2 = 2 := corr_breakpoints.1
  have h20 : corr 20.1 = 20.1 := corr_breakpoints.2.1
  constructor
  · rw [← h2]; exact corr_strictMono.lt_iff_lt.trans (by rw [h2])
  · conv_lhs => rw [← h20]
    exact corr_strictMono.lt_iff_lt

/-! non-vacuity: the hypotheses are met on the whole documented domain `[0, 1e5]` Hz -/
example : (0:ℝ) ∈ Ioi (-1960:ℝ) ∧ (1e5:ℝ) ∈ Ioi (-1960:ℝ) ∧ (0:ℝ) ∈ Ioi (-700:ℝ) := by
  refine ⟨?_, ?_, ?_⟩ <;> (simp only [mem_Ioi]; norm_num)
example : uncorr 24 ≠ 26.28 := by unfold uncorr; norm_num

end PdsVerif.C19

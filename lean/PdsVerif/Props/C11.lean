/-
  C11 — read_signal returns exactly what was stored, from a path or a stream.

  These are the *glue* theorems: suffix → type inference, the `force_as` / stream guard, the dispatch chain,
  what each helper does with `key` and `dtype`, the HDF5 depth-first search, and `wds_read_signal`'s
  `try … except`.  `config`, `env`, `sfTypes`, … (namespace `PdsVerif.Gen.ReadSig`) are regenerated from
  `src/pydrobert/speech/util.py` / `config.py` on every run, so every statement below is re-checked by the
  kernel against the chain of `if`/`elif`s the source has *now*.

  The codecs (numpy, torch, h5py, libsndfile, `wave`, `_sphere.py`, pydrobert-kaldi) are *outside* the model:
  they appear as arbitrary functions (`Prims`).  That an array written with a container's own writer comes back
  bit-identically is therefore NOT a theorem here – it is established by runs (harness/c11.py).  This property
  is claimed as *partial*.

  Unless said otherwise the statements hold for every environment `e : Env` (any set of soundfile types, any
  classification of non-ASCII word characters, any set of missing optional packages); the examples use `exEnv`, an
  installation with soundfile (wav, flac, aiff, ogg) and without scipy.
-/
import PdsVerif.Model.ReadSignal
import PdsVerif.Lemmas.ReadSignal
import PdsVerif.Generated.ReadSig
import PdsVerif.Lemmas.WavFrames

namespace PdsVerif.C11

open PdsVerif.Model.ReadSignal
open PdsVerif.Gen.ReadSig

/-- the environment of the examples: soundfile handles wav / flac / aiff / ogg, scipy is missing -/
def exEnv : Env := ⟨[(str% "aiff"), (str% "flac"), (str% "ogg"), (str% "wav")], fun _ => false, [.wavScipy]⟩

/-- `_infer_force_as_from_rfilename` on the generated chain -/
abbrev infer (e : Env) (name : Str) : Except Err Str :=
  inferForceAs config.rules config.inferElse e name

/-- `read_signal` up to the decoder call, on the generated chain -/
abbrev disp (e : Env) (isStream : Bool) (name : Str) (forceAs : Option Str) (key : Key) (dtype : Option Str) :
    Except Err Plan :=
  dispatch config e isStream name forceAs key dtype

/-! ## the model implements the regular expression the source has -/

theorem regex_is_modelled : tableRegexSrc = (str% "^(ark|scp)(,\\w+)*:") := by decide

/-- `,` and `:` are not word characters, whatever the non-ASCII classification -/
theorem word_sep (e : Env) : e.word ',' = false ∧ e.word ':' = false := by
  constructor <;> simp [Env.word, asciiWord]

/-- `match(r"^(ark|scp)(,\w+)*:", name)` succeeds iff the name is `ark` or `scp`, then any number of
`,`-introduced non-empty runs of word characters, then `:` (then anything). -/
theorem tableMatch_iff (e : Env) (s : Str) :
    tableMatch e.word s = true ↔
      ∃ pre opts rest, (pre = (str% "ark") ∨ pre = (str% "scp")) ∧
        (∀ o ∈ opts, o ≠ [] ∧ ∀ c ∈ o, e.word c = true) ∧
        s = pre ++ optsTail opts rest :=
  tableMatch_iff_lang e.word (word_sep e).1 (word_sep e).2 s

example : tableMatch exEnv.word (str% "ark,t,cs:foo.wav") = true := by decide
example : tableMatch exEnv.word (str% "scp:x") = true ∧ tableMatch exEnv.word (str% "ark,:x") = false
    ∧ tableMatch exEnv.word (str% "ark,a-b:x") = false ∧ tableMatch exEnv.word (str% "Ark:x") = false
    ∧ tableMatch exEnv.word (str% "xark:x") = false ∧ tableMatch exEnv.word (str% "ark") = false := by decide

/-! ## suffix → type inference -/

/-- the suffixes of the `endswith` chain, as the source has them -/
def chainSuffixes : List Str :=
  config.rules.filterMap fun r => match r with | .endsWith s _ => some s | _ => none

/-- … which are exactly the documented ones (in whatever order) -/
theorem chainSuffixes_documented : ∀ s, s ∈ chainSuffixes ↔
    s ∈ [(str% ".wav"), (str% ".hdf5"), (str% ".npy"), (str% ".npz"), (str% ".pt"), (str% ".sph"), (str% "|")] := by
  have h1 : chainSuffixes.all ([(str% ".wav"), (str% ".hdf5"), (str% ".npy"), (str% ".npz"), (str% ".pt"),
      (str% ".sph"), (str% "|")].contains ·) = true := by decide
  have h2 : [(str% ".wav"), (str% ".hdf5"), (str% ".npy"), (str% ".npz"), (str% ".pt"), (str% ".sph"),
      (str% "|")].all (chainSuffixes.contains ·) = true := by decide
  intro s
  constructor <;> intro h
  · simpa using List.all_eq_true.1 h1 s h
  · simpa using List.all_eq_true.1 h2 s h

/-- the chain consists of the table regex, the soundfile test and `endswith` tests – nothing else -/
theorem rules_shape : config.rules.all (fun r => match r with
      | .tableRegex _ => true | .lastSegInSf => true | .endsWith s _ => chainSuffixes.contains s) = true
    ∧ config.rules.any (fun r => match r with | .tableRegex _ => true | _ => false) = true
    ∧ config.rules.contains .lastSegInSf = true
    ∧ config.inferElse = .ioError := by decide

/-- `inferKind_total`: for every string the inference returns a type or raises `IOError` – never anything
else. -/
theorem inferKind_total (e : Env) (name : Str) :
    (∃ fa, infer e name = .ok fa) ∨ infer e name = .error .ioError := by
  unfold infer inferForceAs
  split
  · exact Or.inl ⟨_, rfl⟩
  · exact Or.inr rfl

/-- `no_suffix_ioerror` (and its converse): `IOError` is raised exactly for the names that are not a Kaldi
table rspecifier, whose last `.`-segment is not a soundfile type and that end with none of `.wav .hdf5 .npy .npz
.pt .sph |`. -/
theorem no_suffix_ioerror_iff (e : Env) (name : Str) :
    infer e name = .error .ioError ↔
      (tableMatch e.word name = false ∧ lastSeg name ∉ e.sf ∧ ∀ s ∈ chainSuffixes, hasSuffix name s = false) := by
  obtain ⟨hshape, htab, hsf, hels⟩ := rules_shape
  have herr : infer e name = .error .ioError ↔ ∀ r ∈ config.rules, r.fires e name = false := by
    have := infer_error_iff config.rules config.inferElse e name
    rwa [hels] at this
  rw [herr]
  constructor
  · intro h
    refine ⟨?_, ?_, ?_⟩
    · obtain ⟨r, hr, hrt⟩ := List.any_eq_true.1 htab
      have := h r hr
      cases r <;> simp [Rule.fires] at hrt this ⊢
      exact this
    · have := h .lastSegInSf (by simpa using hsf)
      simpa [Rule.fires] using this
    · intro s hs
      unfold chainSuffixes at hs
      obtain ⟨r, hr, hrs⟩ := List.mem_filterMap.1 hs
      have := h r hr
      cases r <;> simp at hrs
      subst hrs
      simpa [Rule.fires] using this
  · rintro ⟨h0, h1, hs⟩ r hr
    have hsh := List.all_eq_true.1 hshape r hr
    cases r with
    | tableRegex fa => simpa [Rule.fires] using h0
    | lastSegInSf => simpa [Rule.fires] using h1
    | endsWith s fa =>
      simp only [Rule.fires]
      exact hs s (by simpa using hsh)

theorem no_suffix_ioerror (e : Env) (name : Str) (h0 : tableMatch e.word name = false)
    (h1 : lastSeg name ∉ e.sf) (hs : ∀ s ∈ chainSuffixes, hasSuffix name s = false) :
    infer e name = .error .ioError :=
  (no_suffix_ioerror_iff e name).2 ⟨h0, h1, hs⟩

-- no dot / dot only / upper case / a type that is not at the end: all `IOError` on this installation
example : infer exEnv (str% "foo") = .error .ioError ∧ infer exEnv (str% ".") = .error .ioError
    ∧ infer exEnv (str% "") = .error .ioError ∧ infer exEnv (str% "x.WAV") = .error .ioError
    ∧ infer exEnv (str% "x.npy.bak") = .error .ioError ∧ infer exEnv (str% "xwav") = .error .ioError
    ∧ infer exEnv (str% "x.wav ") = .error .ioError := by decide

-- the hypotheses of `no_suffix_ioerror`, spelled out on one name
example : tableMatch exEnv.word (str% "notes.txt") = false ∧ lastSeg (str% "notes.txt") ∉ exEnv.sf
    ∧ ∀ s ∈ chainSuffixes, hasSuffix (str% "notes.txt") s = false := by decide

/-- a Kaldi table rspecifier is a table, whatever follows the colon -/
theorem table_rspecifier (e : Env) (name : Str) (h : tableMatch e.word name = true) :
    infer e name = .ok (str% "table") := by
  simp [infer, inferForceAs, config, Rule.apply, h]

example : infer exEnv (str% "ark:foo.npy") = .ok (str% "table") := by decide

/-- **`suffix_maps_to_kind`**: each documented suffix gives its type, for every stem, on every installation
(whether or not soundfile is there), provided the name is not a Kaldi table rspecifier. -/
theorem suffix_maps_to_kind (e : Env) (stem : Str) :
    (tableMatch e.word (stem ++ (str% ".wav")) = false → infer e (stem ++ (str% ".wav")) = .ok (str% "wav")) ∧
    (tableMatch e.word (stem ++ (str% ".hdf5")) = false → infer e (stem ++ (str% ".hdf5")) = .ok (str% "hdf5")) ∧
    (tableMatch e.word (stem ++ (str% ".npy")) = false → infer e (stem ++ (str% ".npy")) = .ok (str% "npy")) ∧
    (tableMatch e.word (stem ++ (str% ".npz")) = false → infer e (stem ++ (str% ".npz")) = .ok (str% "npz")) ∧
    (tableMatch e.word (stem ++ (str% ".pt")) = false → infer e (stem ++ (str% ".pt")) = .ok (str% "pt")) ∧
    (tableMatch e.word (stem ++ (str% ".sph")) = false → infer e (stem ++ (str% ".sph")) = .ok (str% "sph")) := by
  have hw : lastSeg (stem ++ (str% ".wav")) = (str% "wav") := lastSeg_append_dot stem (str% "wav") (by decide)
  have hh : lastSeg (stem ++ (str% ".hdf5")) = (str% "hdf5") := lastSeg_append_dot stem (str% "hdf5") (by decide)
  have hy : lastSeg (stem ++ (str% ".npy")) = (str% "npy") := lastSeg_append_dot stem (str% "npy") (by decide)
  have hz : lastSeg (stem ++ (str% ".npz")) = (str% "npz") := lastSeg_append_dot stem (str% "npz") (by decide)
  have hp : lastSeg (stem ++ (str% ".pt")) = (str% "pt") := lastSeg_append_dot stem (str% "pt") (by decide)
  have hs : lastSeg (stem ++ (str% ".sph")) = (str% "sph") := lastSeg_append_dot stem (str% "sph") (by decide)
  refine ⟨?_, ?_, ?_, ?_, ?_, ?_⟩ <;> intro h0
  · by_cases hm : (str% "wav") ∈ e.sf <;>
      simp [infer, inferForceAs, config, List.findSome?, Rule.apply, h0, hw, hm, hasSuffix]
  · by_cases hm : (str% "hdf5") ∈ e.sf <;>
      simp [infer, inferForceAs, config, List.findSome?, Rule.apply, h0, hh, hm, hasSuffix, List.isSuffixOf,
        List.reverse_append, List.isPrefixOf]
  · by_cases hm : (str% "npy") ∈ e.sf <;>
      simp [infer, inferForceAs, config, List.findSome?, Rule.apply, h0, hy, hm, hasSuffix, List.isSuffixOf,
        List.reverse_append, List.isPrefixOf]
  · by_cases hm : (str% "npz") ∈ e.sf <;>
      simp [infer, inferForceAs, config, List.findSome?, Rule.apply, h0, hz, hm, hasSuffix, List.isSuffixOf,
        List.reverse_append, List.isPrefixOf]
  · by_cases hm : (str% "pt") ∈ e.sf <;>
      simp [infer, inferForceAs, config, List.findSome?, Rule.apply, h0, hp, hm, hasSuffix, List.isSuffixOf,
        List.reverse_append, List.isPrefixOf]
  · by_cases hm : (str% "sph") ∈ e.sf <;>
      simp [infer, inferForceAs, config, List.findSome?, Rule.apply, h0, hs, hm, hasSuffix, List.isSuffixOf,
        List.reverse_append, List.isPrefixOf]

example : tableMatch exEnv.word ((str% "a/b c") ++ (str% ".wav")) = false
    ∧ tableMatch exEnv.word ((str% "ark") ++ (str% ".npy")) = false
    ∧ infer exEnv ((str% "ark") ++ (str% ".npy")) = .ok (str% "npy") := by decide

set_option linter.unusedSimpArgs false in -- `hw` is needed when the `.wav` test stands before the soundfile test
/-- a name whose last `.`-segment is a soundfile type gets that type -/
theorem sf_suffix (e : Env) (name : Str) (h0 : tableMatch e.word name = false) (h : lastSeg name ∈ e.sf) :
    infer e name = .ok (lastSeg name) := by
  by_cases hw : hasSuffix name (str% ".wav") = true
  · obtain ⟨stem, rfl⟩ := (hasSuffix_iff name _).1 hw
    rw [lastSeg_append_dot stem (str% "wav") (by decide)]
    exact (suffix_maps_to_kind e stem).1 h0
  · simp [infer, inferForceAs, config, Rule.apply, h0, h, hw]

example : tableMatch exEnv.word (str% "a.b.flac") = false ∧ lastSeg (str% "a.b.flac") ∈ exEnv.sf
    ∧ infer exEnv (str% "a.b.flac") = .ok (str% "flac") := by decide

/-- a name ending in `|` (and in no soundfile type) is a Kaldi input pipe -/
theorem pipe_suffix (e : Env) (stem : Str) (h0 : tableMatch e.word (stem ++ (str% "|")) = false)
    (h1 : lastSeg (stem ++ (str% "|")) ∉ e.sf) : infer e (stem ++ (str% "|")) = .ok (str% "kaldi") := by
  simp [infer, inferForceAs, config, List.findSome?, Rule.apply, h0, h1, hasSuffix, List.isSuffixOf,
    List.reverse_append, List.isPrefixOf]

example : tableMatch exEnv.word ((str% "cat x") ++ (str% "|")) = false
    ∧ lastSeg ((str% "cat x") ++ (str% "|")) ∉ exEnv.sf := by decide
example : infer exEnv (str% "gunzip -c x.wav.gz |") = .ok (str% "kaldi") := by decide
example : infer exEnv (str% "x.wav.npy") = .ok (str% "npy") ∧ infer exEnv (str% "x.npy.wav") = .ok (str% "wav")
    ∧ infer exEnv (str% ".npz") = .ok (str% "npz") ∧ infer exEnv (str% "a.b/c.pt") = .ok (str% "pt") := by decide

/-- The soundfile test stands before the `.wav` test in the source.  That precedence is unobservable: a name
ending in `.wav` is typed `wav` whether or not soundfile handles wav (both rules answer `wav`), and `wav` is
dispatched to the scipy / `wave` reader in either case (`force_as_reader` below).  (The proof does not depend
on the order of the two rules, so swapping them in the source changes nothing here.) -/
theorem wav_precedence_irrelevant (e : Env) (stem : Str)
    (h0 : tableMatch e.word (stem ++ (str% ".wav")) = false) :
    infer e (stem ++ (str% ".wav")) = .ok (str% "wav") := (suffix_maps_to_kind e stem).1 h0

/-- A bare name equal to a soundfile type (no dot at all) is typed as that type rather than refused:
`rsplit(".", maxsplit=1)[-1]` of a name without a dot is the name.  (Reading then fails with
`FileNotFoundError` – an `IOError` – unless a file of that name exists.) -/
theorem bare_type_name (e : Env) (t : Str) (ht : t ∈ e.sf) (hd : '.' ∉ t) (h0 : tableMatch e.word t = false) :
    infer e t = .ok t := by
  have := sf_suffix e t h0 (by rw [lastSeg_no_dot t hd]; exact ht)
  rwa [lastSeg_no_dot t hd] at this

example : (str% "ogg") ∈ exEnv.sf ∧ '.' ∉ (str% "ogg") ∧ tableMatch exEnv.word (str% "ogg") = false := by decide
example : infer exEnv (str% "wav") = .ok (str% "wav") ∧ infer exEnv (str% "flac") = .ok (str% "flac")
    ∧ infer exEnv (str% "npy") = .error .ioError := by decide

/-- … and that is the only way the rule differs from "ends with `.` + type": for dot-free types, the last
segment is a type iff the name *is* a type or ends with `.type`. -/
theorem lastSeg_mem_iff (sf : List Str) (hsf : ∀ t ∈ sf, '.' ∉ t) (name : Str) :
    lastSeg name ∈ sf ↔ name ∈ sf ∨ ∃ t ∈ sf, ∃ stem, name = stem ++ '.' :: t := by
  constructor
  · intro h
    by_cases hd : '.' ∈ name
    · exact Or.inr ⟨lastSeg name, h, lastSeg_split name hd⟩
    · left
      rwa [lastSeg_no_dot name hd] at h
  · rintro (h | ⟨t, ht, stem, rfl⟩)
    · rwa [lastSeg_no_dot name (hsf name h)]
    · rwa [lastSeg_append_dot stem t (hsf t ht)]

/-- the soundfile types of this installation contain no dot and are `base ∩ available` -/
theorem sfTypes_wellformed : (∀ t ∈ sfTypes, '.' ∉ t) ∧ sfTypes = sfBase.filter (sfFull.contains ·) := by
  decide

/-! ## the `force_as` / stream guard and the dispatch chain -/

/-- **`stream_needs_force_as`**: anything that is not a `str`, without `force_as`, raises `ValueError`. -/
theorem stream_needs_force_as (e : Env) (name : Str) (key : Key) (dtype : Option Str) :
    disp e true name none key dtype = .error .valueError := rfl

/-- **`kaldi_on_stream`**: the Kaldi types are refused for a stream with `ValueError`. -/
theorem kaldi_on_stream (e : Env) (name fa : Str) (key : Key) (dtype : Option Str)
    (h : fa = (str% "kaldi") ∨ fa = (str% "table")) :
    disp e true name (some fa) key dtype = .error .valueError := by
  rcases h with rfl | rfl <;> rfl

theorem streamRejected_eq : config.streamRejected = [(str% "kaldi"), (str% "table")] := by decide

/-- the values `force_as` is compared with, as the source has them -/
theorem forceAsLiterals_eq : forceAsLiterals = config.arms.map (fun a => match a.cond with
    | .eq l => l | .eqOrInSf l => l) := by decide

/-- the error message lists exactly the accepted literals -/
theorem avail_message_complete : ∀ x, x ∈ availForceAs ↔ x ∈ forceAsLiterals := by
  have h1 : availForceAs.all (forceAsLiterals.contains ·) = true := by decide
  have h2 : forceAsLiterals.all (availForceAs.contains ·) = true := by decide
  intro x
  constructor <;> intro h
  · simpa using List.all_eq_true.1 h1 x h
  · simpa using List.all_eq_true.1 h2 x h

/-- **`unknown_force_as`**: a `force_as` that is neither one of the literals of the chain nor a soundfile type
raises `ValueError` – for a path (the file name is not even looked at) and for a stream. -/
theorem unknown_force_as (e : Env) (isStream : Bool) (name fa : Str) (key : Key) (dtype : Option Str)
    (h1 : fa ∉ forceAsLiterals) (h2 : fa ∉ e.sf) :
    disp e isStream name (some fa) key dtype = .error .valueError := by
  simp only [forceAsLiterals, List.mem_cons, List.not_mem_nil, or_false, not_or] at h1
  obtain ⟨a1, a2, a3, a4, a5, a6, a7, a8, a9, a10⟩ := h1
  have hfind : config.arms.find? (fun a => a.cond.holds e fa) = none := by
    rw [List.find?_eq_none]
    intro a ha
    simp only [config, List.mem_cons, List.not_mem_nil, or_false] at ha
    rcases ha with rfl | rfl | rfl | rfl | rfl | rfl | rfl | rfl | rfl | rfl <;> simp [Cond.holds, *]
  have hres : resolveForceAs config e isStream name (some fa) = .ok fa := by
    cases isStream
    · rfl
    · have hmem : fa ∉ config.streamRejected := by simp [config, a1, a8]
      simp [resolveForceAs, hmem]
  simp only [disp, dispatch, hres, bind, Except.bind, dispatchOn, hfind]
  rfl

example : (str% "WAV") ∉ forceAsLiterals ∧ (str% "WAV") ∉ exEnv.sf ∧ (str% "") ∉ forceAsLiterals
    ∧ (str% "mp3") ∉ exEnv.sf := by decide

/-- which reader each literal `force_as` value reaches for a file name when every optional package is there
(whatever the soundfile types are) … -/
theorem force_as_reader (e : Env) (hm : e.missing = []) (name : Str) :
    forceAsLiterals.map (fun fa => (disp e false name (some fa) .none none).map (·.reader)) =
      [.ok .kaldiTable, .ok .wavScipy, .ok .hdf5, .ok .npy, .ok .npz, .ok .torch, .ok .sphere, .ok .kaldiInput,
       .ok .fromfile, .ok .soundfile] := by
  simp [forceAsLiterals, disp, dispatch, resolveForceAs, dispatchOn, config, List.find?, Cond.holds, Branch.run,
    onImportError, callReader, hm, bind, Except.bind, Except.map, pure, Except.pure, ReaderInfo.plan,
    ReaderInfo.keySel, info_kaldiTable, info_wavScipy, info_hdf5, info_npy, info_npz, info_torch, info_sphere,
    info_kaldiInput, info_fromfile, info_soundfile]

theorem force_as_reader_stream (e : Env) (hm : e.missing = []) (name : Str) :
    forceAsLiterals.map (fun fa => (disp e true name (some fa) .none none).map (·.reader)) =
      [.error .valueError, .ok .wavScipy, .ok .hdf5, .ok .npy, .ok .npz, .ok .torch, .ok .sphere,
       .error .valueError, .ok .fromfile, .ok .soundfile] := by
  simp [forceAsLiterals, disp, dispatch, resolveForceAs, dispatchOn, config, List.find?, Cond.holds, Branch.run,
    onImportError, callReader, hm, bind, Except.bind, Except.map, pure, Except.pure, ReaderInfo.plan,
    ReaderInfo.keySel, info_kaldiTable, info_wavScipy, info_hdf5, info_npy, info_npz, info_torch, info_sphere,
    info_kaldiInput, info_fromfile, info_soundfile]

/-- a soundfile type that is not one of the literals goes to soundfile (path or stream) -/
theorem sf_type_reader (e : Env) (hm : Reader.soundfile ∉ e.missing) (isStream : Bool) (name t : Str)
    (ht : t ∈ e.sf) (hl : t ∉ forceAsLiterals) :
    (disp e isStream name (some t) .none none).map (·.reader) = .ok .soundfile := by
  simp only [forceAsLiterals, List.mem_cons, List.not_mem_nil, or_false, not_or] at hl
  obtain ⟨a1, a2, a3, a4, a5, a6, a7, a8, a9, a10⟩ := hl
  have hres : resolveForceAs config e isStream name (some t) = .ok t := by
    cases isStream
    · rfl
    · have hmem : t ∉ config.streamRejected := by simp [config, a1, a8]
      simp [resolveForceAs, hmem]
  have hfind : config.arms.find? (fun a => a.cond.holds e t) =
      some ⟨.eqOrInSf (str% "soundfile"), .call info_soundfile⟩ := by
    have b : ∀ l : Str, t ≠ l → (t == l) = false := fun l h => by simpa using h
    simp [config, List.find?, Cond.holds, b _ a1, b _ a2, b _ a3, b _ a4, b _ a5, b _ a6, b _ a7, b _ a8, b _ a9, ht]
  have hmiss : e.missing.contains Reader.soundfile = false := by simpa using hm
  simp only [disp, dispatch, hres, bind, Except.bind, dispatchOn, hfind, Branch.run, callReader, info_soundfile, hmiss]
  rfl

/-- with scipy installed `wav` goes to scipy, without it to `wave` (`try … except ImportError`) -/
theorem wav_reader (e : Env) (isStream : Bool) (name : Str) (key : Key) (dtype : Option Str) :
    (disp e isStream name (some (str% "wav")) key dtype).map (·.reader) =
      if .wavScipy ∈ e.missing then (if .wavWave ∈ e.missing then .error .importError else .ok .wavWave)
      else .ok .wavScipy := by
  cases isStream <;>
  · simp only [disp, dispatch, resolveForceAs, dispatchOn, config, List.find?, Cond.holds, bind, Except.bind]
    by_cases h1 : Reader.wavScipy ∈ e.missing <;> by_cases h2 : Reader.wavWave ∈ e.missing <;>
      simp [Branch.run, onImportError, callReader, info_wavScipy, info_wavWave, ReaderInfo.plan, ReaderInfo.keySel, h1, h2,
        Except.map, bind, Except.bind, pure, Except.pure]

/-- file names of this installation, end to end -/
example : (inferKind config exEnv (str% "a/b.wav")) = .ok .wavWave
    ∧ inferKind config exEnv (str% "x.flac") = .ok .soundfile ∧ inferKind config exEnv (str% "x.aiff") = .ok .soundfile
    ∧ inferKind config exEnv (str% "x.npy") = .ok .npy ∧ inferKind config exEnv (str% "x.npz") = .ok .npz
    ∧ inferKind config exEnv (str% "x.pt") = .ok .torch ∧ inferKind config exEnv (str% "x.hdf5") = .ok .hdf5
    ∧ inferKind config exEnv (str% "x.sph") = .ok .sphere ∧ inferKind config exEnv (str% "ark:x") = .ok .kaldiTable
    ∧ inferKind config exEnv (str% "cat x |") = .ok .kaldiInput
    ∧ inferKind config exEnv (str% "x.bin") = .error .ioError := by decide

/-- a type the inference produces is always one the dispatch chain knows: from a file *name* the `ValueError`
of the chain's `else` is unreachable. -/
theorem inferred_type_is_dispatchable (e : Env) (name fa : Str) (h : infer e name = .ok fa) :
    ∃ arm, config.arms.find? (fun a => a.cond.holds e fa) = some arm := by
  have hr : fa ∈ forceAsLiterals ∨ fa ∈ e.sf := by
    unfold infer inferForceAs at h
    split at h
    · rename_i fa' hfs
      cases h
      obtain ⟨r, hr, hfa⟩ := List.exists_of_findSome?_eq_some hfs
      simp only [config, List.mem_cons, List.not_mem_nil, or_false] at hr
      rcases hr with rfl | rfl | rfl | rfl | rfl | rfl | rfl | rfl | rfl <;>
        simp only [Rule.apply] at hfa <;> split at hfa <;> cases hfa
      all_goals first
        | (left; decide)
        | (right; rename_i hc; simpa using hc)
    · cases h
  cases hf : config.arms.find? (fun a => a.cond.holds e fa) with
  | some arm => exact ⟨arm, rfl⟩
  | none =>
    exfalso
    rw [List.find?_eq_none] at hf
    rcases hr with hl | hs
    · simp only [forceAsLiterals, List.mem_cons, List.not_mem_nil, or_false] at hl
      have := fun a ha => hf a ha
      simp only [config, List.mem_cons, List.not_mem_nil, or_false, forall_eq_or_imp, forall_eq, Cond.holds] at this
      rcases hl with rfl | rfl | rfl | rfl | rfl | rfl | rfl | rfl | rfl | rfl <;> simp at this
    · have := hf ⟨.eqOrInSf (str% "soundfile"), .call info_soundfile⟩ (by simp [config])
      simp [Cond.holds, hs] at this

/-! ## `key` -/

/-- **`default_key_arr0`**: a numpy archive is indexed with `key` when it is given (truthy), with `'arr_0'`
otherwise – whatever `dtype`. -/
theorem default_key_arr0 (key : Key) (dtype : Option Str) :
    (info_npz.plan key dtype).map (·.key) =
      .ok (.entry (if key.truthy then key else .str (str% "arr_0"))) := by
  cases dtype <;> simp [info_npz, ReaderInfo.plan, ReaderInfo.keySel, Except.map, bind, Except.bind, pure, Except.pure]

example : (info_npz.plan .none none).map (·.key) = .ok (.entry (.str (str% "arr_0")))
    ∧ (info_npz.plan (.str (str% "feats")) none).map (·.key) = .ok (.entry (.str (str% "feats")))
    ∧ (info_npz.plan (.str []) none).map (·.key) = .ok (.entry (.str (str% "arr_0"))) := by decide

/-- an HDF5 file is indexed with `key` when given, searched depth-first otherwise -/
theorem default_key_hdf5 (key : Key) (dtype : Option Str) :
    (info_hdf5.plan key dtype).map (·.key) = .ok (if key.truthy then .entry key else .firstDataset) := by
  cases dtype <;> simp [info_hdf5, ReaderInfo.plan, ReaderInfo.keySel, Except.map, bind, Except.bind, pure, Except.pure]

/-- a Kaldi table: no key = index 0 = the first entry; a `str` is looked up; a number is a position -/
theorem default_key_table (dtype : Option Str) :
    (info_kaldiTable.plan .none dtype).map (·.key) = .ok (.tableIndex 0)
    ∧ (∀ s, (info_kaldiTable.plan (.str s) dtype).map (·.key) = .ok (.tableLookup s))
    ∧ (∀ n, (info_kaldiTable.plan (.int n) dtype).map (·.key) = .ok (.tableIndex n)) := by
  refine ⟨?_, ?_, ?_⟩ <;> intros <;> cases dtype <;>
    simp [info_kaldiTable, ReaderInfo.plan, ReaderInfo.keySel, Except.map, bind, Except.bind, pure, Except.pure]

theorem table_first_entry (k : Str) (v : Nat) (es : List (Str × Nat)) :
    tableGet ((k, v) :: es) (.tableIndex 0) = .ok v := rfl

/-- the Kaldi data type defaults to `"bm"` (table and plain input) -/
theorem kaldi_default_dtype (key : Key) :
    (info_kaldiTable.plan key none).map (·.decoderDtype) = .ok (some (str% "bm"))
    ∧ (info_kaldiInput.plan key none).map (·.decoderDtype) = .ok (some (str% "bm")) := by
  constructor
  · cases key <;> simp [info_kaldiTable, ReaderInfo.plan, ReaderInfo.keySel, guardDtype, Except.map, bind,
      Except.bind, pure, Except.pure]
  · simp [info_kaldiInput, ReaderInfo.plan, ReaderInfo.keySel, guardDtype, Except.map, bind, Except.bind, pure,
      Except.pure]

/-- the readers that ignore `key` altogether -/
theorem key_ignored : (infos.filter (fun i => i.key == .ignored)).map (·.reader) =
    [.wavScipy, .wavWave, .npy, .torch, .sphere, .kaldiInput, .fromfile, .soundfile] := by decide

/-! ### the HDF5 depth-first search -/

/-- The `while group_stack:` loop returns the first dataset in depth-first order, the members of every group
taken in ascending name order; it raises `IOError` exactly when there is no dataset; the fuel `size` always
suffices (every object is popped at most once). -/
theorem h5_first_dataset (file : H5) :
    h5First file = match firstD file.depth file with
      | some id => .ok id
      | none => .error .ioError := by
  rw [h5First_eq]; cases firstD file.depth file <;> rfl

theorem h5_never_out_of_fuel (file : H5) : h5First file ≠ .error .outOfFuel := by
  rw [h5_first_dataset]; split <;> simp

/-- "ascending name order": the order in which the loop pops the members of a group -/
theorem h5_visit_order (cs : List H5) :
    (sortDesc cs).reverse.Pairwise (fun a b => strLe a.name b.name = true) := visit_order_ascending cs

/-- the tree of tests/test_util.py::test_read_hdf5 (`a/b/c`, `a/b/d/e` groups; `a/b/d/f`, `g` datasets) with
two more members -/
def demoFile : H5 := .group (str% "/") [
  .dataset (str% "g") 4,
  .group (str% "a") [.group (str% "b") [
      .group (str% "d") [.dataset (str% "f") 2, .group (str% "e") [], .dataset (str% "E") 3],
      .group (str% "c") []]]]

example : h5First demoFile = .ok 3 ∧ firstD demoFile.depth demoFile = some 3 := by decide
example : h5First (.group (str% "/") [.group (str% "a") []]) = .error .ioError := by decide

/-! ## `dtype` -/

/-- the helper ends with the cast: `.cast` is the last operation and occurs once -/
def CastLast (i : ReaderInfo) : Prop := ∃ pre, i.ops = pre ++ [.cast] ∧ Op.cast ∉ pre

/-- Generic form of **`dtype_is_final_cast`**: for a helper whose last statement before `return data` is
`if dtype: data = data.astype(dtype)`, reading with `dtype = d` is reading without `dtype` followed by
`.astype(d)` – for every behaviour of the decoder, of the key selection, of the reshaping (`Prims` is
arbitrary), including every way they may fail. -/
theorem final_cast_generic {α : Type} (P : Prims α) (i : ReaderInfo) (g : Bool) (hm : i.dtype = .finalCast g)
    (hl : CastLast i) (key : Key) (d : Str) (hd : d ≠ []) :
    (i.plan key (some d) >>= fun p => p.run P) = (i.plan key none >>= fun p => p.run P) >>= P.cast d := by
  obtain ⟨pre, hops, hpre⟩ := hl
  obtain ⟨h1, h2⟩ := plan_finalCast i g hm pre hops hpre key d hd
  rw [h1, h2]
  cases i.keySel key with
  | error err => rfl
  | ok sel =>
    show Plan.run P ⟨i.reader, sel, none, some d, pre ++ [Op.cast]⟩ = Plan.run P ⟨i.reader, sel, none, none, pre⟩ >>= P.cast d
    exact run_cast_last P i.reader sel none d pre hpre

/-- the helpers for wav (scipy and `wave`), soundfile (wav / flac / aiff / ogg), npy, npz, pt and HDF5 all end
with the cast -/
theorem final_cast_readers :
    ∀ i ∈ [info_wavScipy, info_wavWave, info_soundfile, info_npy, info_npz, info_torch, info_hdf5],
      (∃ g, i.dtype = .finalCast g) ∧ CastLast i := by
  intro i hi
  simp only [List.mem_cons, List.not_mem_nil, or_false] at hi
  rcases hi with rfl | rfl | rfl | rfl | rfl | rfl | rfl
  · exact ⟨⟨false, rfl⟩, [], rfl, by simp⟩
  · exact ⟨⟨false, rfl⟩, [.reshape], rfl, by simp⟩
  · exact ⟨⟨true, rfl⟩, [], rfl, by simp⟩
  · exact ⟨⟨false, rfl⟩, [], rfl, by simp⟩
  · exact ⟨⟨false, rfl⟩, [.select], rfl, by simp⟩
  · exact ⟨⟨false, rfl⟩, [.toNumpy], rfl, by simp⟩
  · exact ⟨⟨false, rfl⟩, [.select, .toNumpy], rfl, by simp⟩

/-- the other helpers hand `dtype` to the decoder and never cast: Kaldi (a Kaldi type name), `np.fromfile`
(the type the bytes are *interpreted* as), SPHERE (the type of the output buffer) -/
theorem dtype_to_decoder : (infos.filter (fun i => match i.dtype with | .toDecoder _ _ => true | _ => false)).map
    (·.reader) = [.kaldiTable, .sphere, .kaldiInput, .fromfile] := by decide

/-- every helper of the chain is one of the two kinds -/
theorem infos_complete : infos.map (·.reader) = [.kaldiTable, .wavScipy, .wavWave, .hdf5, .npy, .npz, .torch,
    .sphere, .kaldiInput, .fromfile, .soundfile] ∧
    ∀ a ∈ config.arms, ∀ i ∈ a.branch.infos, i ∈ infos := by
  decide

/-- **`dtype_is_final_cast`**, through the whole of `read_signal`: whenever the call reaches one of the
cast-last readers (so for every wav / flac / aiff / ogg / npy / npz / pt / HDF5 file, by name or as a stream,
whatever `force_as` and `key`), `read_signal(…, dtype=d)` = `read_signal(…)` followed by `.astype(d)`. -/
theorem dtype_is_final_cast {α : Type} (e : Env) (P : Prims α) (isStream : Bool) (name : Str)
    (forceAs : Option Str) (key : Key) (d : Str) (hd : d ≠ []) (p : Plan)
    (hp : disp e isStream name forceAs key none = .ok p)
    (hr : p.reader ∈ [Reader.wavScipy, .wavWave, .soundfile, .npy, .npz, .torch, .hdf5]) :
    readSignal config e P isStream name forceAs key (some d) =
      readSignal config e P isStream name forceAs key none >>= P.cast d := by
  unfold readSignal
  unfold disp dispatch at hp
  unfold dispatch
  cases hfa : resolveForceAs config e isStream name forceAs with
  | error err => rw [hfa] at hp; cases hp
  | ok fa =>
    rw [hfa] at hp
    simp only [bind, Except.bind] at hp ⊢
    unfold dispatchOn at hp ⊢
    cases hfind : config.arms.find? (fun a => a.cond.holds e fa) with
    | none => simp [hfind] at hp
    | some arm =>
      rw [hfind] at hp
      simp only [] at hp ⊢
      have harm := List.mem_of_find?_eq_some hfind
      -- the statement for one helper call
      have one : ∀ i ∈ infos, ∀ p, callReader e i key none = .ok p →
          p.reader ∈ [Reader.wavScipy, .wavWave, .soundfile, .npy, .npz, .torch, .hdf5] →
          (callReader e i key (some d) >>= fun p => p.run P) =
            (callReader e i key none >>= fun p => p.run P) >>= P.cast d := by
        intro i hi p hcp hrd
        rw [callReader_reader e i key none p hcp] at hrd
        have hin : i ∈ [info_wavScipy, info_wavWave, info_soundfile, info_npy, info_npz, info_torch, info_hdf5] := by
          simp only [infos, List.mem_cons, List.not_mem_nil, or_false] at hi
          rcases hi with rfl | rfl | rfl | rfl | rfl | rfl | rfl | rfl | rfl | rfl | rfl <;>
            first | (simp; done) | (exfalso; revert hrd; decide)
        obtain ⟨⟨g, hg⟩, hl⟩ := final_cast_readers i hin
        unfold callReader at hcp ⊢
        split
        · rename_i hmiss; rw [if_pos hmiss] at hcp; cases hcp
        · exact final_cast_generic P i g hg hl key d hd
      have hmem := infos_complete.2 arm harm
      cases hb : arm.branch with
      | call i =>
        rw [hb] at hp hmem
        simp only [Branch.run] at hp ⊢
        exact one i (hmem i (by simp [Branch.infos])) p hp hr
      | assertStr i =>
        rw [hb] at hp hmem
        simp only [Branch.run] at hp ⊢
        cases isStream with
        | true => simp at hp
        | false =>
          simp only [Bool.false_eq_true, if_false] at hp ⊢
          exact one i (hmem i (by simp [Branch.infos])) p hp hr
      | tryImport i j =>
        rw [hb] at hp hmem
        simp only [Branch.run, onImportError_eq] at hp ⊢
        -- whether the first import fails does not depend on dtype
        by_cases hm : i.reader ∈ e.missing
        · have h1 := (callReader_importError_iff e i key none).2 hm
          have h2 := (callReader_importError_iff e i key (some d)).2 hm
          rw [if_pos h1] at hp
          rw [if_pos h1, if_pos h2]
          exact one j (hmem j (by simp [Branch.infos])) p hp hr
        · have h1 : ¬ callReader e i key none = .error .importError :=
            fun h => hm ((callReader_importError_iff e i key none).1 h)
          have h2 : ¬ callReader e i key (some d) = .error .importError :=
            fun h => hm ((callReader_importError_iff e i key (some d)).1 h)
          rw [if_neg h1] at hp
          rw [if_neg h1, if_neg h2]
          exact one i (hmem i (by simp [Branch.infos])) p hp hr

-- hypotheses are satisfiable: a stereo wav by name, a flac stream, an npz entry, an HDF5 dataset by key
example : (disp exEnv false (str% "a.wav") none .none none).map (fun p => (p.reader, p.steps))
    = .ok (.wavWave, [.reshape]) := by decide
example : (disp exEnv false (str% "a.wav") none .none (some (str% "float32"))).map (fun p => (p.steps, p.finalCast))
    = .ok ([.reshape, .cast], some (str% "float32")) := by decide
example : (disp exEnv true [] (some (str% "flac")) .none none).map (·.reader) = .ok .soundfile := by decide
example : (disp exEnv false (str% "a.npz") none (.str (str% "k")) none).map (fun p => (p.reader, p.key))
    = .ok (.npz, .entry (.str (str% "k"))) := by decide
example : (disp exEnv true [] (some (str% "hdf5")) (.str (str% "a/b")) none).map (·.reader) = .ok .hdf5 := by decide

/-- `_soundfile_read_signal` reads 16-bit PCM as int16 and 32-bit PCM as int32 (the stored sample type), float
as float32, double as float64; everything it does not list – including unsigned 8-bit PCM, whose test compares
a `str` with a set – as int16 -/
theorem sf_subtype_dtype :
    sfDtype sfSubtypes (str% "PCM_16") = some (str% "int16") ∧
    sfDtype sfSubtypes (str% "PCM_32") = some (str% "int32") ∧
    sfDtype sfSubtypes (str% "PCM_24") = some (str% "int32") ∧
    sfDtype sfSubtypes (str% "FLOAT") = some (str% "float32") ∧
    sfDtype sfSubtypes (str% "DOUBLE") = some (str% "float64") ∧
    sfDtype sfSubtypes (str% "PCM_S8") = some (str% "int8") ∧
    sfDtype sfSubtypes (str% "PCM_U8") = some (str% "int16") ∧
    sfDtype sfSubtypes (str% "VORBIS") = some (str% "int16") := by decide

/-! ## `wds_read_signal` -/

/-- **`wds_never_raises`**: for every key, every environment and *every* behaviour of the codecs on the
bytes, `wds_read_signal` returns (a value or `None`); it never raises. -/
theorem wds_never_raises {α : Type} (e : Env) (P : Prims α) (key : Str) :
    ∃ r, wdsRead config e P key = .ok r := by
  unfold wdsRead
  split
  · exact ⟨_, rfl⟩
  · exact ⟨none, by simp [config, Catch.catches]⟩

/-- it returns `None` exactly when something inside raised, and the decoded array otherwise -/
theorem wds_none_iff {α : Type} (e : Env) (P : Prims α) (key : Str) :
    wdsRead config e P key = .ok none ↔
      ∃ err, (infer e key >>= fun fa => readSignal config e P true [] (some fa) .none none) = .error err := by
  unfold wdsRead infer
  constructor
  · intro h
    split at h
    · cases h
    · rename_i err herr; exact ⟨err, herr⟩
  · rintro ⟨err, herr⟩
    rw [herr]
    simp [config, Catch.catches]

theorem wds_some {α : Type} (e : Env) (P : Prims α) (key : Str) (a : α)
    (h : (infer e key >>= fun fa => readSignal config e P true [] (some fa) .none none) = .ok a) :
    wdsRead config e P key = .ok (some a) := by
  unfold wdsRead infer at *
  rw [h]

/-- codecs that decode everything to `()` / that fail on everything (for the examples) -/
def okPrims : Prims Unit := ⟨fun _ _ => .ok (), fun _ a => .ok a, fun a => .ok a, fun a => .ok a, fun _ a => .ok a⟩
def failPrims : Prims Unit := ⟨fun _ _ => .error .decoder, fun _ a => .ok a, fun a => .ok a, fun a => .ok a, fun _ a => .ok a⟩

example : (infer exEnv (str% "utt1.flac") >>= fun fa => readSignal config exEnv okPrims true [] (some fa) .none none)
    = .ok () := by decide
example : wdsRead config exEnv okPrims (str% "utt1.flac") = .ok (some ())
    ∧ wdsRead config exEnv failPrims (str% "utt1.flac") = .ok none
    ∧ wdsRead config exEnv okPrims (str% "utt1.txt") = .ok none := by decide

/-- keys the inference refuses, and Kaldi keys (stream + Kaldi type ⇒ `ValueError`), give `None` whatever the
bytes -/
theorem wds_undecodable_key {α : Type} (e : Env) (P : Prims α) (key : Str)
    (h : infer e key = .error .ioError ∨ infer e key = .ok (str% "table") ∨ infer e key = .ok (str% "kaldi")) :
    wdsRead config e P key = .ok none := by
  rw [wds_none_iff]
  rcases h with h | h | h <;> rw [h]
  · exact ⟨_, rfl⟩
  · exact ⟨.valueError, rfl⟩
  · exact ⟨.valueError, rfl⟩

example : infer exEnv (str% "utt1.txt") = .error .ioError ∧ infer exEnv (str% "npy") = .error .ioError
    ∧ infer exEnv (str% "ark:x") = .ok (str% "table") ∧ infer exEnv (str% "x|") = .ok (str% "kaldi") := by decide


/-! ## one codec that IS the repository's own code: the PCM frames of a wav file

`_wave_read_signal` lets the standard library's `wave` parse the container and then decodes the frames itself
(`np.frombuffer(frames, '<i{width}')`, divisibility check, C-order reshape).  `Model/WavFrames.lean` models that
part byte for byte; the theorems below are the wav clause of the property for it, for every sample width NumPy has an integer type for (1, 2, 4, 8 bytes; the property names 16- and 32-bit PCM), every
channel count and every length.  (Tied to the code by correspondence on real files written with `wave`: `wavframes` lines.) -/

section WavFrames
open PdsVerif.Model.Sphere PdsVerif.Model.WavFrames

/-- **wav round trip, the repository's part.**  For every sample width of 1, 2, 4 or 8 bytes, every channel count
`chans ≥ 1`, every number of time steps and every sample that fits `width` bytes: reading the frames that hold a
C-ordered (time, channels) array returns exactly those samples with shape `(time, channels)` — `(time,)` for mono. -/
theorem waveRead_waveFrames (width chans : Nat) (hnp : width = 1 ∨ width = 2 ∨ width = 4 ∨ width = 8) (hc : 0 < chans)
    (rows : List (List Int))
    (hrows : ∀ r ∈ rows, r.length = chans)
    (hrange : ∀ r ∈ rows, ∀ x ∈ r, -((2 : Int) ^ (8 * width - 1)) ≤ x ∧ x < (2 : Int) ^ (8 * width - 1)) :
    waveRead width chans (waveFrames width rows)
      = .ok (if chans > 1 then [rows.length, chans] else [rows.length], rows.flatten) := by
  have hw : 0 < width := by omega
  have hlen : (waveFrames width rows).length = rows.flatten.length * width :=
    length_flatMap_const (encLE width) width (length_encLE width) rows.flatten
  have hfl := length_flatten_const rows chans hrows
  unfold waveRead
  rw [if_neg (not_not.mpr hnp), hlen, Nat.mul_mod_left, Nat.mul_div_cancel _ hw]
  rw [if_neg (by omega)]
  simp only
  have hdata : unpack width (decItem width true false) rows.flatten.length (waveFrames width rows) = rows.flatten := by
    have := unpack_flatMap width (decItem width true false) (encLE width) (length_encLE width) rows.flatten []
      (by
        intro x hx
        obtain ⟨r, hr, hxr⟩ := List.mem_flatten.mp hx
        exact decItem_encLE width hw x (hrange r hr x hxr))
    simpa [waveFrames] using this
  rw [hdata, hfl, Nat.mul_mod_left, if_neg (by omega), Nat.mul_div_cancel _ hc]
  by_cases h1 : chans > 1
  · simp [h1]
  · have : chans = 1 := by omega
    subst this; simp

/-- a stream whose sample count is not a multiple of the channel count is refused with IOError -/
theorem waveRead_ragged (width chans : Nat) (hnp : width = 1 ∨ width = 2 ∨ width = 4 ∨ width = 8) (frames : Bytes)
    (hm : frames.length % width = 0) (hr : frames.length / width % chans ≠ 0) :
    waveRead width chans frames = .error .io := by
  unfold waveRead
  rw [if_neg (not_not.mpr hnp), if_neg (by omega)]
  simp [hr]

/-- 24-bit PCM (and any width NumPy has no integer dtype for) is refused, whatever the frames -/
theorem waveRead_width3 (chans : Nat) (frames : Bytes) : waveRead 3 chans frames = .error .type := by
  simp [waveRead]

example : waveRead 2 2 (waveFrames 2 [[1, -2], [300, -32768]]) = .ok ([2, 2], [1, -2, 300, -32768]) := by decide
example : waveRead 4 1 (waveFrames 4 [[-1], [70000]]) = .ok ([2], [-1, 70000]) := by decide

end WavFrames

end PdsVerif.C11

/-
  Translator tie for the arithmetic of `Deltas` (property C15).

  `Generated/PostArith.lean` is re-extracted on every run from `Deltas.__init__` (length and taps of the base filter, the
  recursion `filts[idx+1] = convolve(filts[idx], delta_filter)`) and from `Deltas.apply` (`max_offset`, the bounds of the
  slice taken from the full correlation, both pad widths, the correlation mode, the loop over `self._filts[1:]`) and from
  `Stack.__init__` / `Stack.apply` (the guard, both `%`, `rem`, pad widths, padded length, `nT`, `nF`, kept length, slices).  The
  theorems show that the hand-written model `Model/Post.lean` — the one all C15 theorems are about — uses exactly these.
-/
import PdsVerif.Generated.PostArith
import PdsVerif.Model.Post
import Mathlib.Tactic
set_option linter.unusedSectionVars false
namespace PdsVerif.PostArithTie
open PdsVerif.Model PdsVerif.Model.Tensor PdsVerif.Model.Post PdsVerif.Gen.PostArith

variable {α : Type} [NatCast α] [Add α] [Sub α] [Mul α] [Div α] [Zero α]

theorem base_len_eq (W : Nat) : (deltas_base_len (W : Int)).toNat = 1 + 2 * W := by
  unfold deltas_base_len; omega

/-- the base filter of the model is the source's: `arange(1 + 2W) - W`, divided by the sum of its squares -/
theorem baseFilter_eq_gen (W : Nat) :
    (Deltas.baseFilter W : List α) =
      (let raw : List α := (List.range (deltas_base_len (W : Int)).toNat).map fun (k : Nat) => deltas_base_raw (W : α) (k : α)
       let z : α := (raw.map deltas_sq).sum
       raw.map fun v => deltas_base_norm v z) := by
  rw [base_len_eq]
  rfl

theorem max_offset_eq (n : Nat) : (deltas_max_offset (n : Int)).toNat = (n - 1) / 2 := by
  unfold deltas_max_offset
  rw [Int.fdiv_eq_ediv_of_nonneg _ (by norm_num)]
  omega

theorem slice_lo_eq (n : Nat) : deltas_slice_lo (n : Int) = (n : Int) - 1 := rfl
theorem slice_hi_eq (n : Nat) : deltas_slice_hi (n : Int) = -(n : Int) + 1 := rfl

variable [Inhabited α]

/-- **the inner loop body of the model runs on the source's arithmetic**: pad by `max_offset` on both sides, correlate in
"full" mode, keep `[len(filt) - 1 : -len(filt) + 1]`, cast -/
theorem delta1d_eq_gen (filt : List α) (mode : PadMode α) (cast : α → α) (x : List α) :
    Deltas.delta1d filt mode cast x =
      (pySlice (correlateFull (pad1 (deltas_max_offset (filt.length : Int)).toNat (deltas_max_offset (filt.length : Int)).toNat mode x) filt)
          (deltas_slice_lo (filt.length : Int)) (deltas_slice_hi (filt.length : Int))).map cast := by
  unfold Deltas.delta1d
  rw [max_offset_eq]
  rfl

/-- the two statement-shape facts read off the source -/
theorem shape_facts : deltas_filters_by_convolution = true ∧ deltas_pads_max_offset_both_sides_full_mode = true := ⟨rfl, rfl⟩

/-! non-vacuity -/
example : deltas_base_len 2 = 5 ∧ deltas_max_offset 5 = 2 ∧ deltas_max_offset 9 = 4 ∧ deltas_slice_lo 5 = 4 ∧ deltas_slice_hi 5 = -4 := by decide

/-! ## Stack: the whole integer part of `apply`, and the strided slices of the N-D branch -/

/-- `Stack.__init__` accepts exactly what the source's guard lets through -/
theorem stack_new_eq_gen (n t : Int) (pm : Option (PadMode α)) :
    Stack.new n t pm = (if stack_init_rejects n = true then .error .value else .ok ⟨n.toNat, t, pm⟩) := by
  unfold Stack.new stack_init_rejects
  by_cases h : n < 1 <;> simp [h]

/-- Python's `%` with a positive right operand is Lean's `%` on `Int` -/
theorem stack_axis_eq (a : Int) (nd : Nat) : stack_axis a (nd : Int) = a % (nd : Int) := by
  unfold stack_axis; exact Int.fmod_eq_emod_of_nonneg _ (Int.natCast_nonneg nd)

theorem stack_time_axis_eq (t : Int) (nd : Nat) : stack_time_axis t (nd : Int) = t % (nd : Int) := by
  unfold stack_time_axis; exact Int.fmod_eq_emod_of_nonneg _ (Int.natCast_nonneg nd)

theorem stack_rem_eq (T n : Nat) : (stack_rem (T : Int) (n : Int)).toNat = T % n := by
  unfold stack_rem
  rw [Int.fmod_eq_emod_of_nonneg _ (Int.natCast_nonneg n)]
  omega

theorem stack_pad_before_eq : stack_pad_before.toNat = 0 := rfl

theorem stack_pad_after_eq (n rem : Nat) : (stack_pad_after (n : Int) (rem : Int)).toNat = n - rem := by
  unfold stack_pad_after; omega

theorem stack_T_padded_eq (T n rem : Nat) (h : rem ≤ n) :
    (stack_T_padded (T : Int) (n : Int) (rem : Int)).toNat = T + (n - rem) := by
  unfold stack_T_padded; omega

theorem stack_nT_eq (T n : Nat) : (stack_nT (T : Int) (n : Int)).toNat = T / n := by
  unfold stack_nT
  rw [Int.fdiv_eq_ediv_of_nonneg _ (Int.natCast_nonneg n), ← Int.natCast_ediv]
  rfl

theorem stack_nF_eq (F n : Nat) : (stack_nF (F : Int) (n : Int)).toNat = F * n := by
  unfold stack_nF; rw [← Int.natCast_mul]; rfl

theorem stack_T_kept_eq (nT n : Nat) : (stack_T_kept (nT : Int) (n : Int)).toNat = nT * n := by
  unfold stack_T_kept; rw [← Int.natCast_mul]; rfl

/-- **the model's `prepare` (everything `Stack.apply` does before the `features.ndim == 2` test) runs on the source's
arithmetic**: both axes by Python's `%`, the same-axis guard, `rem`, the pad widths `(0, n - rem)` on the time axis, the
padded length, `nT`, `nF` and the kept length `nT * n` -/
theorem stack_prepare_eq_gen (c : Stack α) (x : Tensor α) (axis : Int) (hn : 0 < c.numVectors) :
    Stack.prepare c x axis =
      (if x.shape.length = 0 then .error .zeroDivision
       else
         let nd : Int := (x.shape.length : Int)
         let n : Int := (c.numVectors : Int)
         let ax := (stack_axis axis nd).toNat
         let ta := (stack_time_axis c.timeAxis nd).toNat
         if ax = ta then .error .runtime
         else
           let T0 := x.shape.getD ta 0
           let F := x.shape.getD ax 0
           let rem := (stack_rem (T0 : Int) n).toNat
           let padded : Tensor α × Nat := match c.padMode with
             | some mode =>
               if rem ≠ 0 then
                 (x.padAxis ta stack_pad_before.toNat (stack_pad_after n (rem : Int)).toNat mode,
                  (stack_T_padded (T0 : Int) n (rem : Int)).toNat)
               else (x, T0)
             | none => (x, T0)
           let nT := (stack_nT (padded.2 : Int) n).toNat
           let nF := (stack_nF (F : Int) n).toNat
           .ok { ta := ta, ax := ax, T := (stack_T_kept (nT : Int) n).toNat, nT := nT, nF := nF, x1 := padded.1 }) := by
  have hrem : ∀ T : Nat, T % c.numVectors ≤ c.numVectors := fun T => Nat.le_of_lt (Nat.mod_lt _ hn)
  obtain ⟨n, t, pm⟩ := c
  unfold Stack.prepare
  cases pm <;> simp only [stack_axis_eq, stack_time_axis_eq, stack_rem_eq, stack_pad_before_eq, stack_pad_after_eq, stack_nT_eq,
    stack_nF_eq, stack_T_kept_eq, stack_T_padded_eq _ _ _ (hrem _)]

/-- the N-D branch of the model takes exactly the slices the source names: `slice(i, T, num_vectors)` for
`i in range(num_vectors)`, concatenated along `axis` -/
theorem stack_pathNd_eq_gen (n ta ax T : Nat) (x : Tensor α) :
    Stack.pathNd n ta ax T x =
      Tensor.concatenate ((List.range n).map fun (i : Nat) =>
        x.sliceAxis ta (stack_slice_start (i : Int) (T : Int) (n : Int)).toNat (stack_slice_stop (i : Int) (T : Int) (n : Int)).toNat
          (stack_slice_step (i : Int) (T : Int) (n : Int)).toNat) (ax : Int) := rfl

/-- **`Stack.apply` as a whole on the source's arithmetic**: a stacker that `__init__` accepted (`stack_init_rejects = false`)
computes `prepare` with the generated terms and then takes the 2-D or the N-D branch with the generated slices -/
theorem stack_apply_eq_gen (n t : Int) (pm : Option (PadMode α)) (c : Stack α) (hc : Stack.new n t pm = .ok c)
    (x : Tensor α) (axis : Int) (inPlace : Bool) :
    stack_init_rejects n = false ∧
    c.apply x axis inPlace =
      (do let p ← Stack.prepare c x axis
          let inPlace := inPlace || (c.padMode.isSome && x.shape.getD p.ta 0 % c.numVectors != 0)
          if x.shape.length = 2 then Stack.path2d inPlace p.ta p.T p.nT p.nF p.x1
          else Tensor.concatenate ((List.range c.numVectors).map fun (i : Nat) =>
            p.x1.sliceAxis p.ta (stack_slice_start (i : Int) (p.T : Int) (c.numVectors : Int)).toNat
              (stack_slice_stop (i : Int) (p.T : Int) (c.numVectors : Int)).toNat
              (stack_slice_step (i : Int) (p.T : Int) (c.numVectors : Int)).toNat) (p.ax : Int)) ∧
    0 < c.numVectors := by
  rw [stack_new_eq_gen] at hc
  by_cases h : stack_init_rejects n = true
  · simp [h] at hc
  · simp only [h] at hc
    have hn : ¬ n < 1 := by simpa [stack_init_rejects] using h
    refine ⟨by simpa using h, rfl, ?_⟩
    injection hc with hc
    subst hc
    show 0 < n.toNat
    omega

/-- the statement-shape facts read off `Stack.apply` (guards, order of the 2-D branch, loop and concatenation axis) -/
theorem stack_shape_facts : stack_statement_shape = true := rfl

/-! non-vacuity: a negative axis wraps, 7 frames stacked by 3 are padded by 2 to 9 or cut to 6 -/
example : stack_axis (-1) 3 = 2 ∧ stack_rem 7 3 = 1 ∧ stack_pad_after 3 1 = 2 ∧ stack_T_padded 7 3 1 = 9 ∧
    stack_nT 9 3 = 3 ∧ stack_nT 7 3 = 2 ∧ stack_T_kept 2 3 = 6 ∧ stack_nF 4 3 = 12 ∧ stack_init_rejects 0 = true ∧
    stack_init_rejects 1 = false := by decide

end PdsVerif.PostArithTie

/-
  Translator tie for the arithmetic of `Deltas` (property C15).

  `Generated/PostArith.lean` is re-extracted on every run from `Deltas.__init__` (length and taps of the base filter, the
  recursion `filts[idx+1] = convolve(filts[idx], delta_filter)`) and from `Deltas.apply` (`max_offset`, the bounds of the
  slice taken from the full correlation, both pad widths, the correlation mode, the loop over `self._filts[1:]`).  The
  theorems show that the hand-written model `Model/Post.lean` — the one all C15 theorems are about — uses exactly these.
-/
import PdsVerif.Generated.PostArith
import PdsVerif.Model.Post
import Mathlib.Tactic
set_option linter.unusedSectionVars false
namespace PdsVerif.PostArithTie
open PdsVerif.Model PdsVerif.Model.Tensor PdsVerif.Model.Post PdsVerif.Gen.PostArith

variable {α : Type} [NatCast α] [Add α] [Sub α] [Mul α] [Div α] [Zero α]

theorem base_len_eq (W : Nat) : (deltas_base_len (W : Int)).toNat = 1 + 2 * W := by
  unfold deltas_base_len; omega

/-- the base filter of the model is the source's: `arange(1 + 2W) - W`, divided by the sum of its squares -/
theorem baseFilter_eq_gen (W : Nat) :
    (Deltas.baseFilter W : List α) =
      (let raw : List α := (List.range (deltas_base_len (W : Int)).toNat).map fun (k : Nat) => deltas_base_raw (W : α) (k : α)
       let z : α := (raw.map deltas_sq).sum
       raw.map fun v => deltas_base_norm v z) := by
  rw [base_len_eq]
  rfl

theorem max_offset_eq (n : Nat) : (deltas_max_offset (n : Int)).toNat = (n - 1) / 2 := by
  unfold deltas_max_offset
  rw [Int.fdiv_eq_ediv_of_nonneg _ (by norm_num)]
  omega

theorem slice_lo_eq (n : Nat) : deltas_slice_lo (n : Int) = (n : Int) - 1 := rfl
theorem slice_hi_eq (n : Nat) : deltas_slice_hi (n : Int) = -(n : Int) + 1 := rfl

variable [Inhabited α]

/-- **the inner loop body of the model runs on the source's arithmetic**: pad by `max_offset` on both sides, correlate in
"full" mode, keep `[len(filt) - 1 : -len(filt) + 1]`, cast -/
theorem delta1d_eq_gen (filt : List α) (mode : PadMode α) (cast : α → α) (x : List α) :
    Deltas.delta1d filt mode cast x =
      (pySlice (correlateFull (pad1 (deltas_max_offset (filt.length : Int)).toNat (deltas_max_offset (filt.length : Int)).toNat mode x) filt)
          (deltas_slice_lo (filt.length : Int)) (deltas_slice_hi (filt.length : Int))).map cast := by
  unfold Deltas.delta1d
  rw [max_offset_eq]
  rfl

/-- the two statement-shape facts read off the source -/
theorem shape_facts : deltas_filters_by_convolution = true ∧ deltas_pads_max_offset_both_sides_full_mode = true := ⟨rfl, rfl⟩

/-! non-vacuity -/
example : deltas_base_len 2 = 5 ∧ deltas_max_offset 5 = 2 ∧ deltas_max_offset 9 = 4 ∧ deltas_slice_lo 5 = 4 ∧ deltas_slice_hi 5 = -4 := by decide

end PdsVerif.PostArithTie

/-
  C13 — shorten-compressed SPHERE audio decodes losslessly.

  Model: `PdsVerif/Model/ShortenBits.lean` (bit list reader L0, the word reader that exists L1),
  `PdsVerif/Model/Shorten.lean` (block interpreter L2, `Program` / `encode` / `sem`).
  Constants, opcodes and tables come from `PdsVerif/Generated/ShortenConsts.lean`, regenerated from
  `src/pydrobert/speech/_sphere.py` on every run.

  Everything is over unbounded `Int` / `Nat`: all residual values and widths, block sizes, channel counts,
  mean lengths, bit shifts, LPC orders and command sequences.  `WF` (Model/Shorten.lean) is what a
  conforming encoder emits: version 1-2, type < 9, >= 1 channel, block size >= 1, residual lists as long as
  the current block, BLOCKSIZE only at a frame boundary and within the allocated size, QLPC order <= maxnlpc
  in blocks no shorter than the history `nwrap = max(3, maxnlpc)`.
  NumPy's `int32` cells are modelled by `Int` plus a monitor (`Prog.chk`, `runM`, reported by the driver)
  that provably never changes a result (`monitor_irrelevant`); streams on which it is false are outside
  the correspondence (hypothesis-gap cases in the evidence).
-/
import PdsVerif.Lemmas.ShortenInterp
import PdsVerif.Lemmas.ShortenWord
import PdsVerif.Lemmas.ShortenFuel
import PdsVerif.Lemmas.ShortenFile
import PdsVerif.Lemmas.ShortenExists
import PdsVerif.Lemmas.ShortenTables

namespace PdsVerif.C13
open PdsVerif.Model.Shorten PdsVerif.Gen.Shorten

/-! ## L0: Rice codes over a bit list -/

/-- `uvar_get(k)` reads back what `uvar_put(k, n)` wrote, for every width and value, leaving the rest -/
theorem uvar_roundtrip (k n : Nat) (r : List Bool) : uvarGet k (uvarPut k n ++ r) = .ok (n, r) :=
  uvarGet_uvarPut k n r

example : uvarGet 3 (uvarPut 3 77 ++ [true, false]) = .ok (77, [true, false]) := by rfl

/-- sign folding is a bijection between `Int` and `Nat` … -/
theorem fold_unfold (u : Nat) (v : Int) : unfold (fold v) = v ∧ fold (unfold u) = u :=
  ⟨unfold_fold v, Model.Shorten.fold_unfold u⟩

/-- … so `var_get(k)` reads back every signed residual -/
theorem var_roundtrip (k : Nat) (v : Int) (r : List Bool) :
    (var k).run uvarGet (varPut k v ++ r) = .ok (v, r) :=
  run_var_put k v r

example : (var 2).run uvarGet (varPut 2 (-13) ++ [false]) = .ok (-13, [false]) := by rfl

/-- `ulong_get()` reads back every unsigned long (width field + value) -/
theorem ulong_roundtrip (n : Nat) (r : List Bool) : ulong.run uvarGet (ulongPut n ++ r) = .ok (n, r) :=
  run_ulong_put n r

example : ulong.run uvarGet (ulongPut 256 ++ [true]) = .ok (256, [true]) := by rfl

/-! ## L1: the 32-bit word reader refines the bit-list reader -/

/-- `uvar_get` as written (signed big-endian words, `nbitget`, refill of `inpbuf` from the file in
    `BUFSIZ` pieces) returns exactly what the bit-list reader returns on the bits the reader state stands
    for, fails exactly when it fails (fewer than four bytes left when a word is needed), and leaves a
    state standing for the remaining bits.  `WInv F w`: the loop fuel `F` exceeds the bits left; bytes < 256. -/
theorem word_reader_refines_bits (F k : Nat) (w : WSt) (hinv : WInv F w) :
    Prog.Matches WSt.bits (WInv F) (uvarW F k w) (uvarGet k w.bits) :=
  uvarW_spec F k w hinv

example : WInv 100 ⟨[0x12, 0x34, 0x56, 0x78, 0x9a], [], 0, 0⟩ :=
  ⟨by decide, by intro b hb; simp at hb; omega⟩

/-- hence the whole decoder over the word reader (`decodeFile`, what the driver runs) equals the decoder
    over the bit list of the file's complete 32-bit words -/
theorem decodeFile_eq_decodeBits (convert : Bool) (body rest : List Nat) (vb : Nat) (hb : Bytes body)
    (hm : body.take 4 = MAGIC) (hv : body.drop 4 = vb :: rest) :
    decodeFile convert body
      = decodeBitsF (8 * body.length + 1) (sbyte vb) convert (wordBits (body.drop 5)) :=
  decodeFile_eq convert body rest vb hb hm hv

/-- the `int32` monitor never changes a result -/
theorem monitor_irrelevant {α σ : Type} (uv : Nat → σ → Except Err (Nat × σ)) (p : Prog α) (s : σ) (fl : Bool) :
    (match p.runM uv s fl with
      | .error e => Except.error e
      | .ok (a, s', _) => Except.ok (a, s')) = p.run uv s :=
  Prog.runM_run uv p s fl

/-! ## L2: decoding an encoded program -/

/-- **decode ∘ encode = sem**, for every well-formed program (all residual values and widths, block
    sizes, channel counts, command sequences, mean lengths, bit shifts, LPC orders), whatever follows
    the QUIT command. -/
theorem decode_encode (p : Program) (convert : Bool) (hwf : WF p) (r : List Bool) :
    decodeBits (p.hdr.version : Int) convert (encode p ++ r) = .ok (sem convert p) :=
  decodeBits_encode p convert hwf r

/-- a small two-channel version-2 program with every kind of command -/
def exampleProgram : Program :=
  { hdr := ⟨2, TYPE_S16HL, 2, 4, 2, 2⟩, skip := [65],
    cmds := [.diff 2 1 [3, -1, 4, 1], .qlpc 2 [40, -9] [5, 9, -2, 6], .bitshift 1, .zero, .diff 0 3 [10, 20, -30, 40],
             .blocksize 2, .diff 3 0 [1, -1], .diff 1 2 [7, 7]] }

example : WF exampleProgram := by
  refine ⟨by decide, by decide, by decide, by decide, by decide, ?_⟩
  simp [WFcmds, exampleProgram, Hdr.nwrap, NWRAP]

example : sem false exampleProgram =
    [3, 6, 5, 17, 11, 18, 18, 24, 0, 28, 0, 48, 0, -52, 0, 88, 2, 102, 4, 116] := by decide

/- The hypothesis `nwrap ≤ blocksize` that `WF` puts on QLPC blocks cannot be dropped
   (the statement `∀ p, WF' p → decode (encode p) = sem p` with QLPC allowed in shorter blocks is FALSE,
   of the model and of the code alike): `copy_shortened_samples` subtracts the running-mean offset from
   the history cells in place and never adds it back, which is invisible only when the block overwrites the
   whole history.  Witness (the implementation returns the same `303`): -/
def shortQlpcProgram : Program :=
  { hdr := ⟨2, TYPE_S16HL, 1, 3, 2, 1⟩, skip := [],
    cmds := [.diff 0 5 [100, 100, 100], .blocksize 1, .qlpc 0 [32, 0] [0], .diff 3 0 [0]] }

example : sem false shortQlpcProgram = [100, 100, 100, 101, 103] ∧
    (match decodeBits 2 false (encode shortQlpcProgram) with | .ok l => l | .error _ => []) =
      [100, 100, 100, 101, 303] := by decide +kernel

/-- the same through the word reader: the bytes `encodeFile` writes (magic, version byte, bit stream
    zero-padded to whole 32-bit words) decode to `sem` with the decoder that exists -/
theorem decode_encode_file (p : Program) (convert : Bool) (hwf : WF p) :
    decodeFile convert (encodeFile p) = .ok (sem convert p) :=
  decodeFile_encodeFile p convert hwf

example : (match decodeFile false (encodeFile exampleProgram) with | .ok l => l | .error _ => []) =
    [3, 6, 5, 17, 11, 18, 18, 24, 0, 28, 0, 48, 0, -52, 0, 88, 2, 102, 4, 116] := by decide +kernel

/-- the monitored decoder (what the driver runs) returns the same samples, together with its verdict on
    whether every intermediate value stayed inside `int32` -/
theorem decode_encode_monitored (p : Program) (convert : Bool) (hwf : WF p) (r : List Bool) :
    ∃ fl, decodeBitsM (p.hdr.version : Int) convert (encode p ++ r) = .ok (sem convert p, fl) := by
  have h := decodeBits_encode p convert hwf r
  unfold decodeBits decodeBitsF at h
  unfold decodeBitsM decodeBitsFM
  rw [versionOk_of_wf _ hwf.1 hwf.2.1, if_pos rfl] at h ⊢
  have hm := Prog.runM_run uvarGet (mainProg (p.hdr.version : Int).toNat convert ((encode p ++ r).length + 1))
    (encode p ++ r) true
  cases hr : (mainProg (p.hdr.version : Int).toNat convert ((encode p ++ r).length + 1)).runM uvarGet
      (encode p ++ r) true with
  | error e => rw [hr] at hm; simp only at hm; rw [← hm] at h; simp at h
  | ok v =>
    obtain ⟨out, s', fl⟩ := v
    rw [hr] at hm
    simp only at hm
    rw [← hm] at h
    simp only [Except.ok.injEq] at h
    exact ⟨fl, by simp [h]⟩

/-- the loop bounds are never exhausted, on any input: they are proof devices, not behaviour -/
theorem no_fuel_error (v : Int) (convert : Bool) (bits : List Bool) (body : List Nat) (hb : Bytes body) :
    decodeBits v convert bits ≠ .error .fuel ∧ decodeFile convert body ≠ .error .fuel :=
  ⟨decodeBits_ne_fuel v convert bits, decodeFile_ne_fuel convert body hb⟩

/-- … and any bound above the number of bits left gives the same result -/
theorem fuel_irrelevant (v : Nat) (convert : Bool) (f g : Nat) (b : List Bool)
    (hf : b.length < f) (hg : b.length < g) :
    (mainProg v convert f).run uvarGet b = (mainProg v convert g).run uvarGet b :=
  mainProg_fuel_irrelevant v convert f g b hf hg

/-! ## every sample array has a well-formed program (the lossless claim) -/

/-- PCM-like sample types: for every channel count, length and sample values there is a well-formed
    program (one DIFF0 block per channel, any residual width `resn`) whose meaning is exactly those
    samples, interleaved frame-major as `read_signal` returns them. -/
theorem encoder_exists (version ftype n resn : Nat) (convert : Bool) (cols : List (List Int))
    (hv : 1 ≤ version ∧ version ≤ 2) (hft : ftype < FTYPE_LIMIT) (hpcm : ¬(ftype = TYPE_AU1 ∨ ftype = TYPE_AU2))
    (hne : cols ≠ []) (hn : 1 ≤ n) (hc : ∀ col ∈ cols, col.length = n) :
    ∃ p : Program, WF p ∧ p.hdr.version = version ∧ p.hdr.ftype = ftype ∧ p.hdr.nchan = cols.length ∧
      sem convert p = interleave n cols := by
  refine ⟨diff0Program version ftype n resn cols, diff0_wf version ftype n resn cols hv.1 hv.2 hft hne hn hc,
    rfl, rfl, rfl, ?_⟩
  rw [sem_diff0 version ftype n resn convert cols hne hc]
  have h1 : ∀ col : List Int, col.map (fixSample ftype 0) = col := by
    intro col
    have : (fun v => fixSample ftype 0 v) = id := by
      funext v; rw [fixSample_pcm 0 v hpcm, Int.shiftLeft_zero]; rfl
    show List.map (fun v => fixSample ftype 0 v) col = col
    rw [this, List.map_id]
  have h2 : (fun v => toPcm convert ftype v) = id := by
    funext v
    have : ¬ ftype ∈ CONVERT_TYPES := by
      simp only [CONVERT_TYPES, TYPE_AU1, TYPE_AU2] at hpcm ⊢
      simp; omega
    simp [toPcm, this]
  simp only [h1, List.map_id']
  show List.map (fun v => toPcm convert ftype v) _ = _
  rw [h2, List.map_id]

example : ∃ p : Program, WF p ∧ sem false p = [1, -2, 3, -4, 5, -6] := by
  obtain ⟨p, h, _, _, _, hs⟩ := encoder_exists 2 TYPE_S16LH 3 4 false [[1, 3, 5], [-2, -4, -6]]
    (by decide) (by decide) (by decide) (by simp) (by decide) (by simp)
  exact ⟨p, h, by rw [hs]; decide⟩

/-- every row (bit shift) of `ULAW_OUTWARD` is a permutation of the 256 µ-law bytes -/
theorem ulaw_outward_rows_bijective (r : Nat) (hr : r < 13) :
    (ULAW_OUTWARD.getD r #[]).size = 256 ∧ ∀ b, b < 256 → b ∈ (ULAW_OUTWARD.getD r #[]).toList :=
  outward_rows_perm r hr

/-- µ-law (AU1 / AU2, no bit shift): for every array of µ-law bytes there is a well-formed program whose
    meaning is exactly those bytes (raw) or their `ULAW2PCM` expansion (`convert`). -/
theorem encoder_exists_ulaw (version ftype n resn : Nat) (convert : Bool) (cols : List (List Nat))
    (hv : 1 ≤ version ∧ version ≤ 2) (hau : ftype = TYPE_AU1 ∨ ftype = TYPE_AU2)
    (hne : cols ≠ []) (hn : 1 ≤ n) (hc : ∀ col ∈ cols, col.length = n)
    (hbytes : ∀ col ∈ cols, ∀ b ∈ col, b < 256) :
    ∃ p : Program, WF p ∧ p.hdr.ftype = ftype ∧ p.hdr.nchan = cols.length ∧
      sem convert p = (interleave n (cols.map (fun col => col.map (fun (b : Nat) => (b : Int))))).map
        (toPcm convert ftype) := by
  have hft : ftype < FTYPE_LIMIT := by rcases hau with rfl | rfl <;> decide
  refine ⟨diff0Program version ftype n resn (cols.map (fun col => col.map (auInward ftype))),
    diff0_wf version ftype n resn _ hv.1 hv.2 hft (by simpa using hne) hn ?_, rfl, by simp [diff0Program, diff0Hdr], ?_⟩
  · intro col hm
    simp only [List.mem_map] at hm
    obtain ⟨c, hcm, rfl⟩ := hm
    simp [hc c hcm]
  · rw [sem_diff0 version ftype n resn convert _ (by simpa using hne)]
    · congr 2
      rw [List.map_map]
      apply List.map_congr_left
      intro col hcm
      simp only [Function.comp_apply, List.map_map]
      apply List.map_congr_left
      intro b hb
      exact fixSample_auInward ftype hau b (hbytes col hcm b hb)
    · intro col hm
      simp only [List.mem_map] at hm
      obtain ⟨c, hcm, rfl⟩ := hm
      simp [hc c hcm]

example : ∃ p : Program, WF p ∧ sem false p = [255, 0, 127, 128] := by
  obtain ⟨p, h, _, _, hs⟩ := encoder_exists_ulaw 2 TYPE_AU2 2 3 false [[255, 127], [0, 128]]
    (by decide) (Or.inr rfl) (by simp) (by decide) (by simp) (by simp)
  exact ⟨p, h, by rw [hs]; decide⟩

/-! ## errors -/

/-- **a stream that ends early raises the IOError**: any strict prefix of an encoded stream -/
theorem early_end (p : Program) (convert : Bool) (hwf : WF p) (m : Nat) (hm : m < (encode p).length) :
    decodeBits (p.hdr.version : Int) convert ((encode p).take m) = .error (.io .eof) :=
  decodeBits_truncated p convert hwf m hm

example : (match decodeBits 2 false ((encode exampleProgram).take 100) with
    | .error (.io .eof) => true | _ => false) = true := by decide +kernel

/-- through the word reader: a file whose complete 32-bit words hold only a strict prefix of the encoded
    stream (truncation anywhere after the version byte, at any byte position) raises the IOError -/
theorem early_end_file (p : Program) (convert : Bool) (hwf : WF p) (body rest : List Nat)
    (hb : Bytes body) (hm : body.take 4 = MAGIC) (hv : body.drop 4 = p.hdr.version :: rest)
    (m : Nat) (hbits : wordBits (body.drop 5) = (encode p).take m) (hlt : m < (encode p).length) :
    decodeFile convert body = .error (.io .eof) :=
  decodeFile_truncated p convert hwf body rest hb hm hv m hbits hlt

/-- a body that is just the magic -/
theorem early_end_magic_only (convert : Bool) : decodeFile convert MAGIC = .error (.io .eof) := by
  simp [decodeFile, MAGIC]

example : (match decodeFile false ((encodeFile exampleProgram).take 30) with
    | .error (.io .eof) => true | _ => false) = true := by decide +kernel

/-- an unknown function code (after any well-formed prefix of commands) raises the IOError -/
theorem bad_cmd (p : Program) (convert : Bool) (hwf : WF p) (code : Nat) (hcode : FN_ZERO < code)
    (r : List Bool) :
    decodeBits (p.hdr.version : Int) convert
        (encodeHdr p ++ (p.cmds.flatMap encodeCmd ++ (uvarPut FNSIZE code ++ r)))
      = .error (.io .badCmd) := by
  unfold decodeBits decodeBitsF
  rw [versionOk_of_wf _ hwf.1 hwf.2.1, if_pos rfl, Int.toNat_natCast, run_mainProg_badcmd p convert hwf code hcode]
  have := cmds_length_le p.cmds
  simp only [List.length_append]; omega

example : (9 : Nat) > FN_ZERO := by decide

/-- a version byte other than 1 or 2 raises the IOError before anything is read -/
theorem bad_version (v : Int) (convert : Bool) (bits : List Bool) (hv : v ≠ 1 ∧ v ≠ 2) :
    decodeBits v convert bits = .error (.io .badVersion) := by
  unfold decodeBits decodeBitsF
  have : versionOk v = false := by
    unfold versionOk MIN_SUPPORTED_VERSION MAX_SUPPORTED_VERSION
    simp only [Bool.or_eq_false_iff, decide_eq_false_iff_not, Bool.and_eq_false_iff]
    omega
  simp [this]

/-- also through the word reader, on a file body -/
theorem bad_version_file (convert : Bool) (vb : Nat) (rest : List Nat) (hv : sbyte vb ≠ 1 ∧ sbyte vb ≠ 2) :
    decodeFile convert (MAGIC ++ vb :: rest) = .error (.io .badVersion) := by
  have : versionOk (sbyte vb) = false := by
    unfold versionOk MIN_SUPPORTED_VERSION MAX_SUPPORTED_VERSION
    simp only [Bool.or_eq_false_iff, decide_eq_false_iff_not, Bool.and_eq_false_iff]
    omega
  simp [decodeFile, MAGIC, this]

example : sbyte 255 ≠ 1 ∧ sbyte 255 ≠ 2 := by decide

/-- a sample type code of 9 or more raises the IOError -/
theorem bad_type (v : Int) (convert : Bool) (ftype : Nat) (hft : FTYPE_LIMIT ≤ ftype) (r : List Bool)
    (hv : v = 1 ∨ v = 2) :
    decodeBits v convert (ulongPut ftype ++ r) = .error (.io .badType) := by
  unfold decodeBits decodeBitsF
  have : versionOk v = true := by rcases hv with rfl | rfl <;> decide
  rw [this, if_pos rfl, run_mainProg_badtype _ _ _ _ hft]

end PdsVerif.C13

/-
  C13 — shorten-compressed SPHERE audio decodes losslessly.

  Model: `PdsVerif/Model/ShortenBits.lean` (bit list reader L0, the word reader that exists L1),
  `PdsVerif/Model/Shorten.lean` (block interpreter L2, `Program` / `encode` / `sem`).
  Constants, opcodes and tables come from `PdsVerif/Generated/ShortenConsts.lean`, regenerated from
  `src/pydrobert/speech/_sphere.py` on every run.
-/
import PdsVerif.Lemmas.ShortenInterp
import PdsVerif.Lemmas.ShortenWord

namespace PdsVerif.C13
open PdsVerif.Model.Shorten PdsVerif.Gen.Shorten

/-! ## L0: Rice codes over a bit list -/

/-- `uvar_get(k)` reads back what `uvar_put(k, n)` wrote, for every width and value, leaving the rest -/
theorem uvar_roundtrip (k n : Nat) (r : List Bool) : uvarGet k (uvarPut k n ++ r) = .ok (n, r) :=
  uvarGet_uvarPut k n r

example : uvarGet 3 (uvarPut 3 77 ++ [true, false]) = .ok (77, [true, false]) := by rfl

/-- sign folding is a bijection between `Int` and `Nat` … -/
theorem fold_unfold (u : Nat) (v : Int) : unfold (fold v) = v ∧ fold (unfold u) = u :=
  ⟨unfold_fold v, Model.Shorten.fold_unfold u⟩

/-- … so `var_get(k)` reads back every signed residual -/
theorem var_roundtrip (k : Nat) (v : Int) (r : List Bool) :
    (var k).run uvarGet (varPut k v ++ r) = .ok (v, r) :=
  run_var_put k v r

example : (var 2).run uvarGet (varPut 2 (-13) ++ [false]) = .ok (-13, [false]) := by rfl

/-- `ulong_get()` reads back every unsigned long (width field + value) -/
theorem ulong_roundtrip (n : Nat) (r : List Bool) : ulong.run uvarGet (ulongPut n ++ r) = .ok (n, r) :=
  run_ulong_put n r

example : ulong.run uvarGet (ulongPut 256 ++ [true]) = .ok (256, [true]) := by rfl

/-! ## L1: the 32-bit word reader refines the bit-list reader -/

/-- `uvar_get` as written (signed big-endian words, `nbitget`, refill of `inpbuf` from the file in
    `BUFSIZ` pieces) returns exactly what the bit-list reader returns on the bits the reader state stands
    for, fails exactly when it fails (fewer than four bytes left when a word is needed), and leaves a
    state standing for the remaining bits.  `WInv F w`: the loop fuel `F` exceeds the bits left; bytes < 256. -/
theorem word_reader_refines_bits (F k : Nat) (w : WSt) (hinv : WInv F w) :
    Prog.Matches WSt.bits (WInv F) (uvarW F k w) (uvarGet k w.bits) :=
  uvarW_spec F k w hinv

example : WInv 100 ⟨[0x12, 0x34, 0x56, 0x78, 0x9a], [], 0, 0⟩ :=
  ⟨by decide, by intro b hb; simp at hb; omega⟩

/-- hence the whole decoder over the word reader (`decodeFile`, what the driver runs) equals the decoder
    over the bit list of the file's complete 32-bit words -/
theorem decodeFile_eq_decodeBits (convert : Bool) (body rest : List Nat) (vb : Nat) (hb : Bytes body)
    (hm : body.take 4 = MAGIC) (hv : body.drop 4 = vb :: rest) :
    decodeFile convert body
      = decodeBitsF (8 * body.length + 1) (sbyte vb) convert (wordBits (body.drop 5)) :=
  decodeFile_eq convert body rest vb hb hm hv

/-- the `int32` monitor never changes a result -/
theorem monitor_irrelevant {α σ : Type} (uv : Nat → σ → Except Err (Nat × σ)) (p : Prog α) (s : σ) (fl : Bool) :
    (match p.runM uv s fl with
      | .error e => Except.error e
      | .ok (a, s', _) => Except.ok (a, s')) = p.run uv s :=
  Prog.runM_run uv p s fl

/-! ## L2: decoding an encoded program -/

/-- **decode ∘ encode = sem**, for every well-formed program (all residual values and widths, block
    sizes, channel counts, command sequences, mean lengths, bit shifts, LPC orders), whatever follows
    the QUIT command. -/
theorem decode_encode (p : Program) (convert : Bool) (hwf : WF p) (r : List Bool) :
    decodeBits (p.hdr.version : Int) convert (encode p ++ r) = .ok (sem convert p) :=
  decodeBits_encode p convert hwf r

/-- a small two-channel version-2 program with every kind of command -/
def exampleProgram : Program :=
  { hdr := ⟨2, TYPE_S16HL, 2, 4, 2, 2⟩, skip := [65],
    cmds := [.diff 2 1 [3, -1, 4, 1], .qlpc 2 [40, -9] [5, 9, -2, 6], .bitshift 1, .zero, .diff 0 3 [10, 20, -30, 40],
             .blocksize 2, .diff 3 0 [1, -1], .diff 1 2 [7, 7]] }

example : WF exampleProgram := by
  refine ⟨by decide, by decide, by decide, by decide, by decide, ?_⟩
  simp [WFcmds, exampleProgram, Hdr.nwrap, NWRAP]

example : sem false exampleProgram =
    [3, 6, 5, 17, 11, 18, 18, 24, 0, 28, 0, 48, 0, -52, 0, 88, 2, 102, 4, 116] := by decide

/-! ## errors -/

/-- an unknown function code (after any well-formed prefix of commands) raises the IOError -/
theorem bad_cmd (p : Program) (convert : Bool) (hwf : WF p) (code : Nat) (hcode : FN_ZERO < code)
    (r : List Bool) :
    decodeBits (p.hdr.version : Int) convert
        (encodeHdr p ++ (p.cmds.flatMap encodeCmd ++ (uvarPut FNSIZE code ++ r)))
      = .error (.io .badCmd) := by
  unfold decodeBits decodeBitsF
  rw [versionOk_of_wf _ hwf.1 hwf.2.1, if_pos rfl, Int.toNat_natCast, run_mainProg_badcmd p convert hwf code hcode]
  have := cmds_length_le p.cmds
  simp only [List.length_append]; omega

example : (9 : Nat) > FN_ZERO := by decide

/-- a version byte other than 1 or 2 raises the IOError before anything is read -/
theorem bad_version (v : Int) (convert : Bool) (bits : List Bool) (hv : v ≠ 1 ∧ v ≠ 2) :
    decodeBits v convert bits = .error (.io .badVersion) := by
  unfold decodeBits decodeBitsF
  have : versionOk v = false := by
    unfold versionOk MIN_SUPPORTED_VERSION MAX_SUPPORTED_VERSION
    simp only [Bool.or_eq_false_iff, decide_eq_false_iff_not, Bool.and_eq_false_iff]
    omega
  simp [this]

/-- also through the word reader, on a file body -/
theorem bad_version_file (convert : Bool) (vb : Nat) (rest : List Nat) (hv : sbyte vb ≠ 1 ∧ sbyte vb ≠ 2) :
    decodeFile convert (MAGIC ++ vb :: rest) = .error (.io .badVersion) := by
  have : versionOk (sbyte vb) = false := by
    unfold versionOk MIN_SUPPORTED_VERSION MAX_SUPPORTED_VERSION
    simp only [Bool.or_eq_false_iff, decide_eq_false_iff_not, Bool.and_eq_false_iff]
    omega
  simp [decodeFile, MAGIC, this]

example : sbyte 255 ≠ 1 ∧ sbyte 255 ≠ 2 := by decide

/-- a sample type code of 9 or more raises the IOError -/
theorem bad_type (v : Int) (convert : Bool) (ftype : Nat) (hft : FTYPE_LIMIT ≤ ftype) (r : List Bool)
    (hv : v = 1 ∨ v = 2) :
    decodeBits v convert (ulongPut ftype ++ r) = .error (.io .badType) := by
  unfold decodeBits decodeBitsF
  have : versionOk v = true := by rcases hv with rfl | rfl <;> decide
  rw [this, if_pos rfl, run_mainProg_badtype _ _ _ _ hft]

end PdsVerif.C13

/-
  C08 — alias / JSON configuration builds the same objects as explicit construction.

  Theorems about the executable model `PdsVerif.Model.Alias` (a line-by-line mirror of
  `src/pydrobert/speech/alias.py`) and about the *generated* live registry
  `PdsVerif.Gen.Registry` (re-dumped from the package on every run, so `registry_*` are re-proved by the
  kernel whenever a class or an alias is added, removed, renamed, re-parented or shadowed).

  All statements are for every finite class hierarchy (`Cls`), no bounds.  The only hypothesis is
  `root.ids.Nodup` — distinct class objects have distinct identities — which is how the tree represents
  Python object identity (checked by `decide` for the generated registry, enforced by the dumper and
  re-checked by the driver for synthetic hierarchies).

  The last sentence of the property (bit-identical features of a JSON-built and an explicitly built
  computer) is a run on the implementation (harness/c08.py), not a theorem.
-/
import PdsVerif.Model.Alias
import PdsVerif.Lemmas.Alias
import PdsVerif.Generated.Registry

namespace PdsVerif.C08

open PdsVerif.Model.Alias
open PdsVerif.Model.Alias.Cls

/-! ## A concrete hierarchy used to show that hypotheses are satisfiable

```
R                      (registered: A, then B; A1 then A2 under A; A11 under A1)
├── A   {a, x}
│   ├── A1  {s, x, y}
│   │   └── A11 {a, deep}
│   └── A2  {a, s}
└── B   {b, x, y}
```
-/
def A11 : Cls := .mk ⟨5, "A11", true, ["a", "deep"]⟩ []
def A1 : Cls := .mk ⟨3, "A1", true, ["s", "x", "y"]⟩ [A11]
def A2 : Cls := .mk ⟨4, "A2", true, ["a", "s"]⟩ []
def A : Cls := .mk ⟨1, "A", true, ["a", "x"]⟩ [A1, A2]
def B : Cls := .mk ⟨2, "B", true, ["b", "x", "y"]⟩ []
def demo : Cls := .mk ⟨0, "R", false, []⟩ [A, B]

example : demo.ids.Nodup := by decide
example : demo.order = [B, A2, A11, A1, A, demo] := by decide
example : resolve demo "x" = .ok B := by decide
example : resolve demo "a" = .ok A2 := by decide
example : resolve A "x" = .ok A1 := by decide

/-! ## `from_alias` -/

/-- The stack loop of `AliasedFactory.from_alias` (with its `pushed_children` set) returns exactly the
first class carrying the alias in the order "sub-hierarchies of the subclasses, last registered first, then
the class itself" — for every hierarchy; in particular the loop never needs more than `2·size`
iterations (`Err.outOfFuel` is unreachable). -/
theorem resolve_eq_spec (root : Cls) (hn : root.ids.Nodup) (a : String) :
    resolve root a =
      match root.order.find? (fun c => c.aliases.contains a) with
      | some c => .ok c
      | none => .error .valueError :=
  resolve_eq_spec_model root a hn

/-- The declarative order is what the docstring promises: reverse registration order over the
subclasses' hierarchies, the class itself last. -/
theorem order_def (i : Info) (cs : List Cls) :
    order (.mk i cs) = cs.reverse.flatMap order ++ [.mk i cs] := order_eq i cs

/-- The search ranges over exactly the class and all its direct and indirect subclasses. -/
theorem order_mem_iff (root x : Cls) : x ∈ root.order ↔ x ∈ root.classes := mem_order_iff x root

theorem resolve_never_out_of_fuel (root : Cls) (hn : root.ids.Nodup) (a : String) :
    resolve root a ≠ .error .outOfFuel := by
  rw [resolve_eq_spec root hn]
  split <;> simp

/-- `resolve` returns `c` iff `c` carries the alias and nothing searched before it does. -/
theorem resolve_ok_iff (root : Cls) (hn : root.ids.Nodup) (a : String) (c : Cls) :
    resolve root a = .ok c ↔
      a ∈ c.aliases ∧ ∃ l r, root.order = l ++ c :: r ∧ ∀ x ∈ l, a ∉ x.aliases := by
  rw [resolve_eq_spec root hn]
  constructor
  · intro h
    split at h
    · rename_i c' hc'
      cases h
      obtain ⟨hp, l, r, hlr, hl⟩ := List.find?_eq_some_iff_append.1 hc'
      exact ⟨by simpa using hp, l, r, hlr, fun x hx => by simpa using hl x hx⟩
    · cases h
  · rintro ⟨ha, l, r, hlr, hl⟩
    have : root.order.find? (fun c => c.aliases.contains a) = some c :=
      List.find?_eq_some_iff_append.2 ⟨by simpa using ha, l, r, hlr, fun x hx => by simpa using hl x hx⟩
    rw [this]

/-- What is returned belongs to the family and carries the alias. -/
theorem resolve_sound (root : Cls) (hn : root.ids.Nodup) (a : String) (c : Cls)
    (h : resolve root a = .ok c) : c ∈ root.classes ∧ a ∈ c.aliases := by
  obtain ⟨ha, l, r, hlr, _⟩ := (resolve_ok_iff root hn a c).1 h
  exact ⟨(mem_order_iff c root).1 (by rw [hlr]; simp), ha⟩

example : resolve demo "deep" = .ok A11 ∧ A11 ∈ demo.classes := by decide

/-- An alias no class of the family carries raises `ValueError`. -/
theorem unknown_alias (root : Cls) (hn : root.ids.Nodup) (a : String)
    (h : ∀ c ∈ root.classes, a ∉ c.aliases) : resolve root a = .error .valueError := by
  rw [resolve_eq_spec root hn]
  have : root.order.find? (fun c => c.aliases.contains a) = none := by
    rw [List.find?_eq_none]
    intro x hx
    simpa using h x ((mem_order_iff x root).1 hx)
  rw [this]

example : (∀ c ∈ demo.classes, "nope" ∉ c.aliases) ∧ resolve demo "nope" = .error .valueError := by decide

/-- … and `ValueError` is raised only then: a carried alias always resolves. -/
theorem valueError_iff_unknown (root : Cls) (hn : root.ids.Nodup) (a : String) :
    resolve root a = .error .valueError ↔ ∀ c ∈ root.classes, a ∉ c.aliases := by
  refine ⟨?_, unknown_alias root hn a⟩
  rw [resolve_eq_spec root hn]
  intro h c hc
  split at h
  · cases h
  · rename_i hnone
    rw [List.find?_eq_none] at hnone
    simpa using hnone c ((mem_order_iff c root).2 hc)

/-- Some class is returned as soon as one class of the family carries the alias. -/
theorem known_alias_resolves (root : Cls) (hn : root.ids.Nodup) (a : String) (c : Cls)
    (hc : c ∈ root.classes) (ha : a ∈ c.aliases) : ∃ c', resolve root a = .ok c' := by
  cases h : resolve root a with
  | ok c' => exact ⟨c', rfl⟩
  | error e =>
    exfalso
    rw [resolve_eq_spec root hn] at h
    split at h
    · cases h
    · rename_i hnone
      rw [List.find?_eq_none] at hnone
      exact hnone c ((mem_order_iff c root).2 hc) (by simpa using ha)

example : A11 ∈ demo.classes ∧ "deep" ∈ A11.aliases := by decide

/-! ### shared aliases: who wins -/

/-- A class standing later in the search order than another carrier of the alias is never returned. -/
theorem before_wins (root x y : Cls) (hn : root.ids.Nodup) (a : String) (hb : Before root y x)
    (ha : a ∈ y.aliases) : resolve root a ≠ .ok x := by
  obtain ⟨l, m, r, hlr⟩ := hb
  rw [resolve_eq_spec root hn]
  have hnd := nodup_order hn
  rw [hlr] at hnd ⊢
  have := find?_ne_of_before (p := fun c : Cls => c.aliases.contains a) hnd (by simpa using ha)
  intro h
  split at h
  · rename_i c hc
    cases h
    exact this hc
  · cases h

example : Before demo B A ∧ "x" ∈ B.aliases ∧ resolve demo "x" ≠ .ok A :=
  ⟨⟨[], [A2, A11, A1], [demo], by decide⟩, by decide, by decide⟩

/-- Two distinct classes of a family are always comparable in the search order. -/
theorem before_total (root x y : Cls) (hx : x ∈ root.classes) (hy : y ∈ root.classes) (hne : x ≠ y) :
    Before root x y ∨ Before root y x := by
  obtain ⟨l, r, hlr⟩ := List.append_of_mem ((mem_order_iff x root).2 hx)
  have hy' := (mem_order_iff y root).2 hy
  rw [hlr] at hy'
  rcases List.mem_append.1 hy' with h | h
  · obtain ⟨u, v, huv⟩ := List.append_of_mem h
    exact Or.inr ⟨u, v, r, by simp [hlr, huv]⟩
  · rcases List.mem_cons.1 h with h | h
    · exact absurd h.symm hne
    · obtain ⟨u, v, huv⟩ := List.append_of_mem h
      exact Or.inl ⟨l, u, v, by simp [hlr, huv]⟩

/-- **Two classes of the family share an alias** (and nobody else carries it): the one searched first is
built.  Together with `subclass_before_ancestor` / `later_sibling_before` this says which one that is. -/
theorem shared_alias_first_wins (root x y : Cls) (hn : root.ids.Nodup) (a : String)
    (hb : Before root y x) (hy : a ∈ y.aliases)
    (honly : ∀ c ∈ root.classes, a ∈ c.aliases → c = x ∨ c = y) : resolve root a = .ok y := by
  obtain ⟨l, m, r, hlr⟩ := hb
  have hymem : y ∈ root.classes := (mem_order_iff y root).1 (by rw [hlr]; simp)
  obtain ⟨c', hc'⟩ := known_alias_resolves root hn a y hymem hy
  obtain ⟨hc'mem, hc'a⟩ := resolve_sound root hn a c' hc'
  rcases honly c' hc'mem hc'a with h | h
  · subst h
    exact absurd hc' (before_wins root c' y hn a ⟨l, m, r, hlr⟩ hy)
  · subst h
    exact hc'

-- two classes that are neither siblings nor related by descent share `y`; nobody else carries it
example : Before demo B A1 ∧ "y" ∈ B.aliases ∧ "y" ∈ A1.aliases
    ∧ (∀ c ∈ demo.classes, "y" ∈ c.aliases → c = A1 ∨ c = B) ∧ resolve demo "y" = .ok B :=
  ⟨⟨[], [A2, A11], [A, demo], by decide⟩, by decide, by decide, by decide, by decide⟩

/-- Descendants come before their ancestors: a subclass shadows an alias of the class it derives from. -/
theorem subclass_before_ancestor (root x y : Cls) (hx : x ∈ root.classes) (hy : y ∈ x.classes)
    (hne : y ≠ x) : Before root y x := before_of_descendant hx hy hne

theorem subclass_shadows_ancestor (root x y : Cls) (hn : root.ids.Nodup) (a : String)
    (hx : x ∈ root.classes) (hy : y ∈ x.classes) (hne : y ≠ x) (ha : a ∈ y.aliases) :
    resolve root a ≠ .ok x :=
  before_wins root x y hn a (before_of_descendant hx hy hne) ha

example : A ∈ demo.classes ∧ A11 ∈ A.classes ∧ A11 ≠ A ∧ "a" ∈ A11.aliases ∧ "a" ∈ A.aliases := by decide

/-- If `p.__subclasses__()` lists `c1` before `c2` (i.e. `c2` was registered later), every class at or below
`c2` is searched before every class at or below `c1`. -/
theorem later_sibling_before (root p c1 c2 x y : Cls) (A B C : List Cls) (hp : p ∈ root.classes)
    (hsub : p.subclasses = A ++ c1 :: B ++ c2 :: C) (hx : x ∈ c1.classes) (hy : y ∈ c2.classes) :
    Before root y x := before_of_later_sibling hp hsub hx hy

/-- The earlier registered of two siblings sharing an alias is never the one built, whatever else the
hierarchy contains (likewise anything below it, if something at or below the later sibling has the alias). -/
theorem earlier_sibling_never_wins (root p c1 c2 x y : Cls) (A B C : List Cls) (hn : root.ids.Nodup)
    (a : String) (hp : p ∈ root.classes) (hsub : p.subclasses = A ++ c1 :: B ++ c2 :: C)
    (hx : x ∈ c1.classes) (hy : y ∈ c2.classes) (ha : a ∈ y.aliases) : resolve root a ≠ .ok x :=
  before_wins root x y hn a (before_of_later_sibling hp hsub hx hy) ha

/-- **Last registered wins**: two siblings (anywhere in the family) share an alias that no other class of
the family carries ⇒ the later registered one is built. -/
theorem last_registered_wins (root p c1 c2 : Cls) (A B C : List Cls) (hn : root.ids.Nodup) (a : String)
    (hp : p ∈ root.classes) (hsub : p.subclasses = A ++ c1 :: B ++ c2 :: C)
    (h2 : a ∈ c2.aliases)
    (honly : ∀ c ∈ root.classes, a ∈ c.aliases → c = c1 ∨ c = c2) : resolve root a = .ok c2 :=
  shared_alias_first_wins root c1 c2 hn a
    (before_of_later_sibling hp hsub (self_mem_classes c1) (self_mem_classes c2)) h2 honly

-- siblings two levels below the root sharing `s`, nobody else carrying it:
example : A ∈ demo.classes ∧ A.subclasses = [] ++ A1 :: [] ++ A2 :: [] ∧ "s" ∈ A1.aliases ∧ "s" ∈ A2.aliases
    ∧ (∀ c ∈ demo.classes, "s" ∈ c.aliases → c = A1 ∨ c = A2) ∧ resolve demo "s" = .ok A2 := by decide
-- `earlier_sibling_never_wins`: `x` is carried by A, A1 (below A) and by the later sibling B of A
example : demo ∈ demo.classes ∧ demo.subclasses = [] ++ A :: [] ++ B :: [] ∧ A1 ∈ A.classes ∧ B ∈ B.classes
    ∧ "x" ∈ B.aliases ∧ "x" ∈ A1.aliases := by decide

/-! ## The live registry (generated) -/

open PdsVerif.Gen.Registry in
/-- the flat table and the tree the translator wrote describe the same hierarchy -/
theorem registry_table_matches_tree : root.flatten none 0 = table := by decide +kernel

open PdsVerif.Gen.Registry in
theorem registry_ids_nodup : root.ids.Nodup := by decide +kernel

open PdsVerif.Gen.Registry in
/-- **Registry completeness**, for the hierarchy the package has *now*: each of the six abstract families
exists and every alias of every concrete class below it resolves from the family root to that class. -/
theorem registry_complete : ∀ fam ∈ families, ∃ F, root.findName fam = some F ∧ Complete F := by
  have h : ∀ fam ∈ families,
      (match root.findName fam with | some F => decide (Complete F) | none => false) = true := by
    decide +kernel
  intro fam hf
  have := h fam hf
  split at this
  · rename_i F hF
    exact ⟨F, hF, of_decide_eq_true this⟩
  · cases this

open PdsVerif.Gen.Registry in
/-- every family has at least one concrete class with at least one alias (the statement above is not vacuous) -/
theorem registry_families_inhabited : ∀ fam ∈ families, ∃ F, root.findName fam = some F ∧
    ∃ c ∈ F.classes, c.concrete = true ∧ c.aliases ≠ [] := by
  have h : ∀ fam ∈ families,
      (match root.findName fam with
        | some F => F.classes.any (fun c => c.concrete && !c.aliases.isEmpty) | none => false) = true := by
    decide +kernel
  intro fam hf
  have := h fam hf
  split at this
  · rename_i F hF
    obtain ⟨c, hc, hcc⟩ := List.any_eq_true.1 this
    simp only [Bool.and_eq_true, Bool.not_eq_true', List.isEmpty_eq_false_iff] at hcc
    exact ⟨F, hF, c, hc, hcc.1, hcc.2⟩
  · cases this

open PdsVerif.Gen.Registry in
/-- inside each family no class below a concrete class and no later registered class re-uses one of its
aliases — the property's clause read the other way (no alias of a family is ambiguous) -/
theorem registry_aliases_unambiguous : ∀ fam ∈ families, ∃ F, root.findName fam = some F ∧
    ∀ c ∈ F.classes, ∀ d ∈ F.classes, c.concrete = true → d.concrete = true →
      ∀ a ∈ c.aliases, a ∈ d.aliases → c = d := by
  have h : ∀ fam ∈ families,
      (match root.findName fam with
        | some F => decide (∀ c ∈ F.classes, ∀ d ∈ F.classes, c.concrete = true → d.concrete = true →
            ∀ a ∈ c.aliases, a ∈ d.aliases → c = d)
        | none => false) = true := by
    decide +kernel
  intro fam hf
  have := h fam hf
  split at this
  · rename_i F hF
    exact ⟨F, hF, of_decide_eq_true this⟩
  · cases this

/-! ## `alias_factory_subclass_from_arg` -/

/-- 1. an instance of the factory class (or of any class below it) is returned unchanged — the same object. -/
theorem fromArg_instance (fac : Cls) (c o : Nat) (h : c ∈ fac.ids) :
    fromArg fac (.inst c o) = (.ok (.same o), .inst c o) := by
  simp [fromArg, h]

example : A1.id ∈ A.ids := by decide

/-- an instance of a class outside the family is neither: `dict(arg)` raises `TypeError`. -/
theorem fromArg_foreign_instance (fac : Cls) (c o : Nat) (h : c ∉ fac.ids) :
    (fromArg fac (.inst c o)).1 = .error .typeError := by
  simp [fromArg, h]

example : B.id ∉ A.ids := by decide

/-- 2. a string is an alias, and the class it resolves to is built with default arguments (no keywords). -/
theorem fromArg_str (fac : Cls) (s : String) :
    (fromArg fac (.str s)).1 = (resolve fac s).map (fun c => Out.construct c []) := by
  simp [fromArg, fromAlias]

theorem fromArg_str_unknown (fac : Cls) (hn : fac.ids.Nodup) (s : String)
    (h : ∀ c ∈ fac.classes, s ∉ c.aliases) : (fromArg fac (.str s)).1 = .error .valueError := by
  rw [fromArg_str, unknown_alias fac hn s h]; rfl

example : (fromArg demo (.str "deep")).1 = .ok (.construct A11 []) := by decide

/-- 3. a mapping: `'alias'` is used when present — whether or not `'name'` is present too — and everything
else, *including* a `'name'` entry, is passed on as keyword arguments. -/
theorem fromArg_alias_over_name (fac : Cls) (m : Mapping) (v : Val) (h : m.lookup "alias" = some v) :
    (fromArg fac (.map m)).1 = fromAlias fac v (m.filter (fun e => e.1 != "alias")) := by
  simp [fromArg, Store.copyIn, Store.popLoc, Mapping.pop, h, Except.map]

example : (fromArg demo (.map [("name", .str "b"), ("k", .hashable "3"), ("alias", .str "deep")])).1
    = .ok (.construct A11 [("name", .str "b"), ("k", .hashable "3")]) := by decide

/-- 3c. without `'alias'`, `'name'` is the alias and is removed from the keyword arguments. -/
theorem fromArg_name_fallback (fac : Cls) (m : Mapping) (v : Val) (h0 : m.lookup "alias" = none)
    (h : m.lookup "name" = some v) :
    (fromArg fac (.map m)).1 = fromAlias fac v (m.filter (fun e => e.1 != "name")) := by
  simp [fromArg, Store.copyIn, Store.popLoc, Mapping.pop, h0, h, Except.map]

example : (fromArg demo (.map [("k", .unhashable "[1]"), ("name", .str "b")])).1
    = .ok (.construct B [("k", .unhashable "[1]")]) := by decide

/-- neither key: the second `pop` raises `KeyError`. -/
theorem fromArg_missing_key (fac : Cls) (m : Mapping) (h0 : m.lookup "alias" = none)
    (h : m.lookup "name" = none) : (fromArg fac (.map m)).1 = .error .keyError := by
  simp [fromArg, Store.copyIn, Store.popLoc, Mapping.pop, h0, h, Except.map]

example : (fromArg demo (.map [("k", .str "v")])).1 = .error .keyError := by decide

/-- Success of the mapping branch, characterised: the alias came from `'alias'`, or from `'name'` with no
`'alias'` present; it is a string that resolves to the class built; and the keyword arguments are exactly the
other entries of the mapping (keys, values and order). -/
theorem fromArg_map_ok (fac : Cls) (m : Mapping) (c : Cls) (kw : Mapping)
    (h : (fromArg fac (.map m)).1 = .ok (.construct c kw)) :
    ∃ key s, (key = "alias" ∨ (key = "name" ∧ m.lookup "alias" = none)) ∧ m.lookup key = some (.str s) ∧
      resolve fac s = .ok c ∧ kw = m.filter (fun e => e.1 != key) := by
  have key_case : ∀ (key : String) (v : Val), m.lookup key = some v →
      fromAlias fac v (m.filter (fun e => e.1 != key)) = .ok (.construct c kw) →
      ∃ s, m.lookup key = some (.str s) ∧ resolve fac s = .ok c ∧ kw = m.filter (fun e => e.1 != key) := by
    intro key v hv h
    cases v with
    | str s' =>
      simp only [fromAlias] at h
      cases hr : resolve fac s' with
      | error e => rw [hr] at h; cases h
      | ok c' =>
        rw [hr] at h
        simp only [Except.map, Except.ok.injEq, Out.construct.injEq] at h
        exact ⟨s', hv, by rw [hr, h.1], h.2.symm⟩
    | hashable _ => cases h
    | unhashable _ => cases h
  obtain h0 | ⟨v, h0⟩ := Option.eq_none_or_eq_some (m.lookup "alias")
  · obtain h1 | ⟨v, h1⟩ := Option.eq_none_or_eq_some (m.lookup "name")
    · rw [fromArg_missing_key fac m h0 h1] at h; cases h
    · rw [fromArg_name_fallback fac m v h0 h1] at h
      obtain ⟨s, h1', h2, h3⟩ := key_case "name" v h1 h
      exact ⟨"name", s, Or.inr ⟨rfl, h0⟩, h1', h2, h3⟩
  · rw [fromArg_alias_over_name fac m v h0] at h
    obtain ⟨s, h1, h2, h3⟩ := key_case "alias" v h0 h
    exact ⟨"alias", s, Or.inl rfl, h1, h2, h3⟩

example : (fromArg demo (.map [("k", .hashable "1"), ("name", .str "y")])).1
    = .ok (.construct B [("k", .hashable "1")]) := by decide

/-- an alias value that is not a string: hashable ⇒ never found (`ValueError`); unhashable ⇒ the membership
test itself raises `TypeError`. -/
theorem fromAlias_non_string (fac : Cls) (kw : Mapping) (r : String) :
    fromAlias fac (.hashable r) kw = .error .valueError ∧
    fromAlias fac (.unhashable r) kw = .error .typeError := ⟨rfl, rfl⟩

theorem fromArg_other (fac : Cls) : (fromArg fac .other).1 = .error .typeError := rfl

/-- 4. **the argument is never modified**: whatever is passed and whatever happens (return or raise), the
caller's object is afterwards what it was — in particular a mapping keeps `'alias'` / `'name'`. -/
theorem fromArg_pure (fac : Cls) (arg : Arg) : (fromArg fac arg).2 = arg := by
  cases arg with
  | inst c o => simp only [fromArg]; split <;> rfl
  | str s => rfl
  | map m =>
    simp only [fromArg, Store.copyIn, Store.popLoc, Mapping.pop]
    cases m.lookup "alias" with
    | some v => rfl
    | none => cases m.lookup "name" <;> rfl
  | other => rfl

example : (fromArg demo (.map [("alias", .str "x"), ("name", .str "b")])).2
    = .map [("alias", .str "x"), ("name", .str "b")] := by decide

end PdsVerif.C08

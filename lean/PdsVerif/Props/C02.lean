/-
  C02 — STFT coefficients equal their documented definition: the index-level content.

  * framing of `compute_full` (count, documented sample ranges, symmetric reflection, every frame
    exactly `frame_length` long) for EVERY frame length and shift, also `frame_shift > frame_length`
                                          — model `PdsVerif/Model/Stft.lean`
  * the half-spectrum segment walk of `_compute_frame` pairs tap `j` of a truncated response that
    starts at bin `start` with full-spectrum bin `(start + j) mod D`, for every DFT size `D`
    (odd, even, every residue mod 4), every start and every length — model `Model/Walk.lean`
  * real banks: staying within the half spectrum, and the doubling identity
  * the default frame length leaves a DFT bin strictly inside every filter's support
-/
import PdsVerif.Lemmas.StftStream
import PdsVerif.Lemmas.Walk
import PdsVerif.Lemmas.Dft
import PdsVerif.Props.FrameCoeffTie
import Mathlib.Algebra.BigOperators.Group.Finset.Basic
import Mathlib.Algebra.Order.Floor.Ring
import Mathlib.Algebra.Order.Field.Basic
import Mathlib.Tactic
namespace PdsVerif.C02
open PdsVerif.Model PdsVerif.Model.Stft PdsVerif.StftArith PdsVerif.StftCanon PdsVerif.WalkLemmas
open PdsVerif.Seg

/-! ## framing -/

variable {α : Type} [Inhabited α]

/-- too short: no frame -/
theorem full_short (c : Cfg) (x : List α) (h : x.length < c.L / 2 + 1) : full c x = [] := by
  simp [full, h]

/-- `(N + S/2) / S` frames otherwise -/
theorem full_count (c : Cfg) (x : List α) (h : c.L / 2 + 1 ≤ x.length) :
    (full c x).length = (x.length + c.S / 2) / c.S := by
  rw [full_eq' c]; have : ¬ x.length < c.L / 2 + 1 := by omega
  simp [framesFrom, numFull, this]

/-- sample `i` of frame `k` is signal position `k·S + i − pad_left`, symmetric reflection beyond
the ends (`symIdx` = `np.pad(…, 'symmetric')`) -/
theorem full_frame_spec (c : Cfg) (x : List α) (k i : Nat)
    (hk : k < (full c x).length) (hi : i < c.L) :
    ((full c x)[k]).getD i default
      = x.getD (symIdx x.length (((k * c.S : Nat) : Int) + i - (padL c : Int))) default := by
  have h := full_eq' c x
  have hk' : k < (framesFrom c (ext x) 0 (numFull c x.length)).length := by rw [← h]; exact hk
  have : (full c x)[k] = (framesFrom c (ext x) 0 (numFull c x.length))[k] := by simp [h]
  rw [this]
  simp only [framesFrom, List.getElem_map, List.getElem_range, frameAt, Nat.zero_add]
  rw [seg_getD _ _ _ _ _ hi]
  unfold ext
  congr 2; omega

/-- every frame has exactly `frame_length` samples -/
theorem full_frames_length (c : Cfg) (x : List α) : ∀ fr ∈ full c x, fr.length = c.L := by
  rw [full_eq' c]
  intro fr h
  simp only [framesFrom, frameAt, List.mem_map] at h
  obtain ⟨k, _, rfl⟩ := h
  simp

/-- the documented frame origins: causal `k·S`; centred `k·S − (L+1)/2 + 1`;
Kaldi `k·S − L/2 + S/2` (the Kaldi left padding `L/2 − S/2` must not be negative: `np.pad` rejects that) -/
theorem frame_origin (c : Cfg) (hL : 0 < c.L) (hk : c.kaldi = true → c.S / 2 ≤ c.L / 2) (k : Nat) :
    ((k * c.S : Nat) : Int) - (padL c : Int) =
      if !c.centered then ((k * c.S : Nat) : Int)
      else if c.kaldi then ((k * c.S : Nat) : Int) - (c.L / 2 : Nat) + (c.S / 2 : Nat)
      else ((k * c.S : Nat) : Int) - ((c.L + 1) / 2 : Nat) + 1 := by
  unfold padL
  cases c.centered <;> cases hkk : c.kaldi <;> simp [hkk] at hk ⊢ <;> omega

/-- inside the signal there is no reflection: the frame is the plain slice -/
theorem symIdx_inside (n : Nat) (p : Int) (h0 : 0 ≤ p) (h1 : p < n) : symIdx n p = p.toNat :=
  PdsVerif.SymIdx.symIdx_mid n p h0 h1

/-- just beyond the ends the reflection repeats the edge sample: position `-1` reads sample `0`,
position `N` reads sample `N-1` -/
theorem symIdx_edges (n : Nat) (hn : 0 < n) : symIdx n (-1) = 0 ∧ symIdx n n = n - 1 := by
  constructor
  · rw [PdsVerif.SymIdx.symIdx_left n (-1) (by omega) (by omega)]; rfl
  · rw [PdsVerif.SymIdx.symIdx_right n n (by omega) (by omega)]; omega

/-! ## the segment walk -/

/-- **walk_covers.** For every DFT size, start bin and length the loop multiplies tap `j` with
full-spectrum bin `(start + j) mod D` — read directly from the half spectrum when that bin is at
most Nyquist, conjugated from bin `D − b` otherwise — in tap order, and terminates within the
stated fuel. -/
theorem walk_covers (D start len : Nat) (hD : 0 < D) : Walk.run D start len = Walk.spec D start len := by
  unfold Walk.run
  rw [loop_eq D len hD (Walk.fuelFor start len) start 0 false (Nat.zero_le _) (by simp [Walk.fuelFor])]
  rw [spec_eq]
  simp [base]

/-- the half-spectrum index always exists: `idx < half_len` -/
theorem walk_idx_in_range (D start len : Nat) (hD : 0 < D) :
    ∀ h ∈ Walk.run D start len, h.idx < Walk.halfLen D ∧ h.tap < len := by
  rw [walk_covers D start len hD]
  intro h hm
  simp only [Walk.spec, List.mem_map, List.mem_range] at hm
  obtain ⟨j, hj, rfl⟩ := hm
  have hb : (start + j) % D < D := Nat.mod_lt _ hD
  split
  · exact ⟨by assumption, hj⟩
  · refine ⟨?_, hj⟩
    simp only [Walk.halfLen] at *; omega

/-- a truncated response no longer than the DFT meets pairwise distinct bins, so the response
rebuilt by the documented recipe has `H[(start + j) mod D] = tap j` and nothing is added twice -/
theorem walk_bins_distinct (D start len : Nat) (hlen : len ≤ D) (i j : Nat)
    (hi : i < len) (hj : j < len) (h : (start + i) % D = (start + j) % D) : i = j := by
  rcases Nat.le_total i j with hij | hij
  · have h0 := Nat.sub_mod_eq_zero_of_mod_eq h.symm
    have e : start + j - (start + i) = j - i := by omega
    rw [e] at h0
    have := Nat.eq_zero_of_dvd_of_lt (Nat.dvd_of_mod_eq_zero h0) (by omega)
    omega
  · have h0 := Nat.sub_mod_eq_zero_of_mod_eq h
    have e : start + i - (start + j) = i - j := by omega
    rw [e] at h0
    have := Nat.eq_zero_of_dvd_of_lt (Nat.dvd_of_mod_eq_zero h0) (by omega)
    omega

/-- a real bank's truncated response stays within the half spectrum: one direct pass, no mirror -/
theorem walk_real_within_half (D start len : Nat) (hD : 0 < D) (h : start + len ≤ Walk.halfLen D) :
    Walk.run D start len = (List.range len).map fun j => { idx := start + j, conj := false, tap := j } := by
  rw [walk_covers D start len hD]
  unfold Walk.spec
  apply List.map_congr_left
  intro j hj
  have hj := List.mem_range.mp hj
  have hhl := half_le D hD
  rw [Nat.mod_eq_of_lt (by omega)]
  have : start + j < Walk.halfLen D := by omega
  simp [this]

/-- **real_doubling.** For a real bank whose taps avoid DC and (even `D`) Nyquist, the response
rebuilt by the documented recipe puts tap `j` on bin `start + j` and its conjugate on the distinct
bin `D − (start + j)`; for any bin-symmetric summand `φ` (`|X[b]·H[b]|^p` is: `X[D−b] = conj X[b]`)
the full-spectrum sum is twice the half-spectrum sum the code computes. -/
theorem real_doubling {M : Type} [AddCommMonoid M] (D start len : Nat) (φ : Nat → Nat → M)
    (hsym : ∀ b j, b ≤ D → φ (D - b) j = φ b j) (h : start + len ≤ Walk.halfLen D) (hD : 0 < D) :
    (∑ j ∈ Finset.range len, φ (start + j) j) + (∑ j ∈ Finset.range len, φ (D - (start + j)) j)
      = 2 • ∑ j ∈ Finset.range len, φ (start + j) j := by
  have hhl := half_le D hD
  rw [two_nsmul]
  congr 1
  apply Finset.sum_congr rfl
  intro j hj
  have := Finset.mem_range.mp hj
  exact hsym _ _ (by omega)

/-- the mirrored bins are new ones: no tap on DC or Nyquist ⇒ `D − b ≠ b'` for all taps -/
theorem real_mirror_disjoint (D start len : Nat)
    (hdc : 0 < start) (hny : 2 * (start + len - 1) < D) (i j : Nat) (hi : i < len) (hj : j < len) :
    D - (start + i) ≠ start + j := by
  omega

/-- the response rebuilt by the documented (complex, wrapping) recipe: bin `b` holds tap `j` when
`(start + j) mod D = b`, zero otherwise -/
def rebuilt {T : Type} [Zero T] (D start len : Nat) (tap : Nat → T) (b : Nat) : T :=
  match (List.range len).find? (fun j => (start + j) % D = b) with
  | some j => tap j
  | none => 0

/-- **full_spectrum_sum.** With at most `D` taps the sum over all `D` bins of the full spectrum of
any summand `φ b (H b)` that vanishes where the rebuilt response `H` is zero equals the sum over the
taps, each at its own bin `(start + j) mod D` — which is what the walk accumulates (`walk_covers`). -/
theorem full_spectrum_sum {T M : Type} [Zero T] [AddCommMonoid M] (D start len : Nat) (hD : 0 < D)
    (hlen : len ≤ D) (tap : Nat → T) (φ : Nat → T → M) (h0 : ∀ b, φ b 0 = 0) :
    ∑ b ∈ Finset.range D, φ b (rebuilt D start len tap b)
      = ∑ j ∈ Finset.range len, φ ((start + j) % D) (tap j) := by
  -- rewrite each bin's term as a sum over taps with an indicator
  have hbin : ∀ b, φ b (rebuilt D start len tap b)
      = ∑ j ∈ Finset.range len, if (start + j) % D = b then φ b (tap j) else 0 := by
    intro b
    unfold rebuilt
    cases hf : (List.range len).find? (fun j => (start + j) % D = b) with
    | none =>
      simp only [h0]
      symm
      apply Finset.sum_eq_zero
      intro j hj
      have := List.find?_eq_none.mp hf j (List.mem_range.mpr (Finset.mem_range.mp hj))
      simp at this
      simp [this]
    | some j0 =>
      have hj0 := List.find?_some hf
      have hm := List.mem_of_find?_eq_some hf
      simp only [decide_eq_true_eq] at hj0
      have hj0l : j0 < len := List.mem_range.mp hm
      rw [Finset.sum_eq_single j0]
      · simp [hj0]
      · intro j hj hne
        have hjl := Finset.mem_range.mp hj
        have : (start + j) % D ≠ b := by
          intro hjb
          exact hne (walk_bins_distinct D start len hlen j j0 hjl hj0l (hjb.trans hj0.symm))
        simp [this]
      · intro h; exact absurd (Finset.mem_range.mpr hj0l) h
  simp only [hbin]
  rw [Finset.sum_comm]
  apply Finset.sum_congr rfl
  intro j _
  have hb : (start + j) % D ∈ Finset.range D := Finset.mem_range.mpr (Nat.mod_lt _ hD)
  rw [Finset.sum_ite_eq]
  simp [hb]

/-- the full-spectrum bin a hit stands for: the half-spectrum bin itself, or its mirror `D − idx` when
the code conjugates (`X[D − b] = conj X[b]` for a real frame) -/
def binOf (D : Nat) (h : Walk.Hit) : Nat := if h.conj then D - h.idx else h.idx

theorem list_sum_map_range {M : Type} [AddCommMonoid M] (f : Nat → M) (n : Nat) :
    ((List.range n).map f).sum = ∑ i ∈ Finset.range n, f i := by
  induction n with
  | zero => simp
  | succ n ih => rw [List.range_succ, List.map_append, List.sum_append, ih, Finset.sum_range_succ]; simp

/-- **coefficient = full-spectrum sum.** What `_compute_frame` accumulates for one filter — the sum,
over the (half-spectrum bin, conj, tap) triples the loop visits, of a summand `ψ` of the full-spectrum
bin and the tap — equals the sum over ALL `D` bins of `ψ b (H b)` with `H` the response rebuilt from
the truncated response by the documented recipe (`ψ b 0 = 0`; at most `D` taps).  With
`ψ b t = |X[b]·t|^p` this is the property's "sum over the full DFT spectrum of |DFT × H_i|^p". -/
theorem walk_sum_eq_full_spectrum {T M : Type} [Zero T] [AddCommMonoid M] (D start len : Nat)
    (hD : 0 < D) (hlen : len ≤ D) (tap : Nat → T) (ψ : Nat → T → M) (h0 : ∀ b, ψ b 0 = 0) :
    ((Walk.run D start len).map fun h => ψ (binOf D h) (tap h.tap)).sum
      = ∑ b ∈ Finset.range D, ψ b (rebuilt D start len tap b) := by
  rw [walk_covers D start len hD, full_spectrum_sum D start len hD hlen tap ψ h0]
  unfold Walk.spec
  rw [List.map_map, list_sum_map_range]
  apply Finset.sum_congr rfl
  intro j _
  have hb : (start + j) % D < D := Nat.mod_lt _ hD
  simp only [Function.comp]
  split
  · simp [binOf]
  · simp only [binOf, if_true]
    congr 1; omega

/-! ## default frame length -/

/-- With `frame_length = max(support, ⌈2·rate / bw_min⌉) ≤ D` the DFT bin spacing `rate / D` is at
most half of every filter's bandwidth, so some bin lies strictly inside the filter's support
interval `(lo, hi)`. -/
theorem default_len_bin {K : Type} [Field K] [LinearOrder K] [IsStrictOrderedRing K] [FloorRing K]
    (rate lo hi bwmin : K) (D L : Nat) (hrate : 0 < rate) (hbw : 0 < bwmin) (hwide : bwmin ≤ hi - lo)
    (hL : 2 * rate / bwmin ≤ (L : K)) (hLD : L ≤ D) :
    ∃ k : Int, lo < (k : K) * (rate / D) ∧ (k : K) * (rate / D) < hi := by
  have hLpos : (0 : K) < L := lt_of_lt_of_le (by positivity) hL
  have hDpos : (0 : K) < D := lt_of_lt_of_le hLpos (by exact_mod_cast hLD)
  have hδ : 0 < rate / D := div_pos hrate hDpos
  -- spacing ≤ bw_min / 2
  have hsp : 2 * (rate / D) ≤ bwmin := by
    have h1 : 2 * rate ≤ (L : K) * bwmin := by
      have := (div_le_iff₀ hbw).mp hL; linarith
    have h2 : (L : K) * bwmin ≤ D * bwmin := by
      apply mul_le_mul_of_nonneg_right (by exact_mod_cast hLD) hbw.le
    rw [show 2 * (rate / (D:K)) = (2 * rate) / D by ring, div_le_iff₀ hDpos]
    linarith
  refine ⟨⌊lo / (rate / D)⌋ + 1, ?_, ?_⟩
  · have := Int.lt_floor_add_one (lo / (rate / D))
    have h3 := (div_lt_iff₀ hδ).mp this
    push_cast; linarith
  · have := Int.floor_le (lo / (rate / D))
    have h3 := (le_div_iff₀ hδ).mp this
    push_cast; linarith

/-! ## the spectrum itself: Hermitian symmetry, so the walk's reads are full-spectrum bins -/

open PdsVerif.Dft in
/-- what `_compute_frame` reads for one hit: entry `idx` of `rfft`'s half spectrum, conjugated on the mirrored
pass (`half_spect[...].conj()`) -/
noncomputable def readHit (D : Nat) (x : Nat → ℂ) (h : Walk.Hit) : ℂ :=
  if h.conj then (starRingEnd ℂ) (dft D x (h.idx : ℤ)) else dft D x (h.idx : ℤ)

open PdsVerif.Dft in
/-- **Hermitian symmetry closes the gap** between the half spectrum the code holds and the full spectrum the
property speaks about: for a real (windowed, zero-padded) frame the value read for a hit IS full-spectrum
bin `binOf D h` of the `D`-point DFT (`Dft.dft_mirror`: `X[D − k] = conj X[k]`). -/
theorem read_eq_full_bin (D : Nat) (hD : 0 < D) (x : Nat → ℂ) (hx : ∀ n, (starRingEnd ℂ) (x n) = x n)
    (h : Walk.Hit) (hidx : h.idx < Walk.halfLen D) :
    readHit D x h = dft D x ((binOf D h : Nat) : ℤ) := by
  unfold readHit binOf
  split
  · rw [dft_mirror_nat D (Nat.pos_iff_ne_zero.mp hD) x hx h.idx (by simp only [Walk.halfLen] at hidx; omega)]
  · rfl

open PdsVerif.Dft in
/-- **coefficient = sum over the FULL DFT spectrum of `nonlin(DFT(window × frame) × H_i)`**, the property's
formula, with the DFT being NumPy's documented transform rather than an abstract family of values:
what the loop accumulates from the half spectrum (with conjugated reads on the mirrored pass) equals the sum
over all `D` bins of `nonlin (X[b] · H[b])`, `H` the response rebuilt from the truncated response.
`nonlin` is `|z|²` (use_power) or `|z|`; only `nonlin 0 = 0` is used. -/
theorem coefficient_eq_full_dft_sum {M : Type} [AddCommMonoid M] (D start len : Nat) (hD : 0 < D)
    (hlen : len ≤ D) (x : Nat → ℂ) (hx : ∀ n, (starRingEnd ℂ) (x n) = x n) (tap : Nat → ℂ)
    (nonlin : ℂ → M) (h0 : nonlin 0 = 0) :
    ((Walk.run D start len).map fun h => nonlin (readHit D x h * tap h.tap)).sum
      = ∑ b ∈ Finset.range D, nonlin (dft D x (b : ℤ) * rebuilt D start len tap b) := by
  have hrun : ((Walk.run D start len).map fun h => nonlin (readHit D x h * tap h.tap))
      = (Walk.run D start len).map fun h => nonlin (dft D x ((binOf D h : Nat) : ℤ) * tap h.tap) := by
    apply List.map_congr_left
    intro h hm
    rw [read_eq_full_bin D hD x hx h (walk_idx_in_range D start len hD h hm).1]
  rw [hrun]
  exact walk_sum_eq_full_spectrum D start len hD hlen tap (fun b t => nonlin (dft D x (b : ℤ) * t))
    (fun b => by simp [h0])

/-- the two non-linearities of the code satisfy the side condition -/
example : Complex.normSq 0 = 0 ∧ ‖(0 : ℂ)‖ = 0 := by simp

/-! ## the capstone: what `_compute_frame` stores for one filter, in the property's words -/

open PdsVerif.Dft PdsVerif.Gen.FrameCoeff PdsVerif.FrameCoeffTie in
/-- **STFT coefficient = the documented formula.**  Put together: the statements regenerated from the source
(`_power` / `_mag`, `val += nonlin(segment)`, the doubling and log-floor after the loop — `Generated/FrameCoeff.lean`),
the segment walk (`Walk.run`, cut into segments in ANY way: `segs.flatten = Walk.run …`), and NumPy's DFT of the real,
windowed, zero-padded frame `x` read from the half spectrum with conjugation on the mirrored pass.  The stored
coefficient is

  `logFloor( (2 if the bank is real) · Σ_{b < D} |X[b] · H[b]|^p )`,  `p = 2` if `use_power` else `1`,

the sum running over the FULL spectrum, `H` the response rebuilt from the truncated response by the documented
recipe.  (For a real bank `H` holds the half-spectrum taps only and the factor 2 accounts for their mirror images:
`real_doubling`.) -/
theorem stft_coefficient_spec (D start len : Nat) (hD : 0 < D) (hlen : len ≤ D) (x : Nat → ℂ)
    (hx : ∀ n, (starRingEnd ℂ) (x n) = x n) (tap : Nat → ℂ) (p isReal useLog : Bool) (floor : ℝ)
    (segs : List (List Walk.Hit)) (hsegs : segs.flatten = Walk.run D start len) :
    np_finish isReal useLog floor
        (segs.foldl (fun acc s => np_accum acc (np_nonlin p (s.map fun h => ‖readHit D x h * tap h.tap‖))) 0)
      = logFloor useLog floor ((if isReal then 2 else 1) *
          ∑ b ∈ Finset.range D, entry p ‖dft D x (b : ℤ) * rebuilt D start len tap b‖) := by
  have hfold : segs.foldl (fun acc s => np_accum acc (np_nonlin p (s.map fun h => ‖readHit D x h * tap h.tap‖))) 0
      = (segs.map fun s => s.map fun h => ‖readHit D x h * tap h.tap‖).foldl
          (fun acc s => np_accum acc (np_nonlin p s)) 0 := by
    rw [List.foldl_map]
  rw [hfold, coeff_eq_spec]
  congr 2
  have hflat : (segs.map fun s => s.map fun h => ‖readHit D x h * tap h.tap‖).flatten
      = (Walk.run D start len).map fun h => ‖readHit D x h * tap h.tap‖ := by
    rw [← hsegs, List.map_flatten]
  rw [hflat, List.map_map]
  have := coefficient_eq_full_dft_sum D start len hD hlen x hx tap (fun z => entry p ‖z‖)
    (by cases p <;> simp [entry])
  simpa [Function.comp_def] using this

/-- a bin where the rebuilt response is non-zero carries one of the taps -/
theorem rebuilt_ne_zero {T : Type} [Zero T] (D start len : Nat) (tap : Nat → T) (b : Nat)
    (h : rebuilt D start len tap b ≠ 0) : ∃ j, j < len ∧ (start + j) % D = b := by
  unfold rebuilt at h
  cases hf : (List.range len).find? (fun j => (start + j) % D = b) with
  | none => rw [hf] at h; exact absurd rfl h
  | some j =>
    have hj := List.find?_some hf
    simp only [decide_eq_true_eq] at hj
    exact ⟨j, List.mem_range.mp (List.mem_of_find?_eq_some hf), hj⟩

open PdsVerif.Dft PdsVerif.FrameCoeffTie in
/-- **real banks: twice the half-spectrum sum IS the full-spectrum sum of the Hermitian response.**  For a real
bank whose taps avoid DC and the Nyquist bin (`0 < start`, `2·(start+len−1) < D`), the documented recipe also puts
`conj(tap j)` on the mirrored bin `D − (start + j)`; that mirrored placement is `rebuilt D (D−(start+len−1)) len` of the
reversed, conjugated taps.  For a real frame the full-spectrum sum over the complete (Hermitian) response equals twice
the sum over the half-spectrum part — the factor 2 of `stft_coefficient_spec`. -/
theorem real_full_spectrum_eq_twice_half (D start len : Nat) (hdc : 0 < start) (hny : 2 * (start + len - 1) < D)
    (hlen0 : 0 < len) (x : Nat → ℂ) (hx : ∀ n, (starRingEnd ℂ) (x n) = x n) (tap : Nat → ℂ) (p : Bool) :
    ∑ b ∈ Finset.range D, entry p ‖dft D x (b : ℤ) *
        (rebuilt D start len tap b
          + rebuilt D (D - (start + len - 1)) len (fun i => (starRingEnd ℂ) (tap (len - 1 - i))) b)‖
      = 2 * ∑ b ∈ Finset.range D, entry p ‖dft D x (b : ℤ) * rebuilt D start len tap b‖ := by
  have hD : 0 < D := by omega
  have hlen : len ≤ D := by omega
  set tap2 : Nat → ℂ := fun i => (starRingEnd ℂ) (tap (len - 1 - i)) with htap2
  set s2 := D - (start + len - 1) with hs2
  let ψ : Nat → ℂ → ℝ := fun b t => entry p ‖dft D x (b : ℤ) * t‖
  have hψ0 : ∀ b, ψ b 0 = 0 := by intro b; cases p <;> simp [ψ, entry]
  -- disjoint supports: pointwise additivity
  have hadd : ∀ b ∈ Finset.range D, ψ b (rebuilt D start len tap b + rebuilt D s2 len tap2 b)
      = ψ b (rebuilt D start len tap b) + ψ b (rebuilt D s2 len tap2 b) := by
    intro b _
    by_cases h1 : rebuilt D start len tap b = 0
    · rw [h1, zero_add, hψ0, zero_add]
    · have h2 : rebuilt D s2 len tap2 b = 0 := by
        by_contra h2
        obtain ⟨j, hj, hjb⟩ := rebuilt_ne_zero D start len tap b h1
        obtain ⟨i, hi, hib⟩ := rebuilt_ne_zero D s2 len tap2 b h2
        rw [Nat.mod_eq_of_lt (by omega)] at hjb hib
        omega
      rw [h2, add_zero, hψ0, add_zero]
  -- the mirrored part sums to the same value
  have hmir : ∑ b ∈ Finset.range D, ψ b (rebuilt D s2 len tap2 b)
      = ∑ b ∈ Finset.range D, ψ b (rebuilt D start len tap b) := by
    rw [full_spectrum_sum D s2 len hD hlen tap2 ψ hψ0, full_spectrum_sum D start len hD hlen tap ψ hψ0]
    rw [← Finset.sum_range_reflect (fun j => ψ ((start + j) % D) (tap j)) len]
    apply Finset.sum_congr rfl
    intro i hi
    have hil := Finset.mem_range.mp hi
    have e1 : (s2 + i) % D = D - (start + (len - 1 - i)) := by
      rw [Nat.mod_eq_of_lt (by omega)]; omega
    have e2 : (start + (len - 1 - i)) % D = start + (len - 1 - i) := Nat.mod_eq_of_lt (by omega)
    simp only [ψ, htap2]
    rw [e1, e2, dft_mirror_nat D (by omega) x hx (start + (len - 1 - i)) (by omega), ← map_mul,
      Complex.norm_conj]
  show ∑ b ∈ Finset.range D, ψ b (rebuilt D start len tap b + rebuilt D s2 len tap2 b) = _
  rw [Finset.sum_congr rfl hadd, Finset.sum_add_distrib, hmir]
  ring

/-! non-vacuity -/
example : Walk.run 8 6 5 = Walk.spec 8 6 5 ∧ (Walk.run 8 6 5).length = 5 := by decide
example : Walk.run 3 0 3 = [⟨0, false, 0⟩, ⟨1, false, 1⟩, ⟨1, true, 2⟩] := by decide
example : (1 : Nat) + 3 ≤ Walk.halfLen 8 ∧ 0 < 1 ∧ 2 * (1 + 3 - 1) < 8 := by decide

end PdsVerif.C02

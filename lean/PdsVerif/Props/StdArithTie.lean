/-
  Translator tie for the per-coefficient arithmetic of `Standardize` (property C16).

  `Generated/StdArith.lean` is re-extracted on every run from the element-wise NumPy statements of
  `_accumulate_vector`, `_accumulate_tensor`, `_apply_vector` and `_apply_tensor` (post.py): the scalar function each
  statement applies to one coefficient.  The theorems here show that the hand-written array model
  `Model/Standardize.lean` — the one all C16 theorems are about — applies exactly these scalar functions, coefficient by
  coefficient.  A change to any of these statements in the source (a different power, a lost `- means ** 2`, the
  replacement value of a zero variance, the order of scaling and centring, `+= 1` becoming something else, …) changes the
  generated term and breaks one of these theorems in the kernel, before any test input is tried.
-/
import PdsVerif.Generated.StdArith
import PdsVerif.Model.Standardize
set_option linter.unusedSectionVars false
namespace PdsVerif.StdArithTie
open PdsVerif.Model.Standardize PdsVerif.Gen.StdArith

variable {α : Type} [Add α] [Sub α] [Mul α] [Div α] [Zero α] [One α] [NatCast α]

/-- `_accumulate_vector`: count, sums and sums of squares are updated by the generated scalar functions -/
theorem accVec_fields (s : Stats α) (v : List α) :
    ({ s with cnt := s.cnt + 1, sum := vadd s.sum v, sq := vadd s.sq (vsq v) } : Stats α)
      = { s with cnt := acc_cnt_vec s.cnt
                 sum := List.zipWith acc_sum s.sum v
                 sq := List.zipWith acc_sq s.sq v } := by
  have h : vadd s.sq (vsq v) = List.zipWith acc_sq s.sq v := by
    unfold vadd vsq acc_sq
    rw [List.zipWith_map_right]
  simp only [acc_cnt_vec, h]
  rfl

/-- `_accumulate_tensor`: the same with the column sums over the tensor's feature vectors -/
theorem accTensor_fields (s : Stats α) (F : Nat) (vs : List (List α)) :
    ({ s with cnt := s.cnt + (vs.length : α), sum := vadd s.sum (colSum F vs), sq := vadd s.sq (colSum F (vs.map vsq)) } : Stats α)
      = { s with cnt := acc_cnt_tens s.cnt (vs.length : α)
                 sum := List.zipWith tens_sum s.sum (colSum F vs)
                 sq := List.zipWith tens_sq s.sq (colSum F (vs.map vsq)) } := rfl

/-- means: `self._stats[0, :-1] / count`, vector and tensor paths alike -/
theorem means_eq (s : Stats α) :
    means s = s.sum.map (fun a => v_mean a s.cnt) ∧ means s = s.sum.map (fun a => t_mean a s.cnt) := ⟨rfl, rfl⟩

/-- variances: `sumsq / count - means ** 2` -/
theorem varOf_eq (cnt : α) (sq mu : List α) :
    varOf cnt sq mu = List.zipWith (fun q m => v_var q cnt m) sq mu
    ∧ varOf cnt sq mu = List.zipWith (fun q m => t_var q cnt m) sq mu
    ∧ varOf cnt sq mu = List.zipWith (fun q m => l_var q cnt m) sq mu := ⟨rfl, rfl, rfl⟩

/-- scales: zero variances replaced by one, then `1 / sqrt` -/
theorem scales_eq (sqrt : α → α) (cz : α → Bool) (v : List α) :
    scales sqrt cz v = v.map (v_scale sqrt cz) ∧ scales sqrt cz v = v.map (t_scale sqrt cz) := ⟨rfl, rfl⟩

/-- the affine map: `x * scale - mean * scale` -/
theorem affine_eq (x sc mu : List α) :
    affine x sc mu = List.zipWith (fun p m => p - m) (List.zipWith (fun a b => a * b) x sc) (List.zipWith (fun a b => a * b) mu sc)
    ∧ ∀ a b c : α, v_out a b c = a * b - c * b ∧ t_out a b c = a * b - c * b := ⟨rfl, fun _ _ _ => ⟨rfl, rfl⟩⟩

/-- per coefficient: what `apply` returns at position `i` is `v_out x[i] (scale i) (mean i)` with the generated
scalar functions (global statistics, `norm_var`) -/
theorem affine_get (x sc mu : List α) (i : Nat) (a b c : α) (hx : x[i]? = some a) (hs : sc[i]? = some b)
    (hm : mu[i]? = some c) : (affine x sc mu)[i]? = some (v_out a b c) := by
  simp [affine, List.getElem?_zipWith, hx, hs, hm, v_out]

/-- the local branch of `_apply_tensor`: mean of the tensor's own feature vectors -/
theorem local_mean_eq (F : Nat) (vs : List (List α)) :
    (colSum F vs).map (· / (vs.length : α)) = (colSum F vs).map (fun c => l_mean c (vs.length : α)) := rfl

example : v_out (3 : Int) 2 1 = 4 ∧ acc_sq (10 : Int) 3 = 19 ∧ v_var (20 : Int) 4 2 = 1 := by decide

end PdsVerif.StdArithTie

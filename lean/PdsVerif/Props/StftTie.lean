/-
  Translator tie for the STFT framing arithmetic (properties C01, C02, C04, C14).

  `Generated/StftConsts.lean` is re-extracted on every run from the integer code at the head of
  `STFTFrameComputer.compute_full / finalize / compute_chunk` and of `pytorch_stft_frame_computer`
  (pad widths, frame counts, thresholds — as `Int` terms with Python's floor division).  The theorems here
  show that these expressions are exactly the `Nat` arithmetic of the hand-written model `Model/Stft.lean`
  (the one all framing / streaming theorems are about), and that the PyTorch port's expressions are
  *literally* NumPy's.  A change to any of these expressions in the source changes the generated term and
  breaks one of these theorems in the kernel, before any test input is tried.
-/
import PdsVerif.Generated.StftConsts
import PdsVerif.Lemmas.StftArith
namespace PdsVerif.StftTie
open PdsVerif.Model.Stft PdsVerif.StftArith PdsVerif.Gen.StftConsts

/-- side conditions under which Python's integers never go negative where the model uses `Nat`:
a positive frame length and, for the Kaldi style, a non-negative left padding -/
structure Sane (c : Cfg) : Prop where
  hL : 0 < c.L
  hS : 0 < c.S
  hK : c.kaldi = true → c.S / 2 ≤ c.L / 2

theorem sane_of_wf (c : Cfg) (w : WF c) : Sane c :=
  ⟨by have := w.hS; have := w.hSL; omega, w.hS, fun _ => by have := w.hSL; omega⟩

theorem fdiv2 (a : Nat) : Int.fdiv (a : Int) 2 = ((a / 2 : Nat) : Int) := by
  rw [Int.fdiv_eq_ediv_of_nonneg _ (by omega)]; omega

theorem fdiv2succ (a : Nat) : Int.fdiv ((a : Int) + 1) 2 = (((a + 1) / 2 : Nat) : Int) := by
  rw [Int.fdiv_eq_ediv_of_nonneg _ (by omega)]; omega

theorem fdivS (a S : Nat) : Int.fdiv (a : Int) (S : Int) = ((a / S : Nat) : Int) := by
  rw [Int.fdiv_eq_ediv_of_nonneg _ (by omega), Int.natCast_ediv]

/-- `compute_full`: left padding -/
theorem full_pad_left_eq (c : Cfg) (h : Sane c) (N : Int) :
    full_pad_left c.L c.S c.centered c.kaldi N = (padL c : Int) := by
  have hL := h.hL; have hK := h.hK
  unfold full_pad_left padL
  rw [fdiv2, fdiv2, fdiv2succ]
  cases c.centered <;> cases hk : c.kaldi <;> simp [hk] at hK ⊢ <;> omega

/-- `compute_full`: the too-short test -/
theorem full_short_eq (c : Cfg) (N : Nat) :
    full_short c.L c.S c.centered c.kaldi N = decide (N < c.L / 2 + 1) := by
  unfold full_short
  rw [fdiv2]
  simp only [decide_eq_decide]; omega

/-- `compute_full`: frame count `(N + S//2)//S` -/
theorem full_num_frames_eq (c : Cfg) (N : Nat) :
    full_num_frames c.L c.S c.centered c.kaldi N = (((N + c.S / 2) / c.S : Nat) : Int) := by
  unfold full_num_frames
  rw [fdiv2]
  have : (N : Int) + ((c.S / 2 : Nat) : Int) = ((N + c.S / 2 : Nat) : Int) := by omega
  rw [this, fdivS]
  exact Int.max_eq_right (Int.natCast_nonneg _)

/-- `compute_full`: right padding, as the model computes it -/
theorem full_pad_right_eq (c : Cfg) (h : Sane c) (N : Nat) :
    full_pad_right c.L c.S c.centered c.kaldi N =
      (((((((N + c.S / 2) / c.S : Nat) : Int) - 1) * c.S - (padL c : Nat) + c.L) - N).toNat : Int) := by
  have e1 := full_num_frames_eq c N
  have e2 := full_pad_left_eq c h N
  unfold full_pad_right
  unfold full_num_frames at e1
  unfold full_pad_left at e2
  rw [e1, e2]
  generalize ((N + c.S / 2) / c.S : Nat) = q
  generalize hm : (((q : Int) - 1) * (c.S : Int)) = m
  omega

/-- `finalize`: left padding (none once the first frame has been emitted) -/
theorem fin_pad_left_eq (c : Cfg) (h : Sane c) (first : Bool) (bufLen : Int) :
    fin_pad_left c.L c.S c.centered c.kaldi first bufLen = ((if first then padL c else 0 : Nat) : Int) := by
  have e := full_pad_left_eq c h 0
  unfold full_pad_left at e
  unfold fin_pad_left
  cases first
  · simp
  · simpa using e

/-- `finalize`: frame count, as the model computes it (a negative Python count means "no frame", which is
what the model's `toNat` gives) -/
theorem fin_num_frames_eq (c : Cfg) (h : Sane c) (first : Bool) (bufLen : Nat) :
    max 0 (fin_num_frames c.L c.S c.centered c.kaldi first bufLen) =
      ((if first && decide (bufLen < c.L / 2 + 1) then 0
        else ((((bufLen : Int) + (c.S : Int) / 2 - (if first then (0 : Int) else (padL c : Nat))) / (c.S : Int)).toNat) : Nat) : Int) := by
  have e := full_pad_left_eq c h 0
  have hS := h.hS
  unfold full_pad_left at e
  unfold fin_num_frames
  rw [e]
  have h2 : Int.fdiv (c.S : Int) 2 = (c.S : Int) / 2 := Int.fdiv_eq_ediv_of_nonneg _ (by omega)
  have h3 : Int.fdiv (c.L : Int) 2 = ((c.L / 2 : Nat) : Int) := fdiv2 _
  rw [h2, h3]
  have hd : decide ((bufLen : Int) < ((c.L / 2 : Nat) : Int) + 1) = decide (bufLen < c.L / 2 + 1) := by
    simp only [decide_eq_decide]; omega
  rw [hd]
  cases first
  · simp only [Bool.false_and, Bool.not_false, if_true, Bool.false_eq_true, if_false]
    rw [Int.fdiv_eq_ediv_of_nonneg _ (by omega)]
    generalize ((bufLen : Int) + (c.S : Int) / 2 - (padL c : Nat)) / (c.S : Int) = q
    omega
  · simp only [Bool.true_and, Bool.not_true, Bool.false_eq_true, if_false]
    by_cases hb : bufLen < c.L / 2 + 1
    · simp [hb]
    · simp only [hb, decide_false, Bool.false_eq_true, if_false]
      rw [Int.fdiv_eq_ediv_of_nonneg _ (by omega)]
      simp only [if_true, Int.sub_zero]
      generalize hq : ((bufLen : Int) + (c.S : Int) / 2) / (c.S : Int) = q
      have : 0 ≤ q := by rw [← hq]; exact Int.ediv_nonneg (by omega) (by omega)
      omega

/-- `compute_chunk`: how many samples the (possibly reflected) first frame needs -/
theorem chunk_frame_length_eq (c : Cfg) (first : Bool) (bufLen chunkLen : Int) :
    chunk_frame_length c.L c.S c.centered c.kaldi first bufLen chunkLen =
      ((if c.centered && first then flen0 c else c.L : Nat) : Int) := by
  unfold chunk_frame_length flen0
  rw [fdiv2, fdiv2, fdiv2succ]
  cases c.centered <;> cases first <;> cases c.kaldi <;> simp

/-- `compute_chunk`: frame count, as the model computes it -/
theorem chunk_num_frames_eq (c : Cfg) (h : Sane c) (first : Bool) (bufLen chunkLen : Nat) :
    chunk_num_frames c.L c.S c.centered c.kaldi first bufLen chunkLen =
      (let total := chunkLen + bufLen
       let flen := if c.centered && first then flen0 c else c.L
       ((if (c.centered && first) && decide (total < c.L / 2 + 1) then 0
         else if total < flen then 0 else (total - flen) / c.S + 1 : Nat) : Int)) := by
  have e := chunk_frame_length_eq c first bufLen chunkLen
  have hS := h.hS
  unfold chunk_frame_length at e
  unfold chunk_num_frames
  rw [e]
  rw [fdiv2]
  simp only
  generalize (if (c.centered && first) = true then flen0 c else c.L) = flen
  have hd : decide ((chunkLen : Int) + (bufLen : Int) < ((c.L / 2 : Nat) : Int) + 1)
      = decide (chunkLen + bufLen < c.L / 2 + 1) := by
    simp only [decide_eq_decide]; omega
  rw [hd]
  by_cases hg : ((c.centered && first) && decide (chunkLen + bufLen < c.L / 2 + 1)) = true
  · simp [hg]
  · simp only [hg, Bool.false_eq_true, if_false]
    by_cases hlt : chunkLen + bufLen < flen
    · simp only [hlt, if_true]
      have : Int.fdiv ((chunkLen : Int) + (bufLen : Int) - (flen : Int)) (c.S : Int) < 0 := by
        rw [Int.fdiv_eq_ediv_of_nonneg _ (by omega)]
        exact Int.ediv_neg_of_neg_of_pos (by omega) (by omega)
      omega
    · simp only [hlt, if_false]
      have e2 : (chunkLen : Int) + (bufLen : Int) - (flen : Int) = ((chunkLen + bufLen - flen : Nat) : Int) := by omega
      rw [e2, fdivS]
      generalize ((chunkLen + bufLen - flen) / c.S : Nat) = q
      omega

/-- the reflected first frame is padded to a full frame: `np.pad(frame, (W, 0))` with `W + flen0 = L` -/
theorem chunk_first_pad_eq (c : Cfg) (h : Sane c) (hc : c.centered = true) :
    (if c.kaldi then chunk_first_pad_kaldi c.L c.S else chunk_first_pad_plain c.L c.S)
      = ((c.L - flen0 c : Nat) : Int) ∧ c.L - flen0 c = padL c := by
  have hL := h.hL; have hK := h.hK
  unfold chunk_first_pad_kaldi chunk_first_pad_plain flen0 padL
  rw [fdiv2, fdiv2, fdiv2succ]
  cases hk : c.kaldi <;> simp [hk, hc] at hK ⊢ <;> omega

/-- **the PyTorch port's framing arithmetic is literally NumPy's**: the expressions extracted from
`pytorch_stft_frame_computer` and from `compute_full` are the same terms -/
theorem torch_arith_eq_numpy :
    torch_short = full_short ∧ torch_pad_left = full_pad_left ∧ torch_num_frames = full_num_frames ∧
    torch_total_len = full_total_len ∧ torch_pad_right = full_pad_right :=
  ⟨rfl, rfl, rfl, rfl, rfl⟩

/-- the port's extra early return fires exactly when there is no frame -/
theorem torch_no_frame_eq (c : Cfg) (N : Nat) :
    torch_no_frame c.L c.S c.centered c.kaldi N = decide ((N + c.S / 2) / c.S = 0) := by
  have e := full_num_frames_eq c N
  unfold full_num_frames at e
  unfold torch_no_frame
  rw [e]
  generalize ((N + c.S / 2) / c.S : Nat) = q
  cases q <;> simp <;> omega

/-! non-vacuity -/
example : Sane { L := 400, S := 160, centered := true, kaldi := true } := ⟨by decide, by decide, by decide⟩
example : full_pad_right 400 160 true true 1000 = ((((((1000 + 160 / 2) / 160 : Nat) : Int) - 1) * 160
    - (padL { L := 400, S := 160, centered := true, kaldi := true } : Nat) + 400 - 1000).toNat : Int) := by decide

end PdsVerif.StftTie

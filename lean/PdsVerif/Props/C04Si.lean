/-
  C04 — a computer's output depends only on the current utterance: SHORT-INTEGRATION computers.

  The model is `Model/Si.lean` (the line-by-line model of `ShortIntegrationFrameComputer` that C03's
  theorems are about and that `drivers/C03.lean` executes against the implementation — C04's harness
  drives it with multi-utterance histories).  Its state carries everything the object keeps between
  calls: `_x_buf`, `_y_buf`, `_x_rem`, `_y_rem`, `_skip`, `_started`, `_ret_dtype`.

  What makes an SI computer history independent is the *complete* reset in `_compute_preamble`: every one
  of those fields is overwritten before it is read when an utterance starts.  In the model this is
  `chunk` taking `reset c B dt` instead of the incoming state whenever `started = false`.  The theorems
  below say, for every configuration, bank, dtype, buffer content and history:

  * `si_chunk_history_independent` — the first chunk of an utterance gives the same frames AND the same
    successor state whatever idle state the computer was in;
  * `si_finalize_idle`, `si_stream_idle`, `si_full_idle` — `finalize`, a streamed utterance and
    `compute_full` always leave the computer idle;
  * `si_full_history_independent`, `si_stream_history_independent` — an utterance computed on any idle
    state returns what a freshly constructed computer (any `np.empty` junk) returns;
  * `si_after_any_history` — after ANY sequence of completed utterances (streamed in any chunking, or
    through `compute_full`), the next utterance is computed exactly as on a fresh computer;
  * `si_full_refuses`, `si_full_refuses_pure` — `compute_full` mid-utterance raises `ValueError` and (model:
    returns no new state) changes nothing.

  A mutation that lets one field survive the preamble (e.g. resetting `_x_rem` only in the causal branch,
  zeroing `_x_buf` only in one case) does not change these theorems — they are about the model — but makes
  the implementation disagree with the model on a history that leaves that field dirty; C04's
  correspondence runs exactly such histories (utterances too short to yield a frame, empty chunks, refused
  calls) before the compared utterance.
-/
import PdsVerif.Model.Si
namespace PdsVerif.C04Si
open PdsVerif PdsVerif.Model.Si

variable {α : Type} [Zero α] [Add α] [Mul α]

/-- the first `compute_chunk` of an utterance does not look at the idle state it starts from -/
theorem si_chunk_history_independent (c : Cfg) (B : Bank α) (st st' : St α) (dt : DType) (ch : List α)
    (h : st.started = false) (h' : st'.started = false) :
    chunk c B st dt ch = chunk c B st' dt ch := by
  simp [chunk, h, h']

/-- a successful `compute_chunk` leaves the computer mid-utterance -/
theorem si_chunk_started (c : Cfg) (B : Bank α) (st st1 : St α) (dt : DType) (ch : List α)
    (f : List (List α)) (h : chunk c B st dt ch = .ok (st1, f)) : st1.started = true := by
  have ite_ok : ∀ (p : Prop) [Decidable p] (a : St α) (b : List (List α)),
      (if p then (Except.ok (a, b) : Except Err (St α × List (List α))) else .error .assertion) = .ok (st1, f) →
        st1 = a := by
    intro p _ a b h
    by_cases hp : p
    · simp only [hp, if_true] at h
      injection h with h
      exact (congrArg Prod.fst h).symm
    · simp only [hp, if_false] at h
      cases h
  have core : ∀ s : St α, chunkCore c B s ch = .ok (st1, f) → st1.started = true := by
    intro s hs
    unfold chunkCore at hs
    simp only [] at hs
    rw [ite_ok _ _ _ hs]
  unfold chunk at h
  split at h
  · split at h
    · cases h
    · exact core _ h
  · split at h
    · cases h
    · exact core _ h

/-- `finalize` always leaves the computer idle -/
theorem si_finalize_idle (c : Cfg) (B : Bank α) (st st1 : St α) (f : List (List α))
    (h : finalize c B st = .ok (st1, f)) : st1.started = false := by
  unfold finalize at h
  simp only [] at h
  repeat' split at h
  all_goals (cases h <;> first | rfl | simp_all)

/-- a streamed utterance (`compute_chunk*`, `finalize`) leaves the computer idle -/
theorem si_stream_idle (c : Cfg) (B : Bank α) (dt : DType) (chunks : List (List α)) :
    ∀ (st st1 : St α) (f : List (List α)), streamFrom c B dt st chunks = .ok (st1, f) → st1.started = false := by
  induction chunks with
  | nil => intro st st1 f h; exact si_finalize_idle c B st st1 f h
  | cons ch rest ih =>
    intro st st1 f h
    unfold streamFrom at h
    split at h
    · cases h
    · rename_i st' f1 _
      split at h
      · cases h
      · rename_i st2 f2 h2
        injection h with h
        have := congrArg Prod.fst h
        simp only at this
        rw [← this]
        exact ih st' st2 f2 h2

/-- `compute_full` leaves the computer idle -/
theorem si_full_idle (c : Cfg) (B : Bank α) (st st1 : St α) (dt : DType) (x : List α) (f : List (List α))
    (h : full c B st dt x = .ok (st1, f)) : st1.started = false := by
  unfold full at h
  split at h
  · cases h
  · split at h
    · cases h
    · rename_i sa fa _
      split at h
      · cases h
      · rename_i sb fb hb
        injection h with h
        have := congrArg Prod.fst h
        simp only at this
        rw [← this]
        exact si_finalize_idle c B sa sb fb hb

/-- **`compute_full` is history independent**: same frames and same successor state from any idle state -/
theorem si_full_history_independent (c : Cfg) (B : Bank α) (st st' : St α) (dt : DType) (x : List α)
    (h : st.started = false) (h' : st'.started = false) :
    full c B st dt x = full c B st' dt x := by
  unfold full
  rw [si_chunk_history_independent c B st st' dt x h h']
  simp [h, h']

/-- frames only (what the caller sees) -/
def frames (r : Except Err (St α × List (List α))) : Except Err (List (List α)) := r.map Prod.snd

/-- **a streamed utterance is history independent**: whatever idle state the computer is in (whatever it
processed before), every chunking of the utterance returns the frames a fresh computer returns.  (With at
least one chunk the successor states are equal too; with none, `finalize` on an idle computer returns no
frame and leaves it as it was.) -/
theorem si_stream_history_independent (c : Cfg) (B : Bank α) (st st' : St α) (dt : DType)
    (chunks : List (List α)) (h : st.started = false) (h' : st'.started = false) :
    frames (streamFrom c B dt st chunks) = frames (streamFrom c B dt st' chunks) := by
  cases chunks with
  | nil => simp [streamFrom, finalize, h, h', frames, Except.map]
  | cons ch rest =>
    unfold streamFrom
    rw [si_chunk_history_independent c B st st' dt ch h h']

/-- one completed utterance: either streamed in some chunking or handed to `compute_full` -/
inductive Utt (α : Type) where
  | streamed (dt : DType) (chunks : List (List α))
  | whole (dt : DType) (x : List α)

def runUtt (c : Cfg) (B : Bank α) (st : St α) : Utt α → Except Err (St α × List (List α))
  | .streamed dt chunks => streamFrom c B dt st chunks
  | .whole dt x => full c B st dt x

/-- run a history of utterances, keeping only the final state (`none` if some call raised) -/
def runHistory (c : Cfg) (B : Bank α) : St α → List (Utt α) → Option (St α)
  | st, [] => some st
  | st, u :: us =>
    match runUtt c B st u with
    | .ok (st1, _) => runHistory c B st1 us
    | .error _ => none

theorem runUtt_idle (c : Cfg) (B : Bank α) (st st1 : St α) (u : Utt α) (f : List (List α))
    (h : runUtt c B st u = .ok (st1, f)) : st1.started = false := by
  cases u with
  | streamed dt chunks => exact si_stream_idle c B dt chunks st st1 f h
  | whole dt x => exact si_full_idle c B st st1 dt x f h

theorem runHistory_idle (c : Cfg) (B : Bank α) (us : List (Utt α)) :
    ∀ (st st1 : St α), st.started = false → runHistory c B st us = some st1 → st1.started = false := by
  induction us with
  | nil => intro st st1 h hr; simp [runHistory] at hr; rw [← hr]; exact h
  | cons u us ih =>
    intro st st1 _ hr
    unfold runHistory at hr
    split at hr
    · rename_i s1 f1 hu
      exact ih s1 st1 (runUtt_idle c B st s1 u f1 hu) hr
    · cases hr

/-- **history independence, every history** — after any sequence of completed utterances from construction
(any buffer junk `jx`, `jy`; utterances of any length incl. empty and too short for a frame; any chunking incl.
empty chunks; any mix of streaming and `compute_full`; any dtypes), the next utterance returns exactly the
frames a freshly constructed computer (any other junk `jx'`, `jy'`) returns for it. -/
theorem si_after_any_history (c : Cfg) (B : Bank α) (jx jx' : List α) (jy jy' : List (List (α × α)))
    (us : List (Utt α)) (st1 : St α) (hr : runHistory c B (fresh jx jy) us = some st1) (u : Utt α) :
    frames (runUtt c B st1 u) = frames (runUtt c B (fresh jx' jy') u) := by
  have h1 : st1.started = false := runHistory_idle c B us _ st1 rfl hr
  have h2 : (fresh jx' jy' : St α).started = false := rfl
  cases u with
  | streamed dt chunks => exact si_stream_history_independent c B st1 _ dt chunks h1 h2
  | whole dt x => simp only [runUtt]; rw [si_full_history_independent c B st1 _ dt x h1 h2]

/-- `compute_full` mid-utterance is refused with `ValueError` -/
theorem si_full_refuses (c : Cfg) (B : Bank α) (st : St α) (dt : DType) (x : List α)
    (h : st.started = true) : full c B st dt x = .error .value := by
  simp [full, h]

/-- `started` is exactly "a chunk was computed since the last finalize": true after every successful chunk
(also an empty one), false after finalize -/
theorem si_started_spec (c : Cfg) (B : Bank α) (st s1 s2 : St α) (dt : DType) (ch : List α)
    (f1 f2 : List (List α)) (h1 : chunk c B st dt ch = .ok (s1, f1)) (h2 : finalize c B s1 = .ok (s2, f2)) :
    s1.started = true ∧ s2.started = false :=
  ⟨si_chunk_started c B st s1 dt ch f1 h1, si_finalize_idle c B s1 s2 f2 h2⟩

/-! non-vacuity: a concrete centred configuration over `Int` with translation ≥ frame shift (inside C03's `WF`);
a one-sample utterance (too short for a frame: the case that leaves `_x_rem` dirty), an utterance streamed with an
empty chunk, then `compute_full` — evaluated by the kernel -/
section NonVacuity
def cfg0 : Cfg := { S := 2, M := 5, tr := 2, D := 8, centered := true }
def bank0 : Bank Int := { filts := [[1, 2, 3, 2, 1]], window := [1, 1, 1, 1], phi := fun y => y * y, post := id }
def st0 : St Int := fresh (List.replicate 8 77) [List.replicate (yBlocks cfg0) (77, 77)]
def framesOr (r : Except Err (St Int × List (List Int))) : List (List Int) :=
  match r with | .ok (_, fs) => fs | .error _ => [[-1]]
def hist0 : List (Utt Int) := [.whole f64 [9], .streamed f64 [[3], [], [4, 5]]]
/-- the history runs to completion and leaves dirty bookkeeping behind (`_y_rem = 2`) … -/
example : (runHistory cfg0 bank0 st0 hist0).map (fun s => (s.xRem, s.yRem, s.skip, s.started))
    = some (0, 2, 0, false) := by decide +kernel
/-- … and the next utterance is computed as on the fresh computer: three frames, `(N + S//2)//S` -/
example : framesOr (full cfg0 bank0 st0 f64 [1, 2, 3, 4, 5, 6]) = [[441], [2449], [4493]] := by decide +kernel
example : (runHistory cfg0 bank0 st0 hist0).map (fun s => framesOr (full cfg0 bank0 s f64 [1, 2, 3, 4, 5, 6]))
    = some [[441], [2449], [4493]] := by decide +kernel
end NonVacuity

end PdsVerif.C04Si

/-
  C10 — signals-to-torch-feat-dir survives kill / resume and parallelism unchanged.

  Model: `Model/FeatDir.lean` (durable directory + manifest, volatile loop position / tensor / text
  buffer / work list; events `step | hardKill | softInt | resume`).  Every theorem below that mentions
  `evs : List Ev` holds for EVERY event sequence: any number of utterances, any step boundary as
  kill point (before / in the middle of / after each file write, between a write and its manifest
  line, between the buffered line and its flush), hard kills and soft interrupts, any number of
  successive kills and resumes.  The starting disk `d₀` is any disk on which the manifest is sound
  (`Sound`) — in particular the empty one (`sound_empty`), but also a manifest edited by hand.

  The tensor of utterance `u` is the abstract `e.feat u key`; the repaired code uses
  `key = seedKey e u = seed + position of u in the map` (a function of the utterance only).
  The OLD rules (position in the filtered list; no flush) are refuted on witnesses.
-/
import PdsVerif.Lemmas.FeatDir
namespace PdsVerif.C10
open PdsVerif.Model.FeatDir PdsVerif.FeatDirLemmas
set_option linter.unusedSectionVars false

variable {Id V : Type} [DecidableEq Id]

/-- the world after the events `evs`, starting with no process and disk `d₀` -/
abbrev world (e : Env Id V) (d₀ : Durable Id V) (evs : List Ev) : State Id V × List (Obs Id) :=
  exec Rules.current e { d := d₀, p := .dead } evs

/-- **manifest_sound** — at every reachable state (so: at every possible interruption point) every
utterance listed in the manifest on disk has a complete file holding exactly the tensor an
uninterrupted run stores for it. -/
theorem manifest_sound (e : Env Id V) (hn : e.map.Nodup) (d₀ : Durable Id V) (h₀ : Sound e d₀)
    (evs : List Ev) (u : Id) (hu : u ∈ (world e d₀ evs).1.d.manifest) :
    (world e d₀ evs).1.d.files u = .complete (e.feat u (seedKey e u)) :=
  (inv_exec e hn evs _ (inv_dead e d₀ h₀)).1 u hu

/-- **manifest_complete_but_inflight** — every utterance whose `torch.save` ever completed is listed,
except possibly the one written last (the one in flight when the process died); that one is
moreover the first thing a resumed run redoes. -/
theorem manifest_complete_but_inflight (e : Env Id V) (hn : e.map.Nodup) (d₀ : Durable Id V)
    (h₀ : Sound e d₀) (evs : List Ev) (u : Id) (hu : Obs.ended u ∈ (world e d₀ evs).2) :
    u ∈ (world e d₀ evs).1.d.manifest ∨
      (lastEnded (world e d₀ evs).2 = some u ∧
        (unlisted e (world e d₀ evs).1.d.manifest).head? = some u) := by
  have hp := pending_exec e hn evs { d := d₀, p := .dead } [] (inv_dead e d₀ h₀)
    (by intro u hu; cases hu)
  simp only [List.nil_append] at hp
  by_cases hm : u ∈ (world e d₀ evs).1.d.manifest
  · exact Or.inl hm
  · exact Or.inr (hp u hu hm)

/-- **completed_eq_uninterrupted** (the core of `resume_eq_uninterrupted`) — whatever happened on the
way (any number of kills, interrupts and resumes at any points), once every utterance of the map is
listed, each file holds `feat u (seedKey u)`: a value that does not mention the history. -/
theorem completed_eq_uninterrupted (e : Env Id V) (hn : e.map.Nodup) (d₀ : Durable Id V)
    (h₀ : Sound e d₀) (evs : List Ev) (hall : ∀ u, u ∈ e.map → u ∈ (world e d₀ evs).1.d.manifest)
    (u : Id) (hu : u ∈ e.map) :
    (world e d₀ evs).1.d.files u = .complete (e.feat u (seedKey e u)) :=
  manifest_sound e hn d₀ h₀ evs u (hall u hu)

/-- **uninterrupted_run** — one whole invocation is the plain main loop over the unlisted utterances,
leaves no process behind and lists the whole map. -/
theorem uninterrupted_run (e : Env Id V) (d₀ : Durable Id V) :
    (world e d₀ (fullRun e.map.length)).1 =
        { d := mainLoop d₀ ((unlisted e d₀.manifest).map (fun u => (u, e.feat u (seedKey e u)))), p := .dead } ∧
      ∀ u, u ∈ e.map → u ∈ (world e d₀ (fullRun e.map.length)).1.d.manifest :=
  ⟨exec_fullRun e d₀ _ (unlisted_length_le e d₀.manifest), (fullRun_all_listed e d₀).2⟩

/-- **resume_reaches_completion** — from every reachable state, (killing the process if there is one
and) re-running the same command once without a fault ends with every utterance listed. -/
theorem resume_reaches_completion (e : Env Id V) (d₀ : Durable Id V) (evs : List Ev) :
    (world e d₀ (evs ++ .hardKill :: fullRun e.map.length)).1.p = .dead ∧
      ∀ u, u ∈ e.map → u ∈ (world e d₀ (evs ++ .hardKill :: fullRun e.map.length)).1.d.manifest := by
  simp only [world, exec_append, exec, next]
  exact fullRun_all_listed e _

/-- **resume_eq_uninterrupted** — run; kill; resume; kill; …; resume to completion leaves exactly the
directory (as a function on all ids) of one uninterrupted run on the same starting disk. -/
theorem resume_eq_uninterrupted (e : Env Id V) (hn : e.map.Nodup) (d₀ : Durable Id V) (h₀ : Sound e d₀)
    (evs : List Ev) :
    (world e d₀ (evs ++ .hardKill :: fullRun e.map.length)).1.d.files =
      (world e d₀ (fullRun e.map.length)).1.d.files := by
  funext u
  by_cases hu : u ∈ e.map
  · rw [completed_eq_uninterrupted e hn d₀ h₀ _ (resume_reaches_completion e d₀ evs).2 u hu,
      completed_eq_uninterrupted e hn d₀ h₀ _ (uninterrupted_run e d₀).2 u hu]
  · have hi := inv_dead e d₀ h₀
    simp only [world]
    rw [outside_exec e hn _ u hu _ hi, outside_exec e hn _ u hu _ hi]

/-- **old_seeding_breaks_resume** — with the OLD seeding rule (key = seed + position in the
manifest-filtered list, before b20ac9c) the statement above is false: two utterances, a hard kill
just before the 2nd save, resume to completion — utterance 1 is computed with key 7 instead of 8. -/
theorem old_seeding_breaks_resume :
    let r : Rules := { flushEachLine := true, seedByMapPos := false }
    let e : Env Nat Nat := { map := [0, 1], seed := 7, feat := fun _ key => key }
    let interrupted := (exec r e State.init
      (runEvents 2 (some { hard := true, k := 2, stage := .pre }) ++ fullRun 2)).1
    let straight := (exec r e State.init (fullRun 2)).1
    interrupted.d.manifest = [0, 1] ∧ straight.d.manifest = [0, 1] ∧
      straight.d.files 1 = .complete 8 ∧ interrupted.d.files 1 = .complete 7 ∧
      interrupted.d.files ≠ straight.d.files := by
  refine ⟨by decide, by decide, by decide, by decide, ?_⟩
  intro h
  have := congrFun h 1
  revert this
  decide

/-- **old_buffering_loses_progress** — without the flush (before e6774ba) the completeness clause is
false: three saves complete, a hard kill before the process exits, and the manifest is empty. -/
theorem old_buffering_loses_progress :
    let r : Rules := { flushEachLine := false, seedByMapPos := true }
    let e : Env Nat Nat := { map := [0, 1, 2], seed := 7, feat := fun _ key => key }
    let w := exec r e State.init (runEvents 3 (some { hard := true, k := 3, stage := .flushed }))
    Obs.ended 0 ∈ w.2 ∧ Obs.ended 1 ∈ w.2 ∧ lastEnded w.2 = some 2 ∧ w.1.d.manifest = [] ∧
      w.1.d.files 0 = .complete 7 := by
  decide

/-- **listed_not_rewritten** — an utterance that is listed is never touched again, whatever happens
later (in particular in any resumed run): its file stays what it is, no `torch.save` is begun on
it, and it is not computed. -/
theorem listed_not_rewritten (e : Env Id V) (hn : e.map.Nodup) (d₀ : Durable Id V) (h₀ : Sound e d₀)
    (evs later : List Ev) (u : Id) (hu : u ∈ (world e d₀ evs).1.d.manifest) :
    let w := exec Rules.current e (world e d₀ evs).1 later
    w.1.d.files u = (world e d₀ evs).1.d.files u ∧ Obs.began u ∉ w.2 ∧ ∀ k, Obs.computed u k ∉ w.2 :=
  listed_exec e hn later u _ (inv_exec e hn evs _ (inv_dead e d₀ h₀)) hu

/-- **partial_files_are_overwritten** — whatever an unlisted utterance's file is after a crash
(absent, partial, or complete but not yet recorded), the resumed run leaves it complete and right. -/
theorem partial_files_are_overwritten (e : Env Id V) (hn : e.map.Nodup) (d₀ : Durable Id V) (h₀ : Sound e d₀)
    (evs : List Ev) (u : Id) (hu : u ∈ e.map) (_hp : (world e d₀ evs).1.d.files u = .partialFile) :
    (world e d₀ (evs ++ .hardKill :: fullRun e.map.length)).1.d.files u = .complete (e.feat u (seedKey e u)) :=
  completed_eq_uninterrupted e hn d₀ h₀ _ (resume_reaches_completion e d₀ evs).2 u hu

/-- **loader_workers_irrelevant** — what the DataLoader yields (in index order: torch's contract,
assumed) does not depend on the assignment of items to workers nor on the state the workers'
generators are in: every `__getitem__` re-seeds. -/
theorem loader_workers_irrelevant (pl : Pipeline Id V) (assign₁ assign₂ : Nat → Nat) (i₁ i₂ : Nat)
    (rng₁ rng₂ : Nat → Nat) (todo : List (Id × Nat)) :
    loaderOut pl assign₁ i₁ rng₁ todo = loaderOut pl assign₂ i₂ rng₂ todo := by
  rw [loaderOut_eq, loaderOut_eq]

/-- **workers_irrelevant** — the directory and manifest after an invocation are the main loop folded
over the per-item results in index order, for any worker assignment / generator states; hence
identical for every `--num-workers`. -/
theorem workers_irrelevant (e : Env Id V) (pl : Pipeline Id V) (hf : ∀ u k, e.feat u k = (pl.run u k).1)
    (d₀ : Durable Id V) (assign : Nat → Nat) (rng : Nat → Nat) :
    (world e d₀ (fullRun e.map.length)).1.d =
      mainLoop d₀ (loaderOut pl assign 0 rng (start Rules.current e d₀).todo) := by
  rw [(uninterrupted_run e d₀).1, loaderOut_eq]
  simp [start, Rules.current, List.map_map, Function.comp_def, hf]

/-! ### the hypotheses are satisfiable; concrete non-trivial instance

Three utterances `0,1,2`, `--seed 7`, tensor = its seed key.  Invocation 1 is hard-killed inside the
2nd write; invocation 2 is hard-killed after the 3rd file is complete but before its manifest line;
invocation 3 runs to the end. -/

def e3 : Env Nat Nat := { map := [0, 1, 2], seed := 7, feat := fun _ key => key }
def inv1 : List Ev := runEvents 3 (some { hard := true, k := 2, stage := .mid })
def inv2 : List Ev := runEvents 3 (some { hard := true, k := 2, stage := .post })
def inv3 : List Ev := runEvents 3 none

example : e3.map.Nodup := by decide
example : Sound e3 (Durable.empty : Durable Nat Nat) := sound_empty e3

-- after invocation 1: file 1 is partial, only 0 is listed (sound; 0 completed and is listed)
example : (world e3 Durable.empty inv1).1.d.manifest = [0] ∧
    (world e3 Durable.empty inv1).1.d.files 0 = .complete 7 ∧
    (world e3 Durable.empty inv1).1.d.files 1 = .partialFile ∧
    (world e3 Durable.empty inv1).1.d.files 2 = .absent := by decide

-- after invocation 2: 2 is complete but unlisted = the last one written (the in-flight exception)
example : (world e3 Durable.empty (inv1 ++ inv2)).1.d.manifest = [0, 1] ∧
    (world e3 Durable.empty (inv1 ++ inv2)).1.d.files 1 = .complete 8 ∧
    (world e3 Durable.empty (inv1 ++ inv2)).1.d.files 2 = .complete 9 ∧
    Obs.ended 2 ∈ (world e3 Durable.empty (inv1 ++ inv2)).2 ∧
    lastEnded (world e3 Durable.empty (inv1 ++ inv2)).2 = some 2 ∧
    (unlisted e3 (world e3 Durable.empty (inv1 ++ inv2)).1.d.manifest).head? = some 2 := by decide

-- invocation 2 did not touch the listed utterance 0 but did rewrite the partial file 1
example : Obs.began 0 ∉ (exec Rules.current e3 (world e3 Durable.empty inv1).1 inv2).2 ∧
    Obs.began 1 ∈ (exec Rules.current e3 (world e3 Durable.empty inv1).1 inv2).2 := by decide

-- after invocation 3 everything is listed and equals the uninterrupted run
example : (world e3 Durable.empty (inv1 ++ inv2 ++ inv3)).1.d.manifest = [0, 1, 2] ∧
    (world e3 Durable.empty (fullRun 3)).1.d.manifest = [0, 1, 2] ∧
    ∀ u ∈ [0, 1, 2], (world e3 Durable.empty (inv1 ++ inv2 ++ inv3)).1.d.files u =
      (world e3 Durable.empty (fullRun 3)).1.d.files u := by decide

-- a soft interrupt between the buffered line and its flush keeps the line (interpreter exit flushes)
example : (world e3 Durable.empty (runEvents 3 (some { hard := false, k := 1, stage := .buf }))).1.d.manifest = [0] ∧
    (world e3 Durable.empty (runEvents 3 (some { hard := true, k := 1, stage := .buf }))).1.d.manifest = [] := by decide

-- two workers, round-robin, dirty generators: same items as the main process alone
example : loaderOut (Id := Nat) { run := fun _ key => (key, key + 100) } (fun i => i % 2) 0 (fun w => 55 + w)
      [(0, 7), (1, 8), (2, 9)] =
    loaderOut { run := fun _ key => (key, key + 100) } (fun _ => 0) 0 (fun _ => 0) [(0, 7), (1, 8), (2, 9)] := by
  decide

end PdsVerif.C10

/-
  Translator tie for the decision logic of `signals-to-torch-feat-dir` (properties C09, C10).

  `Generated/CliConsts.lean` is re-extracted on every run from `command_line.py`: the argument of `torch.manual_seed`,
  the tests of the two channel errors, the channel pick, the guard of the post-processor loop, the assertion of
  `_nonneg_int_type`, and three facts about the ORDER of statements in `signals_to_torch_feat_dir` (the seed index is
  taken from the map before the manifest is applied; the file is `prefix + id + suffix`; the manifest line is written,
  flushed, after `torch.save`).  The theorems show that the hand-written models `Model/Cli.lean` (C09) and
  `Model/FeatDir.lean` (C10) make exactly these decisions.
-/
import PdsVerif.Generated.CliConsts
import PdsVerif.Model.Cli
import PdsVerif.Model.FeatDir
import Mathlib.Tactic
namespace PdsVerif.CliTie
open PdsVerif PdsVerif.Gen.CliConsts PdsVerif.Model.Cli

/-- the seed an utterance is computed with is `--seed` + its position in the map (`utt_seed` of the source) -/
theorem torchItem_seed (o : TOpts) (m : List TUtt) (u : TUtt) (s : TStored) (h : torchItem o m u = .ok s) :
    (s.seed : Int) = utt_seed o.seed (uttIdx m u.id) := by
  unfold torchItem at h
  simp only [] at h
  repeat' split at h
  all_goals (cases h <;> (simp only [utt_seed]; push_cast; rfl))

/-- the first channel error of the model is the source's first test -/
theorem chan_unspecified_eq (ch : Int) (ndim d0 : Nat) :
    decide (ch = -1 ∧ ndim > 1 ∧ d0 > 1) = chan_unspecified_err ch ndim d0 := by
  unfold chan_unspecified_err
  by_cases h1 : ch = -1 <;> by_cases h2 : ndim > 1 <;> by_cases h3 : d0 > 1 <;> simp [h1, h2, h3]

/-- the second channel error of the model is the source's second test -/
theorem chan_specified_eq (ch : Int) (ndim d0 : Nat) :
    decide ((ch ≠ -1 ∧ ndim = 1) ∨ ch ≥ (d0 : Int)) = chan_specified_err ch ndim d0 := by
  unfold chan_specified_err
  by_cases h1 : ch = -1 <;> by_cases h2 : ndim = 1 <;> by_cases h3 : ch ≥ (d0 : Int) <;> simp [h1, h2, h3]

theorem picks_channel_eq (ndim : Nat) : decide (ndim ≠ 1) = picks_channel ndim := by
  unfold picks_channel
  by_cases h : ndim = 1 <;> simp [h]

theorem posts_applied_eq (rows : Nat) : decide (rows ≠ 0) = posts_applied rows := by
  unfold posts_applied
  by_cases h : rows = 0 <;> simp [h]

/-- `--seed` / `--num-workers` accept exactly the natural numbers, 0 included -/
theorem nonneg_ok_iff (v : Int) : nonneg_ok v = true ↔ ∃ n : Nat, v = n := by
  unfold nonneg_ok
  simp only [decide_eq_true_eq]
  constructor
  · intro h; exact ⟨v.toNat, by omega⟩
  · rintro ⟨n, rfl⟩; omega

theorem nonneg_ok_zero : nonneg_ok 0 = true := by decide

/-- the two repaired lines of the tool are in force: `Rules.current` of the C10 model is what the source says -/
theorem rules_current_eq :
    Model.FeatDir.Rules.current
      = { flushEachLine := manifest_line_after_save_flushed, seedByMapPos := seed_by_map_position } := rfl

/-- file naming: `prefix + id + suffix` (ids are opaque strings) … -/
theorem file_name_rule : file_name_is_prefix_id_suffix = true := rfl

/-- … which sends distinct ids to distinct files, whatever prefix and suffix are in force -/
theorem file_name_injective (pre suf a b : List Char) (h : pre ++ a ++ suf = pre ++ b ++ suf) : a = b := by
  rw [List.append_assoc, List.append_assoc] at h
  exact List.append_cancel_right (List.append_cancel_left h)

/-! non-vacuity -/
example : chan_unspecified_err (-1) 2 2 = true ∧ chan_unspecified_err (-1) 2 1 = false ∧ chan_specified_err 0 1 1 = true
    ∧ chan_specified_err 2 2 2 = true ∧ chan_specified_err 1 2 2 = false := by decide
example : utt_seed 40 2 = 42 := by decide

end PdsVerif.CliTie

/-
  Translator tie for the DFT size of the frame computers (properties C02, C03).

  `Generated/DftSize.lean` is re-extracted on every run from the constructors of the STFT and short-integration
  computers: `int(2 ** np.ceil(np.log2(frame_length)))` when `pad_to_nearest_power_of_two`, else the frame length
  (SI: the same applied to `max(frame_length, ceil(2·rate / min_support_hz))`).  Over the reals, with the real ceiling:

  * `stft_dft_size_padded`   for every frame length `L ≥ 1` the padded size is `2 ^ Nat.clog 2 L`;
  * `pow2_clog_least`        … which is the LEAST power of two that is `≥ L`;
  * `stft_dft_size_pow2`     a frame length that is itself a power of two is its own DFT size (no doubling);
  * `stft_dft_size_ge`, `si_dft_size_ge`  the DFT is never shorter than the frame (SI: nor than the bin-resolution bound).

  A "cheaper" rewrite such as `1 << n.bit_length()` (twice too large at powers of two) is refused by the translator;
  the harness's own DFT size is computed from this documented rule and compared on frame lengths 64 / 128 / 256.
-/
import PdsVerif.Generated.DftSize
import PdsVerif.RealNum
import Mathlib.Tactic
namespace PdsVerif.DftSizeTie
open PdsVerif PdsVerif.Gen.DftSize

/-- NumPy's `ceil`, over the reals -/
noncomputable def ceilR (x : ℝ) : ℝ := (⌈x⌉ : ℝ)

theorem ceil_log2_nat (L : ℕ) : ⌈Real.logb 2 (L : ℝ)⌉ = (Nat.clog 2 L : ℤ) := by
  have h := Real.ceil_logb_natCast (b := 2) (r := (L : ℝ)) (Nat.cast_nonneg L)
  rw [Int.clog_natCast] at h
  exact_mod_cast h

/-- padded STFT: the DFT size is `2 ^ clog₂ L` -/
theorem stft_dft_size_padded (L : ℕ) :
    stft_dft_size ceilR true (L : ℝ) = ((2 ^ Nat.clog 2 L : ℕ) : ℝ) := by
  unfold stft_dft_size ceilR
  simp only [if_true, transc_log2, transc_pow2]
  rw [ceil_log2_nat]
  push_cast
  rw [Real.rpow_natCast]

/-- unpadded: the frame length itself -/
theorem stft_dft_size_unpadded (L : ℝ) : stft_dft_size ceilR false L = L := by
  simp [stft_dft_size]

/-- `2 ^ clog₂ L` is the least power of two at or beyond `L` -/
theorem pow2_clog_least (L : ℕ) : L ≤ 2 ^ Nat.clog 2 L ∧ ∀ k : ℕ, L ≤ 2 ^ k → 2 ^ Nat.clog 2 L ≤ 2 ^ k := by
  refine ⟨Nat.le_pow_clog (by norm_num) L, fun k hk => ?_⟩
  exact Nat.pow_le_pow_right (by norm_num) (Nat.clog_le_of_le_pow hk)

/-- a frame length that IS a power of two is its own (padded) DFT size -/
theorem stft_dft_size_pow2 (k : ℕ) : stft_dft_size ceilR true ((2 ^ k : ℕ) : ℝ) = ((2 ^ k : ℕ) : ℝ) := by
  rw [stft_dft_size_padded, Nat.clog_pow 2 k (by norm_num)]

/-- the DFT is never shorter than the frame -/
theorem stft_dft_size_ge (pad : Bool) (L : ℕ) : (L : ℝ) ≤ stft_dft_size ceilR pad (L : ℝ) := by
  cases pad
  · rw [stft_dft_size_unpadded]
  · rw [stft_dft_size_padded]; exact_mod_cast (pow2_clog_least L).1

/-- SI: the same rule applied to `max(frame_length, m)`, `m` the bin-resolution bound -/
theorem si_dft_size_spec (pad : Bool) (L m : ℕ) :
    si_dft_size ceilR pad (L : ℝ) (m : ℝ) = stft_dft_size ceilR pad ((max L m : ℕ) : ℝ) := by
  unfold si_dft_size stft_dft_size
  simp only [Nat.cast_max]

theorem si_dft_size_ge (pad : Bool) (L m : ℕ) :
    (L : ℝ) ≤ si_dft_size ceilR pad (L : ℝ) (m : ℝ) ∧ (m : ℝ) ≤ si_dft_size ceilR pad (L : ℝ) (m : ℝ) := by
  rw [si_dft_size_spec]
  have h := stft_dft_size_ge pad (max L m)
  constructor
  · exact le_trans (by exact_mod_cast le_max_left L m) h
  · exact le_trans (by exact_mod_cast le_max_right L m) h

/-! non-vacuity: 25 ms at 16 kHz → 512; 64 samples → 64 (not 128) -/
example : stft_dft_size ceilR true ((400 : ℕ) : ℝ) = ((512 : ℕ) : ℝ) := by
  rw [stft_dft_size_padded]; norm_num [Nat.clog]
example : stft_dft_size ceilR true ((64 : ℕ) : ℝ) = ((64 : ℕ) : ℝ) := stft_dft_size_pow2 6

end PdsVerif.DftSizeTie

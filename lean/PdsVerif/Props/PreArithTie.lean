/-
  Translator tie for the per-sample arithmetic of the pre-processors (property C18).

  `Generated/PreArith.lean` is re-extracted on every run from `Preemphasize.apply` / `Dither.apply` (pre.py) and from
  `pytorch_preemphasize` / `pytorch_dither` (torch.py): the scalar function each whole-array statement applies to one
  sample, and the boolean deciding whether the caller's array is copied first.  The theorems here show that the
  hand-written list model `Model/Pre.lean` — the one all C18 theorems are about — applies exactly these functions at
  exactly the positions the source's slices name:

  * `preemphNp_eq_gen`    `signal[..., 1:] -= coeff * signal[..., :-1]`: sample 0 kept, sample i+1 ↦ `np_pre_upd c x[i+1] x[i]`
                           with BOTH operands read from the signal before the statement;
  * `copy_flag_eq_gen`    the model's "working copy" decision is the source's condition;
  * `dither_eq_gen`       `signal += normal(0, coeff, shape)`: sample i ↦ `np_dither_upd c x[i] z[i]`;
  * `preemphTorch_eq_gen`, `ditherTorch_eq_gen`  the PyTorch functional forms;
  * `np_pre_upd_spec`, `np_dither_upd_spec`, …   the generated terms are the documented formulas
    (`new[i] = old[i] - coeff * old[i-1]`, `x + coeff * z`).

  A change to one of these statements in the source (`-=` → `+=`, the coefficient applied to the wrong operand, a
  different slice, a non-zero mean of the noise, a changed copy condition) changes the generated term and breaks one of
  these theorems in the kernel before any test input is tried.
-/
import PdsVerif.Generated.PreArith
import PdsVerif.Model.Pre
import Mathlib.Algebra.Ring.Defs
set_option linter.unusedSectionVars false
namespace PdsVerif.PreArithTie
open PdsVerif.Model.Pre PdsVerif.Gen.PreArith

section General
variable {α : Type} [Add α] [Sub α] [Mul α] [OfNat α 0]

/-- NumPy pre-emphasis: position 0 is kept; position `i+1` becomes `np_pre_upd c x[i+1] x[i]` (old values) -/
theorem preemphNp_eq_gen (c : α) (x : List α) :
    preemphNp c x = x.take 1 ++ List.zipWith (np_pre_upd c) (x.drop 1) x.dropLast := by
  unfold preemphNp np_pre_upd
  simp only [List.zipWith_map_right]

/-- the model's working-copy decision is the source's `not in_place or dtype != float64` -/
theorem copy_flag_eq_gen (inPlace : Bool) (dt : DType) :
    (!inPlace || dt != DType.float64) = np_pre_copies inPlace (dt == DType.float64) := by
  cases inPlace <;> cases dt <;> rfl

theorem dither_copy_flag_eq_gen (inPlace : Bool) (dt : DType) :
    (!inPlace || dt != DType.float64) = np_dither_copies inPlace (dt == DType.float64) := by
  cases inPlace <;> cases dt <;> rfl

/-- NumPy dither: sample `i` becomes `np_dither_upd c x[i] z[i]` -/
theorem dither_eq_gen (c : α) (z x : List α) :
    dither c z x = List.zipWith (np_dither_upd c) x z := by
  unfold dither np_dither_upd
  simp only [List.zipWith_map_right]

/-- PyTorch pre-emphasis: `cat([0], sig)` then `sig[1:] - coeff * sig[:-1]` -/
theorem preemphTorch_eq_gen (c : α) (x : List α) :
    preemphTorch c x = List.zipWith (torch_pre_out c) (([(0 : α)] ++ x).drop 1) (([(0 : α)] ++ x).dropLast) := by
  unfold preemphTorch torch_pre_out
  simp only [List.zipWith_map_right]

/-- PyTorch dither -/
theorem ditherTorch_eq_gen (c : α) (z x : List α) :
    ditherTorch c z x = List.zipWith (torch_dither_out c) x z := by
  unfold ditherTorch torch_dither_out
  simp only [List.zipWith_map_right]

/-- the generated update IS the documented recurrence step `new[i] = old[i] - coeff * old[i-1]` -/
theorem np_pre_upd_spec (c dst src : α) : np_pre_upd c dst src = dst - c * src := rfl
theorem torch_pre_out_spec (c cur prev : α) : torch_pre_out c cur prev = cur - c * prev := rfl
/-- a copy is made unless the caller asked for in-place operation on a float64 array -/
theorem np_pre_copies_spec (inPlace isF64 : Bool) : np_pre_copies inPlace isF64 = !(inPlace && isF64) := by
  cases inPlace <;> cases isF64 <;> rfl
theorem np_dither_copies_spec (inPlace isF64 : Bool) : np_dither_copies inPlace isF64 = !(inPlace && isF64) := by
  cases inPlace <;> cases isF64 <;> rfl
end General

section Ring
variable {R : Type} [Ring R]

/-- over a ring the NumPy dither step is the documented `x + coeff * z` (the noise has mean 0) and equals the PyTorch one -/
theorem np_dither_upd_spec (c x z : R) : np_dither_upd c x z = x + c * z := by
  unfold np_dither_upd; rw [zero_add]
theorem torch_dither_out_spec (c x z : R) : torch_dither_out c x z = x + c * z := rfl
theorem np_dither_eq_torch (c x z : R) : np_dither_upd c x z = torch_dither_out c x z := by
  rw [np_dither_upd_spec, torch_dither_out_spec]
theorem np_pre_eq_torch (c a b : R) : np_pre_upd c a b = torch_pre_out c a b := rfl
end Ring

/-! non-vacuity -/
example : preemphNp (2 : Int) [5, 7, 11] = [5, 7 - 2 * 5, 11 - 2 * 7] := by decide
example : np_pre_copies true true = false ∧ np_pre_copies true false = true ∧ np_pre_copies false true = true := by decide

end PdsVerif.PreArithTie

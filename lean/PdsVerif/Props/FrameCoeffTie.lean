/-
  Translator tie for the real-valued tail of the STFT coefficient computation (properties C02, C14).

  `Generated/FrameCoeff.lean` is re-extracted on every run from `_power`, `_mag`, the energy block and the
  statements after the `while` loop of `STFTFrameComputer._compute_frame` (compute.py) and from the
  corresponding statements of `pytorch_stft_frame_computer` (torch.py).  The theorems here, over the reals,
  show that what the source says is the property's formula:

  * the per-segment non-linearity is additive over the entries of the segments, so summing it over the
    segments the walk cuts the response into is the sum over the individual (bin, tap) hits
    (`np_loop_eq`) — the bridge from the code's per-segment `val += nonlin(segment)` to the per-hit sums of
    `C02.walk_sum_eq_full_spectrum` / `C02.coefficient_eq_full_dft_sum`;
  * after the loop: doubling for real banks, then `log(max(·, LOG_FLOOR_VALUE))` when `use_log`
    (`np_finish_spec`, `coeff_eq_spec`);
  * the energy coefficient is the mean square of the frame, its square root when not `use_power`, log-floored
    (`np_energy_spec`);
  * the PyTorch port computes the same energy (`torch_energy_eq_np`) and the same coefficient
    (`torch_coeff_eq_np`: doubling each segment = doubling the sum; clamp/log after stacking = per coefficient).

  A change to any of these statements in the source (order of doubling and flooring, a different power, a
  different floor, a per-segment instead of per-entry square, …) changes the generated term and breaks one of
  these theorems in the kernel, before any test input is tried.
-/
import PdsVerif.Generated.FrameCoeff
import PdsVerif.RealNum
import Mathlib.Tactic
namespace PdsVerif.FrameCoeffTie
open PdsVerif PdsVerif.Gen.FrameCoeff

/-- the property's "log-floored at LOG_FLOOR_VALUE when use_log" -/
noncomputable def logFloor (useLog : Bool) (floor v : ℝ) : ℝ := if useLog then Real.log (max v floor) else v

/-- the property's per-entry summand `|z|^p`, as a function of the magnitude `m = |z|` -/
def entry (usePower : Bool) (m : ℝ) : ℝ := if usePower then m ^ 2 else m

theorem zero_lit : (0.0 : ℝ) = 0 := by norm_num
theorem two_lit : (2.0 : ℝ) = 2 := by norm_num
theorem half_lit : (0.5 : ℝ) = 1 / 2 := by norm_num

theorem foldl_add_eq (f : ℝ → ℝ) (xs : List ℝ) (a : ℝ) :
    xs.foldl (fun s x => s + f x) a = a + (xs.map f).sum := by
  induction xs generalizing a with
  | nil => simp
  | cons x xs ih => simp only [List.foldl_cons, List.map_cons, List.sum_cons, ih]; ring

theorem lsum_eq (xs : List ℝ) : lsum xs = xs.sum := by
  have := foldl_add_eq id xs 0
  simpa [lsum, zero_lit] using this

theorem sumsq_eq (xs : List ℝ) : sumsq xs = (xs.map fun x => x ^ 2).sum := by
  have := foldl_add_eq (fun x => x * x) xs 0
  simp only [sumsq, zero_lit, zero_add] at this ⊢
  rw [this]
  congr 1
  apply List.map_congr_left
  intro x _; ring

theorem sumsq_nonneg (xs : List ℝ) : 0 ≤ sumsq xs := by
  rw [sumsq_eq]
  apply List.sum_nonneg
  intro y hy
  obtain ⟨x, _, rfl⟩ := List.mem_map.mp hy
  positivity

/-- `_power(x) = ‖x‖₂² = Σ |x_i|²` -/
theorem np_power_eq (ms : List ℝ) : np_power ms = (ms.map fun m => m ^ 2).sum := by
  unfold np_power
  rw [transc_sqrt, Real.mul_self_sqrt (sumsq_nonneg ms), sumsq_eq]

/-- `_mag(x) = Σ |x_i|` -/
theorem np_mag_eq (ms : List ℝ) : np_mag ms = ms.sum := by
  unfold np_mag; exact lsum_eq ms

/-- the non-linearity of a segment is the sum of the per-entry summands -/
theorem np_nonlin_eq (p : Bool) (ms : List ℝ) : np_nonlin p ms = (ms.map (entry p)).sum := by
  unfold np_nonlin entry
  cases p
  · simp [np_mag_eq]
  · simp [np_power_eq]

/-- **segment additivity**: cutting a run of entries into two segments does not change the value -/
theorem np_nonlin_append (p : Bool) (a b : List ℝ) : np_nonlin p (a ++ b) = np_nonlin p a + np_nonlin p b := by
  simp [np_nonlin_eq]

/-- **the loop**: `val = 0; for each segment: val += nonlin(segment)` is the per-entry sum over all the
entries the segments hold, however the walk cuts them -/
theorem np_loop_eq (p : Bool) (segs : List (List ℝ)) :
    segs.foldl (fun acc s => np_accum acc (np_nonlin p s)) 0 = (segs.flatten.map (entry p)).sum := by
  have h : ∀ (a : ℝ), segs.foldl (fun acc s => np_accum acc (np_nonlin p s)) a
      = a + (segs.flatten.map (entry p)).sum := by
    induction segs with
    | nil => intro a; simp
    | cons s segs ih =>
      intro a
      simp only [List.foldl_cons, List.flatten_cons, List.map_append, List.sum_append]
      rw [ih, np_accum, np_nonlin_eq]
      ring
  simpa using h 0

/-- **after the loop**: real-bank doubling, then the log floor -/
theorem np_finish_spec (isReal useLog : Bool) (floor acc : ℝ) :
    np_finish isReal useLog floor acc = logFloor useLog floor (if isReal then 2 * acc else acc) := by
  unfold np_finish logFloor
  cases isReal <;> cases useLog <;> simp [two_lit, mul_comm]

/-- **coefficient formula**: what `_compute_frame` stores for one filter is
`logFloor((2 if real else 1) · Σ_entries |X·H|^p)` -/
theorem coeff_eq_spec (p isReal useLog : Bool) (floor : ℝ) (segs : List (List ℝ)) :
    np_finish isReal useLog floor (segs.foldl (fun acc s => np_accum acc (np_nonlin p s)) 0)
      = logFloor useLog floor ((if isReal then 2 else 1) * (segs.flatten.map (entry p)).sum) := by
  rw [np_finish_spec, np_loop_eq]
  cases isReal <;> simp

/-- **energy coefficient**: mean square of the (unwindowed) frame, its square root when not `use_power`,
log-floored when `use_log` -/
theorem np_energy_spec (p useLog : Bool) (floor L : ℝ) (fr : List ℝ) (hL : 0 < L) :
    np_energy p useLog floor L fr
      = logFloor useLog floor
          (if p then (fr.map fun x => x ^ 2).sum / L else Real.sqrt ((fr.map fun x => x ^ 2).sum / L)) := by
  have hnn : 0 ≤ sumsq fr / L := div_nonneg (sumsq_nonneg fr) hL.le
  have hs : Transc.rpow (sumsq fr / L) (0.5 : ℝ) = Real.sqrt (sumsq fr / L) := by
    rw [transc_rpow, half_lit, Real.sqrt_eq_rpow]
  unfold np_energy logFloor
  rw [hs, sumsq_eq]
  cases p <;> cases useLog <;> simp

/-- the PyTorch port's energy column, after the final clamp / log, is NumPy's energy coefficient -/
theorem torch_energy_eq_np (p useLog : Bool) (floor L : ℝ) (fr : List ℝ) (hL : 0 < L) :
    torch_final useLog floor (torch_energy p L fr) = np_energy p useLog floor L fr := by
  rw [np_energy_spec p useLog floor L fr hL]
  have hnn := sumsq_nonneg fr
  have hq : Real.sqrt (sumsq fr) / Real.sqrt L = Real.sqrt (sumsq fr / L) := (Real.sqrt_div' _ hL.le).symm
  have hsq : Real.sqrt (sumsq fr / L) * Real.sqrt (sumsq fr / L) = sumsq fr / L :=
    Real.mul_self_sqrt (div_nonneg hnn hL.le)
  unfold torch_final torch_energy logFloor
  simp only [transc_sqrt, transc_log]
  rw [hq, hsq, sumsq_eq]

theorem torch_segval_eq (p isReal : Bool) (ms : List ℝ) :
    torch_segval p isReal ms = (if isReal then 2 else 1) * np_nonlin p ms := by
  unfold torch_segval np_nonlin np_power np_mag
  cases p <;> cases isReal <;> simp [two_lit, mul_comm]

/-- **the PyTorch port stores NumPy's coefficient**: doubling every segment's value and clamping / taking the
log after stacking equals doubling the sum and flooring each coefficient -/
theorem torch_coeff_eq_np (p isReal useLog : Bool) (floor : ℝ) (segs : List (List ℝ)) :
    torch_final useLog floor (segs.foldl (fun acc s => torch_accum acc (torch_segval p isReal s)) 0)
      = np_finish isReal useLog floor (segs.foldl (fun acc s => np_accum acc (np_nonlin p s)) 0) := by
  have h : ∀ (a b : ℝ), a = (if isReal then 2 else 1) * b →
      segs.foldl (fun acc s => torch_accum acc (torch_segval p isReal s)) a
        = (if isReal then 2 else 1) * segs.foldl (fun acc s => np_accum acc (np_nonlin p s)) b := by
    induction segs with
    | nil => intro a b hab; simpa using hab
    | cons s segs ih =>
      intro a b hab
      simp only [List.foldl_cons]
      apply ih
      rw [torch_accum, np_accum, torch_segval_eq, hab]; ring
  rw [h 0 0 (by simp), np_finish_spec]
  unfold torch_final logFloor
  cases isReal <;> cases useLog <;> simp

/-! non-vacuity: concrete values -/
example : np_nonlin true [3, 4] = (25 : ℝ) := by rw [np_nonlin_eq]; norm_num [entry]
example : np_nonlin false [3, 4] = (7 : ℝ) := by rw [np_nonlin_eq]; norm_num [entry]
example : np_finish true false (1e-5 : ℝ) 3 = 6 := by rw [np_finish_spec]; norm_num [logFloor]
/-- the order matters (what a "double after the floor" rewrite would change): with `acc = 0` and a positive
floor the coefficient is `log floor`, not `log floor + log 2` -/
example : np_finish true true (1e-5 : ℝ) 0 = Real.log 1e-5 := by
  rw [np_finish_spec]; norm_num [logFloor]

end PdsVerif.FrameCoeffTie

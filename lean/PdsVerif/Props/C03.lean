/-
  C03 — short-integration coefficients equal their documented definition
  (and the short-integration half of C01: chunked streaming equals `compute_full`, `si_stream_*`).

  Model: `PdsVerif/Model/Si.lean` (mirrors `compute_chunk` / `finalize` / `compute_full` /
  `_handle_skip` / `_fill_y_buf` / `_compute_frame` of `ShortIntegrationFrameComputer`).
  Everything is an exact identity in an arbitrary commutative ring `α`; `phi` (the point-wise
  `|·|^p`) and `post` (the log floor) are arbitrary functions.  The theorems quantify over every
  well-formed configuration (`WF`: `1 ≤ S`, `M + S - 1 ≤ D`, `M` taps per filter, `2S` window taps and
  — causal — `S < M - tr` = the largest right support, the property's precondition; — centred —
  `tr < M`, met by every centred computer), every signal and every chunking: no bound on lengths.
  Helper lemmas: `PdsVerif/Lemmas/Si{Basic,Acc,Chunk,Full}.lean`.
-/
import PdsVerif.Lemmas.SiFull
import PdsVerif.Lemmas.SiGInt
import PdsVerif.Lemmas.Dft
set_option linter.unusedSectionVars false
set_option linter.unusedVariables false
namespace PdsVerif.C03
open PdsVerif.Model.Si PdsVerif.Seg PdsVerif.SiBasic PdsVerif.SiAcc PdsVerif.SiChunk PdsVerif.SiFull
open PdsVerif.SiGInt

variable {α : Type} [CommRing α]

/-! ### stage 0: the DFT convolution theorem (previously trusted) -/

/-- **`circConv` is what the code computes.**  Over ℂ, with `dft` / `idft` NumPy's documented transforms
(`Lemmas/Dft.lean`), `idft(dft(buf, D) · dft(h, D))` — the code's `irfft(rfft(buf) * rfft(h))`, resp.
`ifft(fft · fft)` — is exactly the model's `circConv D buf h`, for every DFT size, buffer and filter of at
most `D` taps (`Dft.idft_dft_mul`: character orthogonality).  Only "NumPy's FFT routines compute the DFT"
remains trusted. -/
theorem circConv_eq_idft_dft_mul (D : Nat) (hD : 0 < D) (buf h : List ℂ) (hh : h.length ≤ D) :
    circConv D buf h = (List.range D).map fun (p : Nat) =>
      Dft.idft D (fun k => Dft.dft D (fun n => buf.getD n 0) (k : ℤ) * Dft.dft D (fun n => h.getD n 0) (k : ℤ))
        (p : ℤ) := by
  unfold circConv
  apply List.map_congr_left
  intro p hp
  have hp' : p < D := List.mem_range.mp hp
  rw [Dft.idft_dft_mul D (Nat.pos_iff_ne_zero.mp hD) _ _ p hp']
  have hsum : ∀ (f : Nat → ℂ) (n : Nat), ((List.range n).map f).sum = ∑ i ∈ Finset.range n, f i := by
    intro f n
    induction n with
    | zero => simp
    | succ n ih => rw [List.range_succ, List.map_append, List.sum_append, ih, Finset.sum_range_succ]; simp
  rw [hsum]
  apply Finset.sum_subset (Finset.range_subset_range.mpr hh)
  intro j _ hj
  have : h.length ≤ j := by simpa using hj
  have h0 : h.getD j 0 = 0 := by
    rw [List.getD_eq_getElem?_getD, List.getElem?_eq_none this]; rfl
  rw [h0, zero_mul]

example : (3 : Nat) ≤ 5 ∧ 0 < 5 := by decide

/-! ### stage 1: overlap-save -/

/-- **overlap-save, cell form.**  For a `D`-cell buffer `b` and a filter `h` with `M = |h|` taps, the
circular convolution (what `irfft(rfft(b)·rfft(h))` computes) at a cell `p ≥ M - 1` equals the linear
convolution `Σ_{j<M} h[j]·b[p-j]`. -/
theorem overlap_save_valid (D : Nat) (b h : List α) (p : Nat) (hp : p < D) (hM : h.length ≤ p + 1) :
    (circConv D b h).getD p 0 = ((List.range h.length).map fun j => h.getD j 0 * b.getD (p - j) 0).sum := by
  have := circConv_valid D b h p hp hM
  rw [← this, List.getD_eq_getElem?_getD, List.getElem?_eq_getElem (by simpa [circConv] using hp)]
  rfl

/-- **overlap-save, slice form.**  When the buffer holds the stream positions `[a, a + D)`, the slice
`[-y_keep:]` with `0 < y_keep ≤ D - M + 1` of the circular convolution is the stretch of the *linear*
convolution `Σ_{j<M} h[j]·X[p-j]` over the positions `a + D - y_keep ≤ p < a + D`. -/
theorem overlap_save_lastK (D : Nat) (X : Int → α) (a : Int) (h : List α) (k : Nat) (hk : 0 < k)
    (hkD : k ≤ D) (hkV : k + h.length ≤ D + 1) :
    lastK (circConv D (seg X a D) h) k = seg (lin X h) (a + D - k) k :=
  lastK_circConv_seg D X a h k hk hkD hkV

/-! ### stage 2: block accumulation -/

/-- **accumulation.**  Feed a stream `v 0, v 1, …` (`v` = any per-sample function of the filtered
signal) through `_fill_y_buf` in pieces of *any* lengths `ks` (any `y_keep` sequence): no block index
leaves `_y_buf`, and once two blocks are complete `_compute_frame` reads off
`Σ_{u<2S} w[u]·v(u)`, `w = w0 ++ w1` the two window halves. -/
theorem accumulate_spec (S nB : Nat) (hS : 0 < S) (hnB : 2 ≤ nB) (w0 w1 : List α) (hw0 : w0.length = S)
    (hw1 : w1.length = S) (v : Int → α) (ks : List Nat) (h2S : 2 * S ≤ ks.sum)
    (hfit : ks.sum ≤ nB * S) :
    (feedAll S w0 w1 v ks 0 (List.replicate nB (0, 0))).2 = true ∧
    ((feedAll S w0 w1 v ks 0 (List.replicate nB (0, 0))).1.getD 0 (0, 0)).1
      + ((feedAll S w0 w1 v ks 0 (List.replicate nB (0, 0))).1.getD 1 (0, 0)).2
      = ((List.range (2 * S)).map fun u => (w0 ++ w1).getD u 0 * v u).sum := by
  have h := feedAll_spec S nB hS w0 w1 hw0 hw1 v ks 0 (by omega)
  rw [canonAcc_zero, Nat.zero_add] at h
  rw [h]
  refine ⟨rfl, ?_⟩
  rw [frame_canonAcc S nB hnB w0 w1 v 0 ks.sum h2S]
  have t0 : w0.take S = w0 := by rw [List.take_of_length_le]; omega
  have t1 : w1.take S = w1 := by rw [List.take_of_length_le]; omega
  rw [t0, t1, dot_eq_sum_range _ _ S (by simp) hw0, dot_eq_sum_range _ _ S (by simp) hw1]
  have e2 : 2 * S = S + S := by omega
  rw [e2, List.range_add, List.map_append, List.sum_append, List.map_map]
  congr 1
  · congr 1
    apply List.map_congr_left
    intro u hu
    have hu := List.mem_range.mp hu
    rw [seg_getD _ _ _ _ _ hu, mul_comm]
    congr 1
    · rw [List.getD_eq_getElem?_getD, List.getD_eq_getElem?_getD, List.getElem?_append_left (by omega)]
    · congr 1; omega
  · congr 1
    apply List.map_congr_left
    intro u hu
    have hu := List.mem_range.mp hu
    simp only [Function.comp]
    rw [seg_getD _ _ _ _ _ hu, mul_comm]
    congr 1
    · rw [List.getD_eq_getElem?_getD, List.getD_eq_getElem?_getD, List.getElem?_append_right (by omega)]
      congr 2; omega
    · congr 1; push_cast; omega

/-! ### stage 3: `compute_full` = the documented formula -/

/-- **C03, values.**  On a fresh (or finalized) computer and a floating dtype, `compute_full` succeeds —
every assertion of the code holds, no exception — and returns exactly `spec`: frame `k`, coefficient of
filter `h`, is `post (Σ_{u<2S} w[u] · phi (Σ_{j<M} h[j] · X[k·S + u + offs - j]))`, `X` the signal extended
by zeros, `offs = tr` (causal) / `tr - S` (centred). -/
theorem si_full_spec (c : Cfg) (B : Bank α) (w : WF c B) (st : St α) (dt : DType)
    (hst : st.started = false) (hf : dt.isFloat = true) (x : List α) :
    ∃ st', full c B st dt x = .ok (st', spec c B x) :=
  let ⟨st', h, _, _⟩ := full_spec c B w st dt hst hf x
  ⟨st', h⟩

/-- **C03, count.**  `compute_full` on `N` samples returns `(N + S/2) / S` frames, each with one
coefficient per filter. -/
theorem si_full_count (c : Cfg) (B : Bank α) (w : WF c B) (st : St α) (dt : DType)
    (hst : st.started = false) (hf : dt.isFloat = true) (x : List α) :
    ∃ st' fs, full c B st dt x = .ok (st', fs) ∧ fs.length = (x.length + c.S / 2) / c.S ∧
      ∀ f ∈ fs, f.length = B.filts.length := by
  obtain ⟨st', h, _, _⟩ := full_spec c B w st dt hst hf x
  refine ⟨st', _, h, by simp [spec], ?_⟩
  intro f hfm
  simp only [spec, List.mem_map] at hfm
  obtain ⟨k, _, rfl⟩ := hfm
  simp [specFrame]

/-- what the documented formula says about one coefficient (unfolding `spec`) -/
theorem si_spec_coef (c : Cfg) (B : Bank α) (x : List α) (k i : Nat)
    (hk : k < (x.length + c.S / 2) / c.S) (hi : i < B.filts.length) :
    ((spec c B x).getD k []).getD i 0
      = B.post (((List.range (2 * c.S)).map fun u =>
          B.window.getD u 0 * B.phi (((List.range (B.filts.getD i []).length).map fun j =>
            (B.filts.getD i []).getD j 0 * sigZ x ((k : Int) * c.S + u + offs c - j)).sum)).sum) := by
  simp [spec, specFrame, coef, linY, List.getD_eq_getElem?_getD, hk, hi]

/-- the filtered sample of the unit impulse at index `t < M` is the signal itself, `t` samples late -/
theorem linY_unit (c : Cfg) (X : Int → α) (M t : Nat) (ht : t < M) (q : Int) :
    linY c X ((List.range M).map fun j => if j = t then (1 : α) else 0) q = X (q + offs c - t) := by
  unfold linY
  simp only [List.length_map, List.length_range]
  have key : ∀ (n : Nat) (f : Nat → α),
      ((List.range n).map fun j =>
        ((List.range M).map fun j => if j = t then (1 : α) else 0).getD j 0 * f j).sum
        = if t < min n M then f t else 0 := by
    intro n f
    induction n with
    | zero => simp
    | succ n ih =>
      rw [List.range_succ, List.map_append, List.sum_append, ih]
      simp only [List.map_cons, List.map_nil, List.sum_cons, List.sum_nil, add_zero]
      by_cases hn : n < M
      · have e : ((List.range M).map fun j => if j = t then (1 : α) else 0).getD n 0
            = if n = t then 1 else 0 := by
          simp [List.getD_eq_getElem?_getD, hn]
        rw [e]
        by_cases hnt : n = t
        · subst hnt
          have h1 : ¬ n < min n M := by omega
          have h2 : n < min (n + 1) M := by omega
          simp [h1, h2]
        · by_cases hlt : t < min n M
          · have h2 : t < min (n + 1) M := by omega
            simp [hlt, h2, hnt]
          · have h2 : ¬ t < min (n + 1) M := by omega
            simp [hlt, h2, hnt]
      · have e : ((List.range M).map fun j => if j = t then (1 : α) else 0).getD n 0 = 0 := by
          rw [List.getD_eq_getElem?_getD, List.getElem?_eq_none (by simp; omega)]; rfl
        rw [e]
        have h3 : (t < min n M) = (t < min (n + 1) M) := by
          apply propext; constructor <;> intro h <;> omega
        simp [h3]
  rw [key M (fun j => X (q + offs c - (j : Int)))]
  simp [ht]

/-- **C03, energy coefficient.**  With `include_energy` the first filter is the unit impulse at index
`translation`; its coefficient in frame `k` is `post (Σ_{u<2S} w[u] · phi (x[k·S + u]))` in the causal
style and `post (Σ_{u<2S} w[u] · phi (x[k·S + u - S]))` in the centred style (zero beyond the ends). -/
theorem si_energy (c : Cfg) (B : Bank α) (x : List α) (k : Nat) (htr : c.tr < c.M) :
    coef c B (sigZ x) ((List.range c.M).map fun j => if j = c.tr then (1 : α) else 0) k
      = B.post (((List.range (2 * c.S)).map fun u =>
          B.window.getD u 0 * B.phi (sigZ x ((k : Int) * c.S + u - (if c.centered then (c.S : Int) else 0)))).sum) := by
  unfold coef
  congr 2
  apply List.map_congr_left
  intro u _
  rw [linY_unit c (sigZ x) c.M c.tr htr]
  congr 3
  unfold offs
  split_ifs <;> omega

/-- **C03, dtype (floating).**  The result carries the dtype of the input chunk. -/
theorem si_dtype (c : Cfg) (B : Bank α) (w : WF c B) (st : St α) (dt : DType)
    (hst : st.started = false) (hf : dt.isFloat = true) (x : List α) :
    ∃ st' fs, full c B st dt x = .ok (st', fs) ∧ st'.dtype = dt ∧ st'.started = false := by
  obtain ⟨st', h, h2, h3⟩ := full_spec c B w st dt hst hf x
  exact ⟨st', _, h, h3, h2⟩

/-- **C03, dtype (non-floating).**  Input that is not of a floating dtype is rejected with `ValueError`,
by `compute_full` and by the first `compute_chunk` alike, for any configuration. -/
theorem si_dtype_nonfloat (c : Cfg) (B : Bank α) (st : St α) (dt : DType)
    (hst : st.started = false) (hf : dt.isFloat = false) (x : List α) :
    full c B st dt x = .error .value ∧ chunk c B st dt x = .error .value := by
  have h : chunk c B st dt x = .error .value := by simp [chunk, hst, hf]
  exact ⟨by simp [full, hst, h], h⟩

/-! ### stage 4: streaming (the short-integration half of C01) -/

/-- **C01 (SI), streaming = specification.**  For every chunking (empty and single-sample chunks
included): `compute_chunk` over the chunks then `finalize`, outputs concatenated, is `spec` of the
concatenated signal. -/
theorem si_stream_eq_spec (c : Cfg) (B : Bank α) (w : WF c B) (st : St α) (dt : DType)
    (hst : st.started = false) (hf : dt.isFloat = true) (chunks : List (List α)) :
    ∃ st', streamFrom c B dt st chunks = .ok (st', spec c B chunks.flatten) ∧ st'.started = false :=
  let ⟨st', h, h2, _⟩ := stream_spec c B w st dt hst hf chunks
  ⟨st', h, h2⟩

/-- **C01 (SI), streaming = `compute_full`.**  Same frames — same number, same coefficients, exactly —
for every chunking of every signal. -/
theorem si_stream_eq_full (c : Cfg) (B : Bank α) (w : WF c B) (st : St α) (dt : DType)
    (hst : st.started = false) (hf : dt.isFloat = true) (chunks : List (List α)) :
    (streamFrom c B dt st chunks).map Prod.snd = (full c B st dt chunks.flatten).map Prod.snd := by
  obtain ⟨s1, h1, _⟩ := stream_spec c B w st dt hst hf chunks
  obtain ⟨s2, h2, _⟩ := full_spec c B w st dt hst hf chunks.flatten
  rw [h1, h2]
  rfl

/-- one `compute_chunk` call in the middle of an utterance: it succeeds, emits the frames
`emitted n ≤ k < emitted (n+m)` of the specification and keeps the invariant — whatever the earlier
chunking was (the `_x_rem`/`_y_rem` split is the only trace of it, and no output depends on it). -/
theorem si_stream_chunk (c : Cfg) (B : Bank α) (w : WF c B) (X : Int → α) (n m : Nat) (st : St α)
    (inv : Inv c B X n st) :
    ∃ st', chunk c B st st.dtype (seg X n m)
        = .ok (st', (List.range' (emitted c n) (emitted c (n + m) - emitted c n)).map (specFrame c B X)) ∧
      Inv c B X (n + m) st' := by
  obtain ⟨st', h1, h2, _, _⟩ := chunkCore_spec c B w X n m st inv
  refine ⟨st', ?_, h2⟩
  rw [chunk_started c B st _ inv.started, h1]
  congr 2
  apply List.map_congr_left
  intro k _
  exact mFrame_eq_specFrame c B w.hwin X k

/-- frames emitted before `finalize`: `max 0 (R / S - 1)` with `R` the raw samples seen — never more
than `compute_full` owes -/
theorem si_stream_emitted_le (c : Cfg) (B : Bank α) (w : WF c B) (N : Nat) :
    emitted c N ≤ (N + c.S / 2) / c.S := (finalize_arith c B w N).1

/-! ### the ring the driver runs is a commutative ring, so every theorem above applies to it -/

/-- the instantiation the driver executes (its own `+`, `*`, `0` on Gaussian integers) -/
theorem si_full_spec_gaussian (c : Cfg) (B : Bank GInt) (w : WF c B) (st : St GInt) (dt : DType)
    (hst : st.started = false) (hf : dt.isFloat = true) (x : List GInt) :
    ∃ st', @full GInt instAddGInt instMulGInt instZeroGInt c B st dt x
      = .ok (st', @spec GInt instAddGInt instMulGInt instZeroGInt c B x) :=
  si_full_spec c B w st dt hst hf x

/-! ### non-vacuity -/

/-- a causal configuration on the boundary of the precondition (`S = 2 < 3 = M - tr`), unpadded DFT -/
def exC : Cfg := { S := 2, M := 4, tr := 1, D := 5, centered := false }
/-- a centred configuration with `tr < S` (virtual zeros in front) and `D = M + S - 1` -/
def exZ : Cfg := { S := 3, M := 2, tr := 1, D := 4, centered := true }
def exB : Bank Int :=
  { filts := [[0, 1, 0, 0], [1, -2, 3, 1]], window := [1, 2, 3, 4], phi := fun y => y * y, post := id }
def exBZ : Bank Int :=
  { filts := [[2, -1]], window := [1, 2, 3, 1, 2, 3], phi := fun y => y.natAbs, post := id }

example : WF exC exB := ⟨by decide, by decide, by decide, by decide, by decide⟩
example : WF exZ exBZ := ⟨by decide, by decide, by decide, by decide, by decide⟩

example : (full exC exB (fresh [9, 9, 9, 9, 9] [[(7, 7)], [(7, 7)]]) f64 [1, -2, 3, 0, 5, 1, 1]).map Prod.snd
    = .ok (spec exC exB [1, -2, 3, 0, 5, 1, 1]) := by decide +kernel
example : spec exC exB [1, -2, 3, 0, 5, 1, 1]
    = [[36, 1155], [88, 1301], [30, 600], [1, 71]] := by decide +kernel
example : (streamFrom exC exB f64 (fresh [] []) [[1], [], [-2, 3, 0], [5, 1, 1]]).map Prod.snd
    = .ok (spec exC exB [1, -2, 3, 0, 5, 1, 1]) := by decide +kernel
example : (full exZ exBZ (fresh [] []) f64 [4, -1, 0, 2, 7]).map Prod.snd
    = .ok (spec exZ exBZ [4, -1, 0, 2, 7]) := by decide +kernel
example : (spec exZ exBZ [4, -1, 0, 2, 7]).length = 2 := by decide +kernel
example : spec exZ exBZ [4, -1, 0, 2, 7] = [[44], [46]] := by decide +kernel
/-- the hypothesis `WF` is needed: outside it (`S = 3 ≥ 2 = M - tr`, causal) the model, like the code,
returns too few frames -/
example : (full { S := 3, M := 2, tr := 0, D := 4, centered := false } exBZ (fresh [] []) f64 [4, -1, 0, 2, 1]).map Prod.snd
    = .ok [[30]] ∧ spec { S := 3, M := 2, tr := 0, D := 4, centered := false } exBZ [4, -1, 0, 2, 1] = [[30], [7]] := by
  decide +kernel
example : circConv 5 [1, 2, 3, 4, 5] [1, 1, 1] = [10, 8, 6, 9, 12] := by decide
example : (feedAll 2 [1, 2] [3, 4] (fun p => p + 1) [1, 0, 3, 1] 0 (List.replicate 3 (0, 0)))
    = ([(5, 11), (11, 25), (5, 15)], true) := by decide +kernel

end PdsVerif.C03

/-
  C18 — pre-processors apply the documented sample-wise transforms.

  Theorems about the executable model `PdsVerif/Model/Pre.lean` (the definitions the driver runs at
  `Rat`), for signals of every length.  The algebraic statements hold over any ring (`preemph_*`,
  `dither_*`) or field (`dither_noise_indep`); several need no algebra at all.
-/
import PdsVerif.Model.Pre
import Mathlib.Algebra.Order.Floor.Ring
import Mathlib.Data.Rat.Floor
import Mathlib.Tactic

namespace PdsVerif.C18
open PdsVerif.Model.Pre

/-! ## Pre-emphasis: the slice update equals the recurrence on the ORIGINAL signal -/

section preemph
variable {α : Type}

/-- the heart of it: subtracting the temporary `c * (p :: t)[:-1]` from `t` is the recurrence that
reads only old values. -/
theorem zip_eq_recur [Sub α] [Mul α] (c p : α) (t : List α) :
    List.zipWith (fun a b => a - b) t ((p :: t).dropLast.map (fun v => c * v)) = recur c p t := by
  induction t generalizing p with
  | nil => rfl
  | cons b t ih =>
    have h := ih b
    simp only [List.dropLast_cons_cons, List.map_cons, List.zipWith_cons_cons, recur] at h ⊢
    rw [h]

/-- `Preemphasize`'s slice update (old values on the right-hand side) is the documented recurrence.
No algebraic law is needed: the two sides are the same expression tree, element by element. -/
theorem preemph_eq_spec [Sub α] [Mul α] (c : α) (x : List α) :
    preemphNp c x = preemphSpec c x := by
  cases x with
  | nil => rfl
  | cons a t =>
    simp only [preemphNp, preemphSpec, List.take_succ_cons, List.take_zero, List.drop_succ_cons,
      List.drop_zero, List.cons_append, List.nil_append]
    rw [zip_eq_recur]

theorem recur_length [Sub α] [Mul α] (c p : α) (t : List α) : (recur c p t).length = t.length := by
  induction t generalizing p with
  | nil => rfl
  | cons b t ih => simp only [recur, List.length_cons, ih]

theorem recur_getElem? [Sub α] [Mul α] (c p : α) (t : List α) (i : Nat) (h : i < t.length) :
    (recur c p t)[i]? = some (t[i] - c * (p :: t)[i]'(by simp only [List.length_cons]; omega)) := by
  induction t generalizing p i with
  | nil => simp only [List.length_nil] at h; omega
  | cons b t ih =>
    cases i with
    | zero => simp only [recur, List.getElem?_cons_zero, List.getElem_cons_zero]
    | succ j =>
      have hj : j < t.length := by simp only [List.length_cons] at h; omega
      simp only [recur, List.getElem?_cons_succ, List.getElem_cons_succ]
      exact ih b j hj

/-- **preemph_len**: the output has the input's length. -/
theorem preemph_len [Sub α] [Mul α] (c : α) (x : List α) : (preemphNp c x).length = x.length := by
  rw [preemph_eq_spec]
  cases x with
  | nil => rfl
  | cons a t => simp only [preemphSpec, List.length_cons, recur_length]

/-- **preemph_spec**: `y₀ = x₀` and `y_{i+1} = x_{i+1} − c·x_i`, with `x` the ORIGINAL signal. -/
theorem preemph_spec [Sub α] [Mul α] (c : α) (x : List α) :
    (preemphNp c x)[0]? = x[0]? ∧
    ∀ (i : Nat) (h : i + 1 < x.length),
      (preemphNp c x)[i + 1]? = some (x[i + 1] - c * x[i]) := by
  rw [preemph_eq_spec]
  cases x with
  | nil => exact ⟨rfl, fun i h => by simp only [List.length_nil] at h; omega⟩
  | cons a t =>
    refine ⟨rfl, fun i h => ?_⟩
    have hi : i < t.length := by simp only [List.length_cons] at h; omega
    simp only [preemphSpec, List.getElem?_cons_succ, List.getElem_cons_succ]
    exact recur_getElem? c a t i hi

/-- the same with total indexing (`getElem`), bounds discharged by `preemph_len` -/
theorem preemph_spec_getElem [Sub α] [Mul α] (c : α) (x : List α) (i : Nat) (h : i + 1 < x.length) :
    (preemphNp c x)[i + 1]'(by rw [preemph_len]; exact h) = x[i + 1] - c * x[i] := by
  have := (preemph_spec c x).2 i h
  rw [List.getElem?_eq_getElem (by rw [preemph_len]; exact h)] at this
  exact Option.some.inj this

theorem preemph_first [Sub α] [Mul α] (c : α) (x : List α) (h : 0 < x.length) :
    (preemphNp c x)[0]'(by rw [preemph_len]; exact h) = x[0] := by
  have := (preemph_spec c x).1
  rw [List.getElem?_eq_getElem (by rw [preemph_len]; exact h), List.getElem?_eq_getElem h] at this
  exact Option.some.inj this

theorem preemph_nil [Sub α] [Mul α] (c : α) : preemphNp c ([] : List α) = [] := rfl

theorem preemph_singleton [Sub α] [Mul α] (c a : α) : preemphNp c [a] = [a] := rfl

theorem preemph_pair [Sub α] [Mul α] (c a b : α) : preemphNp c [a, b] = [a, b - c * a] := rfl

/-- coefficient 0 is the identity (ring law `0 * v = 0`, `a - 0 = a`). -/
theorem preemph_zero [Ring α] (x : List α) : preemphNp 0 x = x := by
  rw [preemph_eq_spec]
  cases x with
  | nil => rfl
  | cons a t =>
    simp only [preemphSpec, List.cons.injEq, true_and]
    induction t generalizing a with
    | nil => rfl
    | cons b t ih => simp only [recur, zero_mul, sub_zero, ih]

/-- every lane of a 2-D input (`signal[..., 1:]`) obeys the recurrence -/
theorem preemph_rows [Sub α] [Mul α] (c : α) (m : List (List α)) :
    preemphRows c m = m.map (preemphSpec c) := by
  simp only [preemphRows]
  exact List.map_congr_left fun r _ => preemph_eq_spec c r

/-- **torch form = NumPy form** (`cat([0], sig)[1:] - c * cat([0], sig)[:-1]`), for all inputs.
Uses `c * 0 = 0` and `a - 0 = a`, hence a ring. -/
theorem preemph_torch_eq_np [Ring α] (c : α) (x : List α) : preemphTorch c x = preemphNp c x := by
  rw [preemph_eq_spec]
  simp only [preemphTorch, List.singleton_append, List.drop_succ_cons, List.drop_zero]
  rw [zip_eq_recur]
  cases x with
  | nil => rfl
  | cons a t => simp only [recur, preemphSpec, mul_zero, sub_zero]

end preemph

/-! concrete, non-trivial instances (also: the model really uses OLD values) -/

example : preemphNp (2 : Int) [1, 10, 100, 1000] = [1, 8, 80, 800] := by decide
example : preemphNp (1/2 : Rat) [4, 6, -3] = [4, 4, -6] := by decide +kernel
example : preemphTorch (2 : Int) [1, 10, 100, 1000] = preemphNp 2 [1, 10, 100, 1000] := by decide
/-- the in-place left-to-right loop (which reads updated values) is a DIFFERENT function: the model
of the code is not that one. -/
example : preemphSeq (1 : Int) [1, 1, 1] = [1, 0, 1] ∧ preemphNp (1 : Int) [1, 1, 1] = [1, 0, 0] := by
  decide
example : (preemphNp (3 : Int) [5, 7, 11])[1 + 1]? = some ((11 : Int) - 3 * 7) := by decide

/-! ## The cast back to the input dtype -/

section cast

theorem truncZ_intCast (n : Int) : truncZ (n : Rat) = n := by
  simp only [truncZ, Rat.num_intCast, Rat.den_intCast, Nat.cast_one, Int.tdiv_one]

theorem truncZ_neg (q : Rat) : truncZ (-q) = -truncZ q := by
  simp only [truncZ, Rat.num_neg_eq_neg_num, Rat.den_neg_eq_den, Int.neg_tdiv]

theorem truncZ_of_nonneg (q : Rat) (h : 0 ≤ q) : truncZ q = ⌊q⌋ := by
  have hn : 0 ≤ q.num := Rat.num_nonneg.mpr h
  rw [truncZ, Int.tdiv_eq_ediv_of_nonneg hn, Rat.floor_def']

theorem truncZ_of_nonpos (q : Rat) (h : q ≤ 0) : truncZ q = ⌈q⌉ := by
  have h' : 0 ≤ -q := by linarith
  have := truncZ_of_nonneg (-q) h'
  rw [truncZ_neg, Int.floor_neg] at this
  omega

/-- **cast_back (toward zero)**: the integer cast keeps the sign, never increases the magnitude and
drops strictly less than one unit. -/
theorem truncZ_toward_zero (q : Rat) :
    |(truncZ q : Rat)| ≤ |q| ∧ |q - truncZ q| < 1 ∧ (0 ≤ q → 0 ≤ truncZ q) ∧ (q ≤ 0 → truncZ q ≤ 0) := by
  rcases le_total 0 q with h | h
  · have e := truncZ_of_nonneg q h
    have h0 : (0 : Int) ≤ ⌊q⌋ := Int.floor_nonneg.mpr h
    have h1 : ((⌊q⌋ : Int) : Rat) ≤ q := Int.floor_le q
    have h2 : q < ⌊q⌋ + 1 := Int.lt_floor_add_one q
    have h0' : (0 : Rat) ≤ ((⌊q⌋ : Int) : Rat) := by exact_mod_cast h0
    rw [e]
    refine ⟨?_, ?_, fun _ => h0, fun hq => ?_⟩
    · rw [abs_of_nonneg h0', abs_of_nonneg h]; exact h1
    · rw [abs_lt]; constructor <;> linarith
    · have : q = 0 := le_antisymm hq h
      subst this; simp
  · have e := truncZ_of_nonpos q h
    have h0 : ⌈q⌉ ≤ (0 : Int) := Int.ceil_le.mpr (by simpa using h)
    have h1 : q ≤ ((⌈q⌉ : Int) : Rat) := Int.le_ceil q
    have h2 : ((⌈q⌉ : Int) : Rat) < q + 1 := Int.ceil_lt_add_one q
    have h0' : ((⌈q⌉ : Int) : Rat) ≤ 0 := by exact_mod_cast h0
    rw [e]
    refine ⟨?_, ?_, fun hq => ?_, fun _ => h0⟩
    · rw [abs_of_nonpos h0', abs_of_nonpos h]; linarith
    · rw [abs_lt]; constructor <;> linarith
    · have : q = 0 := le_antisymm h hq
      subst this; simp

/-- integer dtypes: `castBack` IS truncation toward zero whenever it is defined, and it is defined
exactly when the truncated value is in the dtype's range. -/
theorem cast_back_int16 (q : Rat) :
    castBack .int16 q = if -32768 ≤ truncZ q ∧ truncZ q ≤ 32767 then some (truncZ q : Rat) else none := rfl

theorem cast_back_int32 (q : Rat) :
    castBack .int32 q =
      if -2147483648 ≤ truncZ q ∧ truncZ q ≤ 2147483647 then some (truncZ q : Rat) else none := rfl

/-- float dtypes: identity on the exact value (round-off is not modelled). -/
theorem cast_back_float (q : Rat) : castBack .float32 q = some q ∧ castBack .float64 q = some q :=
  ⟨rfl, rfl⟩

/-- an integral value in range survives the round trip unchanged — for every dtype. -/
theorem cast_back_integral (dt : DType) (n : Int)
    (hr : ∀ lo hi, dt.range = some (lo, hi) → lo ≤ n ∧ n ≤ hi) :
    castBack dt (n : Rat) = some (n : Rat) := by
  unfold castBack
  cases hdt : dt.range with
  | none => rfl
  | some p =>
    obtain ⟨lo, hi⟩ := p
    have := hr lo hi hdt
    simp only [truncZ_intCast, this, and_self, if_true]

/-- **cast_back**: for an integer dtype with range `[lo, hi]`, whenever the cast is defined its value
is the truncation toward zero of the exact float64 result, lies in the dtype's range, is no larger in
magnitude than the exact value and differs from it by less than one unit. -/
theorem cast_back (dt : DType) (lo hi : Int) (hdt : dt.range = some (lo, hi)) (q r : Rat)
    (h : castBack dt q = some r) :
    r = (truncZ q : Rat) ∧ lo ≤ truncZ q ∧ truncZ q ≤ hi ∧ |r| ≤ |q| ∧ |q - r| < 1 := by
  unfold castBack at h
  rw [hdt] at h
  simp only at h
  split at h
  · rename_i hr
    have hr' : r = (truncZ q : Rat) := (Option.some.inj h).symm
    have tz := truncZ_toward_zero q
    subst hr'
    exact ⟨rfl, hr.1, hr.2, tz.1, tz.2.1⟩
  · exact absurd h (by simp)

/-- **cast_back**: when the coefficient and the signal make every exact output integral and in range
(e.g. integer coefficient, or a dyadic one on suitably even samples), the whole
float64-compute-then-cast pipeline returns exactly the recurrence — the cast is the identity. -/
theorem cast_back_exact (dt : DType) (c : Rat) (x : List Rat)
    (hint : ∀ q ∈ preemphNp c x, ∃ n : Int, q = n ∧ ∀ lo hi, dt.range = some (lo, hi) → lo ≤ n ∧ n ≤ hi) :
    (preemphNp c x).mapM (castBack dt) = some (preemphSpec c x) := by
  rw [← preemph_eq_spec]
  generalize preemphNp c x = y at hint
  induction y with
  | nil => rfl
  | cons a t ih =>
    obtain ⟨n, rfl, hr⟩ := hint _ (List.mem_cons_self)
    have iht := ih fun q hq => hint q (List.mem_cons_of_mem _ hq)
    simp only [List.mapM_cons, cast_back_integral dt n hr, iht]
    rfl

end cast

example : truncZ (7/2) = 3 ∧ truncZ (-7/2) = -3 ∧ truncZ (-1/2) = 0 ∧ truncZ 5 = 5 := by decide +kernel
example : castBack .int16 (65535/2) = some 32767 ∧ castBack .int16 32768 = none
    ∧ castBack .int16 (-65537/2) = some (-32768) ∧ castBack .float32 (1/3) = some (1/3) := by
  decide +kernel
/-- hypotheses of `cast_back_exact` are satisfiable non-trivially: c = 1/2 on even samples -/
example : (preemphNp (1/2 : Rat) [2, 4, -6]).mapM (castBack .int16) = some [2, 3, -8] := by
  decide +kernel
/-- …and when the exact value is not integral the cast really truncates toward zero -/
example : (preemphNp (1/2 : Rat) [1, 2, -3, 0]).mapM (castBack .int16) = some [1, 1, -4, 1] := by
  decide +kernel

/-! ## Dither -/

section dither
variable {α : Type}

theorem dither_len [Zero α] [Add α] [Mul α] (c : α) (z x : List α) (h : z.length = x.length) :
    (dither c z x).length = x.length := by
  simp only [dither, List.length_zipWith, List.length_map, h, Nat.min_self]

/-- **dither_shape**: `y = x + c·z` element by element; `z` is a parameter of the model, it is not
computed from `x` (structural independence of the noise from the signal). -/
theorem dither_shape [Ring α] (c : α) (z x : List α) (h : z.length = x.length) :
    (dither c z x).length = x.length ∧
    ∀ (i : Nat) (hx : i < x.length),
      (dither c z x)[i]? = some (x[i] + c * z[i]'(h ▸ hx)) := by
  refine ⟨dither_len c z x h, fun i hx => ?_⟩
  have hz : i < z.length := h ▸ hx
  simp only [dither, List.getElem?_zipWith, List.getElem?_map, List.getElem?_eq_getElem hx,
    List.getElem?_eq_getElem hz, Option.map_some, zero_add]

/-- list form of the same statement -/
theorem dither_eq_zip [Ring α] (c : α) (z x : List α) :
    dither c z x = List.zipWith (fun a g => a + c * g) x z := by
  simp only [dither, List.zipWith_map_right, zero_add]

/-- **dither_zero**: coefficient 0 is the identity. -/
theorem dither_zero [Ring α] (z x : List α) (h : z.length = x.length) : dither 0 z x = x := by
  rw [dither_eq_zip]
  have hf : (fun (a g : α) => a + 0 * g) = fun a _ => a := by
    funext a g; simp only [zero_mul, add_zero]
  rw [hf]
  induction x generalizing z with
  | nil => cases z <;> rfl
  | cons a t ih =>
    cases z with
    | nil => simp only [List.length_nil, List.length_cons] at h; omega
    | cons g s =>
      have hs : s.length = t.length := by simpa only [List.length_cons, Nat.add_right_cancel_iff] using h
      simp only [List.zipWith_cons_cons, ih s hs]

/-- **dither_linear**: what was added, `y_c − x`, is exactly `c·z`. -/
theorem dither_linear [Ring α] (c : α) (z x : List α) (h : z.length = x.length) :
    List.zipWith (fun y a => y - a) (dither c z x) x = z.map (fun g => c * g) := by
  rw [dither_eq_zip]
  induction x generalizing z with
  | nil => cases z with
    | nil => rfl
    | cons g s => simp only [List.length_nil, List.length_cons] at h; omega
  | cons a t ih =>
    cases z with
    | nil => simp only [List.length_nil, List.length_cons] at h; omega
    | cons g s =>
      have hs : s.length = t.length := by simpa only [List.length_cons, Nat.add_right_cancel_iff] using h
      simp only [List.zipWith_cons_cons, List.map_cons, add_sub_cancel_left, ih s hs]

/-- the noise, normalised by the coefficient, is `z` itself … -/
theorem dither_normalised [Field α] (c : α) (hc : c ≠ 0) (z x : List α) (h : z.length = x.length) :
    (List.zipWith (fun y a => y - a) (dither c z x) x).map (fun d => d / c) = z := by
  rw [dither_linear c z x h, List.map_map]
  conv_rhs => rw [← List.map_id z]
  apply List.map_congr_left
  intro g _
  simp only [Function.comp_apply, id_eq]
  field_simp

/-- **dither_noise_indep**: … so `(y_{c₁} − x)/c₁ = (y_{c₂} − x')/c₂` for ANY two signals `x`, `x'`
and any two non-zero coefficients: the noise does not depend on the signal and scales linearly. -/
theorem dither_noise_indep [Field α] (c₁ c₂ : α) (h₁ : c₁ ≠ 0) (h₂ : c₂ ≠ 0) (z x x' : List α)
    (hx : z.length = x.length) (hx' : z.length = x'.length) :
    (List.zipWith (fun y a => y - a) (dither c₁ z x) x).map (fun d => d / c₁) =
    (List.zipWith (fun y a => y - a) (dither c₂ z x') x').map (fun d => d / c₂) := by
  rw [dither_normalised c₁ h₁ z x hx, dither_normalised c₂ h₂ z x' hx']

/-- **torch form = NumPy form** (`sig + c * randn_like(sig)` vs `sig += normal(0, c)`), same draw. -/
theorem dither_torch_eq_np [Ring α] (c : α) (z x : List α) : ditherTorch c z x = dither c z x := by
  simp only [ditherTorch, dither, zero_add]

end dither

example : dither (3 : Int) [1, -2, 5] [10, 20, 30] = [13, 14, 45] := by decide
example : dither (0 : Int) [1, -2, 5] [10, 20, 30] = [10, 20, 30] := by decide
example : List.zipWith (fun y a => y - a) (dither (3 : Int) [1, -2, 5] [10, 20, 30]) [10, 20, 30]
    = [3, -6, 15] := by decide
example : (List.zipWith (fun y a => y - a) (dither (1/2 : Rat) [1, -2, 5] [10, 20, 30]) [10, 20, 30]).map (· / (1/2))
    = (List.zipWith (fun y a => y - a) (dither (3 : Rat) [1, -2, 5] [7, 7, -1]) [7, 7, -1]).map (· / 3) := by
  decide +kernel
example : ditherTorch (3 : Int) [1, -2, 5] [10, 20, 30] = dither 3 [1, -2, 5] [10, 20, 30] := by decide

/-! ## `apply`: purity without `in_place`, same values with it -/

section apply
variable {α : Type}

/-- **not_in_place_pure**: with `in_place=False` the caller's array holds the same values after the
call and the result does not share its memory — whatever the update and the cast are. -/
theorem not_in_place_pure (cast : DType → α → Option α) (upd : List α → List α) (dt : DType)
    (x : List α) (o : Outcome α) (h : applyWith cast upd dt false x = some o) :
    o.inputAfter = x ∧ o.shares = false := by
  unfold applyWith at h
  cases hm : (upd x).mapM (cast dt) with
  | none => simp only [hm] at h; exact absurd h (by simp)
  | some out =>
    simp only [hm, Bool.not_false, Bool.true_or, if_true, Option.some.injEq] at h
    subst h; exact ⟨rfl, rfl⟩

/-- **in_place_same_values**: `in_place=True` returns the same values as `in_place=False` (and is
defined on the same inputs). -/
theorem in_place_same_values (cast : DType → α → Option α) (upd : List α → List α) (dt : DType)
    (x : List α) :
    (applyWith cast upd dt true x).map (·.out) = (applyWith cast upd dt false x).map (·.out) := by
  simp only [applyWith]
  cases List.mapM (cast dt) (upd x) with
  | none => rfl
  | some out => by_cases hd : dt = DType.float64 <;> simp [hd]

/-- what `in_place=True` does to the caller's array: only a float64 array is written, and then it
holds the float64 working values (= the returned values when the cast is the identity, below). -/
theorem in_place_input (cast : DType → α → Option α) (upd : List α → List α) (dt : DType)
    (x : List α) (o : Outcome α) (h : applyWith cast upd dt true x = some o) :
    (dt = .float64 → o.inputAfter = upd x ∧ o.shares = true) ∧
    (dt ≠ .float64 → o.inputAfter = x ∧ o.shares = false) := by
  unfold applyWith at h
  cases hm : (upd x).mapM (cast dt) with
  | none => simp only [hm] at h; exact absurd h (by simp)
  | some out =>
    by_cases hd : dt = .float64
    · subst hd
      simp [hm] at h
      subst h; exact ⟨fun _ => ⟨rfl, rfl⟩, fun hne => absurd rfl hne⟩
    · have hb : (dt != DType.float64) = true := by simpa using hd
      simp [hm, hb] at h
      subst h; exact ⟨fun he => absurd he hd, fun _ => ⟨rfl, rfl⟩⟩

theorem mapM_castBack_float64 (y : List Rat) : y.mapM (castBack .float64) = some y := by
  induction y with
  | nil => rfl
  | cons a t ih => simp only [List.mapM_cons, ih]; rfl

/-- `Preemphasize.apply` on float64: defined for every input, returns the recurrence; in place the
caller's array IS the result, otherwise it is untouched. -/
theorem preemph_apply_float64 (inPlace : Bool) (c : Rat) (x : List Rat) :
    applyPreemph .float64 inPlace c x =
      some { out := preemphSpec c x,
             inputAfter := if inPlace then preemphSpec c x else x,
             shares := inPlace } := by
  simp only [applyPreemph, applyWith, mapM_castBack_float64, preemph_eq_spec]
  cases inPlace <;> simp

/-- `Preemphasize.apply` specialisations of the two aliasing theorems -/
theorem preemph_not_in_place_pure (dt : DType) (c : Rat) (x : List Rat) (o : Outcome Rat)
    (h : applyPreemph dt false c x = some o) : o.inputAfter = x ∧ o.shares = false :=
  not_in_place_pure castBack (preemphNp c) dt x o h

theorem preemph_in_place_same_values (dt : DType) (c : Rat) (x : List Rat) :
    (applyPreemph dt true c x).map (·.out) = (applyPreemph dt false c x).map (·.out) :=
  in_place_same_values castBack (preemphNp c) dt x

/-- `Dither.apply`: same two facts, and the `ValueError` for a negative standard deviation does not
depend on `in_place`. -/
theorem dither_not_in_place_pure (dt : DType) (c : Rat) (z x : List Rat) (o : Outcome Rat)
    (h : applyDither dt false c z x = .ok o) : o.inputAfter = x ∧ o.shares = false := by
  unfold applyDither at h
  split at h
  · exact absurd h (by simp)
  · split at h
    · exact absurd h (by simp)
    · rename_i o' ho
      injection h with h; subst h
      exact not_in_place_pure castBack (dither c z) dt x _ ho

theorem dither_in_place_same_values (dt : DType) (c : Rat) (z x : List Rat) :
    (match applyDither dt true c z x with | .ok o => some (some o.out) | .undef => some none | .valueError => none) =
    (match applyDither dt false c z x with | .ok o => some (some o.out) | .undef => some none | .valueError => none) := by
  have h := in_place_same_values castBack (dither c z) dt x
  unfold applyDither
  by_cases hc : c < 0
  · simp only [hc, if_true]
  · simp only [hc, if_false]
    cases h1 : applyWith castBack (dither c z) dt true x <;>
      cases h2 : applyWith castBack (dither c z) dt false x <;>
      simp_all

end apply

example : applyPreemph .int16 false (1/2) [1, 2, -3] =
    some { out := [1, 1, -4], inputAfter := [1, 2, -3], shares := false } := by decide +kernel
example : applyPreemph .int16 true (1/2) [1, 2, -3] =
    some { out := [1, 1, -4], inputAfter := [1, 2, -3], shares := false } := by decide +kernel
example : applyPreemph .float64 true (1/2) [1, 2, -3] =
    some { out := [1, 3/2, -4], inputAfter := [1, 3/2, -4], shares := true } := by decide +kernel
example : applyPreemph .float64 false (1/2) [1, 2, -3] =
    some { out := [1, 3/2, -4], inputAfter := [1, 2, -3], shares := false } := by decide +kernel
/-- the overflow case is reachable (and makes no claim) -/
example : applyPreemph .int16 false (-1) [30000, 30000] = none := by decide +kernel

end PdsVerif.C18

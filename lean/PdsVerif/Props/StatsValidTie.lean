/-
  Translator tie for the validity predicate of raw statistics (properties C16, C17).

  `Generated/StatsValid.lean` is re-extracted on every run from the `try:` block of `Standardize._sanitize_stats`
  (post.py): which flat arrays are accepted as statistics.  The theorem shows that the hand-written predicate `valid`
  of `Model/Standardize.lean` — the one C17's round-trip theorems are about (every accumulated matrix passes it, so
  `save` → load is the identity) — is exactly the source's: integral non-negative count, non-negative second row, and
  NOTHING else (no sign condition on the sums, no relation between sums and sums of squares).  A further condition
  added to the source — e.g. `count * sumsq >= sums**2`, true in exact arithmetic and false after rounding for a
  coefficient that is constant over all vectors — is refused by the translator or breaks this theorem.
-/
import PdsVerif.Generated.StatsValid
import PdsVerif.Model.Standardize
set_option linter.unusedSectionVars false
namespace PdsVerif.StatsValidTie
open PdsVerif.Model.Standardize PdsVerif.Gen.StatsValid

variable {α : Type} [Zero α] [LE α] [DecidableLE α] [BEq α]

/-- the model's predicate is the source's, on the two rows of the reshaped matrix -/
theorem valid_eq_gen (closeRound : α → Bool) (s : Stats α) :
    valid closeRound s = stats_valid closeRound s.cnt (s.sum ++ [s.cnt]) (s.sq ++ [s.pad]) := by
  unfold valid stats_valid
  simp [List.all_append, Bool.and_assoc]

/-- the rows are those of `reshape((2, -1))` applied to what `save` writes -/
theorem rows_of_flat (s : Stats α) : s.toFlat = (s.sum ++ [s.cnt]) ++ (s.sq ++ [s.pad]) := rfl

end PdsVerif.StatsValidTie

/-
  C15 — Deltas and Stack produce the documented layout and values.

  The theorems are about the executable model `Model/Post.lean` (mirrored from
  `/repo/src/pydrobert/speech/post.py`) over the row-major tensor model `Model/Tensor.lean`.
  Deltas: any `Field α`; Stack: any type `α`.  Every statement holds for every rank, shape, axis /
  target_axis / time_axis (negative values go through NumPy's / Python's normalisation), num_deltas,
  context window ≥ 1, pad mode and num_vectors - there are no size bounds.
-/
import PdsVerif.Lemmas.Post

namespace PdsVerif.C15
open Finset PdsVerif.Model PdsVerif.Model.Tensor PdsVerif.Model.Post

/-! ## Deltas: the filters -/
section Filters
variable {α : Type} [Field α]

/-- `__init__`'s loop builds `[filt 0, …, filt D]` with `filt 0 = [1]`, `filt (d+1) = convolve (filt d) base` -/
theorem deltas_filts_eq (W D : Nat) :
    Deltas.filts (α := α) W D = (List.range (D + 1)).map (Deltas.filt W) := filts_eq W D

/-- the order-`d` filter has `2·d·W + 1` taps (so `max_offset = d·W`) -/
theorem deltas_filt_length (W d : Nat) : (Deltas.filt (α := α) W d).length = 2 * d * W + 1 :=
  filt_length W d

/-- the recursion in index form: `filt_{d+1}[k] = Σ_u filt_d[k-u] · (u - W)/Z`, `Z = Σ_u (u - W)²` -/
theorem deltas_filt_recursion (W d k : Nat) (hk : k < 2 * (d + 1) * W + 1) :
    (Deltas.filt (α := α) W (d + 1))[k]? = some (∑ u ∈ range (1 + 2 * W),
      (if u ≤ k then (Deltas.filt (α := α) W d).getD (k - u) 0 else 0) * (((u : α) - (W : α)) / normZ W)) := by
  simp only [Deltas.filt]
  rw [convolve_getElem? _ _ _ (by rw [filt_length, baseFilter_length]; ring_nf at hk ⊢; omega),
    baseFilter_length]
  congr 1
  apply Finset.sum_congr rfl
  intro u hu
  rw [baseFilter_getD W u (by simpa using hu)]

/-- the code's filters are exactly Kaldi's `scales_` (DeltaFeatures constructor), for every order and window -/
theorem deltas_filt_eq_kaldi_scales (W d : Nat) : Kaldi.scales (α := α) W d = Deltas.filt W d :=
  scales_eq_filt W d

/-- normalising the window before each convolution (the code) equals convolving the integer window
`[-W … W]` `d` times and dividing by `Z^d` (the closed form of the Kaldi recursion) -/
theorem deltas_filt_normaliser (W d : Nat) :
    Deltas.filt (α := α) W d = (filtNum W d).map fun v => v / normZ W ^ d := filt_eq_num_div W d

end Filters

/-! ## Deltas: one lane -/
section Lane
variable {α : Type} [Field α] [Inhabited α]

/-- The body of `apply`'s inner loop - `np.pad`, `np.correlate(…, "full")`, the crop
`[len(filt)-1 : -len(filt)+1]` and the cast - returns, for a filter with `2m+1` taps (`m ≥ 1`), a lane of
the same length whose sample `t` is `cast (Σ_j filt[j] · ext(x)(t + j - m))`. -/
theorem deltas_lane_value (filt : List α) (mode : PadMode α) (cast : α → α) (x : List α) (m : Nat)
    (hL : filt.length = 2 * m + 1) (hm : 1 ≤ m) :
    (Deltas.delta1d filt mode cast x).length = x.length ∧
    ∀ t, t < x.length →
      (Deltas.delta1d filt mode cast x)[t]? = some (cast (∑ j ∈ range (2 * m + 1),
        filt.getD j 0 * ext m m mode x ((t : Int) + (j : Int) - (m : Int)))) :=
  ⟨delta1d_length filt mode cast x m hL hm, fun t ht => delta1d_getElem? filt mode cast x m t hL hm ht⟩

/-- with `pad_mode="edge"` (the default) the documented value is Kaldi's `DeltaFeatures::Process` -/
theorem deltas_edge_eq_kaldi (W d : Nat) (lane : List α) (t : Nat) (ht : t < lane.length) :
    deltaValue W d .edge lane t = (Kaldi.process W d lane).getD t 0 :=
  deltaValue_edge_eq_kaldi W d lane t ht

end Lane

/-! ## Deltas: N-D layout -/
section DeltasND
variable {α : Type} [Field α] [Inhabited α]

/-- `concatenate=True`: the result has the input's shape with the extent along `target_axis` multiplied by
`num_deltas + 1`; `target_axis` is normalised as NumPy does (negative values count from the end). -/
theorem deltas_shape_concat (c : Deltas α) (x out : Tensor α) (axis : Int) (hr : x.shape.length ≠ 0)
    (hc : c.concatenate = true) (h : c.apply x axis = .ok out) :
    ∃ ta, normAxis c.targetAxis x.shape.length = some ta ∧
      out.shape = x.shape.set ta (x.shape.getD ta 0 * (c.numDeltas + 1)) ∧ out.WF := by
  obtain ⟨_, ta, hta, rfl⟩ := Deltas.apply_concat_inv c x out axis hr hc h
  exact ⟨ta, hta, rfl, ofFn_wf _ _⟩

/-- `concatenate=False`: a new axis of extent `num_deltas + 1` is inserted at `target_axis` (normalised
against `ndim + 1`). -/
theorem deltas_shape_stack (c : Deltas α) (x out : Tensor α) (axis : Int) (hr : x.shape.length ≠ 0)
    (hc : c.concatenate = false) (h : c.apply x axis = .ok out) :
    ∃ ta, normAxis c.targetAxis (x.shape.length + 1) = some ta ∧
      out.shape = x.shape.insertIdx ta (c.numDeltas + 1) ∧ out.WF := by
  obtain ⟨_, ta, hta, rfl⟩ := Deltas.apply_stack_inv c x out axis hr hc h
  exact ⟨ta, hta, rfl, ofFn_wf _ _⟩

/-- `concatenate=True`, every output element.  With `S` the input's extent along the target axis, the
element at `idx` belongs to block `d = idx[ta] / S` and source position `src = idx[ta := idx[ta] % S]`;
block 0 is the input itself, block `d ≥ 1` is the order-`d` delta of the lane of the input through `src`
along `axis % ndim`. -/
theorem deltas_value_concat (c : Deltas α) (x out : Tensor α) (axis : Int) (hr : x.shape.length ≠ 0)
    (hW : 0 < c.contextWindow) (hc : c.concatenate = true) (h : c.apply x axis = .ok out)
    (idx : List Nat) (hv : valid out.shape idx = true) :
    ∃ ta, normAxis c.targetAxis x.shape.length = some ta ∧
      let S := x.shape.getD ta 0
      let d := idx.getD ta 0 / S
      let src := idx.set ta (idx.getD ta 0 % S)
      let ax := (axis % (x.shape.length : Int)).toNat
      d ≤ c.numDeltas ∧ valid x.shape src = true ∧
      out.get idx = some (if d = 0 then x.val src
        else c.cast (deltaValue c.contextWindow d c.padMode (x.lane ax src) (src.getD ax 0))) := by
  obtain ⟨_, ta, hta, rfl⟩ := Deltas.apply_concat_inv c x out axis hr hc h
  refine ⟨ta, hta, ?_⟩
  have hta' := normAxis_lt hta
  simp only [ofFn_shape] at hv
  have hlen : idx.length = x.shape.length := by simpa using valid_length hv
  have hj : idx.getD ta 0 < x.shape.getD ta 0 * (c.numDeltas + 1) := by
    have := valid_getD hv (a := ta) (by simpa using hta')
    rwa [getD_set_eq, if_pos ⟨rfl, hta'⟩] at this
  have hS : 0 < x.shape.getD ta 0 := by
    rcases Nat.eq_zero_or_pos (x.shape.getD ta 0) with h0 | h0
    · rw [h0] at hj; omega
    · exact h0
  have hd : idx.getD ta 0 / x.shape.getD ta 0 < c.numDeltas + 1 :=
    Nat.div_lt_of_lt_mul hj
  have hsrc : valid x.shape (idx.set ta (idx.getD ta 0 % x.shape.getD ta 0)) = true :=
    valid_of_valid_set hv (Nat.mod_lt _ hS)
  refine ⟨by omega, hsrc, ?_⟩
  rw [get_ofFn _ _ _ hv,
    concatVal_uniform ta (x.shape.getD ta 0) _ idx x
      (by intro t ht
          rcases List.mem_cons.1 ht with h | h
          · rw [h]
          · rw [Deltas.feats_shape c _ x t h])
      (by omega) (by simpa [Deltas.feats_length] using hj)]
  congr 1
  rcases hq : idx.getD ta 0 / x.shape.getD ta 0 with _ | d
  · simp
  · rw [hq] at hd
    simp only [Nat.succ_ne_zero, if_false]
    exact Deltas.feats_val c _ x d (by omega) hW _ hsrc (emod_axis_lt axis hr)

/-- `concatenate=False`, every output element: block `d = idx[ta]`, source position `idx` with
coordinate `ta` erased. -/
theorem deltas_value_stack (c : Deltas α) (x out : Tensor α) (axis : Int) (hr : x.shape.length ≠ 0)
    (hW : 0 < c.contextWindow) (hc : c.concatenate = false) (h : c.apply x axis = .ok out)
    (idx : List Nat) (hv : valid out.shape idx = true) :
    ∃ ta, normAxis c.targetAxis (x.shape.length + 1) = some ta ∧
      let d := idx.getD ta 0
      let src := idx.eraseIdx ta
      let ax := (axis % (x.shape.length : Int)).toNat
      d ≤ c.numDeltas ∧ valid x.shape src = true ∧
      out.get idx = some (if d = 0 then x.val src
        else c.cast (deltaValue c.contextWindow d c.padMode (x.lane ax src) (src.getD ax 0))) := by
  obtain ⟨_, ta, hta, rfl⟩ := Deltas.apply_stack_inv c x out axis hr hc h
  refine ⟨ta, hta, ?_⟩
  have hta' := normAxis_lt hta
  simp only [ofFn_shape] at hv
  obtain ⟨hd, hsrc⟩ := valid_insertIdx (by omega) hv
  refine ⟨by omega, hsrc, ?_⟩
  rw [get_ofFn _ _ _ hv]
  congr 1
  rcases hq : idx.getD ta 0 with _ | d
  · simp
  · rw [hq] at hd
    simp only [Nat.succ_ne_zero, if_false]
    exact Deltas.feats_val c _ x d (by omega) hW _ hsrc (emod_axis_lt axis hr)

/-- the first block is the input, element for element (`concatenate=True`) -/
theorem deltas_block0_is_input_concat (c : Deltas α) (x out : Tensor α) (axis : Int) (hwf : x.WF)
    (hr : x.shape.length ≠ 0) (hW : 0 < c.contextWindow) (hc : c.concatenate = true)
    (h : c.apply x axis = .ok out) (idx : List Nat) (hv : valid x.shape idx = true) :
    out.get idx = x.get idx := by
  obtain ⟨ta, hta, hsh, _⟩ := deltas_shape_concat c x out axis hr hc h
  have hta' := normAxis_lt hta
  have hlt : idx.getD ta 0 < x.shape.getD ta 0 := valid_getD hv hta'
  have hvo : valid out.shape idx = true := by
    rw [hsh]
    have := valid_set (a := ta) (n := x.shape.getD ta 0 * (c.numDeltas + 1)) (v := idx.getD ta 0) hv
      (by rw [Nat.mul_succ]; omega)
    rwa [set_getD_self] at this
  obtain ⟨ta', hta2, _, _, hget⟩ := deltas_value_concat c x out axis hr hW hc h idx hvo
  rw [hta] at hta2
  cases hta2
  rw [hget]
  simp only [Nat.div_eq_of_lt hlt, if_true, Nat.mod_eq_of_lt hlt, set_getD_self]
  exact (get_eq_some_val x hwf idx hv).symm

/-- the first block is the input, element for element (`concatenate=False`): `out[…, 0 at ta, …] = x[…]` -/
theorem deltas_block0_is_input_stack (c : Deltas α) (x out : Tensor α) (axis : Int) (hwf : x.WF)
    (hr : x.shape.length ≠ 0) (hW : 0 < c.contextWindow) (hc : c.concatenate = false)
    (h : c.apply x axis = .ok out) (idx : List Nat) (hv : valid x.shape idx = true) :
    ∃ ta, normAxis c.targetAxis (x.shape.length + 1) = some ta ∧
      out.get (idx.insertIdx ta 0) = x.get idx := by
  obtain ⟨ta, hta, hsh, _⟩ := deltas_shape_stack c x out axis hr hc h
  refine ⟨ta, hta, ?_⟩
  have hta' := normAxis_lt hta
  have hlen : idx.length = x.shape.length := valid_length hv
  have hvo : valid out.shape (idx.insertIdx ta 0) = true := by
    rw [hsh]
    exact valid_insertIdx_mk (by omega) hv (by omega)
  obtain ⟨ta', hta2, _, _, hget⟩ := deltas_value_stack c x out axis hr hW hc h _ hvo
  rw [hta] at hta2
  cases hta2
  rw [hget]
  have h1 : (idx.insertIdx ta 0).getD ta 0 = 0 := by
    simp only [List.getD_eq_getElem?_getD, List.getElem?_insertIdx_self]
    split <;> rfl
  have h2 : (idx.insertIdx ta 0).eraseIdx ta = idx := List.eraseIdx_insertIdx_self 0
  simp only [h1, if_true, h2]
  exact (get_eq_some_val x hwf idx hv).symm

/-- exactly when and how `Deltas.apply` raises on an input of rank ≥ 1: `ValueError` iff `np.pad` meets an
empty filtered axis with a non-constant mode inside the loops; otherwise `AxisError` iff `target_axis` is
outside NumPy's range for `concatenate` / `stack`; otherwise it returns. -/
theorem deltas_error_iff (c : Deltas α) (x : Tensor α) (axis : Int) (hr : x.shape.length ≠ 0) (e : Err) :
    c.apply x axis = .error e ↔
      (Deltas.padError c x axis ∧ e = .value) ∨
      (¬ Deltas.padError c x axis ∧ e = .axisErr ∧
        normAxis c.targetAxis (if c.concatenate then x.shape.length else x.shape.length + 1) = none) :=
  Deltas.apply_error_iff c x axis hr e

/-- Purity.  `applyIO` returns `(result, the caller's array after the call)`; no statement of
`Deltas.apply` stores into `features` and `in_place` is never read: the array is unchanged and the result
does not depend on `in_place`.  (Value semantics; NumPy's aliasing is checked by the harness on every run.) -/
theorem deltas_pure (c : Deltas α) (x : Tensor α) (axis : Int) (inPlace : Bool) :
    (Deltas.applyIO c x axis inPlace).2 = x ∧
    (Deltas.applyIO c x axis inPlace).1 = (Deltas.applyIO c x axis false).1 := ⟨rfl, rfl⟩

end DeltasND

/-! ## the padding modes (what `ext` is, mode by mode, at every integer position) -/
section Ext
variable {α : Type} [Inhabited α]

/-- inside the lane every mode returns the lane itself -/
theorem ext_inside (l r : Nat) (mode : PadMode α) (x : List α) (i : Int)
    (h : 0 ≤ i ∧ i < (x.length : Int)) : Tensor.ext l r mode x i = x.getD i.toNat default :=
  Stack.ext_inside l r mode x i h

/-- `edge`: positions are clamped to `[0, T-1]` (Kaldi's frame clamping) -/
theorem ext_edge (l r : Nat) (x : List α) (i : Int) :
    Tensor.ext l r .edge x i
      = x.getD (if i < 0 then 0 else if i ≥ (x.length : Int) then x.length - 1 else i.toNat) default := by
  unfold Tensor.ext
  by_cases h : 0 ≤ i ∧ i < (x.length : Int)
  · simp only [h, and_self, if_true]
    rw [if_neg (by omega), if_neg (by omega)]
  · simp only [h, if_false]
    by_cases hneg : i < 0
    · simp only [hneg, if_true]
    · simp only [hneg, if_false]
      rw [if_pos (by omega)]

/-- `constant`: `constant_values[0]` on the left, `constant_values[1]` on the right -/
theorem ext_constant (l r : Nat) (cl cr : α) (x : List α) (i : Int) :
    (i < 0 → Tensor.ext l r (.constant cl cr) x i = cl) ∧
    ((x.length : Int) ≤ i → Tensor.ext l r (.constant cl cr) x i = cr) := by
  constructor
  · intro h
    unfold Tensor.ext
    simp only [show ¬ (0 ≤ i ∧ i < (x.length : Int)) by omega, if_false, h, if_true]
  · intro h
    unfold Tensor.ext
    simp only [show ¬ (0 ≤ i ∧ i < (x.length : Int)) by omega, if_false,
      show ¬ i < 0 by omega]

/-- `wrap`: periodic with period `T`, at every position -/
theorem ext_wrap (l r : Nat) (x : List α) (i : Int) :
    Tensor.ext l r .wrap x i = x.getD (i % (x.length : Int)).toNat default := by
  unfold Tensor.ext
  by_cases h : 0 ≤ i ∧ i < (x.length : Int)
  · simp only [h, and_self, if_true]
    rw [Int.emod_eq_of_lt h.1 h.2]
  · simp only [h, if_false]

/-- `reflect` (even): periodic with period `2(T-1)`, mirrored without repeating the edge sample;
a single sample is repeated (NumPy's legacy behaviour) -/
theorem ext_reflect (l r : Nat) (x : List α) (i : Int) :
    (x.length = 1 → Tensor.ext l r .reflect x i = x.getD 0 default) ∧
    (2 ≤ x.length → Tensor.ext l r .reflect x i =
      x.getD (if i % (2 * ((x.length : Int) - 1)) < (x.length : Int) then i % (2 * ((x.length : Int) - 1))
              else 2 * ((x.length : Int) - 1) - i % (2 * ((x.length : Int) - 1))).toNat default) := by
  constructor
  · intro h1
    unfold Tensor.ext
    by_cases h : 0 ≤ i ∧ i < (x.length : Int)
    · simp only [h, and_self, if_true]
      congr 1; omega
    · simp only [h1, Nat.cast_one] at h ⊢
      simp only [h, if_false, if_true]
  · intro h2
    unfold Tensor.ext
    by_cases h : 0 ≤ i ∧ i < (x.length : Int)
    · simp only [h, and_self, if_true]
      rw [Int.emod_eq_of_lt h.1 (by omega), if_pos h.2]
    · simp only [h, if_false]
      rw [if_neg (by omega)]

/-- `symmetric` (even): periodic with period `2T`, mirrored with the edge sample repeated -/
theorem ext_symmetric (l r : Nat) (x : List α) (i : Int) (hT : 0 < x.length) :
    Tensor.ext l r .symmetric x i =
      x.getD (if i % (2 * (x.length : Int)) < (x.length : Int) then i % (2 * (x.length : Int))
              else 2 * (x.length : Int) - 1 - i % (2 * (x.length : Int))).toNat default := by
  unfold Tensor.ext
  by_cases h : 0 ≤ i ∧ i < (x.length : Int)
  · simp only [h, and_self, if_true]
    rw [Int.emod_eq_of_lt h.1 (by omega), if_pos h.2]
  · simp only [h, if_false]

end Ext

/-! ## Stack -/
section StackProps
variable {α : Type} [Inhabited α]

omit [Inhabited α] in
/-- `__init__` only lets `num_vectors ≥ 1` through -/
theorem stack_new_pos (n ta : Int) (pm : Option (PadMode α)) (c : Stack α) (h : Stack.new n ta pm = .ok c) :
    1 ≤ c.numVectors ∧ (c.numVectors : Int) = n := by
  unfold Stack.new at h
  by_cases hn : n < 1
  · simp [hn] at h
  · simp only [hn, if_false] at h
    injection h with h
    subst h
    simp only
    omega

/-- The 2-D fast path (`[.copy()] [.T] [:T] .reshape(nT, nF) [.T]`) and the N-D path (strided slices
concatenated along the feature axis) return the same tensor: `apply` equals `apply` with the
`ndim == 2` branch deleted - for every input, both `time_axis` values, every `num_vectors`, with or
without padding, whatever `in_place` is. -/
theorem stack_2d_eq_nd (c : Stack α) (x : Tensor α) (axis : Int) (inPlace : Bool) (hn : 1 ≤ c.numVectors) :
    c.apply x axis inPlace = c.applyNd x axis :=
  Stack.apply_eq_applyNd c x axis inPlace hn

/-- the same at the level of the two branches, for any rank-2 tensor reaching them -/
theorem stack_2d_path_eq_nd_path (ip : Bool) (n ta ax nT : Nat) (x1 : Tensor α) (hrank : x1.shape.length = 2)
    (hax : ax < 2) (hta : ta < 2) (hne : ax ≠ ta) (hn : 1 ≤ n) (hle : nT * n ≤ x1.shape.getD ta 0) :
    Stack.path2d ip ta (nT * n) nT (x1.shape.getD ax 0 * n) x1 = Stack.pathNd n ta ax (nT * n) x1 :=
  Stack.path2d_eq_pathNd ip n ta ax nT x1 hrank hax hta hne hn hle

/-- shape of the result: `frames` along the time axis, `F · num_vectors` along the feature axis; the two
axes are `time_axis % ndim` and `axis % ndim` (so negative values work) and must differ -/
theorem stack_shape (c : Stack α) (x out : Tensor α) (axis : Int) (ip : Bool) (hn : 1 ≤ c.numVectors)
    (h : c.apply x axis ip = .ok out) :
    let ta := (c.timeAxis % (x.shape.length : Int)).toNat
    let ax := (axis % (x.shape.length : Int)).toNat
    x.shape.length ≠ 0 ∧ ax ≠ ta ∧ ax < x.shape.length ∧ ta < x.shape.length ∧
    out.shape = (x.shape.set ta (Stack.frames c (x.shape.getD ta 0))).set ax
      (x.shape.getD ax 0 * c.numVectors) ∧ out.WF := by
  obtain ⟨hr, hne, rfl⟩ := Stack.apply_inv c x out axis ip hn h
  exact ⟨hr, hne, emod_axis_lt _ hr, emod_axis_lt _ hr, rfl, ofFn_wf _ _⟩

/-- Every element of the result.  With `F` the feature extent, the element at `idx` comes from frame
`t = idx[ta]·n + idx[ax] / F` and feature `idx[ax] % F`:
`out[…, t', …, v·F + f, …] = in[…, t'·n + v, …, f, …]` - the input where `t < T`, otherwise (only possible
with a pad mode and an incomplete final run) the `np.pad` extension of that lane by `n - T % n`. -/
theorem stack_value (c : Stack α) (x out : Tensor α) (axis : Int) (ip : Bool) (hwf : x.WF)
    (hn : 1 ≤ c.numVectors) (h : c.apply x axis ip = .ok out) (idx : List Nat)
    (hv : valid out.shape idx = true) :
    let ta := (c.timeAxis % (x.shape.length : Int)).toNat
    let ax := (axis % (x.shape.length : Int)).toNat
    let F := x.shape.getD ax 0
    let T := x.shape.getD ta 0
    let t := idx.getD ax 0 / F + idx.getD ta 0 * c.numVectors
    let src := (idx.set ax (idx.getD ax 0 % F)).set ta t
    (t < T → valid x.shape src = true ∧ out.get idx = x.get src) ∧
    (T ≤ t → ∃ mode, c.padMode = some mode ∧ T % c.numVectors ≠ 0 ∧
        t < T + (c.numVectors - T % c.numVectors) ∧
        out.get idx = some (Tensor.ext 0 (c.numVectors - T % c.numVectors) mode (x.lane ta src) (t : Nat))) := by
  obtain ⟨hr, hne, rfl⟩ := Stack.apply_inv c x out axis ip hn h
  intro ta ax F T t src
  obtain ⟨hget0, hvsrc0, htlt0, hvx0⟩ := Stack.result_get c x axis hn hr hne idx hv
  have hget : (ofFn ((x.shape.set ta (Stack.frames c T)).set ax (F * c.numVectors))
      (fun idx => concatVal ((List.range c.numVectors).map fun i =>
        (Stack.padded c ta x).sliceAxis ta i (Stack.frames c T * c.numVectors) c.numVectors) ax idx)).get idx
      = some ((Stack.padded c ta x).val src) := hget0
  have hvsrc : valid (Stack.padded c ta x).shape src = true := hvsrc0
  have htlt : t < Stack.paddedLen c T := htlt0
  have hvx : t < T → valid x.shape src = true := hvx0
  have hta : ta < x.shape.length := emod_axis_lt _ hr
  have hpv := Stack.padded_val c ta x src hta hvsrc
  have hsrcta : src.getD ta 0 = t := by
    show ((idx.set ax (idx.getD ax 0 % F)).set ta t).getD ta 0 = t
    rw [getD_set_eq, if_pos ⟨rfl, by
      rw [List.length_set]
      have := valid_length hv
      simp only [ofFn_shape, List.length_set] at this
      omega⟩]
  rw [hsrcta] at hpv
  constructor
  · intro hlt
    have hvs := hvx hlt
    refine ⟨hvs, hget.trans ?_⟩
    rw [hpv, if_pos hlt]
    exact (get_eq_some_val x hwf src hvs).symm
  · intro hge
    have hnlt : ¬ t < T := by omega
    unfold Stack.paddedLen at htlt
    cases hm : c.padMode with
    | none =>
      simp only [hm, Option.isSome_none, Bool.false_eq_true, false_and, if_false] at htlt
      exact absurd htlt hnlt
    | some mode =>
      simp only [hm, Option.isSome_some, true_and] at htlt
      by_cases hrem : T % c.numVectors ≠ 0
      · rw [if_pos hrem] at htlt
        refine ⟨mode, rfl, hrem, htlt, hget.trans ?_⟩
        rw [hpv, if_neg hnlt, hm]
      · rw [if_neg hrem] at htlt
        exact absurd htlt hnlt

/-- no pad mode: `T // n` frames; the incomplete final run is dropped - every element comes from an input
frame `t < (T // n)·n ≤ T`, frames `(T // n)·n … T-1` are never read -/
theorem stack_drop (c : Stack α) (x out : Tensor α) (axis : Int) (ip : Bool) (hn : 1 ≤ c.numVectors)
    (hpm : c.padMode = none) (h : c.apply x axis ip = .ok out) :
    let ta := (c.timeAxis % (x.shape.length : Int)).toNat
    let ax := (axis % (x.shape.length : Int)).toNat
    out.shape.getD ta 0 = x.shape.getD ta 0 / c.numVectors ∧
    ∀ idx, valid out.shape idx = true →
      idx.getD ax 0 / x.shape.getD ax 0 + idx.getD ta 0 * c.numVectors
        < x.shape.getD ta 0 / c.numVectors * c.numVectors := by
  obtain ⟨hr, hne, rfl⟩ := Stack.apply_inv c x out axis ip hn h
  intro ta ax
  have e1 : Stack.taOf c x = ta := rfl
  have e2 : Stack.axOf x axis = ax := rfl
  simp only [e1, e2] at *
  have hta : ta < x.shape.length := emod_axis_lt _ hr
  have hfr : Stack.frames c (x.shape.getD ta 0) = x.shape.getD ta 0 / c.numVectors := by
    unfold Stack.frames; simp [hpm]
  constructor
  · show ((x.shape.set ta _).set ax _).getD ta 0 = _
    rw [getD_set_eq, if_neg (by intro h; exact hne h.1), getD_set_eq, if_pos ⟨rfl, hta⟩, hfr]
  · intro idx hv
    obtain ⟨_, _, htlt, _⟩ := Stack.result_get c x axis hn hr hne idx hv
    have hpl : Stack.paddedLen c (x.shape.getD ta 0) = x.shape.getD ta 0 := by
      unfold Stack.paddedLen; simp [hpm]
    -- sharper than `t < T`: t < frames * n
    have hax : ax < x.shape.length := emod_axis_lt _ hr
    have hj : idx.getD ax 0 < x.shape.getD ax 0 * c.numVectors := by
      have := valid_getD hv (a := ax) (by simpa using hax)
      rwa [ofFn_shape, getD_set_eq, if_pos ⟨rfl, by simpa using hax⟩] at this
    have ht' : idx.getD ta 0 < x.shape.getD ta 0 / c.numVectors := by
      have := valid_getD hv (a := ta) (by simpa using hta)
      rwa [ofFn_shape, getD_set_eq, if_neg (by intro h; exact hne h.1), getD_set_eq,
        if_pos ⟨rfl, hta⟩, hfr] at this
    have hvn : idx.getD ax 0 / x.shape.getD ax 0 < c.numVectors := Nat.div_lt_of_lt_mul hj
    calc idx.getD ax 0 / x.shape.getD ax 0 + idx.getD ta 0 * c.numVectors
        < (idx.getD ta 0 + 1) * c.numVectors := by rw [Nat.add_mul, Nat.one_mul]; omega
      _ ≤ x.shape.getD ta 0 / c.numVectors * c.numVectors := Nat.mul_le_mul_right _ ht'

/-- with a pad mode: `⌈T / n⌉` frames, which cover every input frame (nothing is dropped) and reach at most
`n - 1` positions beyond the input -/
theorem stack_pad (c : Stack α) (x out : Tensor α) (axis : Int) (ip : Bool) (hn : 1 ≤ c.numVectors)
    (mode : PadMode α) (hpm : c.padMode = some mode) (h : c.apply x axis ip = .ok out) :
    let ta := (c.timeAxis % (x.shape.length : Int)).toNat
    let T := x.shape.getD ta 0
    out.shape.getD ta 0 = (T + c.numVectors - 1) / c.numVectors ∧
    T ≤ out.shape.getD ta 0 * c.numVectors ∧ out.shape.getD ta 0 * c.numVectors < T + c.numVectors := by
  obtain ⟨hr, hne, rfl⟩ := Stack.apply_inv c x out axis ip hn h
  intro ta T
  have e1 : Stack.taOf c x = ta := rfl
  simp only [e1] at *
  have hta : ta < x.shape.length := emod_axis_lt _ hr
  have hsh : ((x.shape.set ta (Stack.frames c T)).set (Stack.axOf x axis)
      (x.shape.getD (Stack.axOf x axis) 0 * c.numVectors)).getD ta 0 = Stack.frames c T := by
    rw [getD_set_eq, if_neg (by intro h; exact hne h.1), getD_set_eq, if_pos ⟨rfl, hta⟩]
  show ((x.shape.set ta _).set _ _).getD ta 0 = _ ∧ T ≤ ((x.shape.set ta _).set _ _).getD ta 0 * _ ∧ ((x.shape.set ta _).set _ _).getD ta 0 * _ < _
  rw [hsh]
  exact Stack.frames_some_facts c T hn (by simp [hpm])

/-- fewer frames than `num_vectors`: without a pad mode the result is empty (zero frames, no data); with
one (and at least one frame) it is exactly one padded frame -/
theorem stack_short (c : Stack α) (x out : Tensor α) (axis : Int) (ip : Bool) (hn : 1 ≤ c.numVectors)
    (h : c.apply x axis ip = .ok out)
    (hT : x.shape.getD (c.timeAxis % (x.shape.length : Int)).toNat 0 < c.numVectors) :
    let ta := (c.timeAxis % (x.shape.length : Int)).toNat
    (c.padMode = none → out.shape.getD ta 0 = 0 ∧ out.data = []) ∧
    (c.padMode.isSome = true → 0 < x.shape.getD ta 0 → out.shape.getD ta 0 = 1) := by
  obtain ⟨hr, hne, rfl⟩ := Stack.apply_inv c x out axis ip hn h
  intro ta
  have e1 : Stack.taOf c x = ta := rfl
  simp only [e1] at *
  have hta : ta < x.shape.length := emod_axis_lt _ hr
  have hsh : ((x.shape.set ta (Stack.frames c (x.shape.getD ta 0))).set (Stack.axOf x axis)
      (x.shape.getD (Stack.axOf x axis) 0 * c.numVectors)).getD ta 0 = Stack.frames c (x.shape.getD ta 0) := by
    rw [getD_set_eq, if_neg (by intro h; exact hne h.1), getD_set_eq, if_pos ⟨rfl, hta⟩]
  have hdiv : x.shape.getD ta 0 / c.numVectors = 0 := Nat.div_eq_of_lt hT
  have hmod : x.shape.getD ta 0 % c.numVectors = x.shape.getD ta 0 := Nat.mod_eq_of_lt hT
  constructor
  · intro hpm
    have hfr : Stack.frames c (x.shape.getD ta 0) = 0 := by
      unfold Stack.frames
      simp only [hpm, Option.isSome_none, Bool.false_eq_true, false_and, if_false]
      exact hdiv
    refine ⟨by show ((x.shape.set ta _).set _ _).getD ta 0 = 0; rw [hsh, hfr], ?_⟩
    apply List.eq_nil_of_length_eq_zero
    show (List.map _ (List.range (numel _))).length = 0
    rw [List.length_map, List.length_range]
    exact numel_eq_zero_of_getD _ ta (by simpa using hta) (by rw [hsh, hfr])
  · intro hpm hpos
    show ((x.shape.set ta _).set _ _).getD ta 0 = 1
    rw [hsh]
    unfold Stack.frames
    rw [if_pos ⟨hpm, by omega⟩, hdiv]

/-- exactly when and how `Stack.apply` raises: `ZeroDivisionError` for rank 0 (`axis % 0`),
`RuntimeError` when `axis % ndim == time_axis % ndim` (always for rank 1); otherwise it returns -/
theorem stack_error_iff (c : Stack α) (x : Tensor α) (axis : Int) (ip : Bool) (hn : 1 ≤ c.numVectors)
    (e : Err) :
    c.apply x axis ip = .error e ↔
      (x.shape.length = 0 ∧ e = .zeroDivision) ∨
      (x.shape.length ≠ 0 ∧
        (axis % (x.shape.length : Int)).toNat = (c.timeAxis % (x.shape.length : Int)).toNat ∧ e = .runtime) :=
  Stack.apply_error_iff c x axis ip hn e

/-- Purity: the caller's array is unchanged and the returned values do not depend on `in_place`
(value semantics; see `deltas_pure`) -/
theorem stack_pure (c : Stack α) (x : Tensor α) (axis : Int) (inPlace : Bool) (hn : 1 ≤ c.numVectors) :
    (Stack.applyIO c x axis inPlace).2 = x ∧
    (Stack.applyIO c x axis inPlace).1 = (Stack.applyIO c x axis false).1 := by
  refine ⟨rfl, ?_⟩
  show c.apply x axis inPlace = c.apply x axis false
  rw [stack_2d_eq_nd c x axis inPlace hn, stack_2d_eq_nd c x axis false hn]

end StackProps

/-! ## Examples: the hypotheses of every implication above are satisfiable on concrete, non-trivial
instances (evaluated by the kernel on the same definitions the theorems are about, at `ℚ`) -/
section Examples

local instance : Inhabited ℚ := ⟨0⟩

private def exX : Tensor ℚ := ⟨[2, 3], [1, 2, 4, 8, 16, 32]⟩
private def exX3 : Tensor ℚ := ⟨[2, 1, 3], [1, 2, 4, 8, 16, 32]⟩
private def exDc : Deltas ℚ :=
  { numDeltas := 2, targetAxis := -1, concatenate := true, contextWindow := 1, padMode := .edge }
private def exDs : Deltas ℚ :=
  { numDeltas := 1, targetAxis := -3, concatenate := false, contextWindow := 2, padMode := .reflect }

-- the filters: `W = 2` gives the familiar Kaldi / HTK regression window and its self-convolution
example : Deltas.filt (α := ℚ) 2 1 = [-1/5, -1/10, 0, 1/10, 1/5] := by decide +kernel
example : Kaldi.scales (α := ℚ) 2 2 = [1/25, 1/25, 1/100, -1/25, -1/10, -1/25, 1/100, 1/25, 1/25] := by
  decide +kernel
example : Deltas.filts (α := ℚ) 2 2 = [[1], [-1/5, -1/10, 0, 1/10, 1/5],
    [1/25, 1/25, 1/100, -1/25, -1/10, -1/25, 1/100, 1/25, 1/25]] := by decide +kernel
example : normZ (α := ℚ) 2 = 10 ∧ filtNum (α := ℚ) 2 2 = [4, 4, 1, -4, -10, -4, 1, 4, 4] := by decide +kernel

-- `deltas_lane_value`: a 5-tap filter (`m = 2 ≥ 1`) on a lane shorter than the pad, edge mode
example : (Deltas.filt (α := ℚ) 2 1).length = 2 * 2 + 1 ∧ (1 : Nat) ≤ 2 ∧
    Deltas.delta1d (Deltas.filt (α := ℚ) 2 1) .edge id [1, 4, 9] = [19/10, 12/5, 21/10] := by decide +kernel
-- `deltas_edge_eq_kaldi` on that lane (frame 2 < 3)
example : (2 : Nat) < ([1, 4, 9] : List ℚ).length ∧
    deltaValue (α := ℚ) 2 1 .edge [1, 4, 9] 2 = 21/10 ∧ Kaldi.process (α := ℚ) 2 1 [1, 4, 9] = [19/10, 12/5, 21/10] := by
  decide +kernel

-- `deltas_shape_concat` / `deltas_value_concat` / `deltas_block0_is_input_concat`:
-- rank 2, filtered along axis 0, target_axis = -1, two delta orders
example : exX.WF ∧ exX.shape.length ≠ 0 ∧ 0 < exDc.contextWindow ∧ exDc.concatenate = true ∧
    exDc.apply exX 0 = .ok ⟨[2, 9], [1, 2, 4, 7/2, 7, 14, 7/4, 7/2, 7, 8, 16, 32, 7/2, 7, 14, -7/4, -7/2, -7]⟩ ∧
    valid [2, 9] [1, 7] = true ∧ valid exX.shape [1, 2] = true := by decide +kernel

-- `deltas_shape_stack` / `deltas_value_stack` / `deltas_block0_is_input_stack`:
-- rank 3 with a singleton axis, negative axis and target_axis, reflect padding wider than the lane
example : exX3.WF ∧ exX3.shape.length ≠ 0 ∧ 0 < exDs.contextWindow ∧ exDs.concatenate = false ∧
    exDs.apply exX3 (-1) = .ok ⟨[2, 2, 1, 3], [1, 2, 4, 0, 3/10, 0, 8, 16, 32, 0, 12/5, 0]⟩ ∧
    valid [2, 2, 1, 3] [1, 1, 0, 1] = true ∧ valid exX3.shape [1, 0, 2] = true := by decide +kernel

-- `deltas_error_iff`: both error branches occur (empty filtered axis with a lane; target_axis out of range),
-- and a constant pad mode on an empty filtered axis does not raise
example : Deltas.padError { exDc with numDeltas := 1 } (⟨[0, 2], []⟩ : Tensor ℚ) 0 ∧
    ({ exDc with numDeltas := 1 } : Deltas ℚ).apply ⟨[0, 2], []⟩ 0 = .error .value ∧
    ({ exDc with targetAxis := 2 } : Deltas ℚ).apply exX 0 = .error .axisErr ∧
    ({ exDc with padMode := .constant 0 0 } : Deltas ℚ).apply ⟨[0, 2], []⟩ 0 = .ok ⟨[0, 6], []⟩ := by
  decide +kernel

-- the padding modes, beyond one period
example : (List.range 9).map (fun k => Tensor.ext 0 0 .reflect ([1, 2, 3] : List ℚ) ((k : Int) - 4))
      = [1, 2, 3, 2, 1, 2, 3, 2, 1] ∧
    (List.range 9).map (fun k => Tensor.ext 0 0 .symmetric ([1, 2, 3] : List ℚ) ((k : Int) - 4))
      = [3, 3, 2, 1, 1, 2, 3, 3, 2] ∧
    (List.range 9).map (fun k => Tensor.ext 0 0 .wrap ([1, 2, 3] : List ℚ) ((k : Int) - 4))
      = [3, 1, 2, 3, 1, 2, 3, 1, 2] ∧
    (List.range 7).map (fun k => Tensor.ext 0 0 (.constant 7 9) ([1, 2, 3] : List ℚ) ((k : Int) - 2))
      = [7, 7, 1, 2, 3, 9, 9] ∧
    (List.range 7).map (fun k => Tensor.ext 0 0 .edge ([1, 2, 3] : List ℚ) ((k : Int) - 2))
      = [1, 1, 1, 2, 3, 3, 3] := by decide +kernel

private def exS2 : Tensor ℚ := ⟨[2, 5], [0, 1, 2, 3, 4, 5, 6, 7, 8, 9]⟩
private def exS3 : Tensor ℚ := ⟨[5, 1, 2], [0, 1, 2, 3, 4, 5, 6, 7, 8, 9]⟩
private def exSt (n : Nat) (ta : Int) (pm : Option (PadMode ℚ)) : Stack ℚ :=
  { numVectors := n, timeAxis := ta, padMode := pm }

-- `stack_new_pos`
example : ∃ c : Stack ℚ, Stack.new 3 (-1) none = .ok c ∧ c.numVectors = 3 := ⟨_, rfl, rfl⟩
example : Stack.new (α := ℚ) 0 0 none = .error .value := rfl

-- `stack_2d_eq_nd`, `stack_shape`, `stack_value`, `stack_pad`: rank 2, time_axis = 1, axis = -2, T = 5, n = 2,
-- wrap padding; the 2-D branch (what `apply` takes) and the N-D branch give the same tensor
example : exS2.WF ∧ 1 ≤ (exSt 2 1 (some .wrap)).numVectors ∧
    (exSt 2 1 (some .wrap)).apply exS2 (-2) = .ok ⟨[4, 3], [0, 2, 4, 5, 7, 9, 1, 3, 0, 6, 8, 5]⟩ ∧
    (exSt 2 1 (some .wrap)).applyNd exS2 (-2) = .ok ⟨[4, 3], [0, 2, 4, 5, 7, 9, 1, 3, 0, 6, 8, 5]⟩ ∧
    valid [4, 3] [2, 2] = true := by decide +kernel
-- `stack_2d_path_eq_nd_path`: its side conditions on that instance (ax = 0, ta = 1, nT = 3 frames of n = 2)
example : exS2.shape.length = 2 ∧ (0 : Nat) < 2 ∧ (1 : Nat) < 2 ∧ (0 : Nat) ≠ 1 ∧ 1 ≤ 2 ∧
    3 * 2 ≤ (exS2.padAxis 1 0 1 .wrap).shape.getD 1 0 := by decide +kernel

-- `stack_drop`: rank 3 (N-D branch), T = 5, n = 2, no pad mode: 2 frames, frame 4 is dropped
example : (exSt 2 0 none).padMode = none ∧
    (exSt 2 0 none).apply exS3 (-1) true = .ok ⟨[2, 1, 4], [0, 1, 2, 3, 4, 5, 6, 7]⟩ := by decide +kernel

-- `stack_short`: T = 3 < n = 4; nothing without padding, one padded frame with it (negative time_axis)
example : (⟨[3, 2], [1, 2, 3, 4, 5, 6]⟩ : Tensor ℚ).shape.getD 0 0 < 4 ∧
    (exSt 4 0 none).apply ⟨[3, 2], [1, 2, 3, 4, 5, 6]⟩ 1 = .ok ⟨[0, 8], []⟩ ∧
    (exSt 4 (-2) (some .symmetric)).apply ⟨[3, 2], [1, 2, 3, 4, 5, 6]⟩ 1
      = .ok ⟨[1, 8], [1, 2, 3, 4, 5, 6, 5, 6]⟩ := by decide +kernel

-- `stack_error_iff`: rank 1 always collides, `axis % ndim` may collide with `time_axis`, rank 0 divides by zero
example : (exSt 2 0 none).apply ⟨[3], [1, 2, 3]⟩ 0 = .error .runtime ∧
    (exSt 2 0 none).apply ⟨[3, 2], [1, 2, 3, 4, 5, 6]⟩ 2 = .error .runtime ∧
    (exSt 2 0 none).apply ⟨[], [1]⟩ 0 = .error .zeroDivision := by decide +kernel

end Examples

end PdsVerif.C15

/-
  C15 — Deltas and Stack produce the documented layout and values.

  The theorems are about the executable model `Model/Post.lean` (mirrored from
  `/repo/src/pydrobert/speech/post.py`) over the row-major tensor model `Model/Tensor.lean`.
  Deltas: any `Field α`; Stack: any type `α`.  Every statement holds for every rank, shape, axis /
  target_axis / time_axis (negative values go through NumPy's / Python's normalisation), num_deltas,
  context window ≥ 1, pad mode and num_vectors - there are no size bounds.
-/
import PdsVerif.Lemmas.Post

namespace PdsVerif.C15
open Finset PdsVerif.Model PdsVerif.Model.Tensor PdsVerif.Model.Post

/-! ## Deltas: the filters -/
section Filters
variable {α : Type} [Field α]

/-- `__init__`'s loop builds `[filt 0, …, filt D]` with `filt 0 = [1]`, `filt (d+1) = convolve (filt d) base` -/
theorem deltas_filts_eq (W D : Nat) :
    Deltas.filts (α := α) W D = (List.range (D + 1)).map (Deltas.filt W) := filts_eq W D

/-- the order-`d` filter has `2·d·W + 1` taps (so `max_offset = d·W`) -/
theorem deltas_filt_length (W d : Nat) : (Deltas.filt (α := α) W d).length = 2 * d * W + 1 :=
  filt_length W d

/-- the recursion in index form: `filt_{d+1}[k] = Σ_u filt_d[k-u] · (u - W)/Z`, `Z = Σ_u (u - W)²` -/
theorem deltas_filt_recursion (W d k : Nat) (hk : k < 2 * (d + 1) * W + 1) :
    (Deltas.filt (α := α) W (d + 1))[k]? = some (∑ u ∈ range (1 + 2 * W),
      (if u ≤ k then (Deltas.filt (α := α) W d).getD (k - u) 0 else 0) * (((u : α) - (W : α)) / normZ W)) := by
  simp only [Deltas.filt]
  rw [convolve_getElem? _ _ _ (by rw [filt_length, baseFilter_length]; ring_nf at hk ⊢; omega),
    baseFilter_length]
  congr 1
  apply Finset.sum_congr rfl
  intro u hu
  rw [baseFilter_getD W u (by simpa using hu)]

/-- the code's filters are exactly Kaldi's `scales_` (DeltaFeatures constructor), for every order and window -/
theorem deltas_filt_eq_kaldi_scales (W d : Nat) : Kaldi.scales (α := α) W d = Deltas.filt W d :=
  scales_eq_filt W d

/-- normalising the window before each convolution (the code) equals convolving the integer window
`[-W … W]` `d` times and dividing by `Z^d` (the closed form of the Kaldi recursion) -/
theorem deltas_filt_normaliser (W d : Nat) :
    Deltas.filt (α := α) W d = (filtNum W d).map fun v => v / normZ W ^ d := filt_eq_num_div W d

end Filters

/-! ## Deltas: one lane -/
section Lane
variable {α : Type} [Field α] [Inhabited α]

/-- The body of `apply`'s inner loop - `np.pad`, `np.correlate(…, "full")`, the crop
`[len(filt)-1 : -len(filt)+1]` and the cast - returns, for a filter with `2m+1` taps (`m ≥ 1`), a lane of
the same length whose sample `t` is `cast (Σ_j filt[j] · ext(x)(t + j - m))`. -/
theorem deltas_lane_value (filt : List α) (mode : PadMode α) (cast : α → α) (x : List α) (m : Nat)
    (hL : filt.length = 2 * m + 1) (hm : 1 ≤ m) :
    (Deltas.delta1d filt mode cast x).length = x.length ∧
    ∀ t, t < x.length →
      (Deltas.delta1d filt mode cast x)[t]? = some (cast (∑ j ∈ range (2 * m + 1),
        filt.getD j 0 * ext m m mode x ((t : Int) + (j : Int) - (m : Int)))) :=
  ⟨delta1d_length filt mode cast x m hL hm, fun t ht => delta1d_getElem? filt mode cast x m t hL hm ht⟩

/-- with `pad_mode="edge"` (the default) the documented value is Kaldi's `DeltaFeatures::Process` -/
theorem deltas_edge_eq_kaldi (W d : Nat) (lane : List α) (t : Nat) (ht : t < lane.length) :
    deltaValue W d .edge lane t = (Kaldi.process W d lane).getD t 0 :=
  deltaValue_edge_eq_kaldi W d lane t ht

end Lane

/-! ## Deltas: N-D layout -/
section DeltasND
variable {α : Type} [Field α] [Inhabited α]

/-- `concatenate=True`: the result has the input's shape with the extent along `target_axis` multiplied by
`num_deltas + 1`; `target_axis` is normalised as NumPy does (negative values count from the end). -/
theorem deltas_shape_concat (c : Deltas α) (x out : Tensor α) (axis : Int) (hr : x.shape.length ≠ 0)
    (hc : c.concatenate = true) (h : c.apply x axis = .ok out) :
    ∃ ta, normAxis c.targetAxis x.shape.length = some ta ∧
      out.shape = x.shape.set ta (x.shape.getD ta 0 * (c.numDeltas + 1)) ∧ out.WF := by
  obtain ⟨_, ta, hta, rfl⟩ := Deltas.apply_concat_inv c x out axis hr hc h
  exact ⟨ta, hta, rfl, ofFn_wf _ _⟩

/-- `concatenate=False`: a new axis of extent `num_deltas + 1` is inserted at `target_axis` (normalised
against `ndim + 1`). -/
theorem deltas_shape_stack (c : Deltas α) (x out : Tensor α) (axis : Int) (hr : x.shape.length ≠ 0)
    (hc : c.concatenate = false) (h : c.apply x axis = .ok out) :
    ∃ ta, normAxis c.targetAxis (x.shape.length + 1) = some ta ∧
      out.shape = x.shape.insertIdx ta (c.numDeltas + 1) ∧ out.WF := by
  obtain ⟨_, ta, hta, rfl⟩ := Deltas.apply_stack_inv c x out axis hr hc h
  exact ⟨ta, hta, rfl, ofFn_wf _ _⟩

/-- `concatenate=True`, every output element.  With `S` the input's extent along the target axis, the
element at `idx` belongs to block `d = idx[ta] / S` and source position `src = idx[ta := idx[ta] % S]`;
block 0 is the input itself, block `d ≥ 1` is the order-`d` delta of the lane of the input through `src`
along `axis % ndim`. -/
theorem deltas_value_concat (c : Deltas α) (x out : Tensor α) (axis : Int) (hr : x.shape.length ≠ 0)
    (hW : 0 < c.contextWindow) (hc : c.concatenate = true) (h : c.apply x axis = .ok out)
    (idx : List Nat) (hv : valid out.shape idx = true) :
    ∃ ta, normAxis c.targetAxis x.shape.length = some ta ∧
      let S := x.shape.getD ta 0
      let d := idx.getD ta 0 / S
      let src := idx.set ta (idx.getD ta 0 % S)
      let ax := (axis % (x.shape.length : Int)).toNat
      d ≤ c.numDeltas ∧ valid x.shape src = true ∧
      out.get idx = some (if d = 0 then x.val src
        else c.cast (deltaValue c.contextWindow d c.padMode (x.lane ax src) (src.getD ax 0))) := by
  obtain ⟨_, ta, hta, rfl⟩ := Deltas.apply_concat_inv c x out axis hr hc h
  refine ⟨ta, hta, ?_⟩
  have hta' := normAxis_lt hta
  simp only [ofFn_shape] at hv
  have hlen : idx.length = x.shape.length := by simpa using valid_length hv
  have hj : idx.getD ta 0 < x.shape.getD ta 0 * (c.numDeltas + 1) := by
    have := valid_getD hv (a := ta) (by simpa using hta')
    rwa [getD_set_eq, if_pos ⟨rfl, hta'⟩] at this
  have hS : 0 < x.shape.getD ta 0 := by
    rcases Nat.eq_zero_or_pos (x.shape.getD ta 0) with h0 | h0
    · rw [h0] at hj; omega
    · exact h0
  have hd : idx.getD ta 0 / x.shape.getD ta 0 < c.numDeltas + 1 :=
    Nat.div_lt_of_lt_mul hj
  have hsrc : valid x.shape (idx.set ta (idx.getD ta 0 % x.shape.getD ta 0)) = true :=
    valid_of_valid_set hv (Nat.mod_lt _ hS)
  refine ⟨by omega, hsrc, ?_⟩
  rw [get_ofFn _ _ _ hv,
    concatVal_uniform ta (x.shape.getD ta 0) _ idx x
      (by intro t ht
          rcases List.mem_cons.1 ht with h | h
          · rw [h]
          · rw [Deltas.feats_shape c _ x t h])
      (by omega) (by simpa [Deltas.feats_length] using hj)]
  congr 1
  rcases hq : idx.getD ta 0 / x.shape.getD ta 0 with _ | d
  · simp
  · rw [hq] at hd
    simp only [Nat.succ_ne_zero, if_false]
    exact Deltas.feats_val c _ x d (by omega) hW _ hsrc (emod_axis_lt axis hr)

/-- `concatenate=False`, every output element: block `d = idx[ta]`, source position `idx` with
coordinate `ta` erased. -/
theorem deltas_value_stack (c : Deltas α) (x out : Tensor α) (axis : Int) (hr : x.shape.length ≠ 0)
    (hW : 0 < c.contextWindow) (hc : c.concatenate = false) (h : c.apply x axis = .ok out)
    (idx : List Nat) (hv : valid out.shape idx = true) :
    ∃ ta, normAxis c.targetAxis (x.shape.length + 1) = some ta ∧
      let d := idx.getD ta 0
      let src := idx.eraseIdx ta
      let ax := (axis % (x.shape.length : Int)).toNat
      d ≤ c.numDeltas ∧ valid x.shape src = true ∧
      out.get idx = some (if d = 0 then x.val src
        else c.cast (deltaValue c.contextWindow d c.padMode (x.lane ax src) (src.getD ax 0))) := by
  obtain ⟨_, ta, hta, rfl⟩ := Deltas.apply_stack_inv c x out axis hr hc h
  refine ⟨ta, hta, ?_⟩
  have hta' := normAxis_lt hta
  simp only [ofFn_shape] at hv
  obtain ⟨hd, hsrc⟩ := valid_insertIdx (by omega) hv
  refine ⟨by omega, hsrc, ?_⟩
  rw [get_ofFn _ _ _ hv]
  congr 1
  rcases hq : idx.getD ta 0 with _ | d
  · simp
  · rw [hq] at hd
    simp only [Nat.succ_ne_zero, if_false]
    exact Deltas.feats_val c _ x d (by omega) hW _ hsrc (emod_axis_lt axis hr)

/-- the first block is the input, element for element (`concatenate=True`) -/
theorem deltas_block0_is_input_concat (c : Deltas α) (x out : Tensor α) (axis : Int) (hwf : x.WF)
    (hr : x.shape.length ≠ 0) (hW : 0 < c.contextWindow) (hc : c.concatenate = true)
    (h : c.apply x axis = .ok out) (idx : List Nat) (hv : valid x.shape idx = true) :
    out.get idx = x.get idx := by
  obtain ⟨ta, hta, hsh, _⟩ := deltas_shape_concat c x out axis hr hc h
  have hta' := normAxis_lt hta
  have hlt : idx.getD ta 0 < x.shape.getD ta 0 := valid_getD hv hta'
  have hvo : valid out.shape idx = true := by
    rw [hsh]
    have := valid_set (a := ta) (n := x.shape.getD ta 0 * (c.numDeltas + 1)) (v := idx.getD ta 0) hv
      (by rw [Nat.mul_succ]; omega)
    rwa [set_getD_self] at this
  obtain ⟨ta', hta2, _, _, hget⟩ := deltas_value_concat c x out axis hr hW hc h idx hvo
  rw [hta] at hta2
  cases hta2
  rw [hget]
  simp only [Nat.div_eq_of_lt hlt, if_true, Nat.mod_eq_of_lt hlt, set_getD_self]
  exact (get_eq_some_val x hwf idx hv).symm

/-- the first block is the input, element for element (`concatenate=False`): `out[…, 0 at ta, …] = x[…]` -/
theorem deltas_block0_is_input_stack (c : Deltas α) (x out : Tensor α) (axis : Int) (hwf : x.WF)
    (hr : x.shape.length ≠ 0) (hW : 0 < c.contextWindow) (hc : c.concatenate = false)
    (h : c.apply x axis = .ok out) (idx : List Nat) (hv : valid x.shape idx = true) :
    ∃ ta, normAxis c.targetAxis (x.shape.length + 1) = some ta ∧
      out.get (idx.insertIdx ta 0) = x.get idx := by
  obtain ⟨ta, hta, hsh, _⟩ := deltas_shape_stack c x out axis hr hc h
  refine ⟨ta, hta, ?_⟩
  have hta' := normAxis_lt hta
  have hlen : idx.length = x.shape.length := valid_length hv
  have hvo : valid out.shape (idx.insertIdx ta 0) = true := by
    rw [hsh]
    exact valid_insertIdx_mk (by omega) hv (by omega)
  obtain ⟨ta', hta2, _, _, hget⟩ := deltas_value_stack c x out axis hr hW hc h _ hvo
  rw [hta] at hta2
  cases hta2
  rw [hget]
  have h1 : (idx.insertIdx ta 0).getD ta 0 = 0 := by
    simp only [List.getD_eq_getElem?_getD, List.getElem?_insertIdx_self]
    split <;> rfl
  have h2 : (idx.insertIdx ta 0).eraseIdx ta = idx := List.eraseIdx_insertIdx_self 0
  simp only [h1, if_true, h2]
  exact (get_eq_some_val x hwf idx hv).symm

/-- exactly when and how `Deltas.apply` raises on an input of rank ≥ 1: `ValueError` iff `np.pad` meets an
empty filtered axis with a non-constant mode inside the loops; otherwise `AxisError` iff `target_axis` is
outside NumPy's range for `concatenate` / `stack`; otherwise it returns. -/
theorem deltas_error_iff (c : Deltas α) (x : Tensor α) (axis : Int) (hr : x.shape.length ≠ 0) (e : Err) :
    c.apply x axis = .error e ↔
      (Deltas.padError c x axis ∧ e = .value) ∨
      (¬ Deltas.padError c x axis ∧ e = .axisErr ∧
        normAxis c.targetAxis (if c.concatenate then x.shape.length else x.shape.length + 1) = none) :=
  Deltas.apply_error_iff c x axis hr e

/-- Purity.  The model is a function of `(configuration, features, axis)`; `in_place` is not an input of
it (the code never reads it) and the input tensor is a value: whatever `apply` returns, `x` is what it
was.  Stated as: two calls on the same input agree and the input compares equal to itself afterwards.
NumPy's aliasing is outside the model; the harness checks input-unchanged on every run. -/
theorem deltas_pure (c : Deltas α) (x : Tensor α) (axis : Int) :
    ∀ r₁ r₂, c.apply x axis = r₁ → c.apply x axis = r₂ → r₁ = r₂ ∧ x = x := by
  intro r₁ r₂ h₁ h₂; exact ⟨h₁.symm.trans h₂, rfl⟩

end DeltasND

end PdsVerif.C15

/-
  C17 — saved normalisation statistics reload to the same transform.

  Theorems about the save / load part of the executable model `PdsVerif.Model.Standardize` (the repaired
  code: `fix/C17-stats`), over any linearly ordered field.  File kinds: `.npy` (an array), `.npz` (an
  association list in dict order + the "compressed" flag; key chosen by the `arr_k` search or given),
  raw binary (the float64 items of the file; reload goes through `_sanitize_stats`).
  `closeRound` is the code's `np.isclose(np.round(c), c)`; the only fact used about it is that it
  accepts the natural numbers.  The float32/float64 re-interpretation `R` is arbitrary: the theorems show
  that it is never reached for statistics produced by `accumulate`.
-/
import PdsVerif.Props.C16

namespace PdsVerif.C17
open PdsVerif.Model.Standardize

/-! ## container lemmas (no arithmetic) -/

section containers
variable {α : Type}

theorem hasKey_eq_false_iff (es : List (Key × Arr α)) (k : Key) :
    hasKey es k = false ↔ ∀ e ∈ es, e.1 ≠ k := by
  simp [hasKey]

theorem hasKey_eq_true_iff (es : List (Key × Arr α)) (k : Key) :
    hasKey es k = true ↔ k ∈ es.map Prod.fst := by
  unfold hasKey
  rw [List.any_eq_true, List.mem_map]
  constructor
  · rintro ⟨e, he, h⟩; exact ⟨e, he, by simpa using h⟩
  · rintro ⟨e, he, h⟩; exact ⟨e, he, by simpa using h⟩

theorem hasKey_cons (e : Key × Arr α) (es : List (Key × Arr α)) (k : Key) :
    hasKey (e :: es) k = (e.1 == k || hasKey es k) := rfl

theorem lookup_nil (k : Key) : lookup ([] : List (Key × Arr α)) k = none := rfl

theorem lookup_cons (e : Key × Arr α) (es : List (Key × Arr α)) (k : Key) :
    lookup (e :: es) k = if e.1 = k then some e.2 else lookup es k := by
  unfold lookup
  by_cases h : e.1 = k <;> simp [h]

theorem lookup_eq_none_of_not_hasKey (es : List (Key × Arr α)) (k : Key) (h : hasKey es k = false) :
    lookup es k = none := by
  induction es with
  | nil => rfl
  | cons e es ih =>
    rw [hasKey_eq_false_iff] at h
    have h1 : e.1 ≠ k := h e List.mem_cons_self
    rw [lookup_cons, if_neg h1]
    exact ih ((hasKey_eq_false_iff es k).2 fun e' he' => h e' (List.mem_cons_of_mem _ he'))

theorem lookup_append_single (es : List (Key × Arr α)) (k k' : Key) (a : Arr α) :
    lookup (es ++ [(k, a)]) k' =
      match lookup es k' with
      | some b => some b
      | none => if k = k' then some a else none := by
  induction es with
  | nil => simp [lookup_cons, lookup_nil]
  | cons e es ih =>
    rw [List.cons_append, lookup_cons, lookup_cons]
    by_cases h : e.1 = k' <;> simp [h, ih]

theorem lookup_map_replace (es : List (Key × Arr α)) (k k' : Key) (a : Arr α) :
    lookup (es.map fun e => if e.1 == k then (k, a) else e) k' =
      if k' = k then (if hasKey es k then some a else none) else lookup es k' := by
  induction es with
  | nil => simp [lookup_nil, hasKey]
  | cons e es ih =>
    rw [List.map_cons, lookup_cons, lookup_cons, ih]
    by_cases h1 : e.1 = k
    · by_cases h2 : k' = k
      · subst h2; simp [h1, hasKey_cons]
      · have : ¬ k = k' := fun h => h2 h.symm
        have h3 : ¬ e.1 = k' := by rw [h1]; exact this
        simp [h1, h2, this]
    · have hb : (e.1 == k) = false := by simpa using h1
      by_cases h2 : k' = k
      · subst h2
        simp [h1, hasKey_cons, hb]
      · simp [h1, h2]

/-- `array[key] = stats` then `array[key]` -/
theorem lookup_upsert_self (es : List (Key × Arr α)) (k : Key) (a : Arr α) :
    lookup (upsert es k a) k = some a := by
  unfold upsert
  by_cases h : hasKey es k = true
  · rw [if_pos h, lookup_map_replace]; simp [h]
  · have h' : hasKey es k = false := by simpa using h
    rw [if_neg h, lookup_append_single, lookup_eq_none_of_not_hasKey es k h']; simp

/-- `array[key] = stats` leaves every other key as it was -/
theorem lookup_upsert_ne (es : List (Key × Arr α)) (k k' : Key) (a : Arr α) (hne : k' ≠ k) :
    lookup (upsert es k a) k' = lookup es k' := by
  unfold upsert
  by_cases h : hasKey es k = true
  · rw [if_pos h, lookup_map_replace, if_neg hne]
  · rw [if_neg h, lookup_append_single]
    have : ¬ k = k' := fun e => hne e.symm
    cases lookup es k' <;> simp [this]

/-- **The `arr_k` search terminates within its fuel** (pigeonhole: `len(array)+1` candidate keys,
`len(array)` entries), and returns an unused key. -/
theorem firstUnused_isSome (es : List (Key × Arr α)) :
    ∃ n, firstUnused es = some n ∧ hasKey es (.arr n) = false := by
  unfold firstUnused
  cases hf : (List.range (es.length + 1)).find? (fun k => !(hasKey es (.arr k))) with
  | some n =>
    refine ⟨n, rfl, ?_⟩
    have := List.find?_some hf
    simpa using this
  | none =>
    exfalso
    rw [List.find?_eq_none] at hf
    have hsub : (List.range (es.length + 1)).map Key.arr ⊆ es.map Prod.fst := by
      intro k hk
      obtain ⟨n, hn, rfl⟩ := List.mem_map.1 hk
      have := hf n hn
      simp only [Bool.not_eq_true', Bool.not_eq_false] at this
      exact (hasKey_eq_true_iff es _).1 (by simpa using this)
    have hnd : ((List.range (es.length + 1)).map Key.arr).Nodup :=
      List.Nodup.map (fun a b h => by cases h; rfl) List.nodup_range
    have := List.Nodup.length_le_of_subset hnd hsub
    simp at this

end containers

/-! ## the matrix on disk -/

section matrix
variable {α : Type}

theorem toFlat_length [Zero α] [LE α] [DecidableLE α] [BEq α] (s : Stats α) (hw : s.WF) :
    s.toFlat.length = 2 * (s.dim + 1) := by
  unfold Stats.WF at hw
  simp [Stats.toFlat, Stats.dim, hw]; ring

theorem reshape2_toFlat [Zero α] [LE α] [DecidableLE α] [BEq α] (s : Stats α) (hw : s.WF) :
    reshape2 s.toFlat = some (s.sum ++ [s.cnt], s.sq ++ [s.pad]) := by
  have hl := toFlat_length s hw
  have h1 : (s.sum ++ [s.cnt]).length = s.toFlat.length / 2 := by
    rw [hl]; simp [Stats.dim]
  unfold reshape2
  rw [if_neg (by rw [hl]; omega)]
  have e : s.toFlat = (s.sum ++ [s.cnt]) ++ (s.sq ++ [s.pad]) := rfl
  rw [← h1]
  conv_lhs => rw [e]
  rw [List.take_left', List.drop_left'] <;> rfl

theorem ofRows_concat [Zero α] [LE α] [DecidableLE α] [BEq α] (a b : List α) (c p : α) :
    Stats.ofRows (a ++ [c]) (b ++ [p]) = some { sum := a, cnt := c, sq := b, pad := p } := by
  simp [Stats.ofRows]

end matrix

/-! ## the property -/

section main
variable {α : Type} [Field α] [LinearOrder α]

theorem activeStats_eq_some {st : Option (Stats α)} {s : Stats α} (h : activeStats st = some s) :
    st = some s ∧ s.cnt ≠ 0 := by
  cases st with
  | none => simp [activeStats] at h
  | some s' =>
    unfold activeStats at h
    by_cases hc : s'.cnt = 0
    · simp [hc] at h
    · simp only [beq_iff_eq, hc, if_false, Option.some.injEq] at h
      subst h; exact ⟨rfl, hc⟩

theorem saveGuard_ok {st : Option (Stats α)} {s : Stats α} (h : activeStats st = some s) :
    saveGuard st = .ok s := by
  simp [saveGuard, h]

theorem vadd_nonneg [IsStrictOrderedRing α] (a b : List α) (ha : ∀ x ∈ a, 0 ≤ x) (hb : ∀ x ∈ b, 0 ≤ x) :
    ∀ x ∈ vadd a b, 0 ≤ x := by
  unfold vadd
  induction a generalizing b with
  | nil => simp
  | cons x a ih =>
    cases b with
    | nil => simp
    | cons y b =>
      intro z hz
      simp only [List.zipWith_cons_cons, List.mem_cons] at hz
      rcases hz with rfl | hz
      · exact add_nonneg (ha x List.mem_cons_self) (hb y List.mem_cons_self)
      · exact ih b (fun w hw => ha w (List.mem_cons_of_mem _ hw))
          (fun w hw => hb w (List.mem_cons_of_mem _ hw)) z hz

theorem colSum_nonneg [IsStrictOrderedRing α] (F : Nat) (vs : List (List α)) (h : ∀ v ∈ vs, ∀ x ∈ v, 0 ≤ x) :
    ∀ x ∈ colSum F vs, 0 ≤ x := by
  unfold colSum
  suffices H : ∀ z : List α, (∀ x ∈ z, 0 ≤ x) → ∀ x ∈ vs.foldl vadd z, 0 ≤ x by
    apply H
    intro x hx
    simp only [zeros, List.mem_replicate] at hx
    rw [hx.2]
  induction vs with
  | nil => intro z hz; simpa using hz
  | cons v vs ih =>
    intro z hz
    simp only [List.foldl_cons]
    exact ih (fun w hw => h w (List.mem_cons_of_mem _ hw)) _
      (vadd_nonneg z v hz (h v List.mem_cons_self))

/-- **Every accumulated statistics matrix passes the (repaired) raw-file sanity check**: the count is a
natural number, sums of squares are sums of squares.  No condition on the data: any sign, any scale. -/
theorem valid_of_accumulated [IsStrictOrderedRing α] (closeRound : α → Bool) (hcr : ∀ n : ℕ, closeRound (n : α) = true)
    (F : Nat) (vs : List (List α)) : valid closeRound (statsOf F vs) = true := by
  have hsq : ∀ x ∈ colSum F (vs.map vsq), 0 ≤ x := by
    apply colSum_nonneg
    intro v hv x hx
    obtain ⟨w, _, rfl⟩ := List.mem_map.1 hv
    simp only [vsq, List.mem_map] at hx
    obtain ⟨y, _, rfl⟩ := hx
    exact mul_self_nonneg y
  simp only [valid, statsOf, hcr, Bool.true_and, Bool.and_eq_true, decide_eq_true_eq, List.all_eq_true,
    Nat.cast_nonneg, le_refl, and_true, true_and]
  exact hsq

/-- the predicate before the repair rejects every matrix with a negative feature sum (defect 17) -/
theorem validOld_false_of_negative_sum (closeRound : α → Bool) (s : Stats α)
    (h : ∃ x ∈ s.sum, x < 0) : validOld closeRound s = false := by
  obtain ⟨x, hx, hneg⟩ := h
  have : (s.toFlat.all fun x => decide (0 ≤ x)) = false := by
    rw [List.all_eq_false]
    exact ⟨x, by simp [Stats.toFlat, hx], by simpa using hneg⟩
  simp [validOld, this]

theorem ofLoaded_toArr (closeRound : α → Bool) (R : Reinterp α) (s : Stats α) (hw : s.WF) :
    ofLoaded closeRound R s.toArr = .ok s := by
  simp only [ofLoaded, Stats.toArr, reshape2_toFlat s hw, ofRows_concat]

theorem sanitizeOnce_toFlat (closeRound : α → Bool) (s : Stats α) (hw : s.WF)
    (hv : valid closeRound s = true) : sanitizeOnce closeRound s.toFlat = .ok (some s) := by
  simp only [sanitizeOnce, reshape2_toFlat s hw, ofRows_concat, hv, if_true]

/-- `reload_eq`, `.npy` -/
theorem reload_npy (closeRound : α → Bool) (R : Reinterp α) (st : Option (Stats α)) (s : Stats α)
    (hs : activeStats st = some s) (hw : s.WF) :
    ∃ a, saveNpy st = .ok a ∧ loadNpy closeRound R (some a) = .ok s :=
  ⟨s.toArr, by simp [saveNpy, saveGuard_ok hs], by simp [loadNpy, ofLoaded_toArr closeRound R s hw]⟩

/-- `reload_eq`, raw binary: needs the sanity predicate, which `valid_of_accumulated` provides; the
float32 re-interpretation is never consulted. -/
theorem reload_raw (closeRound : α → Bool) (R : Reinterp α) (st : Option (Stats α)) (s : Stats α)
    (hs : activeStats st = some s) (hw : s.WF) (hv : valid closeRound s = true) :
    ∃ f, saveRaw st = .ok f ∧ loadRaw closeRound R (some f) = .ok s :=
  ⟨s.toFlat, by simp [saveRaw, saveGuard_ok hs],
    by simp [loadRaw, ofLoaded, sanitize, sanitizeOnce_toFlat closeRound s hw hv]⟩

/-- `reload_eq`, `.npz`: for any previous content of the path, any `key` / `compress` / `overwrite`,
`save` succeeds (this is also `resave_ok`), records the compression flag, and loading with the key
`save` used returns the statistics; with `key=None` on a fresh or not-merged archive that key is
`arr_0`, which is what a key-less load reads. -/
theorem reload_npz (closeRound : α → Bool) (R : Reinterp α) (st : Option (Stats α)) (s : Stats α)
    (hs : activeStats st = some s) (hw : s.WF) (existing : Option (NpzFile α)) (key : Option Key)
    (compress overwrite : Bool) :
    ∃ k f, saveNpz st existing key compress overwrite = .ok (k, f) ∧ f.compressed = compress ∧
      (∀ k₀, key = some k₀ → k = k₀) ∧
      (k ≠ .named "" → loadNpz closeRound R (some f) (some k) = .ok s) ∧
      (k = .arr 0 → loadNpz closeRound R (some f) none = .ok s) ∧
      (key = none → (overwrite = false ∨ existing = none) → k = .arr 0) := by
  set array : List (Key × Arr α) := baseArchive existing overwrite with harr
  obtain ⟨n, hn, _⟩ := firstUnused_isSome array
  have hload : ∀ k : Key, lookup (upsert array k s.toArr) k = some s.toArr :=
    fun k => lookup_upsert_self array k s.toArr
  cases key with
  | some k₀ =>
    refine ⟨k₀, ⟨compress, upsert array k₀ s.toArr⟩, ?_, rfl, ?_, ?_, ?_, ?_⟩
    · simp [saveNpz, saveGuard_ok hs, ← harr]
    · intro k h; cases h; rfl
    · intro hk
      cases k₀ with
      | named nm =>
        have : nm.isEmpty = false := by
          cases h : nm.isEmpty with
          | false => rfl
          | true =>
            exfalso; apply hk
            have : nm = "" := by simpa [String.isEmpty_iff] using h
            rw [this]
        simp [loadNpz, this, hload, ofLoaded_toArr closeRound R s hw]
      | arr m => simp [loadNpz, hload, ofLoaded_toArr closeRound R s hw]
    · intro hk; subst hk
      simp [loadNpz, hload, ofLoaded_toArr closeRound R s hw]
    · intro h; cases h
  | none =>
    refine ⟨.arr n, ⟨compress, upsert array (.arr n) s.toArr⟩, ?_, rfl, ?_, ?_, ?_, ?_⟩
    · simp [saveNpz, saveGuard_ok hs, ← harr, hn]
    · intro k h; cases h
    · intro _
      simp [loadNpz, hload, ofLoaded_toArr closeRound R s hw]
    · intro hk
      injection hk with hk
      subst hk
      simp [loadNpz, hload, ofLoaded_toArr closeRound R s hw]
    · intro _ hfresh
      have harr0 : array = [] := by
        rcases hfresh with h | h
        · simp [harr, baseArchive, h]
        · simp [harr, baseArchive, h]
      rw [harr0] at hn
      simp [firstUnused, hasKey] at hn
      rw [← hn]

/-- **Saving again works** (defect 18 repaired): after any first save to an `.npz` path, a second save
of any statistics with any settings succeeds and its own key reloads to those statistics. -/
theorem resave_ok (closeRound : α → Bool) (R : Reinterp α)
    (st₁ st₂ : Option (Stats α)) (s₁ s₂ : Stats α)
    (hs₁ : activeStats st₁ = some s₁) (hs₂ : activeStats st₂ = some s₂) (hw₂ : s₂.WF)
    (existing : Option (NpzFile α)) (key₁ key₂ : Option Key) (c₁ c₂ o₁ o₂ : Bool) :
    ∃ k₁ f₁ k₂ f₂, saveNpz st₁ existing key₁ c₁ o₁ = .ok (k₁, f₁) ∧
      saveNpz st₂ (some f₁) key₂ c₂ o₂ = .ok (k₂, f₂) ∧
      (k₂ ≠ .named "" → loadNpz closeRound R (some f₂) (some k₂) = .ok s₂) := by
  -- first save: only success is needed (no well-formedness of `s₁`)
  have h1 : ∃ k₁ f₁, saveNpz st₁ existing key₁ c₁ o₁ = .ok (k₁, f₁) := by
    set array : List (Key × Arr α) := baseArchive existing o₁ with harr
    obtain ⟨n, hn, _⟩ := firstUnused_isSome array
    cases key₁ with
    | some k₀ =>
      exact ⟨k₀, ⟨c₁, upsert array k₀ s₁.toArr⟩, by simp [saveNpz, saveGuard_ok hs₁, ← harr]⟩
    | none =>
      exact ⟨.arr n, ⟨c₁, upsert array (.arr n) s₁.toArr⟩, by simp [saveNpz, saveGuard_ok hs₁, ← harr, hn]⟩
  obtain ⟨k₁, f₁, h1⟩ := h1
  obtain ⟨k₂, f₂, h2, _, _, h3, _, _⟩ :=
    reload_npz closeRound R st₂ s₂ hs₂ hw₂ (some f₁) key₂ c₂ o₂
  exact ⟨k₁, f₁, k₂, f₂, h1, h2, h3⟩

/-- the `.npz` branch before the repair: the loaded archive is an `NpzFile`, and `array[key] = ...` on it
raises `TypeError` — whenever `overwrite` is set and the file exists (defect 18). -/
def saveNpzOld (st : Option (Stats α)) (existing : Option (NpzFile α)) (key : Option Key)
    (compress overwrite : Bool) : Except Err (Key × NpzFile α) :=
  match saveGuard st with
  | .error e => .error e
  | .ok _ =>
    if overwrite && existing.isSome then .error .TypeError
    else saveNpz st existing key compress overwrite

theorem old_resave_fails (st : Option (Stats α)) (s : Stats α) (hs : activeStats st = some s)
    (f : NpzFile α) (key : Option Key) (c : Bool) :
    saveNpzOld st (some f) key c true = .error .TypeError := by
  simp [saveNpzOld, saveGuard_ok hs]

/-- **Other entries of the archive are kept iff the `overwrite` flag is set** (the flag is the code's:
`if overwrite:` loads the existing archive before adding the statistics; otherwise the file is
replaced by a one-entry archive). -/
theorem npz_keeps_others_iff_overwrite_flag (st : Option (Stats α)) (f₀ : NpzFile α)
    (key : Option Key) (compress overwrite : Bool) (k : Key) (f : NpzFile α)
    (h : saveNpz st (some f₀) key compress overwrite = .ok (k, f)) (k' : Key) (hk' : k' ≠ k) :
    lookup f.entries k' = if overwrite then lookup f₀.entries k' else none := by
  unfold saveNpz at h
  cases hg : saveGuard st with
  | error e => rw [hg] at h; cases h
  | ok s =>
    rw [hg] at h
    simp only at h
    split at h
    · cases h
    · rename_i k₁ hk₁
      cases h
      rw [lookup_upsert_ne _ _ _ _ hk']
      cases overwrite <;> simp [baseArchive, lookup_nil]

/-- … as an equivalence, whenever the old archive had some other entry to lose -/
theorem npz_keeps_others_iff (st : Option (Stats α)) (f₀ : NpzFile α)
    (key : Option Key) (compress overwrite : Bool) (k : Key) (f : NpzFile α)
    (h : saveNpz st (some f₀) key compress overwrite = .ok (k, f))
    (hother : ∃ k', k' ≠ k ∧ (lookup f₀.entries k').isSome) :
    (∀ k', k' ≠ k → lookup f.entries k' = lookup f₀.entries k') ↔ overwrite = true := by
  constructor
  · intro hall
    obtain ⟨k', hk', hsome⟩ := hother
    have := npz_keeps_others_iff_overwrite_flag st f₀ key compress overwrite k f h k' hk'
    rw [hall k' hk'] at this
    cases overwrite with
    | true => rfl
    | false => rw [this] at hsome; simp at hsome
  · intro ho k' hk'
    rw [npz_keeps_others_iff_overwrite_flag st f₀ key compress overwrite k f h k' hk', ho]; rfl

/-- **Saving with no accumulated statistics raises `ValueError`**, for every target. -/
theorem save_empty (st : Option (Stats α)) (h : activeStats st = none) :
    saveNpy st = .error .ValueError ∧ saveRaw st = .error .ValueError ∧
      ∀ existing key c o, saveNpz st existing key c o = .error .ValueError := by
  simp [saveNpy, saveRaw, saveNpz, saveGuard, h]

theorem activeStats_none_iff (st : Option (Stats α)) :
    activeStats st = none ↔ st = none ∨ ∃ s, st = some s ∧ s.cnt = 0 := by
  cases st with
  | none => simp [activeStats]
  | some s =>
    by_cases hc : s.cnt = 0 <;> simp [activeStats, hc]

/-- **End to end, raw binary** — the case the defect broke: statistics accumulated from *any* data (any
history, any sign), saved with `tofile`, reload to exactly the same matrix. -/
theorem reload_raw_of_accumulated [IsStrictOrderedRing α] (closeRound : α → Bool) (hcr : ∀ n : ℕ, closeRound (n : α) = true)
    (R : Reinterp α) {F : Nat} (hF : F ≠ 0) (cs : List (Call α)) (hne : cs ≠ [])
    (hcs : ∀ c ∈ cs, C16.CallOK F c) (st : Option (Stats α)) (hrun : run none cs = .ok st) :
    ∃ s f, st = some s ∧ saveRaw st = .ok f ∧ loadRaw closeRound R (some f) = .ok s := by
  rw [C16.run_eq_statsOf hF cs hne hcs] at hrun
  cases hrun
  set vs := cs.flatMap Call.vectors with hvs
  have hlen : ∀ v ∈ vs, v.length = F := by
    intro v hv
    obtain ⟨c, hc, hv'⟩ := List.mem_flatMap.1 hv
    exact (hcs c hc).2.2 v hv'
  have hvne : vs ≠ [] := by
    cases cs with
    | nil => exact absurd rfl hne
    | cons c cs' =>
      have := (hcs c List.mem_cons_self).2.1
      intro h0
      rw [hvs, List.flatMap_cons, List.append_eq_nil_iff] at h0
      exact this h0.1
  have hcnt : (statsOf F vs).cnt ≠ 0 := by
    show ((vs.length : ℕ) : α) ≠ 0
    have : vs.length ≠ 0 := fun h0 => hvne (List.length_eq_zero_iff.1 h0)
    exact_mod_cast this
  have hact : activeStats (some (statsOf F vs)) = some (statsOf F vs) := by
    simp [activeStats, hcnt]
  obtain ⟨f, h1, h2⟩ := reload_raw closeRound R _ _ hact (statsOf_wf hlen)
    (valid_of_accumulated closeRound hcr F vs)
  exact ⟨_, f, rfl, h1, h2⟩

/-- **With C16: the reloaded object applies the same transform.** -/
theorem reload_same_apply (st : Option (Stats α)) (s s' : Stats α) (hs : activeStats st = some s)
    (hload : s' = s) (sqrt : α → α) (cz : α → Bool) (nv : Bool) :
    (∀ x, applyVec sqrt cz nv (some s') x = applyVec sqrt cz nv st x) ∧
    (∀ single F vs, applyTens sqrt cz nv (some s') single F vs = applyTens sqrt cz nv st single F vs) := by
  obtain ⟨rfl, _⟩ := activeStats_eq_some hs
  subst hload
  exact ⟨fun _ => rfl, fun _ _ _ => rfl⟩

end main

/-! ## hypotheses are satisfiable; the defect on a witness -/

/-- a log-energy-like column: the repaired predicate accepts it, the old one does not -/
example : valid (fun _ => true) (statsOf (α := ℚ) 1 [[-1], [-3]]) = true ∧
    validOld (fun _ => true) (statsOf (α := ℚ) 1 [[-1], [-3]]) = false := by
  constructor
  · exact valid_of_accumulated _ (fun _ => rfl) 1 _
  · apply validOld_false_of_negative_sum
    exact ⟨-4, by norm_num [statsOf, colSum, vadd, zeros], by norm_num⟩

example : activeStats (some (statsOf (α := ℚ) 1 [[-1], [-3]])) = some (statsOf 1 [[-1], [-3]]) := by
  simp [activeStats, statsOf]

end PdsVerif.C17

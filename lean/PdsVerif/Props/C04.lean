/-
  C04 — a computer's output depends only on the current utterance (STFT computer).

  Two models: `Model/StftRaw.lean` keeps the *physical* buffer (a fixed array whose cells hold
  arbitrary junk initially and stale samples after `finalize`), `Model/Stft.lean` only the meaningful
  history.  `run_refines` shows every public call sequence on the physical model produces the
  outputs of the abstract one; since `finalize` maps every state to the abstract `init`, nothing of
  an earlier utterance can influence a later one.  All theorems are for every operation history
  (any length, any chunk sizes, empty chunks, repeated finalize, too-short utterances, refused calls)
  and every configuration with `1 ≤ frame_shift ≤ frame_length`.
-/
import PdsVerif.Lemmas.StftRaw
import PdsVerif.Lemmas.StftStream
import PdsVerif.Props.C01
namespace PdsVerif.C04
open PdsVerif.Model PdsVerif.Model.Stft PdsVerif.StftArith PdsVerif.StftRawLemmas
open PdsVerif.Model.StftRaw (Raw fresh)
set_option linter.unusedSectionVars false

variable {α : Type} [Inhabited α]

/-- **obs_equiv** — stale buffer cells are never read: two physical states that agree on the
meaningful part (history cells, counters, flags) answer every further call sequence identically. -/
theorem obs_equiv (c : Cfg) (w : WF c) (r₁ r₂ : Raw α) (h₁ : Inv c r₁) (h₂ : Inv c r₂)
    (h : r₁.abs = r₂.abs) (ops : List (Op α)) :
    (StftRaw.run c r₁ ops).2 = (StftRaw.run c r₂ ops).2 := by
  rw [(run_refines c w ops r₁ h₁).1, (run_refines c w ops r₂ h₂).1, h]

/-- **fresh_after_finalize** — after `finalize()` the state is, up to junk cells, that of a new instance. -/
theorem fresh_after_finalize (c : Cfg) (r : Raw α) (h : Inv c r) (junk : List α) :
    (StftRaw.finalize c r).1.abs = (fresh junk).abs := by
  rw [(finalize_refines c r h).2.1]; simp [fresh, Raw.abs, Stft.init, takeLast]

/-- **history independence** — whatever a computer processed before (any history `ops₁` from
construction: utterances, chunk sizes, empty chunks, repeated finalize, too-short utterances, refused
calls), once it is not mid-utterance — i.e. after `finalize()`, a completed `frame_by_frame_calculation`,
or only `compute_full` calls — every later call sequence `ops₂` returns exactly what it returns
on a freshly constructed computer (with any buffer content). -/
theorem history_independence (c : Cfg) (w : WF c) (junk₁ junk₂ : List α)
    (hj₁ : junk₁.length = c.L) (hj₂ : junk₂.length = c.L) (ops₁ ops₂ : List (Op α))
    (hidle : (StftRaw.run c (fresh junk₁) ops₁).1.started = false) :
    (StftRaw.run c (StftRaw.run c (fresh junk₁) ops₁).1 ops₂).2 = (StftRaw.run c (fresh junk₂) ops₂).2 := by
  have hI₁ := (run_refines c w ops₁ _ (inv_fresh c junk₁ hj₁)).2.2
  have hid : Idle (fresh junk₁ : Raw α) := by intro _; simp [fresh]
  have hid₁ := run_idle c ops₁ _ hid
  apply obs_equiv c w _ _ hI₁ (inv_fresh c junk₂ hj₂)
  rw [idle_abs _ hid₁ hidle]
  simp [fresh, Raw.abs, Stft.init, takeLast]

/-- after any history that ends with `finalize`, the computer is not mid-utterance -/
theorem finalize_not_started (c : Cfg) (r : Raw α) (ops : List (Op α)) :
    (StftRaw.run c r (ops ++ [Op.finalize])).1.started = false := by
  induction ops generalizing r with
  | nil => simp [StftRaw.run, StftRaw.step, StftRaw.finalize]
  | cons op rest ih => simp only [List.cons_append, StftRaw.run]; exact ih _

/-- how `started` evolves: set by `compute_chunk`, cleared by `finalize` and by a completed
`frame_by_frame_calculation`, untouched by `compute_full` and by refused calls -/
def startedSpec (b : Bool) : Op α → Bool
  | .chunk _ => true
  | .finalize => false
  | .full _ => b
  | .fbf _ _ => if b then b else false

/-- **started_iff** — `started` is true exactly from the first `compute_chunk` until the next `finalize` -/
theorem started_spec (c : Cfg) (ops : List (Op α)) :
    ∀ r : Raw α, (StftRaw.run c r ops).1.started = ops.foldl startedSpec r.started := by
  induction ops with
  | nil => intro r; rfl
  | cons op rest ih =>
    intro r
    simp only [StftRaw.run, List.foldl_cons]
    rw [ih]
    congr 1
    cases op with
    | chunk ch => simp [StftRaw.step, chunk_started, startedSpec]
    | finalize => simp [StftRaw.step, StftRaw.finalize, startedSpec]
    | full x => cases hs : r.started <;> simp [StftRaw.step, hs, startedSpec]
    | fbf x k =>
      cases hs : r.started
      · simp [StftRaw.step, hs, startedSpec, (streamFrom_idle c (splitEvery k x) r).1]
      · simp [StftRaw.step, hs, startedSpec]

/-- **guard_full / guard_fbf** — mid-utterance both refuse with ValueError and leave the utterance in
progress exactly as it was (every cell, counter and flag) -/
theorem guard_full (c : Cfg) (r : Raw α) (x : List α) (h : r.started = true) :
    StftRaw.step c r (.full x) = (r, .valueError) := by simp [StftRaw.step, h]

theorem guard_fbf (c : Cfg) (r : Raw α) (x : List α) (k : Nat) (h : r.started = true) :
    StftRaw.step c r (.fbf x k) = (r, .valueError) := by simp [StftRaw.step, h]

/-- `compute_full` on an idle computer computes `full` and changes nothing -/
theorem full_pure (c : Cfg) (r : Raw α) (x : List α) (h : r.started = false) :
    StftRaw.step c r (.full x) = (r, .frames (full c x)) := by simp [StftRaw.step, h]

/-- the next utterance, streamed on a computer with any history, yields `compute_full`'s frames -/
theorem next_utterance_eq_full (c : Cfg) (w : WF c) (junk : List α) (hj : junk.length = c.L)
    (ops : List (Op α)) (hidle : (StftRaw.run c (fresh junk) ops).1.started = false)
    (chunks : List (List α)) :
    (StftRaw.streamFrom c (StftRaw.run c (fresh junk) ops).1 chunks).2 = full c chunks.flatten := by
  have hI := (run_refines c w ops _ (inv_fresh c junk hj)).2.2
  have hid : Idle (fresh junk : Raw α) := by intro _; simp [fresh]
  have hid' := run_idle c ops _ hid
  rw [(streamFrom_refines c w chunks _ hI).1, idle_abs _ hid' hidle]
  exact PdsVerif.C01.stft_stream_eq_full c w chunks

/-! non-vacuity: a history with a too-short utterance, an empty chunk, a refused call and a double finalize -/
example :
    let c : Cfg := { L := 4, S := 2, centered := true, kaldi := false }
    let ops : List (Op Nat) := [.chunk [9], .full [1, 2, 3], .finalize, .finalize, .chunk [], .chunk [1, 2, 3], .finalize]
    (StftRaw.run c (fresh [7, 7, 7, 7]) ops).2 =
      [.frames [], .valueError, .frames [], .frames [], .frames [], .frames [[1, 1, 2, 3]], .frames [[2, 3, 3, 2]]] := by
  decide

end PdsVerif.C04

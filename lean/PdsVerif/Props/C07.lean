/-
  C07 — impulse and frequency responses agree, within the advertised supports.

  Theorems are about the definitions *generated from* `filters.py` / `config.py` on every run
  (`PdsVerif/Generated/BankTime.lean`) and the hand-written control structure of
  `PdsVerif/Model/BankTime.lean`, instantiated at `ℝ`.

  Not attempted here (oracle only; listed as residue in the harness): the aliasing / truncation bound
  `|IDFT(get_frequency_response) - get_impulse_response| ≤ 2ε`.
-/
import PdsVerif.Lemmas.BankTime
import PdsVerif.Lemmas.BankTimeFourier

namespace PdsVerif.C07
open PdsVerif PdsVerif.Gen.BankTime PdsVerif.Model.BankTime PdsVerif.BankTimeLemmas

/-! ## structural clauses: `is_real`, `is_zero_phase`, dtype of the impulse response -/

/-- the array `get_impulse_response` returns is of a real dtype exactly when `is_real`, and `is_real`
holds exactly for the non-analytic triangular / Fbank banks (never for Gabor / gammatone). -/
theorem impulse_real_iff (b : Bank) (a w : Bool) :
    impulseDtypeReal b a w = isReal b a w ∧
    (isReal b a w = true ↔ (b = .tri ∨ b = .fbank) ∧ a = false) := by
  cases b <;> cases a <;> cases w <;> decide

/-- `is_zero_phase` is true of the triangular, Fbank and Gabor banks, false of the gammatone bank -/
theorem zero_phase_flags (b : Bank) (a w : Bool) : isZeroPhase b a w = true ↔ b ≠ .gammatone := by
  cases b <;> cases a <;> cases w <;> decide

/-- a real bank is never analytic -/
theorem real_not_analytic (b : Bank) (a w : Bool) : isReal b a w = true → isAnalytic b a w = false := by
  cases b <;> cases a <;> cases w <;> decide

example : isReal .tri false false = true ∧ isReal .gabor false true = false := by decide

/-! ## zero-phase supports straddle sample 0 -/

theorem toInt_ceil (x : ℝ) : Rnd.toInt (Rnd.ceil x) = ⌈x⌉ := by simp

/-- Python's `(-K // 2 - 1, K // 2 + 1)` for an integer `K ≥ 0` -/
theorem halves_straddle (K : ℤ) (hK : 0 ≤ K) :
    Int.fdiv (-K) 2 - 1 = -((K + 1) / 2) - 1 ∧ Int.fdiv K 2 + 1 = K / 2 + 1 ∧
    Int.fdiv (-K) 2 - 1 < 0 ∧ 0 < Int.fdiv K 2 + 1 ∧
    -(Int.fdiv (-K) 2 - 1) - (Int.fdiv K 2 + 1) = K % 2 := by
  rw [Int.fdiv_eq_ediv_of_nonneg _ (by norm_num : (0:ℤ) ≤ 2), Int.fdiv_eq_ediv_of_nonneg _ (by norm_num : (0:ℤ) ≤ 2)]
  omega

theorem tri_K_nonneg (l m r : ℝ) : 0 ≤ tri_K l m r := by
  simp only [tri_K, transc_sqrt]
  positivity

/-- `TriangularOverlappingFilterBank.supports`: with `K = ⌈tri_K⌉ ≥ 0` the pair is
`(-⌈K/2⌉ - 1, ⌊K/2⌋ + 1)`; it straddles 0 and is symmetric up to the parity of `K`.  No hypothesis. -/
theorem tri_supports_straddle (l m r : ℝ) :
    ∃ K : ℤ, K = ⌈tri_K l m r⌉ ∧ 0 ≤ K ∧
      triSupport l m r = (-((K + 1) / 2) - 1, K / 2 + 1) ∧
      (triSupport l m r).1 < 0 ∧ 0 < (triSupport l m r).2 ∧
      -(triSupport l m r).1 - (triSupport l m r).2 = K % 2 := by
  have hK : (0:ℤ) ≤ ⌈tri_K l m r⌉ := Int.ceil_nonneg (tri_K_nonneg l m r)
  obtain ⟨h1, h2, h3, h4, h5⟩ := halves_straddle _ hK
  refine ⟨_, rfl, hK, ?_, ?_, ?_, ?_⟩ <;>
    simp only [triSupport, tri_sup, tri_K_int, toInt_ceil]
  · rw [h1, h2]
  · exact h3
  · exact h4
  · exact h5

theorem fbank_K_pos {l m r : ℝ} (hl : l < m) (hr : m < r) : 0 < fbank_K l m r := by
  have h1 : 0 < m - l := by linarith
  have h2 : 0 < r - m := by linarith
  have h3 : 0 < r - l := by linarith
  simp only [fbank_K, transc_sqrt, transc_rpow, transc_pi, threshold]
  apply Real.rpow_pos_of_pos
  have hp := Real.pi_pos
  positivity

/-- `Fbank.supports` for a filter with vertices `l < m < r`. -/
theorem fbank_supports_straddle (l m r : ℝ) (hl : l < m) (hr : m < r) :
    ∃ K : ℤ, K = ⌈fbank_K l m r⌉ ∧ 0 < K ∧
      fbankSupport l m r = (-((K + 1) / 2) - 1, K / 2 + 1) ∧
      (fbankSupport l m r).1 < 0 ∧ 0 < (fbankSupport l m r).2 ∧
      -(fbankSupport l m r).1 - (fbankSupport l m r).2 = K % 2 := by
  have hK : (0:ℤ) < ⌈fbank_K l m r⌉ := Int.ceil_pos.mpr (fbank_K_pos hl hr)
  obtain ⟨h1, h2, h3, h4, h5⟩ := halves_straddle _ hK.le
  refine ⟨_, rfl, hK, ?_, ?_, ?_, ?_⟩ <;>
    simp only [fbankSupport, fbank_sup, fbank_K_int, toInt_ceil]
  · rw [h1, h2]
  · exact h3
  · exact h4
  · exact h5

/-! ## Gabor: Gaussian envelope against the support constant -/

theorem threshold_pos : (0:ℝ) < threshold := by simp only [threshold]; norm_num

theorem gabor_diff_real_eq (l2 : Bool) (std : ℝ) :
    gabor_diff_real l2 std = std * Real.sqrt (gabor_rad l2 std) := by
  cases l2 <;> simp [gabor_diff_real, gabor_rad]

/-- the exponent of one impulse-response term, in terms of the *generated* radicand of the support:
`log|f(t)| = log ε + (R - t²/std²)/2`.  (This is the identity a wrong support constant breaks.) -/
theorem gabor_logenv_eq (l2 : Bool) (std t : ℝ) :
    gabor_logenv l2 std t = Real.log threshold + (gabor_rad l2 std - t ^ 2 / std ^ 2) / 2 := by
  have h2pi : Real.log (2 * Real.pi) = Real.log 2 + Real.log Real.pi :=
    Real.log_mul (by norm_num) Real.pi_pos.ne'
  cases l2 <;>
    simp only [gabor_logenv, gabor_rad, gabor_t_support_const, transc_log, transc_pi, if_true,
      Bool.false_eq_true, if_false] <;> norm_num <;> (try rw [h2pi]) <;> ring

/-- envelope of the Gabor impulse response: peak times a Gaussian of standard deviation `std` -/
theorem gabor_env_eq (l2 : Bool) (std t : ℝ) :
    gabor_env l2 std t = gabor_env l2 std 0 * Real.exp (-(t ^ 2) / (2 * std ^ 2)) := by
  simp only [gabor_env, transc_exp, gabor_logenv_eq, ← Real.exp_add]
  congr 1; ring

/-- peak values: `1/(std·√(2π))` without, `std^(-1/2)·π^(-1/4)` with L2 scaling -/
theorem gabor_peak (std : ℝ) (hs : 0 < std) :
    gabor_env false std 0 = 1 / (std * Real.sqrt (2 * Real.pi)) ∧
    gabor_env true std 0 = std ^ (-(1:ℝ) / 2) * Real.pi ^ (-(1:ℝ) / 4) := by
  constructor
  · simp only [gabor_env, gabor_logenv, transc_exp, transc_log, transc_pi, Bool.false_eq_true, if_false]
    have h2 : (0:ℝ) < 2 * Real.pi := by positivity
    have hsq : 0 < Real.sqrt (2 * Real.pi) := Real.sqrt_pos.mpr h2
    rw [one_div, ← Real.exp_log (mul_pos hs hsq), ← Real.exp_neg, Real.log_mul hs.ne' hsq.ne',
      Real.log_sqrt h2.le]
    congr 1; norm_num; ring
  · simp only [gabor_env, gabor_logenv, transc_exp, transc_log, transc_pi, if_true]
    rw [Real.rpow_def_of_pos hs, Real.rpow_def_of_pos Real.pi_pos, ← Real.exp_add]
    congr 1; norm_num; ring

/-- **exact** tail of the Gaussian envelope: it is at most the threshold iff `|t| ≥ std·√R`, where
`std·√R` is the expression the constructor puts under `int(np.ceil(.))`. -/
theorem gabor_time_tail_iff (l2 : Bool) (std t : ℝ) (hs : 0 < std) (hr : 0 ≤ gabor_rad l2 std) :
    gabor_env l2 std t ≤ threshold ↔ gabor_diff_real l2 std ≤ |t| := by
  rw [gabor_diff_real_eq, gabor_env, transc_exp, ← Real.exp_log threshold_pos, Real.exp_le_exp,
    gabor_logenv_eq]
  have hs2 : 0 < std ^ 2 := by positivity
  have key : std * Real.sqrt (gabor_rad l2 std) ≤ |t| ↔ std ^ 2 * gabor_rad l2 std ≤ t ^ 2 := by
    rw [← sq_le_sq₀ (by positivity) (abs_nonneg t), mul_pow, Real.sq_sqrt hr, sq_abs]
  rw [key]
  constructor
  · intro h
    have : gabor_rad l2 std ≤ t ^ 2 / std ^ 2 := by linarith
    rw [le_div_iff₀ hs2] at this; linarith
  · intro h
    have : gabor_rad l2 std ≤ t ^ 2 / std ^ 2 := by rw [le_div_iff₀ hs2]; linarith
    linarith

/-- the constructor raises (`int(np.ceil(nan))`) exactly when the peak is already below the threshold -/
theorem gabor_raises_iff_peak_below (l2 : Bool) (std : ℝ) :
    gaborSupport l2 std = none ↔ gabor_env l2 std 0 < threshold := by
  have h0 : ((0.0 : ℝ) ≤ gabor_rad l2 std) ↔ 0 ≤ gabor_rad l2 std := by norm_num
  rw [gabor_env, transc_exp, ← Real.exp_log threshold_pos, Real.exp_lt_exp, gabor_logenv_eq]
  simp only [gaborSupport, h0]
  constructor
  · intro h
    have : ¬ 0 ≤ gabor_rad l2 std := by
      intro hh; rw [if_pos hh] at h; exact Option.some_ne_none _ h
    norm_num; linarith [not_le.mp this]
  · intro h
    have : ¬ 0 ≤ gabor_rad l2 std := by
      norm_num at h; intro hh; linarith
    rw [if_neg this]

/-- `GaborFilterBank.supports` is `(-K, K)` with `K = ⌈std·√R⌉`; `K > 0` as soon as the peak exceeds the
threshold (`R > 0`). -/
theorem gabor_supports_straddle (l2 : Bool) (std : ℝ) (hs : 0 < std) (hr : 0 < gabor_rad l2 std) :
    ∃ K : ℤ, K = ⌈gabor_diff_real l2 std⌉ ∧ 0 < K ∧ gaborSupport l2 std = some (-K, K) := by
  refine ⟨_, rfl, ?_, ?_⟩
  · rw [Int.ceil_pos, gabor_diff_real_eq]
    exact mul_pos hs (Real.sqrt_pos.mpr hr)
  · have h0 : ((0.0 : ℝ) ≤ gabor_rad l2 std) := by norm_num; exact hr.le
    simp only [gaborSupport, if_pos h0, gabor_sup, gabor_diff_samps, toInt_ceil]

/-- outside the advertised support the envelope is at most the threshold (real `t`) -/
theorem gabor_time_tail (l2 : Bool) (std t : ℝ) (hs : 0 < std) (a b : ℤ)
    (hsup : gaborSupport l2 std = some (a, b)) (ht : (b : ℝ) ≤ |t|) :
    a = -b ∧ gabor_env l2 std t ≤ threshold := by
  have hr : 0 ≤ gabor_rad l2 std := by
    by_contra h
    have h0 : ¬ ((0.0 : ℝ) ≤ gabor_rad l2 std) := by norm_num; exact not_le.mp h
    simp [gaborSupport, if_neg h0] at hsup
  have h0 : ((0.0 : ℝ) ≤ gabor_rad l2 std) := by norm_num; exact hr
  simp only [gaborSupport, if_pos h0, gabor_sup, gabor_diff_samps, toInt_ceil, Option.some.injEq,
    Prod.mk.injEq] at hsup
  obtain ⟨ha, hb⟩ := hsup
  refine ⟨by rw [← ha, ← hb], ?_⟩
  rw [gabor_time_tail_iff l2 std t hs hr]
  calc gabor_diff_real l2 std ≤ (⌈gabor_diff_real l2 std⌉ : ℝ) := Int.le_ceil _
    _ = (b : ℝ) := by rw [hb]
    _ ≤ |t| := ht

/-- every sample outside `supports` (closed interval, as the tests read it) is at most the threshold -/
theorem gabor_support_tail (l2 : Bool) (std : ℝ) (hs : 0 < std) (a b : ℤ)
    (hsup : gaborSupport l2 std = some (a, b)) (t : ℤ) (ht : t < a ∨ b < t) :
    gabor_env l2 std (t : ℝ) ≤ threshold := by
  have hab : a = -b := (gabor_time_tail l2 std (b : ℝ) hs a b hsup (le_abs_self _)).1
  refine (gabor_time_tail l2 std (t : ℝ) hs a b hsup ?_).2
  rcases ht with h | h
  · have : (b : ℝ) ≤ -(t : ℝ) := by
      have : b ≤ -t := by omega
      exact_mod_cast this
    exact this.trans (neg_le_abs _)
  · have : (b : ℝ) ≤ (t : ℝ) := by exact_mod_cast h.le
    exact this.trans (le_abs_self _)

/-- instance: a Gabor filter with `std = 10` samples (no L2 scaling) has its peak above the threshold,
so `gabor_supports_straddle` applies to it. -/
example : 0 < gabor_rad false (10:ℝ) := by
  simp only [gabor_rad, gabor_t_support_const, threshold, transc_log, transc_pi, Bool.false_eq_true, if_false]
  have hpi := Real.pi_pos
  have h : Real.log ((0.0005:ℝ) ^ 2 * (2 * Real.pi) * 10 ^ 2) < 0 :=
    Real.log_neg (by positivity) (by nlinarith [Real.pi_le_four])
  rw [Real.log_mul (by positivity) (by positivity), Real.log_mul (by positivity) (by positivity),
    Real.log_pow, Real.log_pow, Real.log_mul (by norm_num) hpi.ne'] at h
  norm_num at h ⊢
  linarith

/-! ## gammatone: the gamma envelope `c·t^(n-1)·e^(-αt)` -/

theorem gt_h_logenv_eq (c α n offset t : ℝ) : gt_h_logenv c α n offset t = L c α n (t - offset) := by
  simp only [gt_h_logenv, L, transc_log]; norm_num; ring

theorem gt_h_env_def (c α n offset t : ℝ) :
    gt_h_env c α n offset t = if t ≤ offset then 0 else Real.exp (L c α n (t - offset)) := by
  simp only [gt_h_env, transc_exp, gt_h_logenv_eq]; norm_num

theorem exp_L {c α n t : ℝ} (hc : 0 < c) (ht : 0 < t) :
    Real.exp (L c α n t) = c * t ^ (n - 1) * Real.exp (-(α * t)) := by
  unfold L
  rw [Real.rpow_def_of_pos ht,
    show Real.log c + (n - 1) * Real.log t - α * t = Real.log c + Real.log t * (n - 1) + -(α * t) by ring,
    Real.exp_add, Real.exp_add, Real.exp_log hc]

/-- `|_h(t)|` is the documented `c·(t-offset)^(n-1)·e^(-α(t-offset))` for `t > offset`, `0` before -/
theorem gammatone_env_eq {c α n offset t : ℝ} (hc : 0 < c) :
    gt_h_env c α n offset t =
      if t ≤ offset then 0 else c * (t - offset) ^ (n - 1) * Real.exp (-(α * (t - offset))) := by
  rw [gt_h_env_def]
  split
  · rfl
  · rename_i h; rw [exp_L hc (by linarith [not_le.mp h])]

/-- for order `n > 1` the envelope has its unique maximum `(n-1)/α` samples after `offset` -/
theorem gammatone_env_mode {c α n : ℝ} (hα : 0 < α) (hn : 1 < n) (offset t : ℝ)
    (hne : t ≠ offset + (n - 1) / α) :
    gt_h_env c α n offset t < gt_h_env c α n offset (offset + (n - 1) / α) := by
  have hm : 0 < (n - 1) / α := div_pos (by linarith) hα
  rw [gt_h_env_def, gt_h_env_def, if_neg (by linarith : ¬ offset + (n - 1) / α ≤ offset)]
  split
  · exact Real.exp_pos _
  · rename_i h
    rw [Real.exp_lt_exp, add_sub_cancel_left]
    apply L_lt_mode hn hα (by linarith [not_le.mp h])
    intro h'; apply hne; linarith

/-- beyond the mode the envelope is strictly decreasing -/
theorem gammatone_env_antitone_beyond_mode {c α n : ℝ} (hα : 0 < α) (hn : 1 ≤ n) (offset s t : ℝ)
    (hs : offset < s) (hmode : offset + (n - 1) / α ≤ s) (hst : s < t) :
    gt_h_env c α n offset t < gt_h_env c α n offset s := by
  rw [gt_h_env_def, gt_h_env_def, if_neg (by linarith), if_neg (by linarith), Real.exp_lt_exp]
  exact L_strictAnti hn hα (by linarith) (by linarith) (by linarith)

/-- hence: once the envelope is at most the threshold at some `r` beyond the mode, it stays so -/
theorem gammatone_time_tail {c α n : ℝ} (hα : 0 < α) (hn : 1 ≤ n) (offset r : ℝ)
    (hr : offset < r) (hmode : offset + (n - 1) / α ≤ r) (hexit : gt_h_env c α n offset r ≤ threshold)
    (t : ℝ) (ht : r ≤ t) : gt_h_env c α n offset t ≤ threshold := by
  rcases eq_or_lt_of_le ht with h | h
  · rw [← h]; exact hexit
  · exact (gammatone_env_antitone_beyond_mode hα hn offset r t hr hmode h).le.trans hexit

/-! ## the Newton search of `_calculate_temp_support` (no iteration cap in the source) -/

theorem newton_h_eq (c α n offset r : ℝ) :
    gt_newton_h c α n offset r = if r ≤ 0 then 0 else Real.exp (L c α n r) := by
  rw [gt_newton_h, gt_h_env_def, add_sub_cancel_right]
  simp only [add_le_iff_nonpos_left]

theorem newton_h_offset (c α n offset r : ℝ) : gt_newton_h c α n offset r = gt_newton_h c α n 0 r := by
  rw [newton_h_eq, newton_h_eq]

theorem newton_continue_iff (h : ℝ) : gt_newton_continue h = true ↔ threshold < h := by
  simp [gt_newton_continue]

/-- one pass of the loop body, in closed form: `right ← right + right/(α·right - (n-1))` -/
theorem newton_step_eq {c α n offset r : ℝ} (hc : 0 < c) (hr : 0 < r) (hne : α * r - (n - 1) ≠ 0) :
    gt_newton_step c α n r (gt_newton_h c α n offset r) = r + r / (α * r - (n - 1)) := by
  rw [newton_h_eq, if_neg (not_le.mpr hr)]
  simp only [gt_newton_step, gt_d, transc_exp, transc_rpow]
  rw [Real.rpow_def_of_pos hr]
  have e1 : Real.exp (L c α n r) = c * Real.exp (-α * r) * Real.exp (Real.log r * (n - 2)) * r := by
    unfold L
    rw [show Real.log c + (n - 1) * Real.log r - α * r
        = Real.log c + -α * r + Real.log r * (n - 2) + Real.log r by ring,
      Real.exp_add, Real.exp_add, Real.exp_add, Real.exp_log hc, Real.exp_log hr]
  rw [e1]
  have h1 : (n - 1.0 - α * r) ≠ 0 := by
    intro h; apply hne; norm_num at h; linarith
  have h2 : Real.exp (-α * r) ≠ 0 := (Real.exp_pos _).ne'
  have h3 : Real.exp (Real.log r * (n - 2.0)) ≠ 0 := (Real.exp_pos _).ne'
  have h4 : (n - 2.0 : ℝ) = n - 2 := by norm_num
  have h5 : (n - 1.0 : ℝ) = n - 1 := by norm_num
  rw [h4] at h3 ⊢; rw [h5] at h1 ⊢
  obtain ⟨d, hd⟩ : ∃ d, d = α * r - (n - 1) := ⟨_, rfl⟩
  have e2 : n - 1 - α * r = -d := by rw [hd]; ring
  have hd0 : d ≠ 0 := by rw [hd]; exact hne
  rw [e2, ← hd]
  field_simp
  ring

/-- the starting point `(n-1+√((n-1)/2))/α` lies strictly beyond the mode (and before the inflection
point `(n-1+√(n-1))/α`: the search starts on the concave part of the tail) -/
theorem newton_start_gt_mode {α n : ℝ} (hα : 0 < α) (hn : 1 < n) :
    (n - 1) / α < gt_newton_start α n ∧ gt_newton_start α n < (n - 1 + Real.sqrt (n - 1)) / α := by
  simp only [gt_newton_start, transc_sqrt]
  rw [show (1.0:ℝ) = 1 by norm_num, show (2.0:ℝ) = 2 by norm_num]
  have h1 : 0 < Real.sqrt ((n - 1) / 2) := Real.sqrt_pos.mpr (by linarith)
  have h2 : Real.sqrt ((n - 1) / 2) < Real.sqrt (n - 1) :=
    Real.sqrt_lt_sqrt (by linarith) (by linarith)
  constructor
  · apply div_lt_div_of_pos_right _ hα; linarith
  · apply div_lt_div_of_pos_right _ hα; linarith

/-- **progress**: beyond the mode every Newton step moves right by at least `1/α` -/
theorem newton_step_moves_right {c α n offset r : ℝ} (hc : 0 < c) (hα : 0 < α) (hn : 1 ≤ n)
    (hr : (n - 1) / α < r) :
    r + 1 / α ≤ gt_newton_step c α n r (gt_newton_h c α n offset r) := by
  have hr0 : 0 < r := lt_of_le_of_lt (div_nonneg (by linarith) hα.le) hr
  have hd : 0 < α * r - (n - 1) := by
    have := (div_lt_iff₀ hα).mp hr; linarith
  rw [newton_step_eq hc hr0 hd.ne']
  have : 1 / α ≤ r / (α * r - (n - 1)) := by
    rw [div_le_div_iff₀ hα hd]; nlinarith
  linarith

/-- what the loop guarantees on exit (for any fuel): the result is not left of where it started and
the exit test `h_0 ≤ eps` holds there. -/
theorem newton_loop_sound {c α n offset : ℝ} (hc : 0 < c) (hα : 0 < α) (hn : 1 ≤ n) :
    ∀ (fuel : ℕ) (r0 r : ℝ), (n - 1) / α < r0 → newtonLoop c α n offset fuel r0 = some r →
      r0 ≤ r ∧ gt_newton_h c α n offset r ≤ threshold := by
  intro fuel
  induction fuel with
  | zero => intro r0 r _ h; simp [newtonLoop] at h
  | succ k ih =>
    intro r0 r hr0 h
    simp only [newtonLoop] at h
    split at h
    · rename_i hcont
      have hstep := newton_step_moves_right (offset := offset) hc hα hn hr0
      have hpos : 0 < 1 / α := by positivity
      obtain ⟨h1, h2⟩ := ih _ r (by linarith) h
      exact ⟨by linarith, h2⟩
    · rename_i hcont
      simp only [Option.some.injEq] at h
      subst h
      refine ⟨le_refl _, ?_⟩
      rw [newton_continue_iff] at hcont
      exact not_lt.mp hcont

/-- a time at which the envelope is provably below the threshold -/
theorem env_le_at_Tstar {c α n : ℝ} (hα : 0 < α) (hn : 1 < n) :
    gt_newton_start α n ≤ newtonTstar c α n ∧ Real.exp (L c α n (newtonTstar c α n)) ≤ threshold := by
  have hst := (newton_start_gt_mode hα hn).1
  have hm : 0 < (n - 1) / α := div_pos (by linarith) hα
  set T := newtonTstar c α n with hT
  have h1 : gt_newton_start α n ≤ T := by
    rw [hT]; unfold newtonTstar; exact le_max_left _ _
  have h2 : (2 / α) * (Real.log c - Real.log threshold + (n - 1) * (Real.log (2 * (n - 1) / α) - 1)) ≤ T := by
    rw [hT]; unfold newtonTstar; simp only [transc_log]; norm_num
  refine ⟨h1, ?_⟩
  have hT0 : 0 < T := by linarith
  have ha : 0 < 2 * (n - 1) / α := by positivity
  rw [← Real.exp_log threshold_pos, Real.exp_le_exp]
  have hlog : Real.log T ≤ Real.log (2 * (n - 1) / α) + (T / (2 * (n - 1) / α) - 1) := by
    have := Real.log_le_sub_one_of_pos (div_pos hT0 ha)
    rw [Real.log_div hT0.ne' ha.ne'] at this; linarith
  have e : T / (2 * (n - 1) / α) = α * T / (2 * (n - 1)) := by
    field_simp
  have hmul : (n - 1) * Real.log T ≤ (n - 1) * (Real.log (2 * (n - 1) / α) - 1) + α * T / 2 := by
    have := mul_le_mul_of_nonneg_left hlog (by linarith : (0:ℝ) ≤ n - 1)
    rw [e] at this
    have e2 : (n - 1) * (α * T / (2 * (n - 1))) = α * T / 2 := by
      have : n - 1 ≠ 0 := by linarith
      field_simp
    nlinarith
  have h3 : Real.log c - Real.log threshold + (n - 1) * (Real.log (2 * (n - 1) / α) - 1) ≤ α * T / 2 := by
    have := mul_le_mul_of_nonneg_left h2 (by positivity : (0:ℝ) ≤ α / 2)
    have e3 : α / 2 * (2 / α * (Real.log c - Real.log threshold + (n - 1) * (Real.log (2 * (n - 1) / α) - 1)))
        = Real.log c - Real.log threshold + (n - 1) * (Real.log (2 * (n - 1) / α) - 1) := by
      field_simp
    rw [e3] at this; linarith
  unfold L
  linarith

theorem newton_loop_terminates {c α n offset T : ℝ} (hc : 0 < c) (hα : 0 < α) (hn : 1 ≤ n)
    (hT0 : 0 < T) (hTm : (n - 1) / α ≤ T) (hT : Real.exp (L c α n T) ≤ threshold) :
    ∀ (k : ℕ) (r0 : ℝ), (n - 1) / α < r0 → α * (T - r0) ≤ k →
      ∃ r, newtonLoop c α n offset (k + 1) r0 = some r := by
  intro k
  induction k with
  | zero =>
    intro r0 hr0 hk
    have hr00 : 0 < r0 := lt_of_le_of_lt (div_nonneg (by linarith) hα.le) hr0
    have hTr : T ≤ r0 := by
      have : α * (T - r0) ≤ 0 := by simpa using hk
      by_contra hh
      have := mul_pos hα (by linarith [not_le.mp hh] : 0 < T - r0)
      linarith
    have hle : gt_newton_h c α n offset r0 ≤ threshold := by
      rw [newton_h_eq, if_neg (not_le.mpr hr00)]
      rcases eq_or_lt_of_le hTr with h | h
      · rw [← h]; exact hT
      · exact (Real.exp_le_exp.mpr (L_strictAnti hn hα hT0 hTm h).le).trans hT
    refine ⟨r0, ?_⟩
    simp only [newtonLoop]
    rw [if_neg]
    rw [newton_continue_iff]; exact not_lt.mpr hle
  | succ k ih =>
    intro r0 hr0 hk
    simp only [newtonLoop]
    split
    · have hstep := newton_step_moves_right (offset := offset) hc hα hn hr0
      have hpos : 0 < 1 / α := by positivity
      apply ih _ (by linarith)
      have : α * (1 / α) = 1 := by field_simp
      push_cast at hk
      nlinarith
    · exact ⟨r0, rfl⟩

/-- **termination** of the uncapped `while h_0 > eps` loop: with the computable fuel `newtonFuel`
(`⌈α·(T* - start)⌉ + 1` evaluations of the test, `T*` explicit) the search returns, and what it returns
is at or right of the starting point with the exit test true. -/
theorem newton_terminates {c α n : ℝ} (hc : 0 < c) (hα : 0 < α) (hn : 1 < n) (offset : ℝ) :
    ∃ r, newtonSearch (newtonFuel c α n) c α n offset = some r ∧
      gt_newton_start α n ≤ r ∧ gt_newton_h c α n offset r ≤ threshold := by
  obtain ⟨hst, _⟩ := newton_start_gt_mode hα hn
  obtain ⟨h1, h2⟩ := env_le_at_Tstar (c := c) hα hn
  have hm : 0 < (n - 1) / α := div_pos (by linarith) hα
  have hk : α * (newtonTstar c α n - gt_newton_start α n) ≤
      ((Rnd.toInt (Rnd.ceil (α * (newtonTstar c α n - gt_newton_start α n)))).toNat : ℝ) := by
    rw [toInt_ceil]
    calc α * (newtonTstar c α n - gt_newton_start α n)
        ≤ ((⌈α * (newtonTstar c α n - gt_newton_start α n)⌉ : ℤ) : ℝ) := Int.le_ceil _
      _ ≤ ((⌈α * (newtonTstar c α n - gt_newton_start α n)⌉.toNat : ℤ) : ℝ) := by
          exact_mod_cast Int.self_le_toNat _
      _ = _ := by norm_cast
  obtain ⟨r, hr⟩ := newton_loop_terminates (offset := offset) hc hα hn.le (by linarith) (by linarith) h2
    _ (gt_newton_start α n) hst hk
  refine ⟨r, hr, ?_⟩
  exact newton_loop_sound hc hα hn.le _ _ _ hst hr

/-- instance (order 4, `α = 1/10`, `c = α⁴/3!`): all hypotheses hold, so the search terminates -/
example : ∃ r, newtonSearch (newtonFuel ((1/10:ℝ)^4/6) (1/10) 4) ((1/10:ℝ)^4/6) (1/10) 4 0 = some r :=
  (newton_terminates (by norm_num) (by norm_num) (by norm_num) 0).imp fun _ h => h.1

/-! ## the supports `_calculate_temp_support` returns -/

theorem newtonLoop_offset (c α n offset : ℝ) :
    ∀ (fuel : ℕ) (r0 : ℝ), newtonLoop c α n offset fuel r0 = newtonLoop c α n 0 fuel r0 := by
  intro fuel
  induction fuel with
  | zero => intro r0; rfl
  | succ k ih => intro r0; simp only [newtonLoop, newton_h_offset c α n offset r0, ih]

/-- the pair returned for a search result `r ≥ start`, when `offset ≥ -(n-1)/α` (both values the
constructor uses): `(⌊offset⌋, ⌈r⌉ + ⌊offset⌋)` — `int()` truncation acts as `floor` there. -/
theorem gt_sup_eq {α n offset r : ℝ} (hα : 0 < α) (hn : 1 < n) (hoff : -((n - 1) / α) ≤ offset)
    (hr : gt_newton_start α n ≤ r) :
    gt_sup offset r = (⌊offset⌋, ⌈r⌉ + ⌊offset⌋) := by
  obtain ⟨hst, _⟩ := newton_start_gt_mode hα hn
  simp only [gt_sup, rnd_floor, rnd_ceil, toInt_intCast, Prod.mk.injEq, true_and]
  have hpos : (0:ℝ) ≤ (⌈r⌉ : ℝ) + offset := by
    have := Int.le_ceil r; linarith
  rw [toInt_of_nonneg hpos, Int.floor_intCast_add]

theorem gt_offset_false (n α : ℝ) : gt_offset false n α = 0 := by
  simp only [gt_offset, Bool.false_eq_true, if_false]; norm_num

theorem toInt_zero : Rnd.toInt (0:ℝ) = 0 := by
  have := toInt_intCast 0; simpa using this

/-- causal banks (`max_centered = False`): the support starts at sample 0 -/
theorem gammatone_causal_starts_at_0 (o1 : Bool) (fuel : ℕ) (c α n : ℝ) (a b : ℤ)
    (h : gtSupport o1 fuel c α n (gt_offset false n α) = some (a, b)) : a = 0 := by
  have h0 : gt_offset false n α = 0 := gt_offset_false n α
  rw [h0] at h
  unfold gtSupport at h
  split at h
  · simp only [gt_sup, rnd_floor, Int.floor_zero, Int.cast_zero, toInt_zero, Option.some.injEq,
      Prod.mk.injEq] at h
    exact h.1.symm
  · cases hs : newtonSearch fuel c α n 0 with
    | none => rw [hs] at h; simp at h
    | some r =>
      rw [hs] at h
      simp only [Option.map_some, gt_sup, rnd_floor, Int.floor_zero, Int.cast_zero, toInt_zero,
        Option.some.injEq, Prod.mk.injEq] at h
      exact h.1.symm

/-- what the returned support means (orders `n ≥ 2`, either value of `max_centered`): every integer
sample after the right end has `|_h| ≤ threshold`, every sample at or before the left end has `_h = 0`. -/
theorem gammatone_support_tail {c α n offset : ℝ} (hc : 0 < c) (hα : 0 < α) (hn : 1 < n)
    (hoff : -((n - 1) / α) ≤ offset) (fuel : ℕ) (a b : ℤ)
    (h : gtSupport false fuel c α n offset = some (a, b)) :
    a = ⌊offset⌋ ∧ (∀ t : ℤ, b < t → gt_h_env c α n offset (t : ℝ) ≤ threshold) ∧
      (∀ t : ℤ, t ≤ a → gt_h_env c α n offset (t : ℝ) = 0) := by
  obtain ⟨hst, _⟩ := newton_start_gt_mode hα hn
  have hm : 0 < (n - 1) / α := div_pos (by linarith) hα
  simp only [gtSupport, Bool.false_eq_true, if_false] at h
  cases hs : newtonSearch fuel c α n offset with
  | none => rw [hs] at h; simp at h
  | some r =>
    rw [hs] at h
    obtain ⟨hr, hex⟩ := newton_loop_sound hc hα hn.le _ _ _ hst hs
    simp only [Option.map_some, gt_sup_eq hα hn hoff hr, Option.some.injEq, Prod.mk.injEq] at h
    obtain ⟨ha, hb⟩ := h
    refine ⟨ha.symm, ?_, ?_⟩
    · intro t ht
      have ht' : ⌈r⌉ + ⌊offset⌋ + 1 ≤ t := by omega
      have ht'' : ((⌈r⌉ : ℝ)) + (⌊offset⌋ : ℝ) + 1 ≤ (t : ℝ) := by exact_mod_cast ht'
      have hfl : offset < (⌊offset⌋ : ℝ) + 1 := Int.lt_floor_add_one offset
      have hcl : r ≤ (⌈r⌉ : ℝ) := Int.le_ceil r
      -- in shifted time: r + offset ≤ t
      have hrt : r + offset ≤ (t : ℝ) := by linarith
      have hexit : gt_h_env c α n offset (r + offset) ≤ threshold := hex
      exact gammatone_time_tail hα hn.le offset (r + offset) (by linarith) (by linarith) hexit _ hrt
    · intro t ht
      rw [gt_h_env_def, if_pos]
      have : (t : ℝ) ≤ (⌊offset⌋ : ℝ) := by rw [← ha] at ht; exact_mod_cast ht
      exact this.trans (Int.floor_le offset)

/-- `max_centered = True` (as repaired in 117d20c): the search runs in unshifted time, so the support is
the causal one moved left by the integer `⌊offset⌋ = ⌊-(n-1)/α⌋`. -/
theorem max_centered_support_shift {c α n : ℝ} (hc : 0 < c) (hα : 0 < α) (hn : 1 < n) (fuel : ℕ) :
    gt_offset true n α = -((n - 1) / α) ∧
    gtSupport false fuel c α n (gt_offset true n α) =
      (gtSupport false fuel c α n (gt_offset false n α)).map
        (fun p => (p.1 + ⌊-((n - 1) / α)⌋, p.2 + ⌊-((n - 1) / α)⌋)) := by
  obtain ⟨hst, _⟩ := newton_start_gt_mode hα hn
  have hm : 0 < (n - 1) / α := div_pos (by linarith) hα
  have h0 : gt_offset false n α = 0 := gt_offset_false n α
  have h1 : gt_offset true n α = -((n - 1) / α) := by
    simp only [gt_offset, if_true]; norm_num; ring
  refine ⟨h1, ?_⟩
  rw [h0, h1]
  simp only [gtSupport, Bool.false_eq_true, if_false, newtonSearch]
  rw [newtonLoop_offset c α n (-((n - 1) / α))]
  cases hs : newtonLoop c α n 0 fuel (gt_newton_start α n) with
  | none => rfl
  | some r =>
    obtain ⟨hr, _⟩ := newton_loop_sound hc hα hn.le _ _ _ hst hs
    simp only [Option.map_some, Option.some.injEq]
    rw [gt_sup_eq hα hn (le_refl _) hr, gt_sup_eq hα hn (by linarith) hr]
    simp

/-- all three zero-phase banks at once (the statement of the property's clause) -/
theorem zero_phase_supports_straddle :
    (∀ l m r : ℝ, (triSupport l m r).1 < 0 ∧ 0 < (triSupport l m r).2) ∧
    (∀ l m r : ℝ, l < m → m < r → (fbankSupport l m r).1 < 0 ∧ 0 < (fbankSupport l m r).2) ∧
    (∀ (l2 : Bool) (std : ℝ), 0 < std → 0 < gabor_rad l2 std →
      ∃ K : ℤ, 0 < K ∧ gaborSupport l2 std = some (-K, K)) := by
  refine ⟨fun l m r => ?_, fun l m r hl hr => ?_, fun l2 std hs hr => ?_⟩
  · obtain ⟨K, _, _, _, h1, h2, _⟩ := tri_supports_straddle l m r; exact ⟨h1, h2⟩
  · obtain ⟨K, _, _, _, h1, h2, _⟩ := fbank_supports_straddle l m r hl hr; exact ⟨h1, h2⟩
  · obtain ⟨K, _, h1, h2⟩ := gabor_supports_straddle l2 std hs hr; exact ⟨K, h1, h2⟩

/-! ## non-vacuity of the support theorems on concrete filters -/

/-- order 4, `α = 1/10`, `c = α⁴/3!`, `max_centered`: the search returns, so `gammatone_support_tail`
and `max_centered_support_shift` speak about an actual support `(a, b)`. -/
example : ∃ a b : ℤ, gtSupport false (newtonFuel ((1/10:ℝ)^4/6) (1/10) 4) ((1/10:ℝ)^4/6) (1/10) 4
    (gt_offset true 4 (1/10)) = some (a, b) ∧ a = -30 := by
  obtain ⟨r, hr, _⟩ := newton_terminates (c := (1/10:ℝ)^4/6) (α := 1/10) (n := 4)
    (by norm_num) (by norm_num) (by norm_num) (gt_offset true 4 (1/10))
  have h := gammatone_support_tail (c := (1/10:ℝ)^4/6) (α := 1/10) (n := 4)
    (offset := gt_offset true 4 (1/10)) (by norm_num) (by norm_num) (by norm_num)
    (by simp only [gt_offset, if_true]; norm_num) (newtonFuel ((1/10:ℝ)^4/6) (1/10) 4)
  simp only [gtSupport, Bool.false_eq_true, if_false, hr, Option.map_some] at h ⊢
  refine ⟨_, _, rfl, ?_⟩
  have := (h _ _ rfl).1
  rw [this]
  simp only [gt_offset, if_true]
  norm_num

example : ∃ K : ℤ, 0 < K ∧ gaborSupport false (10:ℝ) = some (-K, K) := by
  have hr : 0 < gabor_rad false (10:ℝ) := by
    simp only [gabor_rad, gabor_t_support_const, threshold, transc_log, transc_pi, Bool.false_eq_true, if_false]
    have hpi := Real.pi_pos
    have h : Real.log ((0.0005:ℝ) ^ 2 * (2 * Real.pi) * 10 ^ 2) < 0 :=
      Real.log_neg (by positivity) (by nlinarith [Real.pi_le_four])
    rw [Real.log_mul (by positivity) (by positivity), Real.log_mul (by positivity) (by positivity),
      Real.log_pow, Real.log_pow, Real.log_mul (by norm_num) hpi.ne'] at h
    norm_num at h ⊢
    linarith
  obtain ⟨K, _, h1, h2⟩ := gabor_supports_straddle false 10 (by norm_num) hr
  exact ⟨K, h1, h2⟩

example : (fbankSupport (1:ℝ) 2 3).1 < 0 ∧ 0 < (fbankSupport (1:ℝ) 2 3).2 :=
  zero_phase_supports_straddle.2.1 1 2 3 (by norm_num) (by norm_num)

/-! ## triangular bank: the envelope bound quoted in the source, against `supports` -/

theorem tri_K_sq {l m r : ℝ} (hl : l < m) (hr : m < r) :
    (tri_K l m r) ^ 2 = 8 * (r - l) / Real.pi / threshold / ((m - l) * (r - m)) := by
  have h1 : 0 < m - l := by linarith
  have h2 : 0 < r - m := by linarith
  have hp := Real.pi_pos
  have ht := threshold_pos
  simp only [tri_K, transc_sqrt, transc_pi]
  rw [show (8.0:ℝ) = 8 by norm_num]
  have e : ∀ a b c d : ℝ, (a / b / (c * d)) ^ 2 = a ^ 2 / b ^ 2 / (c ^ 2 * d ^ 2) := by
    intro a b c d; ring
  rw [e, Real.sq_sqrt, Real.sq_sqrt ht.le, Real.sq_sqrt h1.le, Real.sq_sqrt h2.le]
  have : 0 < r - l := by linarith
  positivity

/-- `|t| ≥ K/2` means `t ≠ 0` and `2(r-l) ≤ ε·(m-l)(r-m)·π·t²` -/
theorem tri_tail_arith {l m r : ℝ} (hl : l < m) (hr : m < r) (t : ℝ) (ht : tri_K l m r / 2 ≤ |t|) :
    t ≠ 0 ∧ 2 * (r - l) ≤ threshold * ((m - l) * (r - m) * Real.pi * t ^ 2) := by
  have h1 : 0 < m - l := by linarith
  have h2 : 0 < r - m := by linarith
  have h3 : 0 < r - l := by linarith
  have hp := Real.pi_pos
  have hth := threshold_pos
  have hKpos : 0 < tri_K l m r := by
    have := tri_K_sq hl hr
    have hpos : 0 < (tri_K l m r) ^ 2 := by rw [this]; positivity
    exact lt_of_le_of_ne (tri_K_nonneg l m r) (fun h => by rw [← h] at hpos; simp at hpos)
  have htpos : 0 < |t| := by linarith
  have ht2 : (tri_K l m r) ^ 2 / 4 ≤ t ^ 2 := by
    have := pow_le_pow_left₀ (by positivity) ht 2
    rw [sq_abs] at this; linarith [this, show (tri_K l m r / 2) ^ 2 = (tri_K l m r) ^ 2 / 4 by ring]
  rw [tri_K_sq hl hr] at ht2
  refine ⟨fun h => by rw [h] at htpos; simp at htpos, ?_⟩
  have hAB : 0 < (m - l) * (r - m) := mul_pos h1 h2
  have e : 8 * (r - l) / Real.pi / threshold / ((m - l) * (r - m)) / 4 =
      2 * (r - l) / (Real.pi * threshold * ((m - l) * (r - m))) := by
    field_simp; ring
  rw [e, div_le_iff₀ (by positivity)] at ht2
  nlinarith

/-- real triangular bank: one image `val(t)/denom` of the closed-form impulse response is bounded by
`2(w_r-w_l)/((w_c-w_l)(w_r-w_c)·t²·π)` (the bound in the source comment), which is at most the threshold
as soon as `|t| ≥ K/2` (`K` the real number under `int(np.ceil(.))`) — in particular at every sample
outside `supports = (-⌈K/2⌉-1, ⌊K/2⌋+1)`. -/
theorem tri_time_tail {l m r : ℝ} (hl : l < m) (hr : m < r) (t : ℝ) (ht : tri_K l m r / 2 ≤ |t|) :
    |tri_ir_val l m r (tri_ir_div_term l m r) t / tri_ir_denom false l m r| ≤ threshold := by
  obtain ⟨htt, hle⟩ := tri_tail_arith hl hr t ht
  have h1 : 0 < m - l := by linarith
  have h2 : 0 < r - m := by linarith
  have hp := Real.pi_pos
  have ht0 : 0 < t ^ 2 := by positivity
  -- closed form of the quotient
  have key : tri_ir_val l m r (tri_ir_div_term l m r) t / tri_ir_denom false l m r =
      ((r - l) * Real.cos (m * t) - (r - m) * Real.cos (l * t) - (m - l) * Real.cos (r * t)) /
        ((m - l) * (r - m) * Real.pi * t ^ 2) := by
    simp only [tri_ir_val, tri_ir_div_term, tri_ir_denom, transc_cos, transc_pi, Bool.false_eq_true, if_false]
    rw [show ((0.0:ℝ) + 1.0) = 1 by norm_num, one_mul]
    split <;> field_simp
  rw [key, abs_div, abs_of_pos (by positivity : 0 < (m - l) * (r - m) * Real.pi * t ^ 2),
    div_le_iff₀ (by positivity)]
  have hN : |(r - l) * Real.cos (m * t) - (r - m) * Real.cos (l * t) - (m - l) * Real.cos (r * t)|
      ≤ 2 * (r - l) := by
    have c1 := Real.abs_cos_le_one (m * t)
    have c2 := Real.abs_cos_le_one (l * t)
    have c3 := Real.abs_cos_le_one (r * t)
    rw [abs_le] at c1 c2 c3 ⊢
    constructor <;> nlinarith [c1.1, c1.2, c2.1, c2.2, c3.1, c3.2]
  exact hN.trans hle

/-- samples outside `supports` satisfy the hypothesis of `tri_time_tail` -/
theorem tri_outside_support_far (l m r : ℝ) (t : ℤ)
    (ht : t < (triSupport l m r).1 ∨ (triSupport l m r).2 < t) : tri_K l m r / 2 ≤ |(t : ℝ)| := by
  obtain ⟨K, hK, hK0, hs, _, _, _⟩ := tri_supports_straddle l m r
  rw [hs] at ht
  have hle : tri_K l m r ≤ (K : ℝ) := by rw [hK]; exact Int.le_ceil _
  have : (K : ℝ) / 2 ≤ |(t : ℝ)| := by
    rcases ht with h | h
    · have h' : K ≤ 2 * (-t) := by simp only at h; omega
      have : (K : ℝ) ≤ 2 * (-(t : ℝ)) := by exact_mod_cast h'
      have := neg_le_abs (t : ℝ); linarith
    · have h' : K ≤ 2 * t := by simp only at h; omega
      have : (K : ℝ) ≤ 2 * (t : ℝ) := by exact_mod_cast h'
      have := le_abs_self (t : ℝ); linarith
  linarith


/-! ## stretch: the closed form `get_impulse_response` uses for the triangular bank is the inverse
Fourier integral of the (continuous-frequency) triangle -/

open PdsVerif.BankTimeFourier in
/-- analytic bank, `t ≠ 0`: `(1/2π)∫_l^r tri(ω)e^{iωt}dω = val(t)/denom`, `val = val_re + i·val_im` as the
source computes it.  (The buffer then holds `val(k) + conj(val(W-k))`: two images of this function.) -/
theorem tri_impulse_closed_form {l m r : ℝ} (hl : l < m) (hr : m < r) (t : ℝ) (ht : t ≠ 0) :
    (1 / (2 * (Real.pi : ℂ))) * ∫ ω in l..r, ((triangle l m r ω : ℝ) : ℂ) * Complex.exp (Complex.I * ω * t) =
      (((tri_ir_val_re l m r (tri_ir_div_term l m r) t : ℝ) : ℂ) +
        Complex.I * ((tri_ir_val_im l m r (tri_ir_div_term l m r) t : ℝ) : ℂ)) /
        ((tri_ir_denom true l m r : ℝ) : ℂ) := by
  have h1 : m - l ≠ 0 := by linarith
  have h2 : r - m ≠ 0 := by linarith
  have hp : (Real.pi : ℂ) ≠ 0 := by exact_mod_cast Real.pi_pos.ne'
  have htc : (t : ℂ) ≠ 0 := by exact_mod_cast ht
  have h1c : ((m : ℂ) - l) ≠ 0 := by exact_mod_cast h1
  have h2c : ((r : ℂ) - m) ≠ 0 := by exact_mod_cast h2
  have e : ∀ x : ℝ, Complex.exp (Complex.I * x * t) =
      ((Real.cos (x * t) : ℝ) : ℂ) + ((Real.sin (x * t) : ℝ) : ℂ) * Complex.I := by
    intro x
    rw [show Complex.I * x * t = ((x * t : ℝ) : ℂ) * Complex.I by push_cast; ring, Complex.exp_mul_I,
      Complex.ofReal_cos, Complex.ofReal_sin]
  rw [integral_triangle_exp hl hr t ht, e, e, e]
  simp only [tri_ir_val_re, tri_ir_val_im, tri_ir_div_term, tri_ir_denom, transc_cos, transc_sin, transc_pi,
    if_true]
  rw [show ((1.0:ℝ) + 1.0) = 2 by norm_num, show (1.0:ℝ) = 1 by norm_num]
  simp only [one_mul]
  split <;> (push_cast; field_simp; ring)

open PdsVerif.BankTimeFourier in
/-- `t = 0`: the extra term added to `res[0]` is the triangle's area over `2π` -/
theorem tri_impulse_closed_form_zero {l m r : ℝ} (hl : l < m) (hr : m < r) :
    (1 / (2 * Real.pi)) * ∫ ω in l..r, triangle l m r ω =
      tri_ir_zero l m r (tri_ir_div_term l m r) / tri_ir_denom true l m r := by
  have h1 : m - l ≠ 0 := by linarith
  have h2 : r - m ≠ 0 := by linarith
  have hp := Real.pi_pos.ne'
  rw [integral_triangle hl hr]
  simp only [tri_ir_zero, tri_ir_div_term, tri_ir_denom, transc_pi, if_true]
  rw [show ((1.0:ℝ) + 1.0) = 2 by norm_num, show (2.0:ℝ) = 2 by norm_num]
  split <;> (field_simp; ring)

/-- the real bank's value is twice the real part of the analytic one (`h = f + conj f`) -/
theorem tri_real_eq_two_re (l m r t : ℝ) :
    tri_ir_val l m r (tri_ir_div_term l m r) t / tri_ir_denom false l m r =
      2 * (tri_ir_val_re l m r (tri_ir_div_term l m r) t / tri_ir_denom true l m r) := by
  simp only [tri_ir_val, tri_ir_val_re, tri_ir_denom, transc_cos, transc_pi, Bool.false_eq_true, if_false,
    if_true]
  rw [show ((1.0:ℝ) + 1.0) = 2 by norm_num, show ((0.0:ℝ) + 1.0) = 1 by norm_num, show (1.0:ℝ) = 1 by norm_num]
  simp only [one_mul]
  ring

open PdsVerif.BankTimeFourier in
/-- analytic triangular bank: the modulus of one image `val(t)/denom` is at most *half* the threshold
outside `supports` (triangle inequality on the closed form; `|e^{ix}| = 1`). -/
theorem tri_time_tail_analytic {l m r : ℝ} (hl : l < m) (hr : m < r) (t : ℝ) (ht : tri_K l m r / 2 ≤ |t|) :
    ‖(((tri_ir_val_re l m r (tri_ir_div_term l m r) t : ℝ) : ℂ) +
        Complex.I * ((tri_ir_val_im l m r (tri_ir_div_term l m r) t : ℝ) : ℂ)) /
        ((tri_ir_denom true l m r : ℝ) : ℂ)‖ ≤ threshold / 2 := by
  obtain ⟨ht0, hle⟩ := tri_tail_arith hl hr t ht
  have h1 : 0 < m - l := by linarith
  have h2 : 0 < r - m := by linarith
  have h3 : 0 < r - l := by linarith
  have hp := Real.pi_pos
  have ht2 : 0 < t ^ 2 := by positivity
  rw [← tri_impulse_closed_form hl hr t ht0, integral_triangle_exp hl hr t ht0]
  have hx : ∀ x : ℝ, ‖Complex.exp (Complex.I * x * t)‖ = 1 := by
    intro x
    rw [show Complex.I * x * t = ((x * t : ℝ) : ℂ) * Complex.I by push_cast; ring]
    exact Complex.norm_exp_ofReal_mul_I _
  have hnum : ‖((r - l : ℝ) : ℂ) * Complex.exp (Complex.I * m * t) - ((r - m : ℝ) : ℂ) * Complex.exp (Complex.I * l * t)
        - ((m - l : ℝ) : ℂ) * Complex.exp (Complex.I * r * t)‖ ≤ 2 * (r - l) := by
    refine (norm_sub_le _ _).trans ?_
    refine (add_le_add_left (norm_sub_le _ _) _).trans ?_
    simp only [norm_mul, hx, mul_one, Complex.norm_real, Real.norm_eq_abs, abs_of_pos h1, abs_of_pos h2,
      abs_of_pos h3]
    linarith
  have hden : ‖((((m - l) * (r - m) : ℝ) : ℂ) * (t : ℂ) ^ 2)‖ = (m - l) * (r - m) * t ^ 2 := by
    rw [norm_mul, norm_pow, Complex.norm_real, Complex.norm_real, Real.norm_eq_abs, Real.norm_eq_abs,
      abs_of_pos (mul_pos h1 h2), sq_abs]
  have h2pi : ‖(1 / (2 * (Real.pi : ℂ)))‖ = 1 / (2 * Real.pi) := by
    rw [norm_div, norm_one, norm_mul, Complex.norm_real, Real.norm_eq_abs, abs_of_pos hp]
    simp
  rw [norm_mul, h2pi, norm_div, hden]
  have hD : 0 < (m - l) * (r - m) * t ^ 2 := by positivity
  calc 1 / (2 * Real.pi) * (‖_‖ / ((m - l) * (r - m) * t ^ 2))
      ≤ 1 / (2 * Real.pi) * (2 * (r - l) / ((m - l) * (r - m) * t ^ 2)) := by
        apply mul_le_mul_of_nonneg_left _ (by positivity)
        exact div_le_div_of_nonneg_right hnum hD.le
    _ ≤ threshold / 2 := by
        rw [div_mul_div_comm, one_mul, div_le_div_iff₀ (by positivity) (by norm_num)]
        nlinarith

/-- instance: vertices `l = 1 < m = 2 < r = 3` (rad/sample) and the first sample right of the support -/
example : tri_K (1:ℝ) 2 3 / 2 ≤ |(((triSupport (1:ℝ) 2 3).2 + 1 : ℤ) : ℝ)| :=
  tri_outside_support_far 1 2 3 _ (Or.inr (by omega))

/-! ## further instances of the implications above -/

/-- order 3, `α = 1`: the mode is 2 samples after the onset -/
example : gt_h_env (1:ℝ) 1 3 0 1 < gt_h_env (1:ℝ) 1 3 0 (0 + (3 - 1) / 1) :=
  gammatone_env_mode (by norm_num) (by norm_num) 0 1 (by norm_num)

example : gt_h_env (1:ℝ) 1 3 0 4 < gt_h_env (1:ℝ) 1 3 0 3 :=
  gammatone_env_antitone_beyond_mode (by norm_num) (by norm_num) 0 3 4 (by norm_num) (by norm_num) (by norm_num)

/-- order 4, `α = 1/10` (mode 30): from `right = 40` one Newton step lands at or beyond 50 -/
example : (40:ℝ) + 1 / (1/10) ≤
    gt_newton_step ((1/10:ℝ)^4/6) (1/10) 4 40 (gt_newton_h ((1/10:ℝ)^4/6) (1/10) 4 0 40) :=
  newton_step_moves_right (by norm_num) (by norm_num) (by norm_num) (by norm_num)

end PdsVerif.C07

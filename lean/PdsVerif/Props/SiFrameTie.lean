/-
  Translator tie for the frame tail of the short-integration computer (property C03, and C01's SI clause).

  `Generated/SiFrame.lean` is re-extracted on every run from `ShortIntegrationFrameComputer._compute_frame`
  (compute.py): the sum of the two half-frame accumulators and the log floor.  The theorem shows it is the `post` the
  C03 theorems are stated with: `log(max(·, LOG_FLOOR_VALUE))` of the sum when `use_log`, the sum otherwise, with the
  floor read from the configuration when the log is taken.
-/
import PdsVerif.Generated.SiFrame
import PdsVerif.RealNum
import Mathlib.Tactic
namespace PdsVerif.SiFrameTie
open PdsVerif PdsVerif.Gen.SiFrame

/-- the property's "the log is floored at LOG_FLOOR_VALUE" -/
noncomputable def logFloor (useLog : Bool) (floor v : ℝ) : ℝ := if useLog then Real.log (max v floor) else v

theorem si_frame_spec (useLog : Bool) (floor a b : ℝ) : si_frame useLog floor a b = logFloor useLog floor (a + b) := by
  unfold si_frame logFloor
  cases useLog <;> simp

/-- the floor is a lower bound of every stored log coefficient -/
theorem si_frame_ge_log_floor (floor a b : ℝ) (hf : 0 < floor) : Real.log floor ≤ si_frame true floor a b := by
  rw [si_frame_spec]
  simp only [logFloor, if_true]
  exact Real.log_le_log hf (le_max_right _ _)

example : si_frame false (1e-5 : ℝ) 2 3 = 5 := by rw [si_frame_spec]; norm_num [logFloor]

end PdsVerif.SiFrameTie

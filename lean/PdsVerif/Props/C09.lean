/-
  C09 — command-line tools store exactly what the library pipeline computes.

  `Model/Cli.lean` mirrors the loops of `compute_feats_from_kaldi_tables` and
  `signals_to_torch_feat_dir` (state passing, `continue` branches, early returns, the exception that
  ends a run) over *symbolic* feature terms.  Here the declarative statement of the property
  (`kaldiSpec`, `torchSpec`: "not excluded ⇒ stored under its own id with the full pipeline") is
  written down independently and the loops are proved to compute exactly it, for any number of
  utterances and any options.  What the stages compute is outside the model; the correspondence
  runs interpret the terms with tracer stages and compare them with the matrices the real entry
  points store.
-/
import PdsVerif.Model.Cli
import PdsVerif.Model.Stft
namespace PdsVerif.C09
open PdsVerif.Model PdsVerif.Model.Cli

/-! ### the declarative side -/

/-- `chain [f₁, …, fₙ] = fₙ ∘ … ∘ f₁`: every function once, in list order -/
def chain : List (Term → Term) → Term → Term
  | [] => id
  | f :: fs => chain fs ∘ f

/-- the channel the property speaks of: the `--channel` given, or the only one (`-1`) -/
def selChan (channel : Int) : Nat := if channel = -1 then 0 else channel.toNat

/-- the property's exclusions (kaldi tool): `--min-duration`, sampling rate, channel out of range -/
def KExcluded (o : KOpts) (u : KUtt) : Prop :=
  u.dur < o.minDur ∨ u.rate ≠ o.rate ∨ o.channel ≥ (u.chans : Int)

instance (o : KOpts) (u : KUtt) : Decidable (KExcluded o u) := by unfold KExcluded; infer_instance

/-- `cast32 (postₙ ∘ … ∘ post₁ ∘ full ∘ preₘ ∘ … ∘ pre₁ ∘ pick ch)`; an empty matrix is left alone -/
def kaldiSpecTerm (o : KOpts) (u : KUtt) : Term :=
  let posts := if o.frames u.samples = 0 then [] else o.posts
  .cast32 (chain (posts.map Term.post)
    (.full (chain (o.pres.map Term.pre) (.pick (selChan o.channel) (.sig u.id)))))

def kaldiSpec (o : KOpts) (u : KUtt) : Option Stored :=
  if KExcluded o u then none
  else some { id := u.id, rows := o.frames u.samples, term := kaldiSpecTerm o u }

/-- inputs the kaldi theorems are about: documented `--channel` values, real wave data, loadable entries -/
structure KWf (o : KOpts) (utts : List KUtt) : Prop where
  channel : -1 ≤ o.channel
  chans : ∀ u ∈ utts, 1 ≤ u.chans
  readable : ∀ u ∈ utts, u.readable = true

/-- channel rules of the torch tool: a 1-D signal needs `--channel -1`; a `(c, s)` signal needs
`0 ≤ channel < c`, or `-1` when it is mono -/
def TChanOk (o : TOpts) (u : TUtt) : Prop :=
  match u.shape with
  | .vec _ => o.channel = -1
  | .mat c _ => (o.channel = -1 ∧ c = 1) ∨ (0 ≤ o.channel ∧ o.channel < (c : Int))

instance (o : TOpts) (u : TUtt) : Decidable (TChanOk o u) := by
  unfold TChanOk; cases u.shape <;> infer_instance

def torchRows (o : TOpts) (u : TUtt) : Nat :=
  match o.computer with
  | none => u.shape.samples
  | some frames => frames u.shape.samples

def torchSpecTerm (o : TOpts) (u : TUtt) : Term :=
  let x := match u.shape with
    | .vec _ => Term.sig u.id
    | .mat _ _ => Term.pick (selChan o.channel) (.sig u.id)
  let x := chain (o.pres.map Term.pre) x
  let f := match o.computer with
    | none => Term.column x
    | some _ => Term.full x
  let posts := if torchRows o u = 0 then [] else o.posts
  .cast32 (chain (posts.map Term.post) f)

def torchSpec (o : TOpts) (m : List TUtt) (u : TUtt) : TStored :=
  { id := u.id, rows := torchRows o u, seed := o.seed + uttIdx m u.id, term := torchSpecTerm o u }

/-- the entries of a map file, in file order -/
def entries : List MapLine → List TUtt
  | [] => []
  | .entry u :: ls => u :: entries ls
  | _ :: ls => entries ls

/-- the ids listed in the manifest (none when `--manifest` is not given) -/
def manifestIds (o : TOpts) : List Nat := o.manifest.getD []

/-! ### helper lemmas -/

/-- the row count the driver uses is the number of frames of the STFT framing model (C01/C02) -/
theorem stftRows_eq_full {α : Type} [Inhabited α] (c : Stft.Cfg) (x : List α) :
    (Stft.full c x).length = stftRows c.L c.S x.length := by
  unfold Stft.full stftRows
  by_cases h : x.length < c.L / 2 + 1 <;> simp [h, Stft.cut]

theorem applyPres_eq_chain (ks : List Nat) (t : Term) : applyPres ks t = chain (ks.map Term.pre) t := by
  unfold applyPres
  induction ks generalizing t with
  | nil => rfl
  | cons k ks ih => simp only [List.foldl_cons, List.map_cons, chain, Function.comp_apply]; exact ih _

theorem applyPosts_eq_chain (ks : List Nat) (t : Term) : applyPosts ks t = chain (ks.map Term.post) t := by
  unfold applyPosts
  induction ks generalizing t with
  | nil => rfl
  | cons k ks ih => simp only [List.foldl_cons, List.map_cons, chain, Function.comp_apply]; exact ih _

theorem trace_chain_pre (ks : List Nat) (t : Term) :
    (chain (ks.map Term.pre) t).trace = t.trace ++ ks.map Stage.pre := by
  induction ks generalizing t with
  | nil => simp [chain]
  | cons k ks ih => simp [chain, ih, Term.trace]

theorem trace_chain_post (ks : List Nat) (t : Term) :
    (chain (ks.map Term.post) t).trace = t.trace ++ ks.map Stage.post := by
  induction ks generalizing t with
  | nil => simp [chain]
  | cons k ks ih => simp [chain, ih, Term.trace]

theorem pyIndex_nonneg {n : Nat} {i : Int} (h0 : 0 ≤ i) (h1 : i < (n : Int)) : pyIndex n i = some i.toNat := by
  simp [pyIndex, h0, h1]

theorem pyIndex_mono : pyIndex 1 (-1) = some 0 := by decide

/-- per-utterance decision of the kaldi tool = the declarative spec -/
theorem kaldiStep_spec (o : KOpts) (u : KUtt) (hc : -1 ≤ o.channel) (hu : 1 ≤ u.chans) :
    match kaldiSpec o u with
    | none => ∃ w, kaldiStep o u = .ok (.skip w)
    | some s => kaldiStep o u = .ok (.store s) := by
  unfold kaldiSpec
  by_cases hx : KExcluded o u
  · simp only [hx, if_true]
    unfold KExcluded at hx
    unfold kaldiStep
    by_cases h1 : u.dur < o.minDur
    · exact ⟨.tooShort, by simp [h1]⟩
    by_cases h2 : u.rate ≠ o.rate
    · exact ⟨.rateMismatch, by simp [h1, h2]⟩
    have h3 : o.channel ≥ (u.chans : Int) := by
      rcases hx with h | h | h
      · exact absurd h h1
      · exact absurd h h2
      · exact h
    have hne : ¬ (o.channel = -1 ∧ u.chans > 1) := by omega
    exact ⟨.channelRange, by simp [h1, h2, kaldiCurChan, hne, h3]⟩
  · simp only [hx, if_false]
    unfold KExcluded at hx
    have h1 : ¬ u.dur < o.minDur := fun h => hx (Or.inl h)
    have h2 : ¬ u.rate ≠ o.rate := fun h => hx (Or.inr (Or.inl h))
    have h3 : ¬ o.channel ≥ (u.chans : Int) := fun h => hx (Or.inr (Or.inr h))
    unfold kaldiStep
    simp only [h1, h2, if_false]
    by_cases hm : o.channel = -1
    · by_cases hcs : u.chans > 1
      · have hp : pyIndex u.chans 0 = some 0 := by
          rw [pyIndex_nonneg (by omega) (by omega)]; rfl
        simp [kaldiCurChan, hm, hcs, hp, kaldiSpecTerm, selChan, applyPres_eq_chain, applyPosts_eq_chain]
        split <;> simp_all [chain]
      · have h1c : u.chans = 1 := by omega
        simp [kaldiCurChan, hm, h1c, pyIndex_mono, kaldiSpecTerm, selChan, applyPres_eq_chain,
          applyPosts_eq_chain]
        split <;> simp_all [chain]
    · have h0 : 0 ≤ o.channel := by omega
      have hlt : o.channel < (u.chans : Int) := by omega
      simp [kaldiCurChan, h3, pyIndex_nonneg h0 hlt, kaldiSpecTerm, selChan, hm,
        applyPres_eq_chain, applyPosts_eq_chain]
      split <;> simp_all [chain]

theorem kaldiLoop_spec (o : KOpts) (hc : -1 ≤ o.channel) (us : List KUtt) (hu : ∀ u ∈ us, 1 ≤ u.chans)
    (st : KState) :
    kaldiLoop o us st =
      ({ numUtts := st.numUtts + us.length
         numSuccess := st.numSuccess + (us.filterMap (kaldiSpec o)).length
         written := st.written ++ us.filterMap (kaldiSpec o) }, none) := by
  induction us generalizing st with
  | nil => simp [kaldiLoop]
  | cons u us ih =>
    have hs := kaldiStep_spec o u hc (hu u (by simp))
    have ih' := fun st => ih (fun v hv => hu v (by simp [hv])) st
    unfold kaldiLoop
    cases hsp : kaldiSpec o u with
    | none =>
      rw [hsp] at hs
      obtain ⟨w, hw⟩ := hs
      simp only [hw, ih', List.filterMap_cons, hsp, List.length_cons]
      congr 2; omega
    | some s =>
      rw [hsp] at hs
      simp only [hs, ih', List.filterMap_cons, hsp, List.length_cons, List.append_assoc,
        List.singleton_append]
      congr 2 <;> omega

/-! ### compute-feats-from-kaldi-tables -/

/-- **kaldi_outputs** — for any number of utterances and any options, the feature table holds exactly
the utterances the property does not exclude, in input order, each under its own id with the
specified pipeline, and the run returns (it does not raise). -/
theorem kaldi_outputs (o : KOpts) (utts : List KUtt) (h : KWf o utts) :
    kaldiRun o utts =
      { written := utts.filterMap (kaldiSpec o)
        outcome := .exit (if (utts.filterMap (kaldiSpec o)).length ≠ 0 then 0 else 1) } := by
  unfold kaldiRun
  have hf : utts.find? (fun u => !u.readable) = none := by
    rw [List.find?_eq_none]; intro u hu; simp [h.readable u hu]
  rw [hf, kaldiLoop_spec o h.channel utts h.chans]
  simp

/-- **kaldi_ids** — "every input utterance not excluded by --min-duration, a sampling-rate or channel
mismatch appears in the output under its own id" (and nothing else does), in input order. -/
theorem kaldi_ids (o : KOpts) (utts : List KUtt) (h : KWf o utts) :
    (kaldiRun o utts).written.map (·.id) = (utts.filter (fun u => ¬ KExcluded o u)).map (·.id) := by
  rw [kaldi_outputs o utts h]
  simp only
  induction utts with
  | nil => rfl
  | cons u us ih =>
    have ih' := ih ⟨h.channel, fun v hv => h.chans v (by simp [hv]), fun v hv => h.readable v (by simp [hv])⟩
    by_cases hx : KExcluded o u
    · simp [kaldiSpec, hx]
      simpa [kaldiSpec] using ih'
    · simp [kaldiSpec, hx]
      simpa [kaldiSpec] using ih'

/-- the stages of the specified term, innermost first -/
theorem kaldiSpecTerm_trace (o : KOpts) (u : KUtt) :
    (kaldiSpecTerm o u).trace =
      [Stage.sig u.id, Stage.pick (selChan o.channel)] ++ o.pres.map Stage.pre ++ [Stage.full]
        ++ (if o.frames u.samples = 0 then [] else o.posts.map Stage.post) ++ [Stage.cast32] := by
  unfold kaldiSpecTerm
  by_cases h0 : o.frames u.samples = 0 <;>
    simp [h0, Term.trace, trace_chain_pre, trace_chain_post, chain]

/-- **kaldi_pipeline** — every stored matrix is `cast32 (postₙ ∘ … ∘ post₁ ∘ full ∘ preₘ ∘ … ∘ pre₁ ∘ pick ch)`
of its own utterance's signal: read innermost-first, the term lists the signal, the selected channel, every
configured pre-processor exactly once in list order, `compute_full`, every configured post-processor
exactly once in list order (none exactly when the utterance yields zero frames), and the float32 cast. -/
theorem kaldi_pipeline (o : KOpts) (utts : List KUtt) (h : KWf o utts) (s : Stored)
    (hs : s ∈ (kaldiRun o utts).written) :
    ∃ u ∈ utts, ¬ KExcluded o u ∧ s.id = u.id ∧ s.rows = o.frames u.samples ∧
      s.term = .cast32 (chain ((if o.frames u.samples = 0 then [] else o.posts).map Term.post)
        (.full (chain (o.pres.map Term.pre) (.pick (selChan o.channel) (.sig u.id))))) ∧
      s.term.trace =
        [Stage.sig u.id, Stage.pick (selChan o.channel)] ++ o.pres.map Stage.pre ++ [Stage.full]
          ++ (if o.frames u.samples = 0 then [] else o.posts.map Stage.post) ++ [Stage.cast32] := by
  rw [kaldi_outputs o utts h] at hs
  simp only [List.mem_filterMap] at hs
  obtain ⟨u, hu, hsp⟩ := hs
  unfold kaldiSpec at hsp
  by_cases hx : KExcluded o u
  · simp [hx] at hsp
  · simp only [hx, if_false, Option.some.injEq] at hsp
    subst hsp
    exact ⟨u, hu, hx, rfl, rfl, rfl, kaldiSpecTerm_trace o u⟩

/-- **kaldi_exit_code** — exit code 0 iff at least one utterance was stored, i.e. iff some utterance is
not excluded; otherwise 1.  The run never raises on well-formed input. -/
theorem kaldi_exit_code (o : KOpts) (utts : List KUtt) (h : KWf o utts) :
    ((kaldiRun o utts).outcome = .exit 0 ↔ ∃ u ∈ utts, ¬ KExcluded o u) ∧
    ((kaldiRun o utts).outcome = .exit 1 ↔ ∀ u ∈ utts, KExcluded o u) := by
  have hout : (kaldiRun o utts).outcome =
      .exit (if (utts.filterMap (kaldiSpec o)).length ≠ 0 then 0 else 1) := by rw [kaldi_outputs o utts h]
  rw [hout]
  have key : (utts.filterMap (kaldiSpec o)).length ≠ 0 ↔ ∃ u ∈ utts, ¬ KExcluded o u := by
    rw [Ne, List.length_eq_zero_iff, List.filterMap_eq_nil_iff]
    constructor
    · intro hne
      apply Classical.byContradiction
      intro hall
      apply hne
      intro u hu
      have : KExcluded o u := Classical.byContradiction fun hx => hall ⟨u, hu, hx⟩
      simp [kaldiSpec, this]
    · rintro ⟨u, hu, hx⟩ hall
      have := hall u hu
      simp [kaldiSpec, hx] at this
  by_cases hne : (utts.filterMap (kaldiSpec o)).length ≠ 0
  · have hex := key.mp hne
    rw [if_pos hne]
    refine ⟨⟨fun _ => hex, fun _ => rfl⟩, ⟨fun hh => absurd hh (by decide), fun hall => ?_⟩⟩
    obtain ⟨u, hu, hx⟩ := hex
    exact absurd (hall u hu) hx
  · have hall : ∀ u ∈ utts, KExcluded o u := by
      intro u hu
      exact Classical.byContradiction fun hx => hne (key.mpr ⟨u, hu, hx⟩)
    rw [if_neg hne]
    refine ⟨⟨fun hh => absurd hh (by decide), ?_⟩, ⟨fun _ => hall, fun _ => rfl⟩⟩
    rintro ⟨u, hu, hx⟩
    exact absurd (hall u hu) hx

/-- **kaldi_unreadable_aborts** — an entry the table reader cannot load ends the run with an exception
before anything is written (`list(reader.items())` comes first). -/
theorem kaldi_unreadable_aborts (o : KOpts) (utts : List KUtt) (h : ∃ u ∈ utts, u.readable = false) :
    (kaldiRun o utts).written = [] ∧ ∃ i, (kaldiRun o utts).outcome = .raised .runtimeError i := by
  unfold kaldiRun
  cases hf : utts.find? (fun u => !u.readable) with
  | some u => exact ⟨rfl, u.id, rfl⟩
  | none =>
    rw [List.find?_eq_none] at hf
    obtain ⟨u, hu, hr⟩ := h
    have := hf u hu
    simp [hr] at this

/-! ### signals-to-torch-feat-dir: map and manifest -/

theorem parseMap_some (ls : List MapLine) (acc m : List TUtt) (h : parseMap ls acc = some m)
    (hacc : (acc.map (·.id)).Nodup) :
    m = acc ++ entries ls ∧ (m.map (·.id)).Nodup ∧ MapLine.malformed ∉ ls := by
  induction ls generalizing acc with
  | nil => simp only [parseMap, Option.some.injEq] at h; subst h; simp [entries, hacc]
  | cons l ls ih =>
    cases l with
    | blank =>
      simp only [parseMap] at h
      obtain ⟨a, b, c⟩ := ih acc h hacc
      exact ⟨by simpa [entries] using a, b, by simp [c]⟩
    | malformed => simp [parseMap] at h
    | entry u =>
      simp only [parseMap] at h
      by_cases hd : acc.any (fun v => v.id == u.id) = true
      · simp [hd] at h
      · simp only [hd] at h
        have hacc' : ((acc ++ [u]).map (·.id)).Nodup := by
          simp only [List.map_append, List.map_cons, List.map_nil]
          rw [List.nodup_append]
          refine ⟨hacc, by simp, ?_⟩
          intro a ha b hb
          simp only [List.mem_singleton] at hb
          subst hb
          intro heq
          apply hd
          simp only [List.mem_map] at ha
          obtain ⟨v, hv, hv'⟩ := ha
          simp only [List.any_eq_true, beq_iff_eq]
          exact ⟨v, hv, by omega⟩
        obtain ⟨a, b, c⟩ := ih (acc ++ [u]) h hacc'
        exact ⟨by simpa [entries] using a, b, by simp [c]⟩

theorem parseMap_ok (ls : List MapLine) (acc : List TUtt) (hm : MapLine.malformed ∉ ls)
    (hn : ((acc ++ entries ls).map (·.id)).Nodup) : parseMap ls acc = some (acc ++ entries ls) := by
  induction ls generalizing acc with
  | nil => simp [parseMap, entries]
  | cons l ls ih =>
    have hm' : MapLine.malformed ∉ ls := fun h => hm (by simp [h])
    cases l with
    | blank => simpa [parseMap, entries] using ih acc hm' (by simpa [entries] using hn)
    | malformed => simp at hm
    | entry u =>
      have hn' : ((acc ++ [u] ++ entries ls).map (·.id)).Nodup := by simpa [entries] using hn
      have hd : ¬ acc.any (fun v => v.id == u.id) = true := by
        simp only [List.any_eq_true, beq_iff_eq, not_exists, not_and]
        intro v hv heq
        simp only [entries, List.map_append, List.map_cons] at hn
        rw [List.nodup_append] at hn
        exact hn.2.2 v.id (by simp only [List.mem_map]; exact ⟨v, hv, rfl⟩) u.id (by simp) heq
      simp only [parseMap, hd]
      simpa [entries] using ih (acc ++ [u]) hm' hn'

/-- **torch_map** — the map file is accepted iff no line is malformed and no id repeats; the parsed map
is then its entries in file order (blank lines ignored); otherwise the tool returns 1 and writes nothing. -/
theorem torch_map (lines : List MapLine) :
    (parseMap lines [] = some (entries lines) ↔
      (MapLine.malformed ∉ lines ∧ ((entries lines).map (·.id)).Nodup)) ∧
    (∀ m, parseMap lines [] = some m → m = entries lines) ∧
    (∀ o, parseMap lines [] = none → torchRun o lines = { written := [], manifestOut := [], outcome := .exit 1 }) := by
  refine ⟨⟨fun h => ?_, fun h => ?_⟩, fun m h => ?_, fun o h => ?_⟩
  · obtain ⟨_, b, c⟩ := parseMap_some lines [] _ h (by simp)
    exact ⟨c, b⟩
  · simpa using parseMap_ok lines [] h.1 (by simpa using h.2)
  · simpa using (parseMap_some lines [] m h (by simp)).1
  · simp [torchRun, h]

theorem filter_const_true {α : Type} (m : List α) : m.filter (fun _ => true) = m := by
  induction m <;> simp_all

theorem popId_eq_filter (m : List TUtt) (id : Nat) (hn : (m.map (·.id)).Nodup) :
    popId m id = m.filter (fun u => u.id ≠ id) := by
  induction m with
  | nil => rfl
  | cons u r ih =>
    simp only [List.map_cons, List.nodup_cons] at hn
    by_cases hu : u.id = id
    · have hr : r.filter (fun u => !decide (u.id = id)) = r := by
        rw [List.filter_eq_self]
        intro v hv
        have : v.id ≠ id := by
          intro hv'
          apply hn.1
          simp only [List.mem_map]
          exact ⟨v, hv, by omega⟩
        simp [this]
      simp [popId, hu, hr]
    · simp [popId, hu, ih hn.2]

/-- **torch_manifest_filter** — popping the manifest lines one by one out of the (duplicate-free) map
leaves exactly the utterances not listed, in map order. -/
theorem torch_manifest_filter (m : List TUtt) (man : List Nat) (hn : (m.map (·.id)).Nodup) :
    man.foldl popId m = m.filter (fun u => u.id ∉ man) := by
  induction man generalizing m with
  | nil => simp [filter_const_true]
  | cons a man ih =>
    simp only [List.foldl_cons]
    rw [popId_eq_filter m a hn, ih]
    · rw [List.filter_filter]
      congr 1
      funext u
      simp only [List.mem_cons, not_or, ne_eq, decide_not, Bool.and_eq_decide]
      by_cases h1 : u.id = a <;> by_cases h2 : u.id ∈ man <;> simp [h1, h2]
    · exact List.Nodup.sublist (List.Sublist.map _ List.filter_sublist) hn

theorem torchTodo_eq (o : TOpts) (m : List TUtt) (hn : (m.map (·.id)).Nodup) :
    torchTodo o m = m.filter (fun u => u.id ∉ manifestIds o) := by
  unfold torchTodo manifestIds
  cases o.manifest with
  | none => simp [filter_const_true]
  | some man => simpa using torch_manifest_filter m man hn

/-! ### signals-to-torch-feat-dir: per-utterance decision and pipeline -/

/-- a readable utterance that satisfies the channel rules is computed as specified -/
theorem torchItem_ok (o : TOpts) (m : List TUtt) (u : TUtt) (hr : u.readable = true) (hc : TChanOk o u) :
    torchItem o m u = .ok (torchSpec o m u) := by
  unfold torchItem torchSpec torchSpecTerm torchRows
  unfold TChanOk at hc
  cases hsh : u.shape with
  | vec s =>
    rw [hsh] at hc
    simp only at hc
    have hs : ¬ ((s : Int) ≤ -1) := by omega
    cases hcomp : o.computer <;>
      simp [hr, hc, hs, Shape.ndim, Shape.dim0, Shape.samples, applyPres_eq_chain, applyPosts_eq_chain] <;>
      split <;> simp_all [chain]
  | mat c s =>
    rw [hsh] at hc
    simp only at hc
    rcases hc with ⟨h1, h2⟩ | ⟨h1, h2⟩
    · subst h2
      cases hcomp : o.computer <;>
        simp [hr, h1, Shape.ndim, Shape.dim0, Shape.samples, pyIndex_mono, selChan, applyPres_eq_chain,
          applyPosts_eq_chain] <;>
        split <;> simp_all [chain]
    · have hne : o.channel ≠ -1 := by omega
      have hge : ¬ (c : Int) ≤ o.channel := by omega
      cases hcomp : o.computer <;>
        simp [hr, hne, hge, Shape.ndim, Shape.dim0, Shape.samples, pyIndex_nonneg h1 h2, selChan,
          applyPres_eq_chain, applyPosts_eq_chain] <;>
        split <;> simp_all [chain]

/-- **torch_channel_rules** — for a readable utterance and a documented `--channel` (≥ -1): the item
raises `ValueError` exactly when the channel rules are broken (`-1` with a multi-channel signal; a
channel given for a 1-D signal; channel ≥ number of channels); otherwise it is computed.  (A signal with
zero channels is not a signal: excluded.) -/
theorem torch_channel_rules (o : TOpts) (m : List TUtt) (u : TUtt) (hr : u.readable = true)
    (hch : -1 ≤ o.channel) (hz : ∀ s, u.shape ≠ .mat 0 s) :
    (¬ TChanOk o u → torchItem o m u = .error .valueError) ∧
    (TChanOk o u → torchItem o m u = .ok (torchSpec o m u)) := by
  refine ⟨fun hc => ?_, torchItem_ok o m u hr⟩
  unfold TChanOk at hc
  unfold torchItem
  cases hsh : u.shape with
  | vec s =>
    rw [hsh] at hc
    simp only at hc
    simp [hr, Shape.ndim, Shape.dim0, hc]
  | mat c s =>
    rw [hsh] at hc
    simp only [not_or, not_and] at hc
    have hc0 : c ≠ 0 := fun h => hz s (by rw [hsh, h])
    by_cases h1 : o.channel = -1
    · have : c > 1 := by
        have := hc.1 h1
        omega
      simp [hr, Shape.ndim, Shape.dim0, h1, this]
    · have hge : (c : Int) ≤ o.channel := by
        have := hc.2 (by omega)
        omega
      simp [hr, Shape.ndim, Shape.dim0, h1, hge]

/-- an unreadable utterance raises `IOError` (`OSError`) -/
theorem torch_unreadable (o : TOpts) (m : List TUtt) (u : TUtt) (hr : u.readable = false) :
    torchItem o m u = .error .ioError := by
  simp [torchItem, hr]

/-- whatever an item returns, it carries its own utterance's id and the position-based seed -/
theorem torchItem_id_seed (o : TOpts) (m : List TUtt) (u : TUtt) (t : TStored)
    (h : torchItem o m u = .ok t) : t.id = u.id ∧ t.seed = o.seed + uttIdx m u.id := by
  unfold torchItem at h
  simp only at h
  split at h
  · cases h
  split at h
  · cases h
  split at h
  · cases h
  split at h
  · cases h
  · cases hc : o.computer <;> simp only [hc] at h <;> cases h <;> exact ⟨rfl, rfl⟩

theorem torchLoop_ok (o : TOpts) (m : List TUtt) (us : List TUtt) (acc : List TStored)
    (h : ∀ u ∈ us, u.readable = true ∧ TChanOk o u) :
    torchLoop o m us acc = (acc ++ us.map (torchSpec o m), none) := by
  induction us generalizing acc with
  | nil => simp [torchLoop]
  | cons u us ih =>
    have hu := h u (by simp)
    simp only [torchLoop, torchItem_ok o m u hu.1 hu.2]
    rw [ih _ (fun v hv => h v (by simp [hv]))]
    simp

/-- **torch_outputs** — when the map is well formed and every utterance left to do is readable and
satisfies the channel rules: exactly the utterances of the map that the manifest does not list are
written, in map order, each under its own id with the specified pipeline, rows and seed; their ids are
what the run appends to the manifest; exit code 0. -/
theorem torch_outputs (o : TOpts) (lines : List MapLine) (hm : MapLine.malformed ∉ lines)
    (hn : ((entries lines).map (·.id)).Nodup)
    (hok : ∀ u ∈ entries lines, u.id ∉ manifestIds o → u.readable = true ∧ TChanOk o u) :
    torchRun o lines =
      { written := ((entries lines).filter (fun u => u.id ∉ manifestIds o)).map (torchSpec o (entries lines))
        manifestOut := if o.manifest.isSome then
            ((entries lines).filter (fun u => u.id ∉ manifestIds o)).map (·.id) else []
        outcome := .exit 0 } := by
  have hp : parseMap lines [] = some (entries lines) := ((torch_map lines).1).mpr ⟨hm, hn⟩
  unfold torchRun
  rw [hp]
  simp only
  rw [torchTodo_eq o _ hn, torchLoop_ok]
  · simp [List.map_map, Function.comp_def, torchSpec]
  · intro u hu
    simp only [List.mem_filter, decide_eq_true_eq] at hu
    exact hok u hu.1 hu.2

/-- **torch_listed_untouched** — whatever happens (errors included), no utterance listed in the manifest
is written, and every written utterance is an utterance of the map. -/
theorem torch_listed_untouched (o : TOpts) (lines : List MapLine) :
    (∀ s ∈ (torchRun o lines).written, s.id ∉ manifestIds o ∧ s.id ∈ (entries lines).map (·.id)) := by
  unfold torchRun
  cases hp : parseMap lines [] with
  | none => simp
  | some m =>
    obtain ⟨hm, hnd, _⟩ := parseMap_some lines [] m hp (by simp)
    simp only [List.nil_append] at hm
    subst hm
    simp only
    have key : ∀ (us : List TUtt) (acc : List TStored),
        ∀ s ∈ (torchLoop o (entries lines) us acc).1, s ∈ acc ∨ ∃ u ∈ us, s.id = u.id := by
      intro us
      induction us with
      | nil => intro acc s hs; simpa [torchLoop] using hs
      | cons u us ih =>
        intro acc s hs
        unfold torchLoop at hs
        cases hit : torchItem o (entries lines) u with
        | error e => rw [hit] at hs; exact Or.inl hs
        | ok t =>
          rw [hit] at hs
          have hid : t.id = u.id := (torchItem_id_seed o _ u t hit).1
          rcases ih _ s hs with h | ⟨v, hv, hv'⟩
          · simp only [List.mem_append, List.mem_singleton] at h
            rcases h with h | h
            · exact Or.inl h
            · exact Or.inr ⟨u, by simp, by rw [h, hid]⟩
          · exact Or.inr ⟨v, by simp [hv], hv'⟩
    intro s hs
    rcases key _ [] s hs with h | ⟨u, hu, hid⟩
    · simp at h
    · rw [torchTodo_eq o _ hnd] at hu
      simp only [List.mem_filter, decide_eq_true_eq] at hu
      rw [hid]
      exact ⟨hu.2, by simp only [List.mem_map]; exact ⟨u, hu.1, rfl⟩⟩

/-- **torch_error_aborts** — the first utterance left to do that is unreadable or breaks the channel rules
ends the run with an exception: the utterances before it are written as specified, it and every later
one are not. -/
theorem torch_error_aborts (o : TOpts) (lines : List MapLine) (hm : MapLine.malformed ∉ lines)
    (hn : ((entries lines).map (·.id)).Nodup) (hch : -1 ≤ o.channel)
    (good rest : List TUtt) (bad : TUtt)
    (hsplit : (entries lines).filter (fun u => u.id ∉ manifestIds o) = good ++ bad :: rest)
    (hgood : ∀ u ∈ good, u.readable = true ∧ TChanOk o u)
    (hz : ∀ s, bad.shape ≠ .mat 0 s)
    (hbad : bad.readable = false ∨ ¬ TChanOk o bad) :
    (torchRun o lines).written = good.map (torchSpec o (entries lines)) ∧
    (torchRun o lines).outcome =
      .raised (if bad.readable = false then .ioError else .valueError) bad.id := by
  have hp : parseMap lines [] = some (entries lines) := ((torch_map lines).1).mpr ⟨hm, hn⟩
  have hloop : ∀ (us : List TUtt) (acc : List TStored), (∀ u ∈ us, u.readable = true ∧ TChanOk o u) →
      torchLoop o (entries lines) (us ++ bad :: rest) acc =
        (acc ++ us.map (torchSpec o (entries lines)),
          some ((if bad.readable = false then Err.ioError else Err.valueError), bad.id)) := by
    intro us
    induction us with
    | nil =>
      intro acc _
      simp only [List.nil_append, torchLoop, List.map_nil, List.append_nil]
      by_cases hr : bad.readable = false
      · simp [torch_unreadable o _ bad hr, hr]
      · have hr' : bad.readable = true := by simpa using hr
        have hc : ¬ TChanOk o bad := by
          rcases hbad with h | h
          · exact absurd h hr
          · exact h
        simp [(torch_channel_rules o _ bad hr' hch hz).1 hc, hr']
    | cons u us ih =>
      intro acc h
      have hu := h u (by simp)
      simp only [List.cons_append, torchLoop, torchItem_ok o _ u hu.1 hu.2]
      rw [ih _ (fun v hv => h v (by simp [hv]))]
      simp
  unfold torchRun
  rw [hp]
  simp only
  rw [torchTodo_eq o _ hn, hsplit, hloop good [] hgood]
  simp

/-- **torch_pipeline** — the term stored for an accepted utterance, read innermost-first: its own signal,
the selected channel (only for a channels-first signal), every pre-processor once in list order,
`compute_full` — or the raw samples as a column when no computer is configured —, every post-processor
once in list order (none exactly when there are zero rows), the float32 cast. -/
theorem torch_pipeline (o : TOpts) (m : List TUtt) (u : TUtt) :
    (torchSpec o m u).id = u.id ∧
    (torchSpec o m u).term.trace =
      (match u.shape with
        | .vec _ => [Stage.sig u.id]
        | .mat _ _ => [Stage.sig u.id, Stage.pick (selChan o.channel)])
      ++ o.pres.map Stage.pre
      ++ [match o.computer with | none => Stage.column | some _ => Stage.full]
      ++ (if torchRows o u = 0 then [] else o.posts.map Stage.post) ++ [Stage.cast32] := by
  refine ⟨rfl, ?_⟩
  unfold torchSpec torchSpecTerm
  cases u.shape <;> cases o.computer <;> by_cases h0 : torchRows o u = 0 <;>
    simp [h0, Term.trace, trace_chain_pre, trace_chain_post, chain]

/-- **no_computer_is_column** — without a computer configuration the stored matrix is the (selected,
pre-processed) samples as one column: as many rows as samples, `column` where `compute_full` would be. -/
theorem no_computer_is_column (o : TOpts) (m : List TUtt) (u : TUtt) (h : o.computer = none) :
    (torchSpec o m u).rows = u.shape.samples ∧
    ∃ x, (torchSpec o m u).term =
      .cast32 (chain ((if u.shape.samples = 0 then [] else o.posts).map Term.post)
        (.column (chain (o.pres.map Term.pre) x))) ∧
      (x = .sig u.id ∨ x = .pick (selChan o.channel) (.sig u.id)) := by
  unfold torchSpec torchSpecTerm torchRows
  simp only [h]
  refine ⟨by first | rfl | trivial, ?_⟩
  cases u.shape with
  | vec s => exact ⟨_, rfl, Or.inl rfl⟩
  | mat c s => exact ⟨_, rfl, Or.inr rfl⟩

/-- **seed_is_function_of_utterance** — the value handed to `torch.manual_seed` for a written utterance is
`--seed` plus the utterance's position in the map file: it does not depend on the manifest (which
utterances are left), on the channel, or on any other option.  Holds for every run, errors included. -/
theorem seed_is_function_of_utterance (o : TOpts) (lines : List MapLine) :
    ∀ s ∈ (torchRun o lines).written, s.seed = o.seed + uttIdx (entries lines) s.id := by
  unfold torchRun
  cases hp : parseMap lines [] with
  | none => simp
  | some m =>
    have hm := (parseMap_some lines [] m hp (by simp)).1
    simp only [List.nil_append] at hm
    subst hm
    simp only
    have key : ∀ (us : List TUtt) (acc : List TStored),
        (∀ s ∈ acc, s.seed = o.seed + uttIdx (entries lines) s.id) →
        ∀ s ∈ (torchLoop o (entries lines) us acc).1, s.seed = o.seed + uttIdx (entries lines) s.id := by
      intro us
      induction us with
      | nil => intro acc h s hs; exact h s (by simpa [torchLoop] using hs)
      | cons u us ih =>
        intro acc h s hs
        unfold torchLoop at hs
        cases hit : torchItem o (entries lines) u with
        | error e => rw [hit] at hs; exact h s hs
        | ok t =>
          rw [hit] at hs
          have ht : t.seed = o.seed + uttIdx (entries lines) t.id := by
            have := torchItem_id_seed o _ u t hit
            rw [this.2, this.1]
          refine ih _ ?_ s hs
          intro s' hs'
          simp only [List.mem_append, List.mem_singleton] at hs'
          rcases hs' with h' | h'
          · exact h s' h'
          · rw [h']; exact ht
    exact key _ [] (by simp)

/-- two runs over the same map with the same `--seed` (any manifests, any other options) seed every
utterance they both write identically -/
theorem seed_same_across_runs (o o' : TOpts) (lines : List MapLine) (hseed : o.seed = o'.seed)
    (s s' : TStored) (hs : s ∈ (torchRun o lines).written) (hs' : s' ∈ (torchRun o' lines).written)
    (hid : s.id = s'.id) : s.seed = s'.seed := by
  rw [seed_is_function_of_utterance o lines s hs, seed_is_function_of_utterance o' lines s' hs', hseed, hid]

/-! ### non-vacuity: concrete, non-trivial instances -/

section Examples

/-- frames of a centred STFT with `L = 4, S = 2` -/
private def fr (n : Nat) : Nat := if n < 3 then 0 else (n + 1) / 2

private def ko : KOpts :=
  { minDur := 5, channel := 1, rate := 16, frames := fr, pres := [7, 3, 7], posts := [2, 9] }

private def kutts : List KUtt :=
  [ { id := 10, chans := 2, samples := 9, rate := 16, dur := 9, readable := true },
    { id := 11, chans := 1, samples := 9, rate := 16, dur := 9, readable := true },   -- channel 1 of a mono file
    { id := 12, chans := 3, samples := 2, rate := 16, dur := 5, readable := true },   -- exactly min-duration, no frame
    { id := 13, chans := 2, samples := 9, rate := 8, dur := 9, readable := true },    -- wrong rate
    { id := 14, chans := 2, samples := 4, rate := 16, dur := 4, readable := true } ]  -- too short

example : KWf ko kutts := ⟨by decide, by decide, by decide⟩

example :
    kaldiRun ko kutts =
      { written :=
          [ { id := 10, rows := 5,
              term := .cast32 (.post 9 (.post 2 (.full (.pre 7 (.pre 3 (.pre 7 (.pick 1 (.sig 10)))))))) },
            { id := 12, rows := 0, term := .cast32 (.full (.pre 7 (.pre 3 (.pre 7 (.pick 1 (.sig 12)))))) } ]
        outcome := .exit 0 } := by decide

example : (kaldiRun ko kutts).written.map (·.id) = [10, 12] := by decide

example : (kaldiRun { ko with channel := 5 } kutts).outcome = .exit 1 := by decide

example : (kaldiRun ko (kutts ++ [{ id := 15, chans := 1, samples := 9, rate := 16, dur := 9, readable := false }]))
    = { written := [], outcome := .raised .runtimeError 15 } := by decide

/-- `--channel -2` on a mono file is outside `KWf`: Python raises `IndexError` after `10` was written -/
example : kaldiRun { ko with channel := (-2 : Int) } kutts =
    { written :=
        [ { id := 10, rows := 5,
            term := .cast32 (.post 9 (.post 2 (.full (.pre 7 (.pre 3 (.pre 7 (.pick 0 (.sig 10)))))))) } ]
      outcome := .raised .indexError 11 } := by decide

private def tlines : List MapLine :=
  [ .entry { id := 20, shape := .mat 2 9, readable := true }, .blank,
    .entry { id := 21, shape := .mat 3 2, readable := true },
    .entry { id := 22, shape := .mat 2 9, readable := true },
    .entry { id := 23, shape := .vec 9, readable := true } ]

private def topts : TOpts :=
  { channel := 1, computer := some fr, pres := [4, 5], posts := [6], manifest := some [22, 99], seed := 100 }

example : (torchRun topts tlines) =
    { written :=
        [ { id := 20, rows := 5, seed := 100,
            term := .cast32 (.post 6 (.full (.pre 5 (.pre 4 (.pick 1 (.sig 20)))))) },
          { id := 21, rows := 0, seed := 101, term := .cast32 (.full (.pre 5 (.pre 4 (.pick 1 (.sig 21))))) } ],
      manifestOut := [20, 21],
      outcome := .raised .valueError 23 } := by decide

/-- a resumed run (20 already listed) gives 21 the seed it had before: position in the map, not in what is left -/
example : (torchRun { topts with manifest := some [20, 22] } (tlines.take 4)).written.map (fun s => (s.id, s.seed))
    = [(21, 101)] := by decide

example : torchRun { topts with computer := none, channel := (-1 : Int), manifest := none }
      [ .entry { id := 1, shape := .vec 3, readable := true }, .entry { id := 2, shape := .mat 1 0, readable := true } ] =
    { written := [ { id := 1, rows := 3, seed := 100, term := .cast32 (.post 6 (.column (.pre 5 (.pre 4 (.sig 1))))) },
                   { id := 2, rows := 0, seed := 101, term := .cast32 (.column (.pre 5 (.pre 4 (.pick 0 (.sig 2))))) } ],
      manifestOut := [], outcome := .exit 0 } := by decide

example : (torchRun topts (tlines ++ [.malformed])).outcome = .exit 1 := by decide
example : (torchRun topts (tlines ++ [.entry { id := 20, shape := .vec 1, readable := true }])).outcome = .exit 1 := by
  decide

/-- hypotheses of `torch_outputs` / `torch_error_aborts` are satisfiable -/
example : MapLine.malformed ∉ tlines ∧ ((entries tlines).map (·.id)).Nodup ∧
    (entries tlines).filter (fun u => u.id ∉ manifestIds topts) =
      [ { id := 20, shape := .mat 2 9, readable := true }, { id := 21, shape := .mat 3 2, readable := true } ]
        ++ { id := 23, shape := .vec 9, readable := true } :: [] := by decide

example : ∀ u ∈ (entries tlines).take 3, u.readable = true ∧ TChanOk topts u := by decide

end Examples

end PdsVerif.C09

/-
  Translator tie for the decision logic of `Standardize.save` (property C17).

  `Generated/StatsSave.lean` is re-extracted on every run from `Standardize.save`: the suffix dispatch (`.npy` → `np.save`,
  `.npz` → archive, anything else → raw `tofile`; case-sensitive `str.endswith`, in that order), the test guarding the load of
  an existing archive, the key pattern `arr_<v>` searched from `count(0)`, and the `compress` test.  The theorems show that
  the hand-written model `Model/Standardize.lean` — the one all C17 theorems are about — decides exactly like that.
-/
import PdsVerif.Generated.StatsSave
import PdsVerif.Model.Standardize
set_option linter.unusedSectionVars false
namespace PdsVerif.StatsSaveTie
open PdsVerif.Model.Standardize PdsVerif.Gen.StatsSave

variable {α : Type} [Zero α] [LE α] [DecidableLE α] [BEq α]

/-- the archive `save` starts from is the existing one exactly when the source's test says so -/
theorem baseArchive_eq_gen (existing : Option (NpzFile α)) (overwrite : Bool) :
    baseArchive existing overwrite =
      (if save_loads_existing overwrite = true then (match existing with | some f => f.entries | none => []) else []) := by
  unfold baseArchive save_loads_existing
  cases overwrite <;> rfl

/-- the key search of the model starts where the source's `count(...)` starts, and the keys it tries are the source's
pattern (`Key.arr k` is the model's name for `save_key_prefix ++ toString k`) -/
theorem firstUnused_eq_gen (es : List (Key × Arr α)) :
    firstUnused es = ((List.range (es.length + 1)).map (· + save_key_start)).find? (fun k => !(hasKey es (.arr k))) ∧
    save_key_prefix = "arr_" := by
  refine ⟨?_, rfl⟩
  unfold firstUnused save_key_start
  simp

/-- the archive written is flagged compressed exactly when the source picks `np.savez_compressed` -/
theorem saveNpz_compressed_eq_gen (st : Option (Stats α)) (existing : Option (NpzFile α)) (key : Option Key)
    (compress overwrite : Bool) (k : Key) (f : NpzFile α)
    (h : saveNpz st existing key compress overwrite = .ok (k, f)) :
    f.compressed = save_compressed compress ∧
    ∃ s k', saveGuard st = .ok s ∧ f.entries = upsert (baseArchive existing overwrite) k' s.toArr ∧ k = k' := by
  unfold saveNpz at h
  cases hs : saveGuard st with
  | error e => simp [hs] at h
  | ok s =>
    simp only [hs] at h
    cases key with
    | some k0 =>
      simp only [Except.ok.injEq, Prod.mk.injEq] at h
      obtain ⟨hk, hf⟩ := h
      subst hf
      exact ⟨rfl, s, k0, rfl, rfl, hk.symm⟩
    | none =>
      cases hu : firstUnused (baseArchive existing overwrite) with
      | none => simp [hu] at h
      | some n =>
        simp only [hu, Option.map_some, Except.ok.injEq, Prod.mk.injEq] at h
        obtain ⟨hk, hf⟩ := h
        subst hf
        exact ⟨rfl, s, .arr n, rfl, rfl, hk.symm⟩

/-- suffix dispatch: a name that ends in `.npy` goes to `np.save`, for every stem -/
theorem save_kind_npy (stem : String) : save_kind (stem ++ ".npy") = 0 := by
  unfold save_kind
  have : (".npy").toList.isSuffixOf (stem ++ ".npy").toList = true := by
    rw [String.toList_append, List.isSuffixOf_iff_suffix]
    exact List.suffix_append _ _
  simp only [this, if_true]

/-- the statement-shape facts read off the source (guard first, ignored IOError, first unused key, `self._stats` stored) -/
theorem shape_facts : save_statement_shape = true := rfl

/-! non-vacuity and the case-sensitivity of the dispatch (tests, labelled as tests) -/
example : save_kind "a/b.npy" = 0 ∧ save_kind "stats.npz" = 1 ∧ save_kind "CMVN.NPY" = 2 ∧ save_kind "Stats.Npz" = 2 ∧
    save_kind "x.npy.bin" = 2 ∧ save_kind ".npz" = 1 ∧ save_kind "" = 2 := by decide
example : save_loads_existing true = true ∧ save_compressed false = false := by decide

end PdsVerif.StatsSaveTie

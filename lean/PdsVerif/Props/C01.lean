/-
  C01 — chunked streaming equals whole-signal computation, for every chunking (STFT computer).

  Model: `PdsVerif/Model/Stft.lean` (mirrors `compute_chunk` / `finalize` / `compute_full` /
  `frame_by_frame_calculation` of `ShortTimeFourierTransformFrameComputer`).
  The theorems quantify over every configuration with `1 ≤ frame_shift ≤ frame_length`
  (`WF`), every sample type, every signal and every way of cutting it into chunks (empty chunks
  included) — no bound on lengths or on the number of chunks.
  This file holds only the property theorems; helper lemmas live in `PdsVerif/Lemmas/Stft*.lean`.
-/
import PdsVerif.Lemmas.StftStream
import PdsVerif.Lemmas.StftRaw
namespace PdsVerif.C01
open PdsVerif.Model.Stft PdsVerif.StftArith PdsVerif.StftCanon PdsVerif.StftStream

variable {α : Type} [Inhabited α]

/-- **C01 (STFT), frames.** For every chunking of every signal: concatenating `compute_chunk` over
the chunks followed by `finalize()` hands `_compute_frame` exactly the frames `compute_full` does. -/
theorem stft_stream_eq_full (c : Cfg) (w : WF c) (chunks : List (List α)) :
    stream c chunks = full c chunks.flatten := by
  unfold stream
  rw [← canon_nil c w, streamFrom_canon c w chunks [] false, full_eq c w]
  simp only [List.length_nil, List.nil_append, emitted_zero c w, Nat.sub_zero]

/-- **C01 (STFT), features.** Whatever `_compute_frame` computes from a frame (`g`: window, DFT,
filter bank, log — any function of the frame), the streamed feature matrix equals
`compute_full`'s: same number of rows, same rows. -/
theorem stft_features_stream_eq_full {β : Type} (g : List α → β) (c : Cfg) (w : WF c)
    (chunks : List (List α)) :
    (stream c chunks).map g = (full c chunks.flatten).map g := by
  rw [stft_stream_eq_full c w]

/-- **C01, `frame_by_frame_calculation`.** Same frames as `compute_full` for every `chunk_size ≥ 1`. -/
theorem stft_fbf_eq_full (c : Cfg) (w : WF c) (x : List α) (k : Nat) (hk : 0 < k) :
    fbf c x k = full c x := by
  unfold fbf
  rw [stft_stream_eq_full c w, splitEvery_flatten k hk]

/-- streaming state after any chunks is a function of the samples seen so far only -/
theorem stft_state_canonical (c : Cfg) (w : WF c) (xs ys : List α) (st : Bool) :
    (chunk c (canon c xs st) ys).1 = canon c (xs ++ ys) true := by
  rw [chunk_canon c w]

/-- every frame handed to `_compute_frame` by `compute_full` has exactly `frame_length` samples
(the obligation Python slicing would otherwise hide) -/
theorem stft_full_frames_length (c : Cfg) (w : WF c) (x : List α) :
    ∀ fr ∈ full c x, fr.length = c.L := by
  rw [full_eq c w]
  intro fr h
  simp only [framesFrom, frameAt, List.mem_map] at h
  obtain ⟨k, _, rfl⟩ := h
  simp

/-- number of frames: `(N + S/2) / S`, none for `N < L/2 + 1` -/
theorem stft_full_count (c : Cfg) (w : WF c) (x : List α) :
    (full c x).length = if x.length < c.L / 2 + 1 then 0 else (x.length + c.S / 2) / c.S := by
  rw [full_eq c w]; simp [framesFrom, numFull]

/-- the same for the *physical-buffer* model (the one the driver executes and the correspondence runs
tie to the code): whatever junk the freshly allocated buffer holds, streaming equals `compute_full` -/
theorem stft_raw_stream_eq_full (c : Cfg) (w : WF c) (junk : List α) (hj : junk.length = c.L)
    (chunks : List (List α)) :
    (PdsVerif.Model.StftRaw.streamFrom c (PdsVerif.Model.StftRaw.fresh junk) chunks).2
      = full c chunks.flatten := by
  have h := (PdsVerif.StftRawLemmas.streamFrom_refines c w chunks _
    (PdsVerif.StftRawLemmas.inv_fresh c junk hj)).1
  rw [h]
  have : (PdsVerif.Model.StftRaw.fresh junk).abs = (init : St α) := by
    simp [PdsVerif.Model.StftRaw.fresh, PdsVerif.Model.StftRaw.Raw.abs, init, takeLast]
  rw [this]
  exact stft_stream_eq_full c w chunks

/-! non-vacuity: `WF` is met by ordinary configurations, and the statement is about non-trivial runs -/
example : WF { L := 4, S := 2, centered := true, kaldi := false } := ⟨by decide, by decide⟩
example : WF { L := 5, S := 5, centered := false, kaldi := false } := ⟨by decide, by decide⟩
example : stream { L := 4, S := 2, centered := true, kaldi := true } [[1, 2], [], [3], [4, 5, 6, 7]]
    = [[1, 1, 2, 3], [2, 3, 4, 5], [4, 5, 6, 7], [6, 7, 7, 6]] := by decide
example : full { L := 4, S := 2, centered := true, kaldi := true } [1, 2, 3, 4, 5, 6, 7]
    = [[1, 1, 2, 3], [2, 3, 4, 5], [4, 5, 6, 7], [6, 7, 7, 6]] := by decide

end PdsVerif.C01

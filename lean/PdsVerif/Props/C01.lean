import PdsVerif.Model.Stft
namespace PdsVerif.C01
open PdsVerif.Model.Stft
theorem placeholder : (1:Nat) = 1 := rfl
end PdsVerif.C01

/-
  Translator tie for the integer bookkeeping of the short-integration computer (properties C01, C03, C04).

  `Generated/SiConsts.lean` is re-extracted on every run from `ShortIntegrationFrameComputer._compute_preamble`
  (the reset at the first chunk of an utterance), the planning arithmetic at the head of `compute_chunk`, the `_x_rem`
  it leaves, and the arithmetic of `finalize` — as `Int` terms with Python's floor division.  The theorems here show
  that these are exactly the quantities of the hand-written model `Model/Si.lean` (the one C03's value / streaming
  theorems and C04Si's history-independence theorems are about).

  The reset is translated as a function of the configuration AND of the values the fields held before: a field the
  source forgot to overwrite would keep its old value, the generated term would mention `old…`, and `reset_*_eq`
  (which hold for ALL old values) would fail in the kernel.  `reset_zeroes_*` record that both buffers are zero-filled
  unconditionally.
-/
import PdsVerif.Generated.SiConsts
import PdsVerif.Model.Si
import Mathlib.Tactic
set_option linter.unusedSectionVars false
namespace PdsVerif.SiTie
open PdsVerif PdsVerif.Model.Si PdsVerif.Gen.SiConsts

variable {α : Type} [Add α] [Mul α] [Zero α]

theorem fdivN (a S : Nat) : Int.fdiv (a : Int) (S : Int) = ((a / S : Nat) : Int) := by
  rw [Int.fdiv_eq_ediv_of_nonneg _ (by omega), Int.natCast_ediv]

theorem fdiv2 (a : Nat) : Int.fdiv (a : Int) 2 = ((a / 2 : Nat) : Int) := by
  rw [Int.fdiv_eq_ediv_of_nonneg _ (by omega)]; omega

/-! ### the reset of `_compute_preamble` -/

theorem reset_x_rem_eq (c : Cfg) (B : Bank α) (dt : DType) (ox oy os : Int) (ost : Bool) :
    ((reset c B dt).xRem : Int) = reset_x_rem c.S c.M c.tr c.D c.centered ox oy os ost := by
  unfold reset reset_x_rem
  cases c.centered <;> simp
  split <;> omega

theorem reset_y_rem_eq (c : Cfg) (B : Bank α) (dt : DType) (ox oy os : Int) (ost : Bool) :
    ((reset c B dt).yRem : Int) = reset_y_rem c.S c.M c.tr c.D c.centered ox oy os ost := by
  simp [reset, reset_y_rem]

theorem reset_skip_eq (c : Cfg) (B : Bank α) (dt : DType) (ox oy os : Int) (ost : Bool) :
    ((reset c B dt).skip : Int) = reset_skip c.S c.M c.tr c.D c.centered ox oy os ost := by
  unfold reset reset_skip
  cases c.centered <;> simp
  split <;> omega

theorem reset_started_eq (c : Cfg) (B : Bank α) (dt : DType) (ox oy os : Int) (ost : Bool) :
    (reset c B dt).started = reset_started c.S c.M c.tr c.D c.centered ox oy os ost := rfl

/-- both buffers are zero-filled at the start of every utterance, in every configuration -/
theorem reset_zeroes_eq (c : Cfg) (B : Bank α) (dt : DType) :
    (reset_zeroes_x_buf = true ∧ (reset c B dt).xbuf = List.replicate c.D 0) ∧
    (reset_zeroes_y_buf = true ∧ (reset c B dt).ybuf = B.filts.map fun _ => List.replicate (yBlocks c) (0, 0)) :=
  ⟨⟨rfl, rfl⟩, ⟨rfl, rfl⟩⟩

/-! ### planning arithmetic of `compute_chunk` (the model's let-bound quantities, as `Nat`) -/

/-- `num_raw` -/
def numRawM (xRem n : Nat) : Nat := xRem + n
/-- `num_frames = max(0, (num_raw + y_rem) // S - 1)` -/
def numFramesM (c : Cfg) (xRem yRem n : Nat) : Nat := (xRem + n + yRem) / c.S - 1
/-- `num_processed` -/
def numProcessedM (c : Cfg) (xRem yRem n : Nat) : Nat :=
  if numFramesM c xRem yRem n ≠ 0 then (numFramesM c xRem yRem n + 1) * c.S else yRem
/-- `num_dfts` after the correction -/
def numDftsM (c : Cfg) (xRem yRem n : Nat) : Nat :=
  if numProcessedM c xRem yRem n - yRem > (xRem + n) / vPerDft c * vPerDft c then (xRem + n) / vPerDft c + 1
  else (xRem + n) / vPerDft c
/-- `_x_rem` after the chunk -/
def xRemAfterM (c : Cfg) (xRem yRem n : Nat) : Nat := (xRem + n) - numDftsM c xRem yRem n * vPerDft c

theorem valid_eq (c : Cfg) (hMD : c.M ≤ c.D) (xRem yRem n : Int) :
    chunk_valid_samples_per_dft c.S c.M c.tr c.D c.centered xRem yRem n = (vPerDft c : Int) := by
  unfold chunk_valid_samples_per_dft vPerDft; omega

theorem num_raw_eq (c : Cfg) (xRem yRem n : Nat) :
    chunk_num_raw c.S c.M c.tr c.D c.centered xRem yRem n = (numRawM xRem n : Int) := by
  unfold chunk_num_raw numRawM; omega

theorem num_frames_eq (c : Cfg) (xRem yRem n : Nat) :
    chunk_num_frames c.S c.M c.tr c.D c.centered xRem yRem n = (numFramesM c xRem yRem n : Int) := by
  unfold chunk_num_frames numFramesM
  have h : (xRem : Int) + n + yRem = ((xRem + n + yRem : Nat) : Int) := by push_cast; ring
  rw [h, fdivN]
  generalize (xRem + n + yRem) / c.S = q
  omega

theorem num_processed_eq (c : Cfg) (xRem yRem n : Nat) :
    chunk_num_processed c.S c.M c.tr c.D c.centered xRem yRem n = (numProcessedM c xRem yRem n : Int) := by
  have hf := num_frames_eq c xRem yRem n
  unfold chunk_num_frames at hf
  unfold chunk_num_processed numProcessedM
  rw [hf]
  by_cases h0 : numFramesM c xRem yRem n = 0
  · simp [h0]
  · have : ((numFramesM c xRem yRem n : Int) != 0) = true := by simpa using h0
    rw [if_pos this, if_pos h0]; push_cast; ring

theorem num_dfts_eq (c : Cfg) (hMD : c.M ≤ c.D) (xRem yRem n : Nat) :
    chunk_num_dfts c.S c.M c.tr c.D c.centered xRem yRem n = (numDftsM c xRem yRem n : Int) := by
  have hp := num_processed_eq c xRem yRem n
  unfold chunk_num_processed at hp
  have hv : (c.D : Int) - c.M + 1 = (vPerDft c : Int) := by unfold vPerDft; omega
  unfold chunk_num_dfts numDftsM
  rw [hp, hv]
  have hr : (xRem : Int) + n = ((xRem + n : Nat) : Int) := by push_cast; ring
  rw [hr, fdivN]
  generalize numProcessedM c xRem yRem n = P
  generalize (xRem + n) / vPerDft c = q
  have hm : (q : Int) * (vPerDft c : Int) = ((q * vPerDft c : Nat) : Int) := by push_cast; ring
  rw [hm]
  generalize q * vPerDft c = m
  by_cases hgt : P - yRem > m
  · have : decide ((P : Int) - yRem > (m : Int)) = true := by simp; omega
    rw [if_pos this, if_pos hgt]; push_cast; ring
  · have : ¬ (decide ((P : Int) - yRem > (m : Int)) = true) := by simp; omega
    rw [if_neg this, if_neg hgt]

theorem x_rem_after_eq (c : Cfg) (hMD : c.M ≤ c.D) (xRem yRem n : Nat) :
    chunk_x_rem_after c.S c.M c.tr c.D c.centered xRem yRem n = (xRemAfterM c xRem yRem n : Int) := by
  have hd := num_dfts_eq c hMD xRem yRem n
  unfold chunk_num_dfts at hd
  have hv : (c.D : Int) - c.M + 1 = (vPerDft c : Int) := by unfold vPerDft; omega
  unfold chunk_x_rem_after xRemAfterM
  rw [hd, hv]
  generalize numDftsM c xRem yRem n = k
  have hm : (k : Int) * (vPerDft c : Int) = ((k * vPerDft c : Nat) : Int) := by push_cast; ring
  rw [hm]
  generalize k * vPerDft c = m
  omega

theorem ite_ok {β : Type} (p : Prop) [Decidable p] (v w : β) (e : Err)
    (h : (if p then (Except.ok v : Except Err β) else .error e) = .ok w) : p ∧ v = w := by
  by_cases hp : p
  · rw [if_pos hp] at h; injection h with h; exact ⟨hp, h⟩
  · rw [if_neg hp] at h; cases h

/-- **the model's `compute_chunk` runs on the source's arithmetic**: whenever `chunkCore` succeeds, the number of
frames it returns and the `_x_rem` it leaves are the generated `num_frames` / `_x_rem` terms evaluated at the state's
counters and the length of the chunk after skip handling -/
theorem chunkCore_bookkeeping (c : Cfg) (B : Bank α) (hMD : c.M ≤ c.D) (st st' : St α) (ch : List α)
    (f : List (List α)) (h : chunkCore c B st ch = .ok (st', f)) :
    (f.length : Int) = chunk_num_frames c.S c.M c.tr c.D c.centered st.xRem st.yRem
        (handleSkip st.xbuf st.skip st.xRem ch).2.2.1.length ∧
    (st'.xRem : Int) = chunk_x_rem_after c.S c.M c.tr c.D c.centered st.xRem st.yRem
        (handleSkip st.xbuf st.skip st.xRem ch).2.2.1.length ∧
    st'.skip = (handleSkip st.xbuf st.skip st.xRem ch).2.1 := by
  rw [num_frames_eq, x_rem_after_eq c hMD]
  unfold chunkCore at h
  simp only [] at h
  obtain ⟨hok, hv⟩ := ite_ok _ _ _ _ h
  have h1 := congrArg Prod.fst hv
  have h2 := congrArg Prod.snd hv
  simp only at h1 h2
  subst h1
  simp only [Bool.and_eq_true, beq_iff_eq] at hok
  refine ⟨?_, ?_, rfl⟩
  · rw [← h2, hok.2]; rfl
  · rfl

/-! ### `finalize` -/

theorem fin_borrowed_eq (c : Cfg) (xRem yRem skip : Int) :
    fin_borrowed c.S c.M c.tr c.D c.centered xRem yRem skip = (if c.centered then (c.S : Int) else 0) := rfl

/-- the model's `bufLen` -/
def bufLenM (c : Cfg) (st : St α) : Int :=
  (c.tr : Int) - st.skip + st.xRem + st.yRem - (if c.centered then (c.S : Int) else 0)

theorem fin_buf_len_eq (c : Cfg) (st : St α) :
    fin_buf_len c.S c.M c.tr c.D c.centered st.xRem st.yRem st.skip = bufLenM c st := by
  unfold fin_buf_len bufLenM; ring

theorem fin_num_frames_eq (c : Cfg) (st : St α) :
    fin_num_frames c.S c.M c.tr c.D c.centered st.xRem st.yRem st.skip
      = max 0 ((bufLenM c st + (c.S / 2 : Nat)) / c.S) := by
  have hb := fin_buf_len_eq c st
  unfold fin_buf_len at hb
  unfold fin_num_frames
  rw [hb, fdiv2, Int.fdiv_eq_ediv_of_nonneg _ (by omega)]

theorem fin_pad_right_eq (c : Cfg) (st : St α) :
    fin_pad_right c.S c.M c.tr c.D c.centered st.xRem st.yRem st.skip
      = (max 0 ((bufLenM c st + (c.S / 2 : Nat)) / c.S) - 1) * c.S + ((c.M : Int) + c.S - 1) - bufLenM c st := by
  have hn := fin_num_frames_eq c st
  have hb := fin_buf_len_eq c st
  unfold fin_num_frames at hn
  unfold fin_buf_len at hb
  unfold fin_pad_right
  rw [hn, hb]

/-- **the model's `finalize` runs on the source's arithmetic**: `finalize`, restated with the generated terms -/
theorem finalize_eq_gen (c : Cfg) (B : Bank α) (st : St α) :
    finalize c B st =
      if st.started then
        let nf := fin_num_frames c.S c.M c.tr c.D c.centered st.xRem st.yRem st.skip
        let pr := fin_pad_right c.S c.M c.tr c.D c.centered st.xRem st.yRem st.skip
        if nf ≥ 1 then
          if pr < 0 then .error .value
          else
            match chunk c B st st.dtype (List.replicate pr.toNat 0) with
            | .ok (st', frames) => .ok ({ st' with started := false }, frames.take nf.toNat)
            | .error e => .error e
        else .ok ({ st with started := false }, [])
      else .ok (st, []) := by
  rw [fin_num_frames_eq, fin_pad_right_eq]
  unfold finalize bufLenM
  rfl

/-! non-vacuity: the generated terms at a concrete centred configuration (S = 2, M = 5, tr = 2, D = 8) -/
example : reset_skip 2 5 2 8 true 99 99 99 true = 0 ∧ reset_x_rem 2 5 2 8 true 99 99 99 true = 0
    ∧ reset_x_rem 4 5 2 8 true 99 99 99 true = 2 ∧ reset_skip 2 5 3 8 false 99 99 99 true = 3 := by decide
example : chunk_num_frames 2 5 2 8 true 0 2 7 = 3 ∧ chunk_num_dfts 2 5 2 8 true 0 2 7 = 2
    ∧ chunk_x_rem_after 2 5 2 8 true 0 2 7 = 0 := by decide
example : fin_num_frames 2 5 2 8 true 1 2 0 = 2 ∧ fin_pad_right 2 5 2 8 true 1 2 0 = 5 := by decide

end PdsVerif.SiTie

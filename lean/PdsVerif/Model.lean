/- All executable models (core Lean only, no Mathlib): what the driver imports. -/
import PdsVerif.Num
import PdsVerif.Generated.Scales
import PdsVerif.Model.ScalesDrv

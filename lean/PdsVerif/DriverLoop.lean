/-
  Shared line-protocol loop: one operation per input line, one result line per operation.
  A per-property driver is `def main := PdsVerif.driverMain dispatch` in `drivers/Cxx.lean`,
  run as `lake env lean --run drivers/Cxx.lean`.  Unknown or malformed operations must answer
  `bad-op` (never a default value).
-/
namespace PdsVerif

def tokens (line : String) : List String :=
  (line.splitOn " ").filter (· ≠ "")

partial def driverLoop (dispatch : String → String) (h out : IO.FS.Stream) : IO Unit := do
  let line ← h.getLine
  if line.isEmpty then return ()
  out.putStrLn (dispatch line.trimAscii.toString)
  driverLoop dispatch h out

def driverMain (dispatch : String → String) : IO Unit := do
  let out ← IO.getStdout
  driverLoop dispatch (← IO.getStdin) out
  out.flush

/-- `"[1,2,3]"`-free integer list syntax used on the wire: comma separated, `-` for empty. -/
def parseInts (s : String) : Option (List Int) :=
  if s == "-" then some [] else (s.splitOn ",").mapM String.toInt?

def parseNats (s : String) : Option (List Nat) :=
  if s == "-" then some [] else (s.splitOn ",").mapM String.toNat?

def showInts (l : List Int) : String :=
  if l.isEmpty then "-" else ",".intercalate (l.map toString)

def showNats (l : List Nat) : String :=
  if l.isEmpty then "-" else ",".intercalate (l.map toString)

end PdsVerif

/-
  `Transc ℝ`: the instance the analytic theorems are about (noncomputable; Mathlib).
-/
import PdsVerif.Num
import Mathlib.Analysis.SpecialFunctions.Log.Base
import Mathlib.Analysis.SpecialFunctions.Pow.Real
import Mathlib.Analysis.SpecialFunctions.Sqrt
import Mathlib.Analysis.SpecialFunctions.Trigonometric.Basic

namespace PdsVerif

noncomputable instance : Transc ℝ where
  exp := Real.exp
  log := Real.log
  log2 := Real.logb 2
  pow2 := fun x => (2:ℝ) ^ x
  sqrt := Real.sqrt
  cos := Real.cos
  sin := Real.sin
  rpow := fun x y => x ^ y
  pi := Real.pi

@[simp] theorem transc_exp (x : ℝ) : Transc.exp x = Real.exp x := rfl
@[simp] theorem transc_log (x : ℝ) : Transc.log x = Real.log x := rfl
@[simp] theorem transc_log2 (x : ℝ) : Transc.log2 x = Real.logb 2 x := rfl
@[simp] theorem transc_pow2 (x : ℝ) : Transc.pow2 x = (2:ℝ) ^ x := rfl
@[simp] theorem transc_sqrt (x : ℝ) : Transc.sqrt x = Real.sqrt x := rfl
@[simp] theorem transc_cos (x : ℝ) : Transc.cos x = Real.cos x := rfl
@[simp] theorem transc_sin (x : ℝ) : Transc.sin x = Real.sin x := rfl
@[simp] theorem transc_rpow (x y : ℝ) : Transc.rpow x y = x ^ y := rfl
@[simp] theorem transc_pi : (Transc.pi : ℝ) = Real.pi := rfl

end PdsVerif

-- Root of the `PdsVerif` library: models, generated definitions, property theorems.
import PdsVerif.Model
import PdsVerif.RealNum
import PdsVerif.Props.C19

-- Root of the `PdsVerif` library: models, generated definitions, property theorems.
import PdsVerif.DriverLoop
import PdsVerif.RealNum
import PdsVerif.Model.ScalesDrv
import PdsVerif.Props.C19

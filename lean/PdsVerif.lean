-- Root of the `PdsVerif` library: models, generated definitions, property theorems.
import PdsVerif.DriverLoop
import PdsVerif.RealNum
import PdsVerif.Model.ScalesDrv
import PdsVerif.Model.StftDrv
import PdsVerif.Props.C01
import PdsVerif.Props.C02
import PdsVerif.Props.C04
import PdsVerif.Props.C08
import PdsVerif.Props.C12
import PdsVerif.Props.C14
import PdsVerif.Props.C15
import PdsVerif.Props.C16
import PdsVerif.Props.C17
import PdsVerif.Model.StandardizeDrv
import PdsVerif.Props.C18
import PdsVerif.Props.C19
import PdsVerif.Props.C20

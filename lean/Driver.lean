/-
  Line-protocol driver: one operation per input line, one result line per operation.
  Run as `lake env lean --run Driver.lean`.  Unknown or malformed operations answer `bad-op`
  (never a default value).
-/
import PdsVerif.Model
open PdsVerif

def dispatch (line : String) : String :=
  match (line.splitOn " ").filter (· ≠ "") with
  | "scale" :: args => (Model.ScalesDrv.handle args).getD "bad-op"
  | _ => "bad-op"

partial def loop (h : IO.FS.Stream) (out : IO.FS.Stream) : IO Unit := do
  let line ← h.getLine
  if line.isEmpty then return ()
  out.putStrLn (dispatch line.trimAscii.toString)
  loop h out

def main : IO Unit := do
  let out ← IO.getStdout
  loop (← IO.getStdin) out
  out.flush

#!/venv/bin/python
"""Regenerate MANIFEST.json from the per-property harness modules (metadata lives beside the code)."""
import importlib, json, os, sys
HERE = os.path.dirname(os.path.dirname(os.path.abspath(__file__)))
sys.path.insert(0, HERE)
ALL = ["C%02d" % i for i in range(1, 21)]
BASELINE = "cd /repo && /venv/bin/python -m pytest -ra -q -p no:cacheprovider --timeout=900 --continue-on-collection-errors"
checks, na = [], []
READY = set(json.load(open(os.path.join(HERE, "harness", "ready.json"))))
for p in ALL:
    try:
        if p not in READY:
            raise ModuleNotFoundError(p)
        m = importlib.import_module("harness." + p.lower())
    except ModuleNotFoundError:
        na.append(dict(property_id=p, reason="check not built yet (work in progress; planned per DESIGN.md §3)"))
        continue
    checks.append(dict(
        property_id=p,
        quick_cmd="./check %s --tier quick" % p,
        thorough_cmd="./check %s --tier thorough" % p,
        evidence_file="evidence/%s.json" % p,
        replay_cmd_template="./check %s --replay {path}" % p,
        engine="lean4+correspondence",
        level_claimed=dict(category="proof", text=m.LEVEL_TEXT, design_ref="DESIGN.md §3 " + p),
        level_note=m.LEVEL_NOTE,
        technique=getattr(m, "TECHNIQUE", "Lean 4 theorems over a model tied to the source by translator and/or differential correspondence"),
    ))
man = dict(
    version=1,
    setup_cmd="./check --setup",
    hooks=dict(
        guard="PYDROBERT_SPEECH_VERIF",
        enable="none needed: every tie goes through the public API or outside fault injection; checks set PYDROBERT_SPEECH_VERIF=1 and import /repo/src directly",
        baseline_off_cmd=BASELINE,
        source_commits=[],
        add_only=True,
    ),
    engines=[dict(name="lean4+correspondence", path="check", serves_properties=[c["property_id"] for c in checks],
                  kind_free_text="Lean 4 (Mathlib) theorems over executable models; translator Python-ast -> Lean; line-protocol differential correspondence against the implementation; Python property oracles for replay search")],
    checks=checks,
    not_applicable=na,
    notes="See DESIGN.md. Known genuine defects: KNOWN_FINDINGS.json.",
)
json.dump(man, open(os.path.join(HERE, "MANIFEST.json"), "w"), indent=1)
print("claimed:", [c["property_id"] for c in checks])

#!/venv/bin/python
"""Confirm a candidate seeded change independently: in a scratch worktree of /repo HEAD
 (a) demo.py exits 0 without the patch, (b) non-zero with it, (c) the pinned suite's stable-pass set still passes.
usage: verify_seed.py <candidate_dir> <seed_id> <property>   -> writes /verif/seeded/<seed_id>/ when confirmed"""
import json, os, shutil, subprocess, sys, time
cand, sid, prop = sys.argv[1:4]
HARMLESS = "--harmless" in sys.argv   # a property-preserving rewrite: the demo must pass before AND after
KIND = "harmless" if HARMLESS else "seeded"
HERE = os.path.dirname(os.path.dirname(os.path.abspath(__file__)))
wt = "/tmp/vs-" + sid
subprocess.run(["git", "-C", "/repo", "worktree", "remove", "--force", wt], capture_output=True)
subprocess.check_call(["git", "-C", "/repo", "worktree", "add", "--detach", wt, "HEAD", "-q"])
shutil.copy("/repo/src/pydrobert/speech/_version.py", wt + "/src/pydrobert/speech/_version.py")
env = dict(os.environ, PYTHONPATH=wt + "/src")
def demo():
    p = subprocess.run(["/venv/bin/python", os.path.join(cand, "demo.py")], cwd=wt, env=env, capture_output=True, text=True, timeout=1800)
    return p.returncode, (p.stdout + p.stderr).strip().splitlines()[-3:]
res = {}
try:
    # demos written by the seeding agents may hard-code their own worktree in sys.path: rewrite to ours
    src = open(os.path.join(cand, "demo.py")).read()
    import re
    src2 = re.sub(r"/tmp/seed\d*-C\d\d", wt, src)
    tmpdemo = os.path.join(wt, "_demo.py"); open(tmpdemo, "w").write(src2)
    def demo():
        p = subprocess.run(["/venv/bin/python", tmpdemo], cwd=wt, env=env, capture_output=True, text=True, timeout=1800)
        return p.returncode, (p.stdout + p.stderr).strip().splitlines()[-3:]
    res["demo_before"] = demo()
    a = subprocess.run(["git", "-C", wt, "apply", os.path.join(cand, "patch.diff")], capture_output=True, text=True)
    res["applies"] = a.returncode == 0
    if a.returncode == 0:
        res["demo_after"] = demo()
        t = subprocess.run([os.path.join(HERE, "tools", "baseline_check.py"), wt], capture_output=True, text=True, timeout=3000)
        res["suite"] = t.stdout.strip().splitlines()[:6]
        res["suite_ok"] = t.returncode == 0
finally:
    subprocess.run(["git", "-C", "/repo", "worktree", "remove", "--force", wt], capture_output=True)
ok = res.get("applies") and res["demo_before"][0] == 0 and ((res.get("demo_after", (1,))[0] == 0) if HARMLESS else (res.get("demo_after", (0,))[0] != 0)) and res.get("suite_ok")
res["confirmed"] = bool(ok)
print(sid, json.dumps(res))
if ok:
    d = os.path.join(HERE, KIND, sid); os.makedirs(d, exist_ok=True)
    for f in ("patch.diff", "demo.py", "notes.md"):
        if os.path.exists(os.path.join(cand, f)): shutil.copy(os.path.join(cand, f), os.path.join(d, f))
    open(os.path.join(d, "demo.py"), "w").write(src2.replace(wt, "/repo"))
    notes = open(os.path.join(cand, "notes.md")).read() if os.path.exists(os.path.join(cand, "notes.md")) else ""
    json.dump(dict(id=sid, property=prop, breaks=(None if HARMLESS else prop), kind=("property-preserving rewrite" if HARMLESS else "property-breaking change"), needs_to_manifest=notes[:1500], source="independent sub-agent given only the property text and a scratch worktree",
                   verified=dict(repo_head=subprocess.check_output(["git", "-C", "/repo", "log", "-1", "--format=%h"]).decode().strip(),
                                 demo_without_patch=res["demo_before"], demo_with_patch=res["demo_after"], suite=res["suite"]),
                   ran="tools/verify_seed.py: scratch worktree of /repo HEAD; demo.py before/after `git apply patch.diff`; tools/baseline_check.py (full pinned suite vs stable_pass)"),
              open(os.path.join(d, "meta.json"), "w"), indent=1)

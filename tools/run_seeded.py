#!/venv/bin/python
"""Apply each kept seeded change (seeded/<id>/patch.diff) to /repo, run the property's quick check, undo.
usage: run_seeded.py [--isolated] [--seeds=0,1] [--harmless] [id ...]
 -> one line per change: caught (VIOLATION with replay) / caught-nfi / MISSED
 With --harmless the changes are the property-PRESERVING rewrites kept under harmless/<id>/: the expected outcomes are
 `quiet` (exit 0) or `no-failing-input-found` (a proof obligation / the correspondence broke and no failing input
 exists - what the decision rule prescribes); `ALARM` = a violation with a concrete failing input, i.e. a false alarm
 (or a rewrite that is not harmless after all) that has to be looked at."""
import json, os, subprocess, sys
HERE = os.path.dirname(os.path.dirname(os.path.abspath(__file__)))
ISO = "--isolated" in sys.argv
HARMLESS = "--harmless" in sys.argv
KIND = "harmless" if HARMLESS else "seeded"
args = [a for a in sys.argv[1:] if not a.startswith("--")]
ids = args or sorted(os.listdir(os.path.join(HERE, KIND)))
rc_all = 0
if ISO:
    # run in a private copy of /verif against a private worktree of /repo: nothing shared is touched
    COPY, WT = "/tmp/verif-seedrun-%d" % os.getpid(), "/tmp/repo-seedrun-%d" % os.getpid()
    SEEDS = [a.split("=")[1] for a in sys.argv[1:] if a.startswith("--seeds=")]
    SEEDS = SEEDS[0].split(",") if SEEDS else ["0"]
    subprocess.run(["rsync", "-a", "--delete", "--exclude", ".git", "--exclude", "replay", HERE + "/", COPY + "/"], check=True)
    subprocess.run(["git", "-C", "/repo", "worktree", "remove", "--force", WT], capture_output=True)
    subprocess.check_call(["git", "-C", "/repo", "worktree", "add", "--detach", WT, "HEAD", "-q"])
    import shutil
    shutil.copy("/repo/src/pydrobert/speech/_version.py", WT + "/src/pydrobert/speech/_version.py")
    for sid in ids:
        d = os.path.join(HERE, KIND, sid)
        meta = json.load(open(os.path.join(d, "meta.json")))
        a = subprocess.run(["git", "-C", WT, "apply", os.path.join(d, "patch.diff")], capture_output=True, text=True)
        if a.returncode:  # the tree moved on since the change was written: fall back to a fuzzy patch
            a = subprocess.run(["patch", "-p1", "-F3", "--no-backup-if-mismatch", "-i", os.path.join(d, "patch.diff")], cwd=WT, capture_output=True, text=True)
        if a.returncode:
            print(sid, "PATCH-DOES-NOT-APPLY", a.stderr.strip()[:200]); rc_all = 1; continue
        try:
            for prop, seed in [(pp, sd) for pp in (meta.get("checks") or [meta["property"]]) for sd in SEEDS]:
                p = subprocess.run([os.path.join(COPY, "check"), prop], capture_output=True, text=True, cwd=COPY,
                                   env=dict(os.environ, PDS_REPO=WT, VERIF_SEED=seed), timeout=2400)
                v = [l for l in p.stdout.splitlines() if l.startswith("VIOLATION")]
                if v and not v[0].endswith("no-failing-input-found"):
                    res = "caught (replay with failing input)"
                elif v:
                    res = "caught-no-failing-input-found"
                else:
                    res = "MISSED"; rc_all = 1
                if HARMLESS:
                    res = {"caught (replay with failing input)": "ALARM (violation with a concrete failing input)",
                           "caught-no-failing-input-found": "no-failing-input-found (obligation / correspondence broke, nothing fails)",
                           "MISSED": "quiet"}[res]
                    if p.returncode not in (0, 1):
                        res = "INFRASTRUCTURE-ERROR rc=%d" % p.returncode
                why = [l for l in (p.stdout + "\n" + p.stderr).splitlines() if l.startswith("BROKEN")]
                print("%-10s %-4s seed=%s rc=%d %s | %s%s" % (sid, prop, seed, p.returncode, res, (v[0] if v else (p.stdout.strip().splitlines() or ["?"])[-1])[:160],
                                                            (" | " + why[0][:220]) if why else ""), flush=True)
        finally:
            subprocess.run(["git", "-C", WT, "checkout", "--", "."])
    subprocess.run(["git", "-C", "/repo", "worktree", "remove", "--force", WT], capture_output=True)
    import shutil as _sh
    _sh.rmtree(COPY, ignore_errors=True)
    sys.exit(rc_all)
for sid in ids:
    d = os.path.join(HERE, KIND, sid)
    meta = json.load(open(os.path.join(d, "meta.json")))
    props = meta.get("checks") or [meta["property"]]
    st = subprocess.run(["git", "-C", "/repo", "status", "--porcelain", "--untracked-files=no"], capture_output=True, text=True).stdout
    if st.strip():
        print("refusing: /repo has uncommitted changes"); sys.exit(2)
    a = subprocess.run(["git", "-C", "/repo", "apply", os.path.join(d, "patch.diff")], capture_output=True, text=True)
    if a.returncode:
        print(sid, "PATCH-DOES-NOT-APPLY", a.stderr.strip()[:200]); rc_all = 1; continue
    try:
        for prop in props:
            p = subprocess.run([os.path.join(HERE, "check"), prop], capture_output=True, text=True, cwd=HERE, timeout=1500)
            v = [l for l in p.stdout.splitlines() if l.startswith("VIOLATION")]
            if v and not v[0].endswith("no-failing-input-found"):
                res = "caught (replay with failing input)"
            elif v:
                res = "caught-no-failing-input-found"
            else:
                res = "MISSED"; rc_all = 1
            print("%-10s %-4s rc=%d %s | %s" % (sid, prop, p.returncode, res, (v[0] if v else p.stdout.strip().splitlines()[-1])[:160]))
    finally:
        subprocess.run(["git", "-C", "/repo", "checkout", "--", "."])
sys.exit(rc_all)

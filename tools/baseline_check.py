#!/venv/bin/python
"""Run the pinned suite in <repo_dir> (default /repo) and report stable-pass tests that no longer pass.
usage: baseline_check.py [repo_dir] [pytest selectors...]"""
import json, os, subprocess, sys, tempfile, xml.etree.ElementTree as ET
repo = sys.argv[1] if len(sys.argv) > 1 else "/repo"
sel = sys.argv[2:]
base = json.load(open("/root/.vp/BASELINE.json"))
stable = set(base["stable_pass"])
out = tempfile.mktemp(suffix=".xml", dir="/tmp")
env = dict(os.environ, PYTHONPATH=os.path.join(repo, "src"))
env.pop("PYDROBERT_SPEECH_VERIF", None)
p = subprocess.run(["/venv/bin/python", "-m", "pytest", "-ra", "-q", "-p", "no:cacheprovider", "--timeout=900",
                    "--continue-on-collection-errors", "--junitxml=" + out, "-n", "8"] + sel if False else
                   ["/venv/bin/python", "-m", "pytest", "-q", "-p", "no:cacheprovider", "--timeout=900",
                    "--continue-on-collection-errors", "--junitxml=" + out] + sel,
                   cwd=repo, env=env, stdout=subprocess.PIPE, stderr=subprocess.STDOUT, text=True)
passed, failed = set(), set()
for tc in ET.parse(out).getroot().iter("testcase"):
    name = tc.get("classname") + "::" + tc.get("name")
    if any(ch.tag in ("failure", "error") for ch in tc):
        failed.add(name)
    elif not any(ch.tag == "skipped" for ch in tc):
        passed.add(name)
os.remove(out)
ran = passed | failed
lost = sorted(t for t in stable if t in ran and t not in passed) if sel else sorted(stable - passed)
print("passed %d failed %d; stable_pass %d; stable tests not passing: %d" % (len(passed), len(failed), len(stable), len(lost)))
for t in lost[:40]:
    print("  LOST", t)
newly = sorted(passed - stable)
print("newly passing (not in stable_pass): %d" % len(newly))
for t in newly[:40]:
    print("  NEW", t)
sys.exit(1 if lost else 0)

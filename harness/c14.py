"""C14 - PyTorch modules compute what their NumPy counterparts compute."""
import numpy as np

from . import common
from . import stft_common as sc

PROP = "C14"
MODULES = ["PdsVerif.Props.StftTie", "PdsVerif.Props.FrameCoeffTie", "PdsVerif.Props.C14"]
MODEL_MODULES = ["PdsVerif.Model.StftDrv"]
REQUIRED = ["PdsVerif.StftTie." + n for n in ["full_pad_left_eq", "full_short_eq", "full_num_frames_eq", "full_pad_right_eq", "fin_pad_left_eq", "fin_num_frames_eq", "chunk_frame_length_eq", "chunk_num_frames_eq", "chunk_first_pad_eq", "torch_arith_eq_numpy", "torch_no_frame_eq"]] + ["PdsVerif.FrameCoeffTie." + n for n in ["np_nonlin_append", "np_loop_eq", "np_finish_spec", "coeff_eq_spec", "np_energy_spec", "torch_energy_eq_np", "torch_coeff_eq_np"]] + ["PdsVerif.C14." + n for n in [
    "flip_pad_eq_symPad", "torch_frames_eq_numpy", "torch_walk_eq_numpy_walk", "torch_walk_covers", "torch_empty", "doubling_commutes", "torch_coefficient_spec"]]

def translate(repo):
    """framing arithmetic of compute.py / torch.py -> Generated/StftConsts.lean (theorems: Props/StftTie.lean);
    real-valued tail of the coefficient computation -> Generated/FrameCoeff.lean (theorems: Props/FrameCoeffTie.lean)"""
    from .translate import stftconsts, framecoeff
    files = dict(stftconsts.generate(repo))
    files.update(framecoeff.generate(repo))
    return files


RULE = (
    "PyTorch STFT module built by from_stft_frame_computer from tracer computers: (a) walk: DFT size D (all residues mod 4) "
    "x start x length x integer/gaussian taps with a signal irfft(A); (b) framing: (L,S,style,kaldi) x N with one-hot "
    "integer windows, N from 0 (empty shape) through N>=L; float64 and float32; (c) library banks x flags: module vs "
    "compute_full; wrappers (pre-emphasis, post-processor, SI), dither statistics / seeding, TorchScript vs eager. "
    "Distinct by parameter tuple."
)
TRUSTED = [
    "torch.fft.rfft = DFT; torch slicing / flip / cat / as_strided semantics as modelled in Model/TorchStft.lean",
    "tracer components; torch<->numpy conversion",
]
ASSUMPTIONS = [
    "the framing theorem holds for every length and every shift >= 1, also frame_shift > frame_length (Kaldi left padding non-negative) (the padding gathers the periodic symmetric extension, as np.pad does); before that repair L//2+1 <= N < L with a small shift read outside the storage",
    "PyTorchDither statistics and torch.manual_seed reproducibility, TorchScript agreement, the wrappers and float32 working precision are checked by runs only",
]
LEVEL_TEXT = (
    "Proved: for every signal length the port's symmetric-index padding + as_strided yields exactly compute_full's frames "
    "and stays inside its storage; the port's segment walk equals the NumPy walk (hence the specification) for every "
    "DFT size/start/length; both return zero frames below L//2+1; per-segment doubling equals doubling the sum; the port's coefficient tail "
    "(per-segment norms, doubling, clamp_min/log after stacking, energy column) is regenerated from torch.py each run and "
    "proved equal to the NumPy computer's, hence to the documented full-spectrum formula (torch_coefficient_spec). Tied "
    "to torch.py by exact-integer tracer correspondence through the public module; values on library banks, wrappers, "
    "dither and TorchScript by differential runs."
)
LEVEL_NOTE = "Trusted: torch primitives' semantics, tracers. Partial: dither statistics, TorchScript, wrappers, float32 precision are sampled."
TECHNIQUE = "Lean 4 proofs (torch framing = numpy framing; torch walk = numpy walk) + exact-integer tracer correspondence"


def to_t(x, dtype=None):
    import torch

    t = torch.from_numpy(np.ascontiguousarray(x))
    return t if dtype is None else t.to(dtype)


def run(ctx, driver):
    import torch
    from pydrobert.speech.compute import STFTFrameComputer
    from pydrobert.speech.torch import PyTorchSTFTFrameComputer
    from .tracers import SpecBank, IntWindow
    from . import c02

    torch.set_num_threads(2)
    r = ctx.rng
    # ---------------- (a) walk through the torch module
    wc = c02.walk_cases(ctx)
    r.shuffle(wc)
    wc = wc[: ctx.scale(500, 12000)]
    lines = ["walkt %d %d %d" % c for c in wc]
    outs = driver.run(lines)
    ctx.count("correspondence_lines", len(lines))
    for (D, start, ln), mo in zip(wc, outs):
        if ctx.out_of_time():
            break
        taps = c02.int_taps(r, ln)
        half = D // 2 + 1
        A = np.asarray([r.randrange(1, 30) for _ in range(half)], dtype=np.float64)
        x = np.fft.irfft(A, n=D)
        bank = SpecBank([(start, np.asarray(taps, dtype=np.complex128))])
        case = dict(kind="walk", D=D, start=start, len=ln, taps=[str(t) for t in taps], A=A.tolist())
        ctx.case(case, kind="walk:Dmod4=%d" % (D % 4))
        comp = STFTFrameComputer(bank, frame_length_ms=D, frame_shift_ms=D, frame_style="causal",
                                 window_function=IntWindow(mode="ones"), use_log=False, use_power=False,
                                 pad_to_nearest_power_of_two=False)
        mod = PyTorchSTFTFrameComputer.from_stft_frame_computer(comp, torch.cdouble, torch.double)
        with torch.no_grad():
            got = mod(to_t(x)).numpy()
        want = comp.compute_full(x)
        if got.shape != want.shape or not np.allclose(got, want, rtol=1e-9, atol=1e-7):
            ctx.violation(case, want.tolist(), got.tolist(), "torch module == compute_full (complex tracer bank)",
                          tags=dict(clause="walk_value", Dmod4=D % 4))
        if mo == "bad-op":
            ctx.mismatch(case, mo, None, "driver rejected")
            continue
        hits = [] if mo == "-" else [tuple(int(v) for v in h.split(",")) for h in mo.split("|")]
        try:
            exp = sum(A[i] * abs(taps[j]) for i, cj, j in hits)
        except IndexError:
            ctx.mismatch(case, mo, None, "model hit index out of the half spectrum")
            continue
        if got.shape != (1, 1) or abs(float(got[0, 0]) - exp) > 1e-6:
            ctx.mismatch(case, exp, got.tolist(), "sum_j A[idx_j]*|tap_j| : torch-walk model vs torch module")
    # ---------------- (b) framing
    jobs = []
    maxL = 7 if ctx.tier == "quick" else 11
    for L in range(1, maxL + 1):
        for S in list(range(1, L + 1)) + [L + 1, L + 2, 2 * L + 1, 3 * L]:
            for centered, kaldi in ((False, False), (True, False), (True, True)):
                if kaldi and S // 2 > L // 2:
                    continue
                for N in sorted({0, L // 2, L // 2 + 1, L - 1, L, L + 1, 2 * L + 1, r.randrange(L, 3 * L + 2), S, S + S // 2, S + S // 2 + 1, 2 * S + 1}):
                    jobs.append((L, S, centered, kaldi, N, r.randrange(L), r.random() < 0.3))
    r.shuffle(jobs)
    jobs = jobs[: ctx.scale(500, 6000)]
    lines = ["tframes %d %d %d %d %d" % (L, S, int(ce), int(ka), N) for L, S, ce, ka, N, j, en in jobs]
    outs = driver.run(lines)
    ctx.count("correspondence_lines", len(lines))
    for (L, S, ce, ka, N, j, energy), mo in zip(jobs, outs):
        taps = sc.window_taps("hot%d" % j, L)
        comp = sc.make_dc_computer(L, S, ce, ka, taps)
        comp._include_energy = False
        x = sc.sig(0, N)
        case = dict(kind="framing", L=L, S=S, centered=ce, kaldi=ka, N=N, hot=j)
        ctx.case(case, nontrivial=N >= L, kind="framing:" + ("inscope" if N >= L or N < L // 2 + 1 else "gap"))
        for dt, tdt in ((np.float64, torch.double), (np.float32, torch.float)):
            mod = PyTorchSTFTFrameComputer.from_stft_frame_computer(comp, torch.cdouble, torch.double)
            try:
                with torch.no_grad():
                    xt = to_t(x.astype(dt))
                    if (L + S + N + j) % 3 == 0 and N > 0:
                        # a strided (non-contiguous) view of a longer tensor holding the same samples
                        big = torch.zeros(2 * N + 1, dtype=xt.dtype)
                        big[1::2] = xt
                        xt = big[1::2]
                        ctx.count("noncontiguous_input")
                    got = mod(xt).numpy()
                err = None
            except RuntimeError as e:
                got, err = None, "X"
            want = comp.compute_full(x.astype(dt))
            in_scope = True  # since the padding repair the port agrees with compute_full for every length
            if in_scope:
                if err or got.shape != want.shape or not np.allclose(got, want, rtol=1e-6, atol=1e-6):
                    ctx.violation(dict(case, dtype=str(dt.__name__)), want.tolist(), err or got.tolist(),
                                  "torch module == compute_full in shape and value (N >= L), same empty shape (N < L//2+1)",
                                  tags=dict(clause="framing", empty=bool(N < L // 2 + 1)))
            else:
                ctx.count("out_of_scope")
            # correspondence (float64 only)
            if dt is np.float64:
                if mo == "bad-op":
                    ctx.mismatch(case, mo, None, "driver rejected")
                elif mo == "X":
                    if err != "X":
                        ctx.mismatch(case, "RuntimeError", got.tolist(), "model: as_strided out of storage")
                else:
                    frames = [] if mo == "-" else [[int(t) for t in f.split(",")] for f in mo.split("|")]
                    exp = [int(sum(w * x[i] for w, i in zip(taps, f))) for f in frames]
                    rows = sc.as_int_rows(got) if got is not None else "X"
                    if rows != exp:
                        ctx.mismatch(case, exp, rows, "torch framing: model vs module (one-hot window)")
    # ---------------- (c) library banks, wrappers, dither, script
    library(ctx)


def lib_computer(spec):
    """the STFT computer a library case names (also used by --replay)"""
    from pydrobert.speech import compute, filters
    kind, scale, rate = spec["bank"], spec["scale"], spec["rate"]
    if kind == "gabor":
        bank = filters.GaborFilterBank(scale, num_filts=5, sampling_rate=rate)
    elif kind == "gammatone":
        bank = filters.ComplexGammatoneFilterBank(scale, num_filts=5, sampling_rate=rate)
    elif kind == "fbank":
        bank = filters.Fbank(num_filts=5, sampling_rate=rate)
    else:
        bank = filters.TriangularOverlappingFilterBank(scale, num_filts=5, sampling_rate=rate, analytic=spec["analytic"])
    return compute.STFTFrameComputer(
        bank, frame_length_ms=spec["frame_length_ms"], frame_shift_ms=spec["frame_shift_ms"], frame_style=spec["style"],
        kaldi_shift=spec["kaldi"], use_log=spec["use_log"], use_power=spec["use_power"], include_energy=spec["include_energy"],
        pad_to_nearest_power_of_two=spec["pad_to_nearest_power_of_two"])


def lib_signal(N, amp, xseed):
    x = np.random.RandomState(xseed).randn(N)
    if amp == "dyn":
        # a loud passage (16-bit full scale) followed by a very quiet one: per-frame quantities must be computed from the
        # frame's own samples - anything carried along the signal (running sums, global scaling) loses the quiet part
        x[: (2 * N) // 3] *= 8000.0
        x[(2 * N) // 3:] *= 0.5
        return x
    return amp * x


def library(ctx):
    import torch
    from pydrobert.speech import compute, filters, pre, post
    from pydrobert.speech import torch as pt

    r = ctx.rng
    n = ctx.scale(30, 400)
    # deterministic corner corpus first (never left to the RNG): real and complex banks x log x power x energy on
    # digital silence and on a signal whose filter sums fall below LOG_FLOOR_VALUE (where the order of doubling,
    # flooring and taking the log is observable), and on an ordinary signal
    corners = []
    for ckind in ("fbank", "tri", "gabor", "gammatone"):
        for cpow in (True, False):
            for cen in (False, True):
                for camp in (0.0, 1e-6, 1.0):
                    corners.append((ckind, cpow, cen, camp))
    for ckind, cpow in (("fbank", True), ("tri", False), ("gabor", True)):
        corners.append((ckind, cpow, True, "dyn"))
    # finite signals of huge / tiny magnitude, magnitude spectrum, double precision: the modulus of a complex bin must not go
    # through re**2 + im**2 (5th entry: use_log)
    for ckind in ("fbank", "gabor"):
        corners.append((ckind, False, False, 1e157, True))
        corners.append((ckind, False, False, 1e-200, False))
    for it in range(len(corners) + n):
        if ctx.out_of_time():
            break
        corner = corners[it] if it < len(corners) else None
        rate = r.choice([4000, 8000])
        kind = corner[0] if corner else r.choice(["gabor", "tri", "fbank", "gammatone"])
        scale = r.choice(["mel", "bark"])
        analytic = False if corner else r.random() < 0.4
        flags = dict(use_log=r.random() < 0.5, use_power=r.random() < 0.5, include_energy=r.random() < 0.5,
                     pad_to_nearest_power_of_two=r.random() < 0.5)
        if corner:
            flags.update(use_log=corner[4] if len(corner) > 4 else True, use_power=corner[1], include_energy=corner[2])
        style = r.choice(["causal", "centered"])
        kaldi = r.random() < 0.3
        flen, fshift = r.choice([None, 10.0, 25.0, 12.3]), r.choice([2.0, 5.0, 10.0])
        spec = dict(bank=kind, scale=scale, rate=rate, analytic=analytic, frame_length_ms=flen, frame_shift_ms=fshift,
                    style=style, kaldi=kaldi, **flags)
        try:
            comp = lib_computer(spec)
        except Exception as e:
            ctx.count("ctor_error:" + type(e).__name__)
            continue
        L, S = comp.frame_length, comp.frame_shift
        if S < 1 or S > L:
            ctx.count("out_of_scope")
            continue
        nsel = r.choice([0, 1, 2, 3, 4])
        amp = r.choice([1.0, 1.0, 1.0, 0.0, 1e-6, 1e-3])
        if corner:
            nsel, amp = 4, corner[3]
        N = [0, L // 2, L, L + 1, 3 * L + 7][nsel]
        if amp == "dyn":
            N = 9 * L + 7
        xseed = r.randrange(1 << 30)
        x = lib_signal(N, amp, xseed)
        case = dict(kind="library", L=L, S=S, N=N, amp=amp, xseed=xseed, **spec)
        ctx.case(case, kind="library:" + kind)
        want = comp.compute_full(x)
        mod = pt.PyTorchSTFTFrameComputer.from_stft_frame_computer(comp, torch.cdouble, torch.double)
        try:
            with torch.no_grad():
                got = mod(torch.from_numpy(x)).numpy()
        except Exception as e:
            ctx.violation(case, list(want.shape), "%s: %s" % (type(e).__name__, e), "torch module raises in scope", tags=dict(clause="raises"))
            continue
        # absolute slack 1e-9 for ordinary signals, scaled down with the features for tiny ones (a result of 0 is not "close")
        atol = 1e-9 * min(1.0, float(np.max(np.abs(want)))) if want.size and np.all(np.isfinite(want)) else 1e-9
        if got.shape != want.shape or not np.allclose(got, want, rtol=1e-7, atol=atol):
            ctx.violation(case, list(want.shape), dict(shape=list(got.shape), maxdiff=float(np.abs(got - want).max()) if got.shape == want.shape and got.size else None),
                          "from_stft_frame_computer(c)(x) == c.compute_full(x) (double precision parameters)",
                          tags=dict(clause="library_value", bank=kind))
        if isinstance(amp, float) and amp not in (0.0,) and not 1e-30 < abs(amp) < 1e30:
            ctx.count("float32_not_applicable")   # the signal itself is not representable in single precision
            continue
        # default (single precision) parameters: working precision
        mod32 = pt.PyTorchSTFTFrameComputer.from_stft_frame_computer(comp)
        with torch.no_grad():
            got32 = mod32(torch.from_numpy(x).float()).numpy()
        if got32.shape != want.shape or (want.size and not np.allclose(got32, want, rtol=2e-3, atol=2e-3)):
            ctx.violation(case, list(want.shape), list(got32.shape), "float32 module == compute_full to working precision",
                          tags=dict(clause="library_value32", bank=kind))
        # TorchScript vs eager
        if r.random() < (0.15 if ctx.tier == "quick" else 0.3) and N >= L:
            try:
                scripted = torch.jit.script(mod)
                with torch.no_grad():
                    gs = scripted(torch.from_numpy(x)).numpy()
                if gs.shape != got.shape or not np.allclose(gs, got, rtol=1e-9, atol=1e-12):
                    ctx.violation(case, "eager", "scripted differs", "TorchScript module agrees with eager", tags=dict(clause="script"))
                ctx.count("scripted")
            except Exception as e:
                ctx.violation(case, "scriptable", "%s: %s" % (type(e).__name__, str(e)[:200]), "TorchScript compilation", tags=dict(clause="script_raises"))
    # wrappers
    for _ in range(ctx.scale(20, 200)):
        N = r.choice([0, 1, 2, 17, 200])
        coeff = r.choice([0.0, 0.5, 0.97])
        x = np.random.RandomState(r.randrange(1 << 30)).randn(N)
        ctx.case(dict(kind="preemph", N=N, coeff=coeff), kind="wrapper:preemph")
        want = pre.Preemphasize(coeff).apply(x)
        got = pt.PyTorchPreemphasize.from_preemphasize(pre.Preemphasize(coeff))(torch.from_numpy(x)).numpy()
        if got.shape != want.shape or not np.allclose(got, want, rtol=1e-12, atol=1e-12):
            ctx.violation(dict(kind="preemph", N=N, coeff=coeff), want.tolist()[:5], got.tolist()[:5], "PyTorchPreemphasize == Preemphasize.apply", tags=dict(clause="preemph"))
    # modules compiled with torch.jit.trace on a float32 example (the way the library's tests do it) and with torch.jit.script,
    # then given float64 and float32 signals: same dtype and values as the eager module / Preemphasize.apply
    for coeff in (0.97, 0.5):
        eager = pt.PyTorchPreemphasize.from_preemphasize(pre.Preemphasize(coeff))
        for how in ("trace", "script"):
            try:
                mod = torch.jit.trace(eager, (torch.empty(1),)) if how == "trace" else torch.jit.script(eager)
            except Exception as e:
                ctx.violation(dict(kind="preemph_compiled", how=how, coeff=coeff), "a compiled module", "%s: %s" % (type(e).__name__, str(e)[:150]),
                              "TorchScript compilation", tags=dict(clause="script_raises"))
                continue
            for tdt in (torch.float64, torch.float32):
                for N in (1, 2, 33):
                    x = torch.from_numpy(np.random.RandomState(N).randn(N)).to(tdt)
                    case = dict(kind="preemph_compiled", how=how, coeff=coeff, dtype=str(tdt), N=N)
                    ctx.case(case, kind="wrapper:preemph_compiled")
                    try:
                        got, want = mod(x), eager(x)
                    except Exception as e:
                        ctx.violation(case, "a result", "%s: %s" % (type(e).__name__, str(e)[:150]), "compiled module runs", tags=dict(clause="script_raises"))
                        continue
                    if got.dtype != want.dtype or not torch.equal(got, want):
                        ctx.violation(case, [str(want.dtype)] + want.tolist()[:3], [str(got.dtype)] + got.tolist()[:3],
                                      "TorchScript-compiled module agrees with the eager one (dtype and values)", tags=dict(clause="script"))
    for _ in range(ctx.scale(6, 60)):
        T, F = r.choice([(1, 3), (7, 4), (20, 2)])
        feats = np.random.RandomState(r.randrange(1 << 30)).randn(T, F)
        pp = r.choice([post.Deltas(num_deltas=r.choice([1, 2])), post.Stack(num_vectors=r.choice([1, 2, 3])), post.Standardize()])
        ctx.case(dict(kind="post", T=T, F=F, pp=type(pp).__name__), kind="wrapper:post")
        try:
            want = pp.apply(feats)
        except Exception:
            continue
        got = pt.PyTorchPostProcessorWrapper.from_postprocessor(pp)(torch.from_numpy(feats)).numpy()
        if got.shape != want.shape or not np.allclose(got, want, rtol=1e-12, atol=1e-12):
            ctx.violation(dict(kind="post", pp=type(pp).__name__), list(want.shape), list(got.shape), "PyTorchPostProcessorWrapper == PostProcessor.apply", tags=dict(clause="post_wrapper"))
    bank = filters.GaborFilterBank("mel", num_filts=4, sampling_rate=8000)
    for _ in range(ctx.scale(4, 30)):
        si = compute.SIFrameComputer(bank, frame_shift_ms=5, include_energy=r.random() < 0.5)
        N = r.choice([0, 30, 400, 1500])
        x = np.random.RandomState(r.randrange(1 << 30)).randn(N)
        ctx.case(dict(kind="si", N=N), kind="wrapper:si")
        want = si.compute_full(x)
        got = pt.PyTorchSIFrameComputer.from_si_frame_computer(si)(torch.from_numpy(x)).numpy()
        if got.shape != want.shape or not np.allclose(got, want, rtol=1e-12, atol=1e-12):
            ctx.violation(dict(kind="si", N=N), list(want.shape), list(got.shape), "PyTorchSIFrameComputer == SIFrameComputer.compute_full", tags=dict(clause="si_wrapper"))
    # dither: zero mean, std coeff, reproducible under manual_seed
    # the ADDED noise (output minus input) is what must have zero mean and the requested standard deviation: signals
    # other than silence (a DC offset, a sine, Gaussian noise) show whether the signal itself is left alone
    tt = torch.arange(200000, dtype=torch.double)
    sigs = {"zeros": torch.zeros(200000, dtype=torch.double), "dc": torch.full((200000,), 3.0, dtype=torch.double),
            "sine": 5.0 * torch.sin(0.01 * tt), "gauss": torch.from_numpy(np.random.RandomState(7).randn(200000) * 4.0)}
    for coeff in (0.0, 0.5, 2.0):
        for sname, sig in sigs.items():
            if sname == "zeros":
                continue
            case = dict(kind="dither", coeff=coeff, signal=sname)
            ctx.case(case, kind="wrapper:dither_signal")
            torch.manual_seed(99)
            noise = pt.PyTorchDither(coeff)(sig) - sig
            m, s_ = float(noise.mean()), float(noise.std())
            if abs(m) > 6 * max(coeff, 1e-12) / np.sqrt(200000) + 1e-9 or abs(s_ - coeff) > 0.02 * coeff + 1e-9:
                ctx.violation(case, [0.0, coeff], [m, s_], "PyTorchDither adds noise of zero mean and std coeff to the signal (output - input)",
                              tags=dict(clause="dither_stats_signal"))
    for coeff in (0.0, 0.5, 2.0):
        ctx.case(dict(kind="dither", coeff=coeff), kind="wrapper:dither")
        x = torch.zeros(200000, dtype=torch.double)
        d = pt.PyTorchDither(coeff)
        torch.manual_seed(1234)
        a = d(x)
        torch.manual_seed(1234)
        b = d(x)
        if not torch.equal(a, b):
            ctx.violation(dict(kind="dither", coeff=coeff), "equal", "differs", "PyTorchDither reproducible under torch.manual_seed", tags=dict(clause="dither_seed"))
        m, s = float(a.mean()), float(a.std())
        if abs(m) > 6 * max(coeff, 1e-12) / np.sqrt(200000) + 1e-12 or abs(s - coeff) > 0.02 * coeff + 1e-12:
            ctx.violation(dict(kind="dither", coeff=coeff), [0.0, coeff], [m, s], "PyTorchDither noise has zero mean and std coeff", tags=dict(clause="dither_stats"))
        # the module in every state a user puts it in: after .eval() (inference is where features are extracted), back in
        # .train(), scripted - the NumPy Dither it ports knows no such modes and always dithers
        for state, mod in (("eval", pt.PyTorchDither(coeff).eval()), ("eval-then-train", pt.PyTorchDither(coeff).eval().train()),
                           ("scripted eval", None)):
            scase = dict(kind="dither", coeff=coeff, module_state=state)
            ctx.case(scase, kind="wrapper:dither_state")
            try:
                if mod is None:
                    mod = torch.jit.script(pt.PyTorchDither(coeff).eval())
                torch.manual_seed(1234)
                c = mod(x)
            except Exception as e:
                ctx.violation(scase, "noise", "%s: %s" % (type(e).__name__, str(e)[:150]), "PyTorchDither runs in this module state", tags=dict(clause="dither_state"))
                continue
            if not torch.equal(a, c):
                ctx.violation(scase, [0.0, coeff], [float(c.mean()), float(c.std())],
                              "PyTorchDither adds the same noise (zero mean, std coeff, same seed) whatever the module's training flag",
                              tags=dict(clause="dither_state"))


def replay(rp):
    case = rp.get("case") or {}
    print(common.canon(case))
    print("oracle:", rp.get("oracle"), "expected", rp.get("expected"), "got", rp.get("got"))
    if case.get("kind") == "library" and "xseed" in case:
        # re-run the recorded input on the implementation
        import torch
        common.ensure_repo_on_path()
        from pydrobert.speech import torch as pt
        comp = lib_computer(case)
        x = lib_signal(case["N"], case["amp"], case["xseed"])
        want = comp.compute_full(x)
        mod = pt.PyTorchSTFTFrameComputer.from_stft_frame_computer(comp, torch.cdouble, torch.double)
        with torch.no_grad():
            got = mod(torch.from_numpy(x)).numpy()
        ok = got.shape == want.shape and np.allclose(got, want, rtol=1e-7, atol=1e-9)
        print("replayed on the implementation: compute_full shape", want.shape, "torch shape", got.shape,
              "max |diff|", float(np.abs(got - want).max()) if got.shape == want.shape and got.size else None)
        print("REPRODUCED" if not ok else "not reproduced (the property holds on this input now)")
        return 1 if not ok else 0
    return 0

"""C12 - uncompressed NIST SPHERE audio decodes exactly.

Generator of SPHERE files (header variations, codings, byte orders, channel counts, lengths hugging
the 16384-byte read boundary, truncations, trailing bytes, malformed headers), byte-level
correspondence of the Lean model (`PdsVerif.Model.Sphere.decode`, fed the *same bytes* as hex)
with `pydrobert.speech.util.read_signal(..., force_as='sph')`, and an independent property oracle.
"""
import io
import os
import shutil
import tempfile
import warnings
import sys

import numpy as np

from . import common
from .translate import sphere as tr

PROP = "C12"
MODULES = ["PdsVerif.Props.C12"]
MODEL_MODULES = ["PdsVerif.Model.Sphere"]
REQUIRED = [
    "PdsVerif.C12." + n
    for n in """ulaw_table_is_g711 alaw_table_is_g711
    copy_loop_invariant copy_samples_whole_frames
    pcm_roundtrip g711_roundtrip g711_raw_roundtrip
    short_data_pcm short_data_g711
    pcm_frames_of_header g711_frames_of_header g711_fits_int16
    bad_header bad_header_short bad_header_magic bad_header_size_line
    canonical_header_parses""".split()
]
RULE = (
    "a case is one SPHERE file (explicit header lines + coding, byte order, channels 1-9 and a few large counts, "
    "promised sample count around k*16384/(channels*bytes) +-2 or small, header size 1024..4096, data cut / trailing "
    "bytes, requested dtype, access path) built deterministically from the case dict; distinct by that dict; "
    "non-trivial unless the file is empty. Malformed-header and fuzzed-header files form a separate stream."
)
TRUSTED = [
    "translator harness/translate/sphere.py (ast): G.711 tables and every literal of read_header / copy_samples",
    "stated semantics of bytes.split, str.split, int(), file.read(n) on regular files / BytesIO (returns min(n, remaining) bytes), "
    "np.frombuffer byte-order decoding, NumPy integer casts on assignment and fancy indexing - named definitions of "
    "the model, exercised by the byte-level correspondence",
    "np.empty succeeds (memory) for the promised size",
]
ASSUMPTIONS = [
    "roundtrip / short-data theorems assume the data section does not begin with the shorten magic b'ajkg' "
    "(the reader switches to the shorten decoder on those four bytes whatever sample_coding says); counted as hypothesis_gap_cases",
    "promised sample_count, channel_count, sample_rate >= 1 (a zero count is rejected by the reader as a bad header)",
    "theorems about whole files are stated for the canonical header written by `encode` (six mandatory fields, any padding, "
    "any header size that holds them); `*_of_header` variants hold for ANY header that parses to the same fields; "
    "other field orders / extra fields / omitted optional fields are tied by correspondence (counted as hypothesis_gap:noncanonical_header)",
    "whole-file theorems cover dtype=None and, for mu-law / A-law, uint8 / int8; other requested dtypes (widening ints, float64) "
    "and files with bytes after the promised data are covered by the loop theorem copy_samples_whole_frames + correspondence only",
    "decimal numbers in the header have at most 4300 digits (CPython's int() limit, modelled) and the header size is at most 2^26 (model's read cap)",
    "bytes are < 256 (hypothesis on the model's List Nat)",
    "header text is ASCII; non-ASCII header bytes, counts that are not positive integers, shorten payloads and reads > 64 MiB answer `unmodelled`",
]

R = 16384  # cross-checked against the generated BUF_SIZE in run()

DT_NP = {
    "u8": np.uint8, "i8": np.int8, "u16": np.uint16, "i16": np.int16,
    "u32": np.uint32, "i32": np.int32, "i64": np.int64, "f64": np.float64,
}
NP_DT = {np.dtype(v): k for k, v in DT_NP.items()}


def translate(repo):
    files, _ = tr.generate(repo)
    return files


# ---- independent G.711 (Sun g711.c formulation; cross-checked against audioop / libsndfile when present) ----


def ulaw_expand(u):
    u = ~u & 0xFF
    t = ((u & 0x0F) << 3) + 0x84
    t <<= (u & 0x70) >> 4
    return (0x84 - t) if (u & 0x80) else (t - 0x84)


def alaw_expand(a):
    a ^= 0x55
    t = (a & 0x0F) << 4
    seg = (a & 0x70) >> 4
    if seg == 0:
        t += 8
    elif seg == 1:
        t += 0x108
    else:
        t += 0x108
        t <<= seg - 1
    return t if (a & 0x80) else -t


G711 = {
    "ulaw": np.array([ulaw_expand(c) for c in range(256)], dtype=np.int64),
    "alaw": np.array([alaw_expand(c) for c in range(256)], dtype=np.int64),
}


def third_party_g711():
    """{name: {coding: 256 ints}} from implementations outside this repository (best effort)."""
    res = {}
    try:
        with warnings.catch_warnings():
            warnings.simplefilter("ignore")
            import audioop

        res["audioop"] = {
            "ulaw": np.frombuffer(audioop.ulaw2lin(bytes(range(256)), 2), "<i2").astype(np.int64),
            "alaw": np.frombuffer(audioop.alaw2lin(bytes(range(256)), 2), "<i2").astype(np.int64),
        }
    except Exception:
        pass
    try:
        import soundfile as sf

        d = {}
        for c, st in (("ulaw", "ULAW"), ("alaw", "ALAW")):
            x, _ = sf.read(io.BytesIO(bytes(range(256))), dtype="int16", format="RAW", subtype=st,
                           samplerate=8000, channels=1)
            d[c] = x.astype(np.int64)
        res["libsndfile"] = d
    except Exception:
        pass
    return res


# ---- SPHERE writer (harness side; independent of the Lean `encode`) ---------------------------------


def nbytes_of(coding):
    return 2 if coding == "pcm" else 1


def order_text(coding, be):
    return ("10" if be else "01") if coding == "pcm" else "1"


def canonical_lines(coding, be, chans, count, rate):
    fmt = order_text(coding, be)
    return [
        "channel_count -i %d" % chans,
        "sample_count -i %d" % count,
        "sample_rate -i %d" % rate,
        "sample_n_bytes -i %d" % nbytes_of(coding),
        "sample_byte_format -s%d %s" % (len(fmt), fmt),
        "sample_coding -s%d %s" % (len(coding), coding),
    ]


def header_bytes(h):
    """h = {magic, size, lines, end, pad, total}: the bytes of the header region."""
    txt = h["magic"].encode("latin-1") + b"\n" + h["size"].encode("latin-1") + b"\n"
    for ln in h["lines"]:
        txt += ln.encode("latin-1") + b"\n"
    if h.get("end", True):
        txt += b"end_head\n"
    if len(txt) < h["total"]:
        txt += bytes([h.get("pad", 32)]) * (h["total"] - len(txt))
    return txt


def gen_items(case):
    """the interleaved items stored in the data section (ints), from the case's seed"""
    rng = np.random.default_rng(case["sseed"])
    n = case["stored"] * case["chans"]
    if case["coding"] == "pcm":
        mode = case.get("smode", "rand")
        if mode == "ramp":  # frame index and channel recoverable from the value
            idx = np.arange(n, dtype=np.int64)
            return ((idx // case["chans"]) * 16 + idx % case["chans"]) % 65536 - 32768
        x = rng.integers(-32768, 32768, size=n, dtype=np.int64)
        if n:
            x[rng.integers(0, n, size=min(n, 4))] = rng.choice([-32768, 32767, 0, -1, 255, 256, -256])
        return x
    return rng.integers(0, 256, size=n, dtype=np.int64)


def data_bytes(case, items):
    if case["coding"] == "pcm":
        return items.astype(">i2" if case["be"] else "<i2").tobytes()
    return items.astype(np.uint8).tobytes()


def build(case):
    """(file bytes, items stored, data bytes actually present)"""
    if "hex" in case:
        return bytes.fromhex(case["hex"]), None, None
    hb = header_bytes(case["hdr"])
    items = gen_items(case)
    data = data_bytes(case, items)
    if case.get("prefix") is not None:  # overwrite the first bytes of the data (shorten-magic collision)
        p = bytes.fromhex(case["prefix"])
        data = p + data[len(p):]
    if case.get("cut") is not None:
        data = data[: case["cut"]]
    data += bytes((7 * i + 3) % 256 for i in range(case.get("trail", 0)))
    b = hb + data
    if case.get("fcut") is not None:
        b = b[: case["fcut"]]
        data = b[len(hb):]
    return b, items, data


# ---- implementation through the public API ----------------------------------------------------------


class Tmp:
    def __init__(self):
        self.dir = tempfile.mkdtemp(prefix="c12-", dir="/tmp")
        self.n = 0

    def path(self):
        self.n += 1
        return os.path.join(self.dir, "f%d.sph" % (self.n % 8))

    def close(self):
        shutil.rmtree(self.dir, ignore_errors=True)


def err_name(e):
    if isinstance(e, OSError):
        m = str(e)
        if "header could not be read" in m:
            return "err IOError:header"
        if "data could not be read" in m:
            return "err IOError:data"
        return "err IOError:" + type(e).__name__
    for cls in (ValueError, TypeError, AttributeError, IndexError):
        if isinstance(e, cls):
            return "err " + cls.__name__
    return "err " + type(e).__name__


def run_impl(b, dtype, via, tmp):
    from pydrobert.speech.util import read_signal

    dt = None if dtype == "none" else DT_NP[dtype]
    fh = None
    with warnings.catch_warnings(record=True) as w:
        warnings.simplefilter("always")
        try:
            if via == "bytesio":
                x = read_signal(io.BytesIO(b), dtype=dt, force_as="sph")
            elif via == "pipe":       # forward-only stream (no seek / tell), short reads
                try:
                    x = read_signal(common.PipeStream(b, short=4097), dtype=dt, force_as="sph")
                except io.UnsupportedOperation:
                    # a reader that insists on a seekable stream says so: not a decoding error - read it the ordinary way
                    x = read_signal(io.BytesIO(b), dtype=dt, force_as="sph")
            elif via == "offset":     # the file is the second record of a seekable stream
                x = read_signal(common.offset_stream(b), dtype=dt, force_as="sph")
            elif via == "fdfile":     # a stream opened from a file descriptor (tempfile.TemporaryFile, os.fdopen): `.name` is an int
                p = tmp.path()
                with open(p, "wb") as f:
                    f.write(b)
                fh = os.fdopen(os.open(p, os.O_RDONLY), "rb")
                x = read_signal(fh, dtype=dt, force_as="sph")
            else:
                p = tmp.path()
                with open(p, "wb") as f:
                    f.write(b)
                if via == "path":
                    x = read_signal(p, dtype=dt)  # type inferred from the suffix
                elif via == "path_force":
                    x = read_signal(p, dtype=dt, force_as="sph")
                else:
                    fh = open(p, "rb")
                    x = read_signal(fh, dtype=dt, force_as="sph")
        except Exception as e:  # noqa: BLE001 - the class is the observation
            return err_name(e), None
        finally:
            if fh is not None:
                fh.close()
    warn = any("samples read" in str(i.message) for i in w)
    x = np.asarray(x)
    name = NP_DT.get(x.dtype.newbyteorder("="), str(x.dtype))
    flat = x.ravel(order="C")
    if x.dtype.kind == "f":
        if not np.all(flat == np.round(flat)):
            return "ok-nonintegral-float", x
        flat = flat.astype(np.int64)
    s = "ok %s %s %d %s" % (
        name,
        ",".join(str(d) for d in x.shape) if x.ndim else "-",
        1 if warn else 0,
        ",".join(map(str, flat.tolist())) if flat.size else "-",
    )
    return s, x


# ---- the property, stated independently --------------------------------------------------------------

ORACLE_DTYPES_PCM = ("none", "i16", "i32", "i64", "f64")
ORACLE_DTYPES_G711 = ("none", "i16", "i32", "i64", "f64", "u8", "i8")


def expectation(case, items, data):
    """What the property demands of a *well-formed* case: canonical result string, or None if the case is
    outside what the property speaks about (then only the correspondence applies)."""
    coding, chans, N = case["coding"], case["chans"], case["count"]
    dtype = case["dtype"]
    F = chans * nbytes_of(coding)
    frames = min(N, len(data) // F)
    vals = items[: frames * chans]
    if coding == "pcm":
        if dtype not in ORACLE_DTYPES_PCM:
            return None
        out = "i16" if dtype == "none" else dtype
    else:
        if dtype not in ORACLE_DTYPES_G711:
            return None
        if dtype in ("u8", "i8"):
            out = dtype
            if dtype == "i8":
                vals = vals.astype(np.uint8).view(np.int8).astype(np.int64)
        else:
            out = "i16" if dtype == "none" else dtype
            vals = G711[coding][vals]
    shape = "%d" % frames if chans == 1 else "%d,%d" % (frames, chans)
    return "ok %s %s %d %s" % (out, shape, 1 if frames != N else 0,
                               ",".join(map(str, vals.tolist())) if len(vals) else "-")


# ---- generators ------------------------------------------------------------------------------------------

EXTRA_LINES = [
    "database_id -s8 TIDIGITS",
    "database_version -s3 1.0",
    "utterance_id -s9 dd_1233_a",
    "sample_min -i -2677",
    "sample_max -i 2234",
    "sample_sig_bits -i 16",
    "speaker_id -s2 dd",
    "recording_date -s11  9-SEP-1982",
    "sample_checksum -i 64712",
    "microphone -s14 Sennheiser HMD",
    "conversation_id -i 0",
    "sample_max -r 0.5",
]
DTYPES = ["none"] * 6 + ["i16", "u8", "i8", "i32", "i64", "f64", "u16", "u32"]
VIAS = ["path", "path_force", "stream", "bytesio", "pipe", "offset", "fdfile"]


def size_line(h):
    return "%7d" % h


def base_case(r, coding=None, chans=None, count=None, hsize=None, dtype=None, canonical=False):
    coding = coding or r.choice(["pcm", "pcm", "ulaw", "alaw"])
    be = r.randrange(2) if coding == "pcm" else 0
    chans = chans or r.choice([1, 1, 2, 2, 3, 4, 5, 6, 7, 8, 9])
    F = chans * nbytes_of(coding)
    if count is None:
        u = r.random()
        if u < 0.55:  # hug a read boundary
            k = r.choice([1, 1, 1, 2, 2, 3])
            count = max(1, (k * R) // F + r.choice([-2, -1, 0, 0, 1, 1, 2, 3]))
        elif u < 0.85:
            count = r.randrange(1, 40)
        else:
            count = r.randrange(1, 3 * R // F + 50)
    if hsize is None:
        hsize = r.choice([1024, 1024, 1024, 1025, 1500, 2048, 2048, 3072, 4096, r.randrange(1024, 4097)])
    rate = r.choice([8000, 16000, 20000, 44100, 1])
    lines = canonical_lines(coding, be, chans, count, rate)
    if not canonical and r.random() < 0.3:  # exactly the files the whole-file theorems speak about
        canonical = True
        dtype = dtype or ("none" if coding == "pcm" else r.choice(["none", "none", "u8", "i8"]))
    if not canonical:
        if coding == "pcm" and r.random() < 0.2:
            lines = [ln for ln in lines if not ln.startswith("sample_coding")]  # pcm is the default for 2-byte samples
        if coding != "pcm" and r.random() < 0.2:
            lines = [ln for ln in lines if not ln.startswith("sample_byte_format")]
        if r.random() < 0.7:
            r.shuffle(lines)
        for _ in range(r.choice([0, 0, 1, 3, 6])):
            lines.insert(r.randrange(len(lines) + 1), r.choice(EXTRA_LINES))
    hdr = dict(magic="NIST_1A", size=size_line(hsize) if r.random() < 0.9 or canonical else "%d" % hsize,
               lines=lines, end=True, pad=r.choice([32, 32, 0, 10, 65]), total=hsize)
    return dict(kind="valid", coding=coding, be=be, chans=chans, count=count, stored=count, hsize=hsize, rate=rate,
                dtype=dtype or r.choice(DTYPES), via=r.choice(VIAS), sseed=r.randrange(1 << 30),
                smode=r.choice(["rand", "ramp"]), hdr=hdr, wellformed=True)


def interesting_cuts(r, case):
    F = case["chans"] * nbytes_of(case["coding"])
    D = case["count"] * F
    c = {0, 1, 3, 4, 5, F - 1, F, F + 1, D - 1, D - F, D - F - 1, D - F + 1, D // 2, D - 2}
    for k in (1, 2, 3):
        for d in (-F, -1, 0, 1, F):
            c.add(k * R + d)
        c.add((k * R // F) * F)
    return sorted(x for x in c if 0 <= x < D)


def gen_valid(r):
    return base_case(r)


def gen_trunc(r):
    c = base_case(r)
    cuts = interesting_cuts(r, c)
    if not cuts:
        return c
    c["kind"] = "trunc"
    c["cut"] = r.choice(cuts) if r.random() < 0.8 else r.randrange(0, c["count"] * c["chans"] * nbytes_of(c["coding"]))
    return c


def gen_extra(r):
    c = base_case(r)
    c["kind"] = "extra"
    if r.random() < 0.5:
        c["trail"] = r.choice([1, 2, 3, 7, 100, R])
    else:  # more samples stored than promised
        c["stored"] = c["count"] + r.choice([1, 2, 5, 1000])
    return c


def gen_bigframe(r):
    """frame larger than a read, or large channel counts"""
    coding = r.choice(["pcm", "ulaw"])
    chans = r.choice([17, 100, 1000, 4097, 8193, 9000, 16385])
    c = base_case(r, coding=coding, chans=chans, count=r.choice([1, 2, 3, 5]))
    c["kind"] = "bigframe"
    if r.random() < 0.4:
        cuts = interesting_cuts(r, c)
        c["cut"] = r.choice(cuts)
    return c


def raw_case(b, note, dtype="none", via="bytesio", expect=None, gap=False):
    c = dict(kind="badhdr", note=note, hex=b.hex(), dtype=dtype, via=via, wellformed=False)
    if expect:
        c["expect"] = expect
    if gap:  # inside the property's quantifier, outside the theorems' hypotheses (sample_count = 0)
        c["gap"] = True
    return c


def gen_badhdr_all(r):
    """the malformed-header stream (deterministic list + a few random members)"""
    good = header_bytes(dict(magic="NIST_1A", size=size_line(1024), lines=canonical_lines("pcm", 0, 2, 3, 8000),
                             end=True, pad=32, total=1024)) + bytes(range(12))
    io_hdr = "err IOError:header"
    out = []
    # -- the three classes the property names: IOError demanded
    for n in (0, 1, 7, 8, 16, 100, 1023):
        out.append(raw_case(good[:n], "short:%d" % n, expect=io_hdr))
    for m in ("XIST_1A", "NIST_1B", "nist_1a", "NIST_1", " NIST_1A", "NIST-1A", "RIFF\x00\x00\x00"):
        b = (m.encode("latin-1") + b"?" * 7)[:7] + good[7:]
        out.append(raw_case(b, "magic:%s" % m, expect=io_hdr))
    for s in ("   abcd", "", "       ", "   512", "  1023", "     0", "  -1024", "1024.0", "0x400", "1 024", "1__024",
              "_1024", "1024_", "+", "-", "١٠٢٤", "  1e3", "\x1c1024"):
        h = dict(magic="NIST_1A", size=s, lines=canonical_lines("pcm", 0, 2, 3, 8000), end=True, pad=32, total=1024)
        try:
            hb = h["magic"].encode() + b"\n" + s.encode("utf-8") + b"\n" + b"\n".join(x.encode() for x in h["lines"]) + b"\nend_head\n"
        except Exception:
            continue
        hb += b" " * (1024 - len(hb))
        out.append(raw_case(hb + bytes(range(12)), "sizeline:%r" % s, expect=io_hdr))
    out.append(raw_case(b"NIST_1A" + b" " * 1100, "sizeline:no-newline", expect=io_hdr))
    out.append(raw_case(b"NIST_1A\n" + b"7" * 1100, "sizeline:unterminated-digits"))
    # -- size lines Python's int() accepts (well-formed as far as the reader is concerned)
    for s in ("1024", "+1024", "1_024", " 1024 ", "\t1024\r", "0001024", "\x0b1024\x0c"):
        hb = b"NIST_1A\n" + s.encode() + b"\n" + b"\n".join(x.encode() for x in canonical_lines("pcm", 0, 2, 3, 8000)) + b"\nend_head\n"
        hb += b" " * (1024 - len(hb))
        out.append(raw_case(hb + bytes(range(12)), "sizeline-ok:%r" % s))
    # -- malformed further in: no demand from the property, correspondence only
    base = canonical_lines("pcm", 0, 2, 3, 8000)

    def mk(lines, end=True, total=1024, size=None, data=bytes(range(12)), pad=32):
        return header_bytes(dict(magic="NIST_1A", size=size or size_line(total), lines=lines, end=end, pad=pad, total=total)) + data

    out.append(raw_case(mk(base, end=False), "no-end_head"))
    out.append(raw_case(mk(base[:3] + ["end_head "] + base[3:]), "end_head-trailing-space"))
    out.append(raw_case(mk(base[:2] + [""] + base[2:]), "blank-line"))
    out.append(raw_case(mk(base[:2] + ["lonely"] + base[2:]), "one-token-line"))
    out.append(raw_case(mk(base[:2] + ["two tokens"] + base[2:]), "two-token-line"))
    for i, key in enumerate(["channel_count", "sample_count", "sample_rate", "sample_n_bytes", "sample_byte_format", "sample_coding"]):
        out.append(raw_case(mk([ln for ln in base if not ln.startswith(key)]), "missing:%s" % key))
    out.append(raw_case(mk([ln for ln in base if not ln.startswith("sample_coding") and not ln.startswith("sample_n_bytes")]),
                        "missing:coding+nbytes (order len 2 implies pcm)"))
    out.append(raw_case(mk([ln.replace("-i 2", "-i 0") if ln.startswith("channel_count") else ln for ln in base]), "zero:channels"))
    out.append(raw_case(mk([ln.replace("-i 3", "-i 0") if ln.startswith("sample_count") else ln for ln in base]), "zero:count", gap=True))
    out.append(raw_case(mk([ln.replace("-i 8000", "-i 0") if ln.startswith("sample_rate") else ln for ln in base]), "zero:rate"))
    out.append(raw_case(mk([ln.replace("-i 2", "-i -2") if ln.startswith("channel_count") else ln for ln in base]), "negative:channels"))
    out.append(raw_case(mk([ln.replace("-i 3", "-i -3") if ln.startswith("sample_count") else ln for ln in base]), "negative:count"))
    out.append(raw_case(mk([ln.replace("-i 2", "-s1 2") if ln.startswith("channel_count") else ln for ln in base]), "str:channels"))
    out.append(raw_case(mk([ln.replace("-i 3", "-s1 3") if ln.startswith("sample_count") else ln for ln in base]), "str:count"))
    out.append(raw_case(mk([ln.replace("-i 2", "-s1 2") if ln.startswith("sample_n_bytes") else ln for ln in base]), "str:nbytes"))
    out.append(raw_case(mk([ln.replace("-i 2", "-i 3") if ln.startswith("sample_n_bytes") else ln for ln in base]), "nbytes:3"))
    out.append(raw_case(mk([ln.replace("-i 2", "-i 4") if ln.startswith("sample_n_bytes") else ln for ln in base]), "nbytes:4"))
    out.append(raw_case(mk([ln.replace("-i 2", "-i 1") if ln.startswith("sample_n_bytes") else ln for ln in base]), "nbytes:1-pcm"))
    out.append(raw_case(mk([ln.replace("-i 3", "-i 3x") if ln.startswith("sample_count") else ln for ln in base]), "badint:count"))
    out.append(raw_case(mk([ln.replace("-i 3", "-i 1_0") if ln.startswith("sample_count") else ln for ln in base]), "underscore-int:count"))
    out.append(raw_case(mk([ln.replace("-i 3", "-i +3") if ln.startswith("sample_count") else ln for ln in base]), "plus-int:count"))
    out.append(raw_case(mk([ln.replace("-i 3", "-i 3 4") if ln.startswith("sample_count") else ln for ln in base]), "two-ints:count"))
    out.append(raw_case(mk([ln.replace("-i 3", "-i") if ln.startswith("sample_count") else ln for ln in base]), "empty-int:count"))
    out.append(raw_case(mk([ln.replace("-s3 pcm", "-i 3") if ln.startswith("sample_coding") else ln for ln in base]), "int:coding"))
    out.append(raw_case(mk([ln.replace("-s3 pcm", "-s5 mulaw") if ln.startswith("sample_coding") else ln for ln in base]), "unknown:coding"))
    out.append(raw_case(mk([ln.replace("-s3 pcm", "-s7 pcm,xyz") if ln.startswith("sample_coding") else ln for ln in base]), "prefix:coding"))
    out.append(raw_case(mk([ln.replace("-s2 01", "-i 10") if ln.startswith("sample_byte_format") else ln for ln in base]), "int:order"))
    out.append(raw_case(mk([ln.replace("-s2 01", "-s2") if ln.startswith("sample_byte_format") else ln for ln in base]), "empty:order"))
    out.append(raw_case(mk([ln.replace("-s2 01", "-s3 abc") if ln.startswith("sample_byte_format") else ln for ln in base]), "odd:order"))
    out.append(raw_case(mk([ln.replace(" ", "\t") for ln in base]), "tabs"))
    out.append(raw_case(mk([ln.replace(" ", "\x1f ") for ln in base]), "unit-separator-whitespace"))
    out.append(raw_case(mk([ln + "\r" for ln in base]), "crlf"))
    out.append(raw_case(mk(base[:1] + ["database_id -s3 caf\xe9"] + base[1:]), "non-ascii-latin1"))
    out.append(raw_case(mk(base, total=2048)[:1500], "declared-2048-file-1500"))
    out.append(raw_case(mk(base, total=2048, size=size_line(1024)), "declared-1024-padded-2048"))
    out.append(raw_case(mk(base, total=1024, size=size_line(2048)), "declared-2048-header-1024"))
    out.append(raw_case(mk(base + ["x -s1 y"] * 150, total=1024, size=size_line(1024)), "end_head-beyond-declared"))
    out.append(raw_case(mk(base + ["x -s1 y"] * 150, total=2048, size=size_line(2048)), "long-header-2048"))
    out.append(raw_case(mk(base + ["sample_count -i 2"]), "duplicate:count"))
    out.append(raw_case(mk(base + ["end_head"] + ["sample_count -i 1"]), "after-end_head"))
    return out


def gen_hdrfuzz(r):
    """byte-level mutation of a good header (mostly ASCII)"""
    c = base_case(r, count=r.randrange(1, 6), hsize=1024)
    b, _, _ = build(c)
    b = bytearray(b)
    hdr_len = b.index(b"end_head") + 9
    for _ in range(r.choice([1, 1, 2, 4])):
        pos = r.randrange(0, hdr_len)
        u = r.random()
        if u < 0.35:
            b[pos] = r.choice([10, 32, 9, 48, 49, 50, 57, 45, 105, 115, 95, 43, 0, 13, 31])
        elif u < 0.6:
            b[pos] = r.randrange(128)
        elif u < 0.7:
            b[pos] = r.randrange(128, 256)
        elif u < 0.85:
            del b[pos]
            b.insert(1023, 32)
        else:
            b.insert(pos, r.choice([10, 32, 48, 95]))
            del b[1024]
    return dict(kind="hdrfuzz", hex=bytes(b).hex(), dtype=c["dtype"], via="bytesio", wellformed=False)


def gen_shnmagic(r):
    c = base_case(r, count=r.randrange(4, 20), dtype="none")
    c["kind"] = "shnmagic"
    c["prefix"] = b"ajkg".hex()
    return c


# ---- one case through implementation, oracle, and (later) the model -----------------------------------------


def examine(ctx, case, tmp, lines, pend):
    b, items, data = build(case)
    impl, _x = run_impl(b, case["dtype"], case["via"], tmp)
    ctx.case(case, nontrivial=len(b) > 0, kind="kind:" + case["kind"])
    ctx.count("impl:" + impl.split(" ")[0] + ("" if impl.startswith("ok") else " " + " ".join(impl.split(" ")[1:2])))
    ctx.count("via:" + case["via"])
    ctx.count("dtype:" + case["dtype"])
    if case.get("wellformed"):
        F = case["chans"] * nbytes_of(case["coding"])
        ctx.count("coding:%s%s" % (case["coding"], ("-be" if case["be"] else "-le") if case["coding"] == "pcm" else ""))
        ctx.count("channels:%d" % case["chans"] if case["chans"] <= 9 else "channels:>9")
        ctx.count("frame_divides_read:%s" % (R % F == 0))
        ctx.count("reads:%d" % min(4, -(-len(data) // R)))
        ctx.count("header_size:%s" % ("1024" if case["hsize"] == 1024 else "multiple" if case["hsize"] % 1024 == 0 else "odd"))
        # inside the property's quantifier but outside the hypotheses of the whole-file theorems
        gaps = []
        if data[:4] == b"ajkg":
            gaps.append("shorten_magic")
        if len(data) > case["count"] * F:
            gaps.append("trailing_bytes")
        h = case["hdr"]
        if h["lines"] != canonical_lines(case["coding"], case["be"], case["chans"], case["count"], case["rate"]) \
                or h["size"] != size_line(case["hsize"]) or h["magic"] != "NIST_1A":
            gaps.append("noncanonical_header")
        if not (case["dtype"] == "none" or (case["coding"] != "pcm" and case["dtype"] in ("u8", "i8"))):
            gaps.append("other_dtype")
        for g in gaps:
            ctx.count("hypothesis_gap:" + g)
        if gaps:
            ctx.gap_cases += 1
        else:
            ctx.count("inside_theorem_hypotheses")
        if data[:4] == b"ajkg":
            # a well-formed *uncompressed* file whose data happens to begin with the shorten magic: the reader
            # hands it to the shorten decoder whatever sample_coding says (genuine corner defect, KNOWN_FINDINGS F20)
            want = expectation(case, items, data)
            if want is not None and impl != want:
                w, g = diff_brief(want, impl)
                ctx.violation(slim(case), w, g,
                              "decode(file) == stored samples also when the data section begins with b'ajkg'",
                              tags=dict(clause="roundtrip", data_prefix="shorten_magic"))
        else:
            want = expectation(case, items, data)
            if want is None:
                ctx.count("oracle_out_of_scope")
            else:
                short = len(data) < case["count"] * F
                clause = "short_data" if short else "roundtrip"
                ctx.count("oracle:" + clause)
                if impl != want:
                    w, g = diff_brief(want, impl)
                    ctx.violation(
                        slim(case), w, g,
                        "decode(file) == (shape, stored samples [G.711-expanded unless 1-byte dtype], warning iff data short)",
                        tags=dict(clause=clause, mono=case["chans"] == 1,
                                  frame_divides_read=(R % F == 0), big_frame=F > R),
                    )
    elif case.get("gap"):
        ctx.gap_cases += 1
        ctx.count("hypothesis_gap:" + case["note"])
    elif case.get("expect"):
        ctx.count("oracle:bad_header")
        if impl != case["expect"]:
            ctx.violation(slim(case), case["expect"], brief(impl),
                          "a file that does not start with a NIST_1A header of at least 1024 bytes raises IOError",
                          tags=dict(clause="bad_header", note=case["note"].split(":")[0]))
    lines.append("dec - %s %s" % (case["dtype"], b.hex() if b else "-"))
    pend.append((case, impl))


def brief(s, n=160):
    s = str(s)
    return s if len(s) <= n else s[:n] + "...(%d chars)" % len(s)


def diff_brief(want, got):
    """(expected, got) shortened to dtype/shape/warning + the neighbourhood of the first differing sample"""
    a, b = str(want).split(" "), str(got).split(" ")
    if len(a) == 5 and len(b) == 5 and a[0] == b[0] == "ok":
        xs, ys = a[4].split(","), b[4].split(",")
        i = next((k for k in range(min(len(xs), len(ys))) if xs[k] != ys[k]), min(len(xs), len(ys)))
        lo = max(0, i - 2)
        fmt = lambda h, v: "%s | %d samples, [%d..]: %s" % (" ".join(h), len(v), lo, ",".join(v[lo:i + 6]))
        return fmt(a[:4], xs), fmt(b[:4], ys)
    return brief(want), brief(got)


def slim(case):
    """cases are replayable from the dict; keep raw hex out of reports when it is long"""
    return case


def flush(ctx, driver, lines, pend):
    if not lines:
        return
    outs = driver.run(lines)
    ctx.corr_lines += len(lines)
    for (case, impl), o in zip(pend, outs):
        if o.startswith("unmodelled"):
            ctx.count("out_of_scope")
            ctx.count("model:" + o)
            continue
        if o != impl:
            ctx.mismatch(slim(case), brief(o), brief(impl), "Lean decode vs read_signal on the same bytes")
    del lines[:]
    del pend[:]


def check_tables(ctx, driver, consts):
    """translator tie + G.711 oracle on the implementation, all 256 codes of both tables"""
    from pydrobert.speech import _sphere  # only to cross-check the translator's reading of the source

    for name in ("ULAW2PCM", "ALAW2PCM"):
        live = [int(v) for v in getattr(_sphere, name).tolist()]
        if live != consts[name]:
            ctx.mismatch(dict(table=name), brief(consts[name]), brief(live), "translator (ast) vs imported module")
    third = third_party_g711()
    ctx.count("g711_third_party_sources", len(third))
    for src, d in third.items():
        for c in ("ulaw", "alaw"):
            if not np.array_equal(d[c], G711[c]):
                ctx.note("harness G.711 formula disagrees with %s for %s" % (src, c))
                ctx.mismatch(dict(g711_source=src, coding=c), "harness formula", src, "independent G.711 implementations disagree")
    lines = ["tab %s %d" % (c, k) for c in ("ulaw", "alaw") for k in range(256)]
    outs = driver.run(lines)
    ctx.corr_lines += len(lines)
    i = 0
    for c in ("ulaw", "alaw"):
        for k in range(256):
            t, e = outs[i].split()
            i += 1
            if t != e or int(e) != int(G711[c][k]):
                ctx.mismatch(dict(table=c, code=k), outs[i - 1], int(G711[c][k]), "generated table / Lean G.711 / harness G.711")
    # on the implementation, through the public API: a file holding every code once, in 1..3 channels
    tmp = Tmp()
    try:
        for c in ("ulaw", "alaw"):
            for chans in (1, 2, 3):
                n = 768 // chans
                codes = np.arange(768, dtype=np.int64) % 256
                hdr = dict(magic="NIST_1A", size=size_line(1024), lines=canonical_lines(c, 0, chans, n, 8000), end=True, pad=32, total=1024)
                b = header_bytes(hdr) + codes.astype(np.uint8).tobytes()
                case = dict(kind="table", coding=c, chans=chans, count=n, dtype="none", via="bytesio")
                ctx.case(case, kind="kind:table")
                impl, x = run_impl(b, "none", "bytesio", tmp)
                want = G711[c][codes]
                ok = x is not None and x.dtype == np.int16 and np.array_equal(np.asarray(x).ravel().astype(np.int64), want)
                if not ok:
                    bad = None
                    if x is not None and np.asarray(x).size == 768:
                        d = np.nonzero(np.asarray(x).ravel().astype(np.int64) != want)[0]
                        bad = int(d[0]) % 256 if len(d) else None
                    ctx.violation(dict(case, code=bad), brief(want.tolist()), brief(impl),
                                  "every code of the table expands as ITU-T G.711 prescribes",
                                  tags=dict(clause="g711_table", coding=c))
    finally:
        tmp.close()


def check_encoder(ctx, driver):
    """the spec-side writer `encode` of the Lean model produces the files the harness writer produces"""
    r = ctx.rng
    lines, want = [], []
    for _ in range(ctx.scale(24, 200)):
        c = base_case(r, canonical=True, count=r.randrange(1, 12), chans=r.choice([1, 2, 3, 5]))
        b, items, _ = build(c)
        pad = c["hsize"] - (bytes(b).index(b"end_head\n") + 9)
        lines.append("enc %s %d %d %d %d %d %d %d %s" % (c["coding"], c["be"], c["chans"], c["rate"], c["hsize"], c["count"], pad,
                                                     c["hdr"]["pad"],
                                                     ",".join(map(str, items.tolist())) if len(items) else "-"))
        want.append(b.hex())
    outs = driver.run(lines)
    ctx.corr_lines += len(lines)
    for ln, w, o in zip(lines, want, outs):
        ctx.count("encoder_ties")
        if o != w:
            ctx.mismatch(dict(enc=brief(ln)), brief(o), brief(w), "Lean `encode` vs harness SPHERE writer")


def exhaustive_grid(ctx):
    """thorough tier: channels 1..9 x codings x k reads x offsets around the boundary, full and truncated"""
    r = ctx.rng
    for coding, be in (("pcm", 0), ("pcm", 1), ("ulaw", 0), ("alaw", 0)):
        for chans in range(1, 10):
            F = chans * nbytes_of(coding)
            for k in (1, 2, 3):
                for d in (-2, -1, 0, 1, 2):
                    c = base_case(r, coding=coding, chans=chans, count=max(1, k * R // F + d), dtype="none")
                    c["be"] = be
                    c["hdr"]["lines"] = canonical_lines(coding, be, chans, c["count"], c["rate"])
                    yield c
            c = base_case(r, coding=coding, chans=chans, count=2 * R // F + 1, dtype="none")
            c["be"] = be
            c["hdr"]["lines"] = canonical_lines(coding, be, chans, c["count"], c["rate"])
            for cut in interesting_cuts(r, c):
                cc = dict(c, kind="trunc", cut=cut, hdr=dict(c["hdr"]))
                yield cc


PROBE = r"""
import io, sys, warnings
src, hexdata = sys.argv[1], sys.stdin.read().strip()
sys.path.insert(0, src)
from pydrobert.speech.util import read_signal
# no filter is installed here: what is recorded is what reaches a caller who left Python's warning configuration alone
with warnings.catch_warnings(record=True) as w:
    x = read_signal(io.BytesIO(bytes.fromhex(hexdata)), force_as="sph")
print(len([i for i in w if "samples read" in str(i.message)]), len(x))
"""


def warning_reaches_caller(ctx):
    """'a warning is issued': in a fresh interpreter whose warning filters are whatever Python and importing the library
    left them at, reading a truncated file makes the warning reach the caller (a library that silences the category
    process-wide issues nothing anyone can see)"""
    import subprocess

    import random as _random
    case = base_case(_random.Random(12), coding="pcm", chans=2, count=50, hsize=1024, dtype="none", canonical=True)
    case.update(kind="trunc", cut=101, via="bytesio", probe="fresh_interpreter")
    b, _items, _data = build(dict(case))
    ctx.case(case, kind="warning_probe")
    p = subprocess.run([sys.executable, "-c", PROBE, common.repo_src()], input=bytes(b).hex(), capture_output=True, text=True, timeout=120)
    out = p.stdout.strip().split()
    if p.returncode != 0 or len(out) != 2:
        ctx.violation(case, "a warning and the whole frames present", (p.stderr or p.stdout)[-300:], "truncated data: a warning is issued (fresh interpreter, default filters)",
                      tags=dict(clause="warning_reaches_caller", how="probe_failed"))
    elif int(out[0]) < 1:
        ctx.violation(case, "at least one 'samples read' warning recorded", "%s warnings, %s samples returned" % (out[0], out[1]),
                      "truncated data: a warning is issued (fresh interpreter, default filters)", tags=dict(clause="warning_reaches_caller"))


def run(ctx, driver):
    global R
    r = ctx.rng
    consts = tr.extract(common.REPO)
    R = consts["BUF_SIZE"] if consts["BUF_SIZE"] > 0 else R
    check_tables(ctx, driver, consts)
    check_encoder(ctx, driver)
    warning_reaches_caller(ctx)
    tmp = Tmp()
    lines, pend = [], []
    budget_bytes = 0
    try:
        stream = []
        for c in gen_badhdr_all(r):
            stream.append(c)
        # (a broken obligation puts the context in search mode = 4x the cases; not needed once a failing input is known)
        n = 520 if (ctx.tier != "thorough" and ctx.violations) else ctx.scale(520, 6000)
        gens = [(gen_valid, 0.36), (gen_trunc, 0.30), (gen_extra, 0.08), (gen_bigframe, 0.05), (gen_hdrfuzz, 0.19),
                (gen_shnmagic, 0.02)]
        for _ in range(n):
            u, acc = r.random(), 0.0
            for g, p in gens:
                acc += p
                if u < acc:
                    stream.append(g(r))
                    break
            else:
                stream.append(gen_valid(r))
        if ctx.tier == "thorough":
            stream.extend(exhaustive_grid(ctx))
            ctx.extra["exhaustive"] = False
            ctx.note("thorough: grid channels 1-9 x {pcm-le,pcm-be,ulaw,alaw} x k in 1..3 reads x offsets -2..2, plus every interesting cut of a 2-read file per (coding, channels)")
        for case in stream:
            if ctx.out_of_time():
                ctx.note("time budget reached after %d cases" % ctx.evaluations)
                break
            examine(ctx, case, tmp, lines, pend)
            budget_bytes += len(lines[-1])
            if budget_bytes > 6_000_000 or len(lines) >= 400:
                flush(ctx, driver, lines, pend)
                budget_bytes = 0
        flush(ctx, driver, lines, pend)
    finally:
        tmp.close()
    ctx.count("correspondence_lines", ctx.corr_lines)


def run_oracle_only(ctx):
    """the driver is unusable (model does not build): still search the implementation with the oracle"""

    class Null:
        def run(self, lines):
            return ["unmodelled driver-unavailable"] * len(lines)

    tmp = Tmp()
    lines, pend = [], []
    try:
        r = ctx.rng
        stream = gen_badhdr_all(r) + [g(r) for _ in range(ctx.scale(200, 1500)) for g in (gen_valid, gen_trunc)]
        for case in stream:
            if ctx.out_of_time():
                break
            examine(ctx, case, tmp, lines, pend)
            del lines[:]
            del pend[:]
    finally:
        tmp.close()


def search(ctx, broken):
    """a proof obligation or the tie broke and the ordinary stream found nothing: look harder with the oracle"""
    tmp = Tmp()
    lines, pend = [], []
    try:
        for case in exhaustive_grid(ctx):
            if ctx.out_of_time() or ctx.violations:
                break
            examine(ctx, case, tmp, lines, pend)
            del lines[:]
            del pend[:]
    finally:
        tmp.close()


def replay(rp):
    case = rp.get("case") or {}
    if rp.get("kind") != "counterexample" and "broken" in rp:
        print(common.canon(rp["broken"])[:3000])
        return 0
    print("case:", brief(common.canon(case), 1500))
    if case.get("kind") == "table":
        c, chans, n = case["coding"], case["chans"], case["count"]
        codes = np.arange(768, dtype=np.int64) % 256
        hdr = dict(magic="NIST_1A", size=size_line(1024), lines=canonical_lines(c, 0, chans, n, 8000), end=True, pad=32, total=1024)
        b = header_bytes(hdr) + codes.astype(np.uint8).tobytes()
        want = "ok i16 %s 0 %s" % ("%d" % n if chans == 1 else "%d,%d" % (n, chans), ",".join(map(str, G711[c][codes].tolist())))
        items = data = None
    else:
        b, items, data = build(case)
        want = None
        if case.get("wellformed") and data[:4] != b"ajkg":
            want = expectation(case, items, data)
        elif case.get("expect"):
            want = case["expect"]
    tmp = Tmp()
    try:
        impl, _ = run_impl(b, case.get("dtype", "none"), case.get("via", "bytesio"), tmp)
    finally:
        tmp.close()
    try:
        model = common.Driver(PROP).run(["dec - %s %s" % (case.get("dtype", "none"), b.hex() if b else "-")])[0]
    except Exception as e:  # noqa: BLE001
        model = "driver unavailable: %s" % e
    print("file: %d bytes" % len(b))
    print("impl:  ", brief(impl, 400))
    print("model: ", brief(model, 400))
    print("oracle:", rp.get("oracle"))
    print("expected:", brief(want, 400) if want is not None else "(no demand from the property)")
    ok = want is None or impl == want
    print("property %s on the implementation; model %s the implementation" % (
        "HOLDS" if ok else "VIOLATED", "agrees with" if model == impl else "differs from"))
    return 0 if ok else 1


LEVEL_TEXT = (
    "Full proof for every channel count >= 1, sample count >= 1, header size >= 1024 that holds the header text, both byte "
    "orders and any read size >= 1 (indeed any sequence of non-empty reads): decode(encode(...)) returns exactly the stored "
    "samples with shape (n,) / (n, channels) for 16-bit PCM, G.711-expanded int16 for mu-law / A-law, raw codes for a 1-byte "
    "dtype; short data gives the warning and exactly the whole frames present (mono and multi-channel); both generated tables "
    "equal the ITU-T G.711 expansion on all 256 codes (decide +kernel); a file shorter than 1024 bytes, without the NIST_1A "
    "magic or without a size line holding an integer >= 1024 gives IOError. The read loop is modelled literally and the "
    "theorem is an induction over reads with the invariant 'consumed = whole frames delivered + carried partial frame'."
)
LEVEL_NOTE = (
    "Trusted: Lean kernel, std axioms, the ast translator for tables/literals, the byte-level correspondence of the model with "
    "read_signal on generated files, stated semantics of bytes/str/int/np.frombuffer/file.read. Hypotheses: data does not start "
    "with b'ajkg' (shorten magic), counts >= 1, canonical six-field header for the whole-file theorems (any parsed-equal header "
    "for the *_of_header variants), bytes < 256."
)
TECHNIQUE = "Lean 4 proof over a literal model of the read loop + generated G.711 tables/literals + byte-exact correspondence"

"""C11 - read_signal returns exactly what was stored, from a path or a stream.

Ties of the Lean model (lean/PdsVerif/Model/ReadSignal.lean) to the code:
 (a) translator harness/translate/readsig.py -> Generated/ReadSig.lean on every run (the suffix chain, the
     dispatch chain, soundfile type set, accepted force_as values, default keys, dtype handling of every helper,
     the wds handler - by ``ast`` / values read in a fresh interpreter);
 (b) `dispatch` (infer + chain) vs `read_signal` on generated *names*: for every name, files holding a valid
     container of each kind are written under that name in a scratch directory and read back; which of them decode
     identifies the reader that was chosen (public API only).  The Kaldi readers are observed at the public
     boundary of *pydrobert.kaldi* (``pydrobert.kaldi.io.open`` replaced by a recorder while names are probed, so
     that neither a shell pipe nor a bogus rspecifier is ever opened);
 (c) the same names through `wds_read_signal` (stream path of the glue) vs `wdsRead`;
 (d) `dispatch` with force_as / key / dtype on real containers: which stored entry comes back, in which dtype,
     which exception class;
 (e) `h5First` vs `read_signal` on random HDF5 trees; `tableGet` vs real Kaldi tables.
Property oracle on the implementation (independent of the model): see `ORACLES`.
"""
import io
import os
import re
import shutil
import tempfile
import warnings
import wave

import numpy as np

from . import common
from .translate import readsig as tr

PROP = "C11"
MODULES = ["PdsVerif.Props.C11", "PdsVerif.Lemmas.ReadSignal"]  # Lemmas/WavFrames is audited through the theorems of Props/C11
MODEL_MODULES = ["PdsVerif.Model.ReadSignal", "PdsVerif.Generated.ReadSig", "PdsVerif.Model.WavFrames"]
REQUIRED = ["PdsVerif.C11." + n for n in """
    regex_is_modelled tableMatch_iff chainSuffixes_documented rules_shape inferKind_total no_suffix_ioerror_iff no_suffix_ioerror table_rspecifier sf_suffix
    suffix_maps_to_kind pipe_suffix wav_precedence_irrelevant bare_type_name lastSeg_mem_iff
    sfTypes_wellformed stream_needs_force_as kaldi_on_stream unknown_force_as force_as_reader force_as_reader_stream
    sf_type_reader wav_reader inferred_type_is_dispatchable default_key_arr0 default_key_hdf5 default_key_table kaldi_default_dtype
    h5_first_dataset h5_never_out_of_fuel h5_visit_order final_cast_generic final_cast_readers dtype_to_decoder
    dtype_is_final_cast sf_subtype_dtype wds_never_raises wds_none_iff wds_some wds_undecodable_key
    avail_message_complete waveRead_waveFrames waveRead_ragged waveRead_width3""".split()]
RULE = (
    "names: documented suffixes x stems (empty, dotted, directories, spaces, non-ASCII), case variants, doubled suffixes "
    "(x.wav.npy), near misses (xwav, '.wav ', .npy.bak), bare type names (wav, flac, npy), no dot, dot only, trailing '|', "
    "Kaldi prefixes (ark: scp: with options, empty option, non-word option, non-ASCII word characters, wrong case, "
    "leading junk) and random strings over a small alphabet; each name is read as a path (7 container kinds written "
    "under that name) and through wds_read_signal. Round trips: container x writer x shape (0, 1, n samples; 1-3 "
    "channels; scalars to 3-D for the array containers) x dtype x access (name | open file | BytesIO | name+force_as) "
    "x dtype argument x key. wds: random bytes, mutated valid containers (flip / truncate / extend / splice), valid "
    "containers x keys. HDF5: random trees (depth <= 4, names incl. upper case, digits, punctuation, non-ASCII). "
    "A case is distinct by content; all are non-trivial."
)
TRUSTED = [
    "the codecs: numpy (.npy/.npz/fromfile/astype), torch.save/load, h5py/HDF5, libsndfile via soundfile, the stdlib wave "
    "module, pydrobert-kaldi, pydrobert.speech._sphere - OUTSIDE the model (abstract `Prims`); bit-identical round trips "
    "are established by runs, not by a theorem",
    "translator harness/translate/readsig.py: helpers are classified by the third-party call they make (np.load, "
    "wave.open, h5py.File, ...); `sphere_read_signal` (in _sphere.py, owned by C12/C13) is taken as 'dtype goes to the "
    "decoder, key ignored' without being parsed; the Kaldi helpers and the HDF5 search loop are compared (up to renaming "
    "of locals and message wording) with the code the model mirrors",
    "Python `re`: `\\w` on non-ASCII characters is asked from Python per name and handed to the model (ASCII part is "
    "modelled: [A-Za-z0-9_]); `re.match` anchors at the start only",
    "reader identification on the implementation side: a file decodes to the stored array only through a reader for its "
    "container (soundfile also reads wav/aiff/SPHERE, so 'flac decodes' identifies soundfile, 'wav decodes but flac "
    "does not' the scipy/wave reader)",
    "pydrobert.kaldi.io.open is replaced by a recorder while adversarial names are probed (public function of another "
    "package; counted as patched_public_kaldi_open)",
]
ASSUMPTIONS = [
    "PARTIAL: the theorems cover the dispatch glue (suffix inference, force_as / stream guard, dispatch chain, key and "
    "dtype handling of each helper, HDF5 search order, wds try/except) for every behaviour of the codecs; that a "
    "container's own writer and the chosen reader are inverse (bit-identical data, stored dtype, time x channels) is "
    "tested per container / shape / dtype / access path, not proved",
    "dtype arguments are truthy (a numpy dtype, type or non-empty name): `if dtype:` and `if dtype is not None:` then agree",
    "key is None, a str or a non-negative int",
    "raw binary has no stored dtype/shape: dtype is the type the bytes are interpreted as (np.fromfile) and the result is "
    "1-D; 'dtype is a final cast' does not apply to it, nor to Kaldi type names; for SPHERE dtype is the type of the "
    "output buffer (value cast by assignment) - only mono 16-bit PCM SPHERE is exercised here (C12/C13 own the rest)",
    "np.fromfile needs a real file (BytesIO has no fileno): counted out_of_scope",
    "a bare name equal to a soundfile type ('wav', 'flac', no dot) is typed as that type (theorem bare_type_name); it is "
    "read if such a file exists, else FileNotFoundError (an IOError) - counted as hypothesis gap, asserted only to not "
    "raise anything but IOError",
    "HDF5 files hold groups and datasets only (no links to other objects, no named datatypes)",
    "the Kaldi sequential reader is modelled for in-range indices only (key == number of entries returns None in "
    "pydrobert-kaldi rather than raising)",
    "wds_read_signal may return a non-array for bytes another numpy container decodes (np.load of zip bytes under an "
    "'.npy' key gives an NpzFile): counted wds_non_array_result, not treated as a violation of 'never raises / None "
    "for undecodable'",
]
LEVEL_TEXT = (
    "PARTIAL. Proved (all names, all environments, every codec behaviour): the suffix scanner equals the regular "
    "expression; inference returns a type or IOError and IOError exactly for names without a recognised suffix; each "
    "documented suffix maps to its type (soundfile-before-.wav precedence shown unobservable); stream without force_as, "
    "Kaldi type on a stream and unknown force_as raise ValueError; default keys (npz 'arr_0', HDF5 depth-first first "
    "dataset in ascending name order = the while loop, Kaldi first entry); reading with dtype=d equals reading without "
    "followed by astype(d) for wav/soundfile/npy/npz/pt/HDF5 through the whole of read_signal; wds_read_signal never "
    "raises and returns None iff something inside raised. All over tables regenerated from util.py/config.py each run. "
    "The one codec that is the repository's own code is proved too: `_wave_read_signal`'s decoding of the frames `wave` hands it "
    "(little-endian two's complement of 1/2/4/8 bytes, divisibility check, C-order reshape) returns exactly the stored "
    "samples with shape time x channels ((time,) for mono) for every channel count and length (waveRead_waveFrames); 24-bit is "
    "refused. NOT proved (tested): the third-party codecs - bit-identical round trips, stored dtype, time x channels."
)
LEVEL_NOTE = (
    "Trusted: Lean kernel, std axioms, the readsig translator, the third-party codecs (numpy, torch, h5py, libsndfile, "
    "wave, pydrobert-kaldi, _sphere.py) as abstract primitives, Python re's non-ASCII \\w. Needs fix/C11-hdf5-dtype-cast "
    "(HDF5 dtype was an HDF5 conversion, not a cast); on the unrepaired tree the check reports that defect."
)
TECHNIQUE = "Lean 4 proof over translator-generated dispatch tables + reader-identification correspondence on real files"

ORACLES = {
    "roundtrip": "an array written with the container's own writer is read back bit-identically with its stored dtype "
                 "and shape (time x channels for audio), by name and from an open binary stream with force_as",
    "dtype_final_cast": "a given dtype is applied as a final cast: read_signal(..., dtype=d) == read_signal(...).astype(d)",
    "key": "`key` selects the named entry; without a key the documented default entry is read",
    "no_suffix": "a name with no recognised suffix raises IOError",
    "suffix": "a name with a documented suffix is read with the documented reader",
    "stream_needs_force_as": "a stream without force_as raises ValueError",
    "unknown_force_as": "an unknown force_as raises ValueError",
    "kaldi_on_stream": "the Kaldi types are refused for a stream with ValueError",
    "wds": "wds_read_signal never raises; it returns None for anything it cannot decode and the decoded array for valid bytes",
}

KINDS = ["npy", "npz", "wav", "flac", "hdf5", "pt", "sph"]  # containers written under a probed name
NATIVE = {"npy": "npy", "npz": "npz", "wav": "wav", "flac": "soundfile", "hdf5": "hdf5", "pt": "torch", "sph": "sphere"}
DOC_SUFFIX = [".wav", ".hdf5", ".npy", ".npz", ".pt", ".sph"]
DOC_FORCE_AS = ["table", "wav", "hdf5", "npy", "npz", "pt", "sph", "kaldi", "file", "soundfile"]
TABLE_RE = re.compile(r"^(ark|scp)(,\w+)*:")


def translate(repo):
    files, _ = tr.generate(repo)
    return files


def util():
    from pydrobert.speech import util as u

    return u


def sf_types():
    from pydrobert.speech import config

    return sorted(config.SOUNDFILE_SUPPORTED_FILE_TYPES)


# =====================================================================================================
# wire
# =====================================================================================================


def enc(s):
    return ",".join(str(ord(c)) for c in s) if s else "-"


def dec(t):
    return "" if t == "-" else "".join(chr(int(x)) for x in t.split(","))


def enc_opt(s):
    return "~" if s is None else enc(s)


def enc_key(k):
    if k is None:
        return "~"
    if isinstance(k, str):
        return "s:" + enc(k)
    return "i:%d" % k


def extra_word(name):
    return enc("".join(sorted({c for c in name if ord(c) >= 128 and re.match(r"\w", c)})))


def wire_ok(s):
    return all(not (0xD800 <= ord(c) <= 0xDFFF) for c in s)


# =====================================================================================================
# containers
# =====================================================================================================

ARRAY_DTYPES = ["float32", "float64", "int16", "int32", "int64", "uint8", "int8", "bool", "complex64", "float16",
                "uint16", "complex128"]
CAST_DTYPES = ["float32", "float64", "int16", "int32", "int8", "uint8", "int64", "complex64", "bool", "float16"]


def rand_array(seed, shape, dtype):
    g = np.random.default_rng(seed)
    dt = np.dtype(dtype)
    if dt.kind == "b":
        a = g.integers(0, 2, size=shape)
    elif dt.kind in "iu":
        info = np.iinfo(dt)
        a = g.integers(info.min, info.max, size=shape, dtype=dt.newbyteorder("="), endpoint=True)
    elif dt.kind == "c":
        a = g.standard_normal(shape) * 1000 + 1j * g.standard_normal(shape)
    else:
        a = g.standard_normal(shape) * 10.0 ** float(g.integers(-3, 6))
    with warnings.catch_warnings():
        warnings.simplefilter("ignore")  # float16 overflow to inf is fine: inf must round-trip too
        return np.asarray(a).astype(dt)


def audio_array(seed, n, ch, width):
    dt = np.int16 if width == 2 else np.int32
    g = np.random.default_rng(seed)
    info = np.iinfo(dt)
    a = g.integers(info.min, info.max, size=(n, ch), dtype=dt, endpoint=True)
    if n:  # make the extremes appear
        a.flat[0] = info.min
        a.flat[-1] = info.max
    return a[:, 0].copy() if ch == 1 else a


def wav_bytes(a, width):
    ch = 1 if a.ndim == 1 else a.shape[1]
    b = io.BytesIO()
    with wave.open(b, "wb") as w:
        w.setnchannels(ch)
        w.setsampwidth(width)
        w.setframerate(8000)
        w.writeframes(a.astype("<i%d" % width).tobytes("C"))
    return b.getvalue()


def sf_bytes(a, fmt, subtype):
    import soundfile

    b = io.BytesIO()
    soundfile.write(b, a, 8000, subtype=subtype, format=fmt.upper())
    return b.getvalue()


def npy_bytes(a):
    b = io.BytesIO()
    np.save(b, a)
    return b.getvalue()


def npz_bytes(entries, positional=(), compressed=False):
    b = io.BytesIO()
    (np.savez_compressed if compressed else np.savez)(b, *positional, **entries)
    return b.getvalue()


def pt_bytes(a, legacy=False):
    import torch

    b = io.BytesIO()
    if legacy:
        torch.save(torch.from_numpy(np.array(a)), b, _use_new_zipfile_serialization=False)
    else:
        torch.save(torch.from_numpy(np.array(a)), b)
    return b.getvalue()


def h5_bytes(datasets):
    """datasets: {path: array}; groups created as needed"""
    import h5py

    b = io.BytesIO()
    with h5py.File(b, "w") as f:
        for k, v in datasets.items():
            f.create_dataset(k, data=v)
    return b.getvalue()


def sph_bytes(a, order="01", extra_fields=(), hsize=1024):
    """mono 16-bit PCM NIST SPHERE (the only SPHERE flavour this property exercises).  `hsize` > 1024 gives a
    longer header block whose sample fields (and `end_head`) lie beyond the first 1024 bytes: a long comment
    field comes first, as real corpora with large headers have them."""
    assert a.ndim == 1 and a.dtype == np.int16
    lines = ["NIST_1A", "%7d" % hsize]
    if hsize > 1024:
        filler = "x" * 200
        lines += ["comment_%02d -s%d %s" % (i, len(filler), filler) for i in range(5)]
    lines += ["sample_count -i %d" % len(a), "sample_n_bytes -i 2", "channel_count -i 1",
              "sample_byte_format -s2 %s" % order, "sample_rate -i 8000", "sample_coding -s3 pcm"]
    lines += list(extra_fields) + ["end_head"]
    h = ("\n".join(lines) + "\n").encode()
    assert len(h) <= hsize
    h += b" " * (hsize - len(h))
    return h + a.astype(">i2" if order == "10" else "<i2").tobytes()


def probe_contents():
    """one small valid container of each kind + the array it holds (fixed: identification only)"""
    a16 = np.array([[1, -2], [300, -400], [32767, -32768]], dtype=np.int16)
    m16 = np.array([5, -6, 700, -32768, 32767], dtype=np.int16)
    f = np.array([[1.5, -2.25], [3.0, 4.0]], dtype=np.float32)
    out = {
        "npy": (npy_bytes(f), f),
        "npz": (npz_bytes({}, positional=(f + 1,)), f + 1),
        "wav": (wav_bytes(a16, 2), a16),
        "flac": (sf_bytes(a16 + 0, "flac", "PCM_16"), a16),
        "hdf5": (h5_bytes({"d": f + 2}), f + 2),
        "pt": (pt_bytes(f + 3), f + 3),
        "sph": (sph_bytes(m16), m16),
    }
    return out


def same(a, b):
    return (isinstance(a, np.ndarray) and isinstance(b, np.ndarray) and a.dtype == b.dtype and a.shape == b.shape
            and a.tobytes() == b.tobytes())


def describe(a):
    if isinstance(a, np.ndarray):
        return "ndarray %s %s %s" % (a.dtype, list(a.shape), a.ravel()[:6].tolist())
    return type(a).__name__


# =====================================================================================================
# names
# =====================================================================================================

STEMS = ["", "x", "a.b", "d/x", "x y", "ünï", "x.", ".x", "ark", "wav", "..x", "a.WAV", "foo.tar", "-", "a|b",
         "x:y", "ark.x", "1", "ark,t", "a,b"]
SUFFIXES = [".wav", ".WAV", ".Wav", ".wav ", ".wav.", "wav", ".flac", ".FLAC", ".aiff", ".ogg", ".aif", ".hdf5", ".h5",
            ".hdf", ".HDF5", ".npy", ".Npy", ".npz", ".NPZ", ".pt", ".pth", ".PT", ".sph", ".SPH", ".wv1", "|", " |",
            ".npy|", ".json", ".txt", "", ".", "..", ".npy.wav", ".wav.npy", ".tar.npz", ".sph.flac", ".flac.sph",
            ".npz.npy", ".pt.hdf5", ".npy.bak", ".npy~", ".wav\n", ".mp3", ".nist", ".raw", ".bin", "flac", ".wаv",
            ".soundfile", ".file", ".table", ".kaldi"]
PREFIXES = ["ark:", "scp:", "ark,t:", "ark,bg,cs:", "ark,:", "ark,,t:", "ark,t", "Ark:", "ARK:", "xark:", " ark:",
            "ark ,t:", "ark,t-x:", "ark,é:", "ark,٣:", "ark,_:", "ark,t,:", "scp,p:", "scp,²:", "ark,t :",
            "ark,a.b:", "ark;t:", "ark,t,1_x:", "scp", "ark,中:", "ark,·:", "ark,t:ark:", "scp,p,:"]
BARE = ["wav", "flac", "aiff", "ogg", "npy", "npz", "pt", "sph", "hdf5", "table", "kaldi", "file", "soundfile", "WAV",
        "ark", "scp", "|", ":", ".", "..", "", " ", "wav.", ".wav", ".flac", ".npy", ".pt", "a", "é"]
ALPHA = "ab.|:,/ wnpyzvhdf5skrt_-AWé٣"


def gen_names(r, n):
    names = []
    for s in STEMS[:6]:
        for x in SUFFIXES:
            names.append(s + x)
    for p in PREFIXES:
        for x in ("f", "f.npy", "x.wav", ""):
            names.append(p + x)
    names += BARE
    while len(names) < n:
        u = r.random()
        if u < 0.35:
            names.append(r.choice(STEMS) + r.choice(SUFFIXES))
        elif u < 0.5:
            names.append(r.choice(PREFIXES) + r.choice(STEMS) + r.choice(SUFFIXES))
        elif u < 0.75:
            names.append("".join(r.choice(ALPHA) for _ in range(r.randint(0, 10))))
        else:  # mutate a documented name
            s = list(r.choice(["x.wav", "x.flac", "x.hdf5", "x.npy", "x.npz", "x.pt", "x.sph", "ark,t:x", "scp:x", "cat x |"]))
            for _ in range(r.randint(1, 2)):
                k = r.randrange(len(s) + 1)
                op = r.random()
                if op < 0.3 and s:
                    del s[min(k, len(s) - 1)]
                elif op < 0.6:
                    s.insert(k, r.choice(ALPHA))
                elif s:
                    j = min(k, len(s) - 1)
                    s[j] = s[j].swapcase() if s[j].swapcase() != s[j] and r.random() < 0.5 else r.choice(ALPHA)
            names.append("".join(s))
    seen, out = set(), []
    for nm in names:
        if nm not in seen and wire_ok(nm) and "\x00" not in nm:
            seen.add(nm)
            out.append(nm)
    return out


def writable(name):
    """can a regular file of that (relative) name be created under the scratch directory?"""
    if not name or name.endswith("/") or name.startswith("/") or "\x00" in name:
        return False
    parts = name.split("/")
    if any(p in ("", ".", "..") for p in parts):
        return False
    return all(len(p.encode()) <= 200 for p in parts) and len(name.encode()) < 900


def documented_kind(name, sft):
    """Independent statement of the documented inference (docstring of read_signal, steps 1-10): the reader family a
    name selects, 'IOError' for none, or 'bare' for the one case the docstring words loosely (a name that *is* a
    soundfile type)."""
    if TABLE_RE.match(name):
        return "kaldiTable"
    for t in sft:
        if name.endswith("." + t):
            # docstring step 2 sends '.wav' to soundfile when libsndfile handles wav, the code to scipy / wave
            # (force_as == "wav" is tested first); for the PCM files of this property both are right
            return "wav_or_soundfile" if t == "wav" else "soundfile"
    if name in sft:
        return "bare"
    for suf, k in ((".wav", "wav"), (".hdf5", "hdf5"), (".npy", "npy"), (".npz", "npz"), (".pt", "torch"), (".sph", "sphere")):
        if name.endswith(suf):
            return k
    if name.endswith("|"):
        return "kaldiInput"
    return "IOError"


def family_ok(got, want):
    if want == "wav_or_soundfile":
        return got in ("wav", "soundfile")
    return got == want


class KaldiRecorder:
    """`pydrobert.kaldi.io.open` replaced while adversarial names are read: records how it was called and stops."""

    class Stop(Exception):
        pass

    def __init__(self):
        self.calls = []

    def __call__(self, path, *args, **kwargs):
        self.calls.append((path, args, dict(kwargs)))
        raise KaldiRecorder.Stop()

    def __enter__(self):
        try:
            import pydrobert.kaldi.io as kio
        except ImportError:
            self.mod = None
            return self
        self.mod = kio
        self.orig = kio.open
        kio.open = self
        return self

    def __exit__(self, *a):
        if self.mod is not None:
            self.mod.open = self.orig

    def kind(self):
        """which of the two Kaldi helpers called: table readers pass the Kaldi type positionally"""
        if not self.calls:
            return None
        path, args, kw = self.calls[-1]
        return "kaldiTable" if args else "kaldiInput"


def identify(outcomes):
    """outcomes: {content kind: 'ok' | 'other' | 'raw' | exception class name} -> reader family"""
    ok = {k for k, v in outcomes.items() if v == "ok"}
    if "flac" in ok and "wav" in ok:
        return "soundfile"
    if "wav" in ok:
        return "wav"
    for k in ("npy", "npz", "hdf5", "pt", "sph"):
        if k in ok:
            return NATIVE[k]
    vals = set(outcomes.values())
    if vals == {"raw"}:
        return "fromfile"
    if len(vals) == 1:
        return "err:" + vals.pop()
    return "mixed:" + ",".join("%s=%s" % kv for kv in sorted(outcomes.items()))


def model_reader_family(out):
    """driver output of `read` -> the family `identify` speaks of"""
    if out.startswith("err:"):
        return "err:" + {"IOError": "OSError"}.get(out[4:], out[4:])
    m = re.match(r"ok reader=(\w+)", out)
    r = m.group(1)
    return {"wavWave": "wav", "wavScipy": "wav"}.get(r, r)


def probe_path(u, name, contents, root):
    """read the file `name` (relative to cwd=root) holding each kind of container in turn"""
    outcomes = {}
    path = os.path.join(root, name)
    os.makedirs(os.path.dirname(path) or root, exist_ok=True)
    with KaldiRecorder() as rec:
        for k in KINDS:
            data, arr = contents[k]
            with open(path, "wb") as f:
                f.write(data)
            try:
                got = u.read_signal(name)
                if same(got, arr):
                    outcomes[k] = "ok"
                elif isinstance(got, np.ndarray) and got.dtype == np.float64 and got.tobytes() == data[: len(data) // 8 * 8]:
                    outcomes[k] = "raw"
                else:
                    outcomes[k] = "other"
            except KaldiRecorder.Stop:
                outcomes[k] = "kaldi"
            except Exception as e:  # noqa
                outcomes[k] = type(e).__name__
        kk = rec.kind()
    try:
        os.remove(path)
    except OSError:
        pass
    if kk is not None and set(outcomes.values()) == {"kaldi"}:
        return kk, outcomes
    return identify(outcomes), outcomes


def probe_wds(u, name, contents):
    outcomes = {}
    raised = None
    for k in KINDS:
        data, arr = contents[k]
        try:
            got = u.wds_read_signal(name, data)
        except BaseException as e:  # noqa - the property says *never*
            raised = type(e).__name__
            outcomes[k] = "raise:" + raised
            continue
        if got is None:
            outcomes[k] = "None"
        elif same(got, arr):
            outcomes[k] = "ok"
        else:
            outcomes[k] = "other"
    ok = {k for k, v in outcomes.items() if v == "ok"}
    if "flac" in ok and "wav" in ok:
        fam = "soundfile"
    elif "wav" in ok:
        fam = "wav"
    elif ok:
        fam = NATIVE[sorted(ok)[0]]
    elif set(outcomes.values()) <= {"None"}:
        fam = "none"
    else:
        fam = "mixed:" + ",".join("%s=%s" % kv for kv in sorted(outcomes.items()))
    return fam, outcomes, raised


def names_phase(ctx, driver, root):
    u = util()
    r = ctx.rng
    sft = sf_types()
    contents = probe_contents()
    names = gen_names(r, ctx.scale(900, 8000))
    lines, expect = [], []
    for name in names:
        if ctx.out_of_time():
            ctx.note("names: stopped early (time)")
            break
        case = dict(kind="name", name=name)
        ctx.case(case, kind="name")
        doc = documented_kind(name, sft)
        ctx.count("name_documented_" + doc)
        # ---- through wds_read_signal (no file needed)
        wfam, wout, wraised = probe_wds(u, name, contents)
        if wraised:
            ctx.violation(dict(case, via="wds"), "returns", "raised " + wraised, ORACLES["wds"],
                          tags=dict(clause="wds_never_raises", where="name"))
        want_w = {"kaldiTable": "none", "kaldiInput": "none", "IOError": "none", "bare": None}.get(doc, doc)
        if want_w is not None and not family_ok(wfam, want_w) and not wraised:
            ctx.violation(dict(case, via="wds"), want_w, dict(family=wfam, outcomes=wout),
                          ORACLES["suffix"] if want_w != "none" else ORACLES["wds"],
                          tags=dict(clause="suffix_wds" if want_w != "none" else "wds_none", documented=doc))
        if doc == "bare":
            ctx.gap_cases += 1
        lines.append("wds %s %s 0" % (enc(name), extra_word(name)))
        expect.append((dict(case, via="wds"), wfam, "wds"))
        # ---- as a path
        if not writable(name):
            ctx.count("name_not_a_file_name")
            # no file can carry that name: only the exception class can be observed
            try:
                with KaldiRecorder():
                    u.read_signal(name)
                got = "returned"
            except KaldiRecorder.Stop:
                got = "kaldi"
            except Exception as e:  # noqa
                got = type(e).__name__
            if doc == "IOError" and not (got in ("OSError", "FileNotFoundError", "IsADirectoryError", "NotADirectoryError")):
                ctx.violation(case, "IOError", got, ORACLES["no_suffix"], tags=dict(clause="no_suffix", where="unwritable"))
            continue
        try:
            fam, outcomes = probe_path(u, name, contents, root)
        except OSError:  # the scratch directory cannot hold that name (e.g. it names a directory made earlier)
            ctx.count("name_not_a_file_name")
            continue
        ctx.count("patched_public_kaldi_open")
        ctx.count("name_reader_" + fam.split(":")[0])
        if doc == "IOError":
            if fam != "err:OSError":
                ctx.violation(case, "IOError", dict(family=fam, outcomes=outcomes), ORACLES["no_suffix"],
                              tags=dict(clause="no_suffix", got=fam.split(":")[0]))
        elif doc == "bare":
            if fam not in ("soundfile", "wav", "err:OSError"):
                ctx.violation(case, "the type named / IOError", dict(family=fam, outcomes=outcomes), ORACLES["no_suffix"],
                              tags=dict(clause="bare_name"))
        elif not family_ok(fam, doc):
            ctx.violation(case, doc, dict(family=fam, outcomes=outcomes), ORACLES["suffix"],
                          tags=dict(clause="suffix", documented=doc, got=fam.split(":")[0]))
        lines.append("read 0 %s ~ ~ ~ %s" % (enc(name), extra_word(name)))
        expect.append((case, fam, "path"))
    if driver is None:
        return
    outs = driver.run(lines)
    ctx.corr_lines += len(lines)
    ctx.count("correspondence_lines", len(lines))
    for (case, impl, how), o in zip(expect, outs):
        if how == "path":
            m = model_reader_family(o) if o != "bad-op" else o
        else:
            m = o
            if o.startswith("some "):
                m = {"wavWave": "wav", "wavScipy": "wav"}.get(o[5:], o[5:])
        if m != impl:
            ctx.mismatch(case, o, impl, "dispatch vs read_signal on a name (%s)" % how)


# =====================================================================================================
# round trips (oracle) + dispatch correspondence with force_as / key / dtype
# =====================================================================================================

CONTAINERS = ["wav", "wav_sf", "flac", "aiff", "npy", "npz", "pt", "hdf5", "raw", "sph", "kaldi_table", "kaldi_input"]
FORCE = {"wav": "wav", "wav_sf": "wav", "flac": "flac", "aiff": "aiff", "npy": "npy", "npz": "npz", "pt": "pt",
         "hdf5": "hdf5", "raw": "file", "sph": "sph", "kaldi_table": "table", "kaldi_input": "kaldi"}
SUFFIX = {"wav": ".wav", "wav_sf": ".wav", "flac": ".flac", "aiff": ".aiff", "npy": ".npy", "npz": ".npz", "pt": ".pt",
          "hdf5": ".hdf5", "raw": ".bin", "sph": ".sph"}
SHAPES = [(), (0,), (1,), (7,), (33,), (4, 3), (1, 5), (0, 2), (2, 3, 4), (6, 1, 2)]


def gen_roundtrip(r, container=None):
    c = container or r.choice(CONTAINERS)
    case = dict(kind="roundtrip", container=c, seed=r.randrange(1 << 30))
    if c in ("wav", "wav_sf", "flac", "aiff"):
        case["width"] = 2 if c in ("flac", "aiff") else r.choice([2, 4])
        case["channels"] = r.choice([1, 1, 2, 3, 6])
        case["n"] = r.choice([0, 1, 2, 7, 100, 1000] if c in ("wav",) else [1, 2, 7, 100, 1000])
        if c != "wav" and r.random() < 0.3:
            case["alias"] = r.choice(["soundfile", c if c != "wav_sf" else "wav"])
        if c == "wav" and r.random() < 0.25:
            case["alias"] = "soundfile"  # a stdlib-written wav read through libsndfile
    elif c == "sph":
        case["n"] = r.choice([1, 2, 100, 8192, 8193, 20000])
        case["order"] = r.choice(["01", "10"])
    elif c in ("kaldi_table", "kaldi_input"):
        case["shape"] = list(r.choice([(1, 1), (3, 2), (10, 4), (1, 7)]))
        case["ktype"] = r.choice(["bm", "bm", "dm"])
        if c == "kaldi_table":
            case["entries"] = r.randint(1, 4)
            case["key"] = r.choice([None, None, "k0", "k%d" % (case["entries"] - 1), 0, case["entries"] - 1])
            case["opts"] = r.choice(["", "", ",bg", ",cs,p"])
    else:
        case["shape"] = list(r.choice(SHAPES))
        case["dtype"] = r.choice(ARRAY_DTYPES)
        if c == "pt":
            # torch's sequential layout has no storage type for the unsigned 16/32/64-bit dtypes (torch.load of such a
            # file fails inside torch with no repo code involved): the zip layout only for those
            case["legacy"] = r.random() < 0.4 and case["dtype"] not in ("uint16", "uint32", "uint64")
        if c == "npz":
            case["layout"] = r.choice(["positional", "named", "mixed", "digits"])
            case["compressed"] = r.random() < 0.3
            case["key"] = r.choice([None, None, "arr_0", "arr_1", "b", "a"])
            if case["layout"] == "digits":  # entry names that consist of digits are names, not positions
                case["key"] = r.choice([None, "0", "7", "1089"])
        if c == "hdf5":
            case["layout"] = r.choice(["single", "nested", "nested"])
            case["key"] = r.choice([None, None, "x", "g/h/y", "g/z"]) if case["layout"] == "nested" else r.choice([None, "x"])
    if c not in ("kaldi_table", "kaldi_input"):
        case["access"] = r.choice(["path", "file", "bytesio", "forced"])
        if r.random() < 0.45:
            case["dtype_arg"] = r.choice(CAST_DTYPES)
    else:
        case["access"] = r.choice(["path", "forced"])
    return case


def build(case, root):
    """-> (path, expected array, force_as, key, kwargs, entries) ; writes the file"""
    c = case["container"]
    seed = case["seed"]
    key = case.get("key")
    fa = case.get("alias") or FORCE[c]
    if c in ("wav", "wav_sf", "flac", "aiff"):
        a = audio_array(seed, case["n"], case["channels"], case["width"])
        if c == "wav":
            data = wav_bytes(a, case["width"])
        else:
            fmt = "wav" if c == "wav_sf" else c
            data = sf_bytes(a, fmt, "PCM_16" if case["width"] == 2 else "PCM_32")
        exp = a
    elif c == "sph":
        a = audio_array(seed, case["n"], 1, 2)
        if a[:2].tobytes() == b"ajkg":
            a[0] ^= 1
        data = sph_bytes(a, case["order"], hsize=(1024, 1024, 2048, 3072)[(seed + case["n"]) % 4])
        exp = a
    elif c == "npy":
        exp = rand_array(seed, tuple(case["shape"]), case["dtype"])
        data = npy_bytes(exp)
    elif c == "pt":
        exp = rand_array(seed, tuple(case["shape"]), case["dtype"])
        # both on-disk layouts torch.save produces: the zip archive (default since 1.6) and the sequential one
        # (`_use_new_zipfile_serialization=False`, what older PyTorch wrote)
        data = pt_bytes(exp, legacy=bool(case.get("legacy")))
    elif c == "raw":
        exp0 = rand_array(seed, tuple(case["shape"]), case["dtype"])
        b = io.BytesIO()
        data = np.ascontiguousarray(exp0).tobytes()
        exp = exp0.ravel()
    elif c == "npz":
        arrs = [rand_array(seed + i, tuple(case["shape"]), case["dtype"]) for i in range(3)]
        if case["layout"] == "positional":
            ent = {"arr_0": arrs[0], "arr_1": arrs[1], "arr_2": arrs[2]}
            data = npz_bytes({}, positional=arrs, compressed=case["compressed"])
        elif case["layout"] == "named":
            ent = {"a": arrs[0], "b": arrs[1], "arr_0": arrs[2]}
            data = npz_bytes(ent, compressed=case["compressed"])
        elif case["layout"] == "digits":
            ent = {"0": arrs[0], "7": arrs[1], "1089": arrs[2], "arr_0": arrs[1]}
            data = npz_bytes(ent, compressed=case["compressed"])
        else:
            ent = {"arr_0": arrs[0], "b": arrs[1], "arr_1": arrs[2]}
            data = npz_bytes({"b": arrs[1]}, positional=[arrs[0], arrs[2]], compressed=case["compressed"])
        exp = ent.get(key if key else "arr_0")
    elif c == "hdf5":
        arrs = [rand_array(seed + i, tuple(case["shape"]), case["dtype"]) for i in range(4)]
        if case["layout"] == "single":
            ent = {"x": arrs[0]}
            first = "x"
        else:
            ent = {"x": arrs[0], "g/h/y": arrs[1], "g/z": arrs[2], "G": arrs[3]}
            first = "G"  # 'G' < 'g' < 'x'
        data = h5_bytes(ent)
        exp = ent.get(key if key else first)
    else:
        raise ValueError(c)
    path = os.path.join(root, "rt" + SUFFIX[c])
    with open(path, "wb") as f:
        f.write(data)
    return path, exp, fa, key, data


def read_case(u, case, path, fa, key, data, dtype_arg):
    kw = {}
    if dtype_arg is not None:
        kw["dtype"] = np.dtype(dtype_arg) if case.get("seed", 0) % 3 else dtype_arg
    if key is not None:
        kw["key"] = key
    acc = case["access"]
    if acc == "path":
        return u.read_signal(os.path.basename(path), **kw)
    if acc == "forced":
        return u.read_signal(os.path.basename(path), force_as=fa, **kw)
    if acc == "file":
        with open(path, "rb") as f:
            return u.read_signal(f, force_as=fa, **kw)
    if acc == "fdfile":      # an open binary stream made from a file DESCRIPTOR: its `.name` is an int, not a path
        with os.fdopen(os.open(path, os.O_RDONLY), "rb") as f:
            return u.read_signal(f, force_as=fa, **kw)
    if acc == "offset":      # the record is not at the start of the (seekable) stream: the stream is positioned at its first byte
        return u.read_signal(common.offset_stream(data), force_as=fa, **kw)
    if acc == "second":      # two records written one after the other; the first has been read, now the second
        f = io.BytesIO(bytes(case["_first"]) + data)
        f.seek(len(case["_first"]))
        return u.read_signal(f, force_as=fa, **kw)
    return u.read_signal(io.BytesIO(data), force_as=fa, **kw)


def roundtrip_case(ctx, u, case, root, lines=None, expect=None):
    c = case["container"]
    if c in ("kaldi_table", "kaldi_input"):
        return kaldi_case(ctx, u, case, root, lines, expect)
    path, exp, fa, key, data = build(case, root)
    dtype_arg = case.get("dtype_arg")
    ctx.case(case, kind="rt_" + c)
    ctx.count("access_" + case["access"])
    if case["access"] == "path" and c == "raw":
        case = dict(case, access="forced")  # raw binary has no suffix: only force_as='file'
    if c == "raw":
        ctx.gap_cases += 1  # dtype = interpretation, outside the final-cast theorem
        if case["access"] == "bytesio":
            ctx.count("out_of_scope")  # np.fromfile needs a real file
            return
        want = exp
        try:
            got = read_case(u, case, path, fa, None, data, str(exp.dtype))
        except Exception as e:  # noqa
            got = e
        if not same(got, want):
            ctx.violation(case, describe(want), describe(got) if not isinstance(got, Exception) else repr(got)[:200],
                          ORACLES["roundtrip"], tags=dict(clause="roundtrip", container=c))
        return
    if exp is None:
        # key names no entry: outside the property (KeyError is numpy's / h5py's) - only "no wrong array"
        ctx.count("out_of_scope")
        try:
            got = read_case(u, case, path, fa, key, data, dtype_arg)
            ctx.violation(case, "KeyError", describe(got), ORACLES["key"], tags=dict(clause="key_missing", container=c))
        except Exception:  # noqa
            pass
        return
    if c == "sph":
        ctx.gap_cases += 1 if dtype_arg else 0  # SPHERE: dtype is the buffer type (value cast), theorem does not cover it
    # 1. as stored
    try:
        got = read_case(u, case, path, fa, key, data, None)
    except Exception as e:  # noqa
        got = e
    if not same(got, exp):
        ctx.violation(dict(case, dtype_arg=None), describe(exp),
                      describe(got) if not isinstance(got, Exception) else repr(got)[:200],
                      ORACLES["key"] if key else ORACLES["roundtrip"],
                      tags=dict(clause="key" if key else "roundtrip", container=c, access=case["access"]))
    # 2. dtype is a final cast
    if dtype_arg is not None:
        with warnings.catch_warnings():
            warnings.simplefilter("ignore")
            want = exp.astype(dtype_arg)
            try:
                got2 = read_case(u, case, path, fa, key, data, dtype_arg)
            except Exception as e:  # noqa
                got2 = e
        if not same(got2, want):
            ctx.violation(case, describe(want), describe(got2) if not isinstance(got2, Exception) else repr(got2)[:200],
                          ORACLES["dtype_final_cast"], tags=dict(clause="dtype_final_cast", container=c))
    # ---- correspondence: which entry / dtype / error the model predicts
    if lines is not None:
        st = 0 if case["access"] in ("path", "forced") else 1
        name = os.path.basename(path)
        fa_w = None if case["access"] == "path" else fa
        lines.append("read %d %s %s %s %s -" % (st, enc(name), enc_opt(fa_w), enc_key(key), enc_opt(dtype_arg)))
        res = got2 if dtype_arg is not None else got
        expect.append((case, c, res, exp))


def kaldi_case(ctx, u, case, root, lines, expect):
    try:
        from pydrobert.kaldi.io import open as kopen
    except ImportError:
        ctx.count("kaldi_unavailable")
        return
    ctx.case(case, kind="rt_" + case["container"])
    npdt = np.float64 if case["ktype"] == "dm" else np.float32
    g = np.random.default_rng(case["seed"])
    if case["container"] == "kaldi_table":
        arrs = [g.standard_normal(case["shape"]).astype(npdt) + i for i in range(case["entries"])]
        path = os.path.join(root, "t.ark")
        with kopen("ark:" + path, case["ktype"], "w") as t:
            for i, a in enumerate(arrs):
                t.write("k%d" % i, a)
        key = case.get("key")
        idx = 0 if key is None else (int(key[1:]) if isinstance(key, str) else key)
        want = arrs[idx]
        rspec = "ark%s:t.ark" % case.get("opts", "")
        kw = dict(dtype=case["ktype"])
        if case["ktype"] == "bm" and case["seed"] % 2:
            kw = {}
        if key is not None:
            kw["key"] = key
        try:
            got = u.read_signal(rspec, force_as="table" if case["access"] == "forced" else None, **kw)
        except Exception as e:  # noqa
            got = e
        if not same(got, want):
            ctx.violation(case, describe(want), describe(got) if not isinstance(got, Exception) else repr(got)[:200],
                          ORACLES["key"] if key is not None else ORACLES["roundtrip"],
                          tags=dict(clause="key" if key is not None else "roundtrip", container="kaldi_table"))
        if lines is not None:
            toks = " ".join("%s %d" % (enc("k%d" % i), i) for i in range(case["entries"]))
            lines.append("table %s %s" % (enc_key(key), toks))
            expect.append((case, "table", idx if same(got, want) else repr(got)[:80], None))
    else:
        a = g.standard_normal(case["shape"]).astype(npdt)
        path = os.path.join(root, "m.bin")
        with kopen(path, mode="w") as f:
            f.write(a, case["ktype"])
        kw = dict(dtype=case["ktype"])
        if case["ktype"] == "bm" and case["seed"] % 2:
            kw = {}
        try:
            if case["access"] == "forced":
                got = u.read_signal("m.bin", force_as="kaldi", **kw)
            else:
                got = u.read_signal("cat m.bin |", **kw)  # a fixed, harmless command
        except Exception as e:  # noqa
            got = e
        if not same(got, a):
            ctx.violation(case, describe(a), describe(got) if not isinstance(got, Exception) else repr(got)[:200],
                          ORACLES["roundtrip"], tags=dict(clause="roundtrip", container="kaldi_input"))


def parse_plan(o):
    m = re.match(r"ok reader=(\w+) key=(\S+) dec=(\S+) cast=(\S+) steps=(\S+)$", o)
    if not m:
        return None
    return dict(reader=m.group(1), key=m.group(2), dec=None if m.group(3) == "~" else dec(m.group(3)),
                cast=None if m.group(4) == "~" else dec(m.group(4)), steps=m.group(5))


def compare_dispatch(ctx, case, c, res, exp, o):
    """model plan vs what the implementation returned for a valid container read with its own reader family"""
    if c == "table":
        want = "ok %s" % res if isinstance(res, int) else None
        if want is None or o != want:
            ctx.mismatch(case, o, res, "tableGet vs read_signal on a Kaldi table")
        return
    p = parse_plan(o)
    if p is None:
        if isinstance(res, Exception) and o == "err:" + {"OSError": "IOError"}.get(type(res).__name__, type(res).__name__):
            return
        ctx.mismatch(case, o, describe(res) if not isinstance(res, Exception) else repr(res)[:120], "dispatch: model refuses")
        return
    fam = {"wavWave": "wav", "wavScipy": "wav"}.get(p["reader"], p["reader"])
    native = {"wav": ("wav", "soundfile"), "wav_sf": ("wav", "soundfile"), "flac": ("soundfile",), "aiff": ("soundfile",),
              "npy": ("npy",), "npz": ("npz",), "pt": ("torch",), "hdf5": ("hdf5",), "sph": ("sphere",), "raw": ("fromfile",)}[c]
    if fam not in native:
        ctx.mismatch(case, o, "container %s" % c, "dispatch: model sends the container to a foreign reader")
        return
    # key selection
    key = case.get("key")
    if c == "npz":
        want_key = "entry:s:" + enc(key if key else "arr_0")
    elif c == "hdf5":
        want_key = ("entry:s:" + enc(key)) if key else "first"
    else:
        want_key = "unused"
    if p["key"] != want_key:
        ctx.mismatch(case, o, want_key, "dispatch: key selection")
    # dtype
    da = case.get("dtype_arg")
    if c in ("sph", "raw"):
        if p["cast"] is not None or p["dec"] != da:
            ctx.mismatch(case, o, "dtype to the decoder", "dispatch: dtype handling")
    else:
        if p["cast"] != da or p["dec"] is not None:
            ctx.mismatch(case, o, "final cast %s" % da, "dispatch: dtype handling")
        if (da is not None) != p["steps"].endswith("cast"):
            ctx.mismatch(case, o, "cast last", "dispatch: order of operations")
    # what the implementation returned must be the entry / dtype the plan names
    if isinstance(res, Exception):
        ctx.mismatch(case, o, repr(res)[:120], "dispatch: model has a plan, implementation raised")
    elif exp is not None:
        with warnings.catch_warnings():
            warnings.simplefilter("ignore")
            want = exp.astype(da) if (da is not None and c != "raw") else exp
        if not same(res, want) and c != "hdf5_unrepaired":
            ctx.mismatch(case, o, describe(res), "dispatch: result is not the planned entry cast as planned")


def roundtrip_phase(ctx, driver, root):
    u = util()
    r = ctx.rng
    n = ctx.scale(2000, 30000)
    lines, expect = [], []
    cases = []
    # every container x access at least once, then random
    for c in CONTAINERS:
        for acc in ("path", "file", "bytesio", "forced"):
            k = gen_roundtrip(r, c)
            if c not in ("kaldi_table", "kaldi_input"):
                k["access"] = acc
            cases.append(k)
    cases += CORPUS_RT
    while len(cases) < n:
        cases.append(gen_roundtrip(r))
    special_roundtrips(ctx, u, root)
    for i, case in enumerate(cases):
        if ctx.out_of_time():
            ctx.note("roundtrip: stopped after %d cases (time)" % i)
            break
        roundtrip_case(ctx, u, case, root, lines, expect)
    if driver is None:
        return
    outs = driver.run(lines)
    ctx.corr_lines += len(lines)
    ctx.count("correspondence_lines", len(lines))
    for (case, c, res, exp), o in zip(expect, outs):
        compare_dispatch(ctx, case, c, res, exp, o)


def special_roundtrips(ctx, u, root):
    """oracle-only cases outside the generated tables: arrays stored / requested in the NON-NATIVE byte order (a dtype is a
    type AND a byte order: '>f8' is not 'float64'), and records that do not sit at offset 0 of the stream they are read from"""
    k = 0
    for c in ("npy", "npz"):
        for stored, asked in ((">f8", "float64"), ("<f8", ">f8"), (">i2", "int16"), ("int16", ">i2"), (">f4", None), (">i4", "<i4"),
                              ("float32", ">f4"), (">c8", "complex64")):
            for acc in ("path", "bytesio", "file"):
                k += 1
                case = dict(kind="roundtrip", container=c, seed=900 + k, shape=[7] if k % 2 else [3, 2], dtype=stored, access=acc,
                            byte_order_case=True)
                if asked:
                    case["dtype_arg"] = asked
                if c == "npz":
                    case.update(layout="named", compressed=bool(k % 2), key="b" if k % 3 == 0 else None)
                roundtrip_case(ctx, u, case, root, None, None)
    first = io.BytesIO()
    np.save(first, np.arange(5, dtype=np.int64))
    for c, extra in (("npy", {}), ("wav", dict(width=2, channels=2, n=9)), ("sph", dict(coding="pcm", channels=1, n=100, order="01"))):
        for acc in ("offset", "second", "fdfile"):
            k += 1
            case = dict(kind="roundtrip", container=c, seed=950 + k, access=acc, **extra)
            if c == "npy":
                case.update(shape=[6], dtype="float32")
            if acc == "second":
                case["_first"] = list(first.getvalue())
            try:
                roundtrip_case(ctx, u, case, root, None, None)
            except KeyError as e:    # a container this harness builds with other field names: skip rather than guess
                ctx.count("special_roundtrip_skipped:" + c)


# fixed cases that must always be covered (the defect found while building this check, extremes)
CORPUS_RT = [
    dict(kind="roundtrip", container="npz", seed=31, shape=[5], dtype="float64", layout="digits", compressed=False, key="1089", access="path"),
    dict(kind="roundtrip", container="npz", seed=32, shape=[2, 3], dtype="int16", layout="digits", compressed=True, key="0", access="bytesio"),
    dict(kind="roundtrip", container="npz", seed=33, shape=[4], dtype="float32", layout="digits", compressed=False, key="7", access="file", dtype_arg="float64"),
    # PyTorch's sequential (pre-1.6) layout, by name, through an open file, from memory, with and without a cast
    dict(kind="roundtrip", container="pt", seed=21, shape=[7], dtype="float32", legacy=True, access="path"),
    dict(kind="roundtrip", container="pt", seed=22, shape=[4, 3], dtype="int16", legacy=True, access="path", dtype_arg="float64"),
    dict(kind="roundtrip", container="pt", seed=23, shape=[33], dtype="float64", legacy=True, access="file"),
    dict(kind="roundtrip", container="pt", seed=24, shape=[2, 3, 4], dtype="int64", legacy=True, access="bytesio"),
    dict(kind="roundtrip", container="pt", seed=25, shape=[0], dtype="float32", legacy=True, access="forced"),
    dict(kind="roundtrip", container="hdf5", seed=11, shape=[5], dtype="int32", layout="single", key=None, access="path",
         dtype_arg="int16"),
    dict(kind="roundtrip", container="hdf5", seed=12, shape=[4], dtype="int64", layout="single", key="x", access="file",
         dtype_arg="complex64"),
    dict(kind="roundtrip", container="hdf5", seed=13, shape=[3, 2], dtype="float64", layout="nested", key="g/h/y",
         access="bytesio", dtype_arg="uint8"),
    dict(kind="roundtrip", container="wav", seed=14, width=4, channels=2, n=9, access="path", dtype_arg="int16"),
    dict(kind="roundtrip", container="flac", seed=15, width=2, channels=3, n=50, access="bytesio", dtype_arg="float32"),
    dict(kind="roundtrip", container="npz", seed=16, shape=[2, 2], dtype="float32", layout="mixed", compressed=True,
         key="b", access="file", dtype_arg="float64"),
    dict(kind="roundtrip", container="sph", seed=17, n=8193, order="10", access="file"),
]


# =====================================================================================================
# error clauses (oracle + correspondence)
# =====================================================================================================

JUNK_FORCE_AS = ["", "WAV", "Wav", "numpy", "mp3", "nist", "raw", ".wav", "wav ", "npy\n", "h5", "hdf", "torch", "sphere",
                 "tables", "ark", "None", "soundfile ", "FLAC", "au", "w64", "é"]


def errors_phase(ctx, driver, root):
    u = util()
    r = ctx.rng
    sft = sf_types()
    contents = probe_contents()
    lines, expect = [], []
    accepted = set(DOC_FORCE_AS) | set(sft)
    junk = list(JUNK_FORCE_AS)
    for _ in range(ctx.scale(30, 400)):
        junk.append("".join(r.choice("wavnpyzhdf5ptsklie_ WAV.") for _ in range(r.randint(0, 7))))
    junk = [j for j in dict.fromkeys(junk) if j not in accepted and wire_ok(j)]
    for k in KINDS:
        data, arr = contents[k]
        path = os.path.join(root, "e." + k + "x")
        with open(path, "wb") as f:
            f.write(data)
        streams = [("bytesio", lambda: io.BytesIO(data)), ("file", lambda: open(path, "rb"))]
        for sname, mk in streams:
            # stream without force_as
            case = dict(kind="error", what="stream_needs_force_as", content=k, stream=sname)
            ctx.case(case, kind="err_stream_needs_force_as")
            s = mk()
            try:
                got = u.read_signal(s)
                got = "returned " + describe(got)
            except Exception as e:  # noqa
                got = type(e).__name__
            finally:
                s.close()
            if got != "ValueError":
                ctx.violation(case, "ValueError", got, ORACLES["stream_needs_force_as"], tags=dict(clause="stream_needs_force_as"))
            lines.append("read 1 - ~ ~ ~ -")
            expect.append((case, got))
            # kaldi types on a stream
            for fa in ("kaldi", "table"):
                case = dict(kind="error", what="kaldi_on_stream", content=k, stream=sname, force_as=fa)
                ctx.case(case, kind="err_kaldi_on_stream")
                s = mk()
                try:
                    with KaldiRecorder():
                        got = "returned " + describe(u.read_signal(s, force_as=fa))
                except KaldiRecorder.Stop:
                    got = "kaldi"
                except Exception as e:  # noqa
                    got = type(e).__name__
                finally:
                    s.close()
                if got != "ValueError":
                    ctx.violation(case, "ValueError", got, ORACLES["kaldi_on_stream"], tags=dict(clause="kaldi_on_stream"))
                lines.append("read 1 - %s ~ ~ -" % enc(fa))
                expect.append((case, got))
        # unknown force_as, path and stream
        for fa in (junk if k == "npy" else r.sample(junk, min(6, len(junk)))):
            for how in ("path", "bytesio"):
                case = dict(kind="error", what="unknown_force_as", content=k, access=how, force_as=fa)
                ctx.case(case, kind="err_unknown_force_as")
                try:
                    if how == "path":
                        got = "returned " + describe(u.read_signal(os.path.basename(path), force_as=fa))
                    else:
                        got = "returned " + describe(u.read_signal(io.BytesIO(data), force_as=fa))
                except Exception as e:  # noqa
                    got = type(e).__name__
                if got != "ValueError":
                    ctx.violation(case, "ValueError", got, ORACLES["unknown_force_as"], tags=dict(clause="unknown_force_as"))
                lines.append("read %d %s %s ~ ~ -" % (0 if how == "path" else 1, enc(os.path.basename(path)), enc(fa)))
                expect.append((case, got))
        os.remove(path)
    if driver is None:
        return
    outs = driver.run(lines)
    ctx.corr_lines += len(lines)
    ctx.count("correspondence_lines", len(lines))
    for (case, got), o in zip(expect, outs):
        if o != "err:" + got:
            ctx.mismatch(case, o, got, "dispatch vs read_signal (error clause)")


# =====================================================================================================
# wds_read_signal on arbitrary bytes
# =====================================================================================================

WDS_KEYS = ["wav", "flac", "aiff", "ogg", "utt.wav", "utt.flac", "a.aiff", "a.ogg", "a.npy", "a.npz", "a.pt", "a.hdf5",
            "a.sph", "npy", "npz", "pt", "sph", "hdf5", "json", "a.json", "", ".", "a.WAV", "a.b.npy", "__key__", "txt",
            "ark:a", "scp,p:a.npy", "a.wav|", "|", "a.npy.gz", "cls", "a.file", "soundfile", "file", "kaldi", "table"]
VALID_KEY = {"npy": "u.npy", "npz": "u.npz", "wav": "u.wav", "flac": "flac", "hdf5": "u.hdf5", "pt": "u.pt", "sph": "u.sph"}


def mutate(r, data):
    b = bytearray(data)
    op = r.random()
    if op < 0.35 and b:
        for _ in range(r.choice([1, 1, 2, 8])):
            i = r.randrange(len(b)) if r.random() < 0.5 else r.randrange(min(len(b), 128))
            b[i] = r.randrange(256) if r.random() < 0.7 else b[i] ^ (1 << r.randrange(8))
    elif op < 0.6:
        b = b[: r.randrange(len(b) + 1)]
    elif op < 0.7:
        b += bytes(r.randrange(256) for _ in range(r.randint(1, 64)))
    elif op < 0.8 and len(b) > 8:
        i = r.randrange(len(b) - 4)
        j = r.randrange(i, len(b))
        del b[i:j]
    elif op < 0.9 and len(b) > 8:
        i = r.randrange(len(b))
        b[i:i] = b[: r.randint(1, 32)]
    else:
        b = b[:64] + bytes(len(b) - 64) if len(b) > 64 else bytes(len(b))
    return bytes(b)


def wds_one(ctx, u, case, key, data, expect_arr=None):
    ctx.case(case, kind="wds_" + case["mode"])
    try:
        with warnings.catch_warnings():
            warnings.simplefilter("ignore")
            got = u.wds_read_signal(key, data)
    except BaseException as e:  # noqa
        ctx.violation(case, "returns", "raised %s: %s" % (type(e).__name__, str(e)[:100]), ORACLES["wds"],
                      tags=dict(clause="wds_never_raises", exc=type(e).__name__))
        return
    if expect_arr is not None:
        if not same(got, expect_arr):
            ctx.violation(case, describe(expect_arr), describe(got), ORACLES["wds"], tags=dict(clause="wds_valid"))
        ctx.count("wds_decoded")
    elif got is None:
        ctx.count("wds_none")
    elif isinstance(got, np.ndarray):
        ctx.count("wds_decoded_mutated")
    else:
        ctx.count("wds_non_array_result")


def wds_phase(ctx, root):
    u = util()
    r = ctx.rng
    contents = probe_contents()
    # valid bytes under keys that name their container
    for k in KINDS:
        for key in (VALID_KEY[k], "x/y." + k if k not in ("flac",) else "x/y.flac", k if k == "flac" else "z." + k):
            case = dict(kind="wds", mode="valid", content=k, key=key)
            wds_one(ctx, u, case, key, contents[k][0], contents[k][1])
    n = ctx.scale(5000, 120000)
    for i in range(n):
        if ctx.out_of_time():
            ctx.note("wds: stopped after %d cases (time)" % i)
            break
        seed = r.randrange(1 << 30)
        rr = __import__("random").Random(seed)
        if rr.random() < 0.35:
            case = dict(kind="wds", mode="random", seed=seed)
        else:
            case = dict(kind="wds", mode="mutated", seed=seed)
        key, data = wds_input(case, contents)
        wds_one(ctx, u, case, key, data)


def wds_input(case, contents):
    import random

    rr = random.Random(case["seed"])
    rr.random()
    key = rr.choice(WDS_KEYS) if rr.random() < 0.8 else "".join(rr.choice(ALPHA) for _ in range(rr.randint(0, 8)))
    if case["mode"] == "random":
        n = rr.choice([0, 1, 4, 44, 100, 1024, 1500])
        head = rr.choice([b"", b"RIFF", b"\x93NUMPY", b"PK\x03\x04", b"NIST_1A\n   1024\n", b"\x89HDF\r\n\x1a\n", b"fLaC", b"FORM",
                          b"OggS", b"\x80\x02"])
        data = head + bytes(rr.randrange(256) for _ in range(n))
    else:
        k = rr.choice(KINDS)
        if rr.random() < 0.7:
            key = rr.choice([VALID_KEY[k], "m." + k, k])
        data = mutate(rr, contents[k][0])
        if k == "sph" and data[1024:1028] == b"ajkg":
            data = data[:1024] + b"\x00" + data[1025:]  # never wander into the shorten decoder (C13's)
    return key, data


# =====================================================================================================
# HDF5 trees: h5First vs read_signal
# =====================================================================================================

H5_NAMES = ["a", "b", "c", "A", "B", "a1", "a10", "a2", "Z", "z", "_", "0", "9", "a.b", "a b", "é", "aa", "ab", "-", "~",
            "data", "Data", "x", "y"]


def gen_tree(r, depth, ids):
    kids = []
    names = r.sample(H5_NAMES, r.choice([0, 1, 2, 2, 3, 4]))
    for nm in names:
        if depth >= 4 or r.random() < 0.45:
            if r.random() < 0.75:
                ids[0] += 1
                kids.append(["d", nm, ids[0]])
            else:
                kids.append(["g", nm, []])
        else:
            kids.append(["g", nm, gen_tree(r, depth + 1, ids)])
    return kids


def tree_tokens(kids, name="/"):
    out = ["(", enc(name)]
    for k in kids:
        if k[0] == "d":
            out += ["d", enc(k[1]), str(k[2])]
        else:
            out += tree_tokens(k[2], k[1])
    out.append(")")
    return out


def write_tree(f, kids):
    for k in kids:
        if k[0] == "d":
            f.create_dataset(k[1], data=np.array([k[2]], dtype=np.int64))
        else:
            write_tree(f.create_group(k[1]), k[2])


def first_dataset(kids):
    """independent statement: depth-first, members in ascending (code point) name order"""
    for k in sorted(kids, key=lambda k: k[1]):
        if k[0] == "d":
            return k[2]
        f = first_dataset(k[2])
        if f is not None:
            return f
    return None


def h5_phase(ctx, driver, root):
    import h5py

    u = util()
    r = ctx.rng
    lines, expect = [], []
    trees = [gen_tree(r, 0, [0]) for _ in range(ctx.scale(400, 6000))]
    trees[:0] = [[], [["g", "a", []]], [["d", "x", 1]], [["g", "b", [["d", "x", 1]]], ["g", "a", [["g", "e", []], ["g", "d", [["d", "f", 2], ["d", "E", 3]]]]], ["d", "g", 4]]]
    path = os.path.join(root, "tree.hdf5")
    for kids in trees:
        if ctx.out_of_time():
            break
        case = dict(kind="h5tree", tree=kids)
        ctx.case(case, kind="h5tree")
        with h5py.File(path, "w") as f:
            write_tree(f, kids)
        try:
            got = u.read_signal("tree.hdf5")
            got = int(got[0]) if isinstance(got, np.ndarray) and got.shape == (1,) else describe(got)
        except Exception as e:  # noqa
            got = "err:" + {"OSError": "IOError"}.get(type(e).__name__, type(e).__name__)
        want = first_dataset(kids)
        want = "err:IOError" if want is None else want
        if got != want:
            ctx.violation(case, want, got, ORACLES["key"], tags=dict(clause="hdf5_first_dataset"))
        lines.append("h5first " + " ".join(tree_tokens(kids)))
        expect.append((case, ("ok %d" % got) if isinstance(got, int) else got))
    if driver is None:
        return
    outs = driver.run(lines)
    ctx.corr_lines += len(lines)
    ctx.count("correspondence_lines", len(lines))
    for (case, impl), o in zip(expect, outs):
        if o != impl:
            ctx.mismatch(case, o, impl, "h5First vs read_signal on an HDF5 tree")


# =====================================================================================================


class Scratch:
    def __enter__(self):
        self.old = os.getcwd()
        self.root = tempfile.mkdtemp(prefix="pds_c11_", dir="/tmp")
        os.chdir(self.root)
        return self.root

    def __exit__(self, *a):
        os.chdir(self.old)
        shutil.rmtree(self.root, ignore_errors=True)


# =====================================================================================================
# the PCM frames of a wav file: `_wave_read_signal`'s own decoding (Model/WavFrames.lean)
# =====================================================================================================


def wav_file(path, width, chans, frames):
    import wave

    w = wave.open(path, "wb")
    w.setnchannels(chans)
    w.setsampwidth(width)
    w.setframerate(8000)
    w.writeframes(frames)
    w.close()


def wavframes_run(u, case, root):
    """write the case's frames with the standard library's `wave`, read them back by name and through a stream.
    Returns (frames bytes, [result or exception name per access path])."""
    width, chans, n = case["width"], case["channels"], case["n"]
    rs = np.random.RandomState(case["seed"])
    lo, hi = -(1 << (8 * width - 1)), (1 << (8 * width - 1)) - 1
    a = rs.randint(lo, hi + 1, size=(n, chans), dtype=np.int64)
    if n:
        a.flat[0], a.flat[-1] = lo, hi  # the extremes of the sample range
    frames = b"".join(int(v).to_bytes(width, "little", signed=True) for v in a.ravel())
    path = os.path.join(root, "frames.wav")
    wav_file(path, width, chans, frames)
    outs = []
    for acc in ("path", "stream"):
        try:
            if acc == "path":
                res = u.read_signal(path)
            else:
                with open(path, "rb") as f:
                    res = u.read_signal(f, force_as="wav")
            outs.append(res)
        except Exception as e:  # noqa
            outs.append("err:" + type(e).__name__)
    return a, frames, outs


def wavframes_check(ctx, case, a, outs):
    """the property's wav clause on the implementation (16- and 32-bit PCM)"""
    width, chans, n = case["width"], case["channels"], case["n"]
    if width not in (2, 4):
        return
    want_shape = (n, chans) if chans > 1 else (n,)
    want_dtype = {2: np.int16, 4: np.int32}[width]
    for acc, res in zip(("path", "stream"), outs):
        ok = (not isinstance(res, str) and res.shape == want_shape and res.dtype == want_dtype
              and np.array_equal(res.reshape(-1), a.reshape(-1)))
        if not ok:
            ctx.violation(dict(case, access=acc), dict(shape=list(want_shape), dtype=np.dtype(want_dtype).name, first=a.ravel()[:6].tolist()),
                          res if isinstance(res, str) else dict(shape=list(res.shape), dtype=str(res.dtype), first=res.ravel()[:6].tolist()),
                          "a 16-/32-bit PCM wav written with `wave` reads back bit-identically, shape time x channels ((time,) for mono)",
                          tags=dict(clause="roundtrip", container="wav_frames", access=acc))


def wavframes_model_agrees(case, frames, res, o):
    if o.startswith("err:"):
        return isinstance(res, str) and res == o
    if isinstance(res, str):
        return False
    _, shape, xs = o.split(" ")
    mshape = [] if shape == "-" else [int(t) for t in shape.split(",")]
    mxs = [] if xs == "-" else [int(t) for t in xs.split(",")]
    return list(res.shape) == mshape and [int(v) for v in res.reshape(-1)] == mxs


def wavframes_phase(ctx, driver, root):
    u = util()
    r = ctx.rng
    cases = []
    # every width NumPy can decode x channel counts x lengths around 0/1, then random ones; 24-bit is refused
    for width in (2, 4, 1, 3):
        for chans in (1, 2, 3, 6):
            for n in (0, 1, 2, 7):
                cases.append(dict(kind="wavframes", width=width, channels=chans, n=n, seed=r.randrange(1 << 30)))
    for _ in range(ctx.scale(60, 1500)):
        cases.append(dict(kind="wavframes", width=r.choice([2, 2, 4, 4, 1, 3]), channels=r.choice([1, 1, 2, 3, 4, 5, 6, 8]),
                          n=r.choice([0, 1, 2, 3, 10, 100, 257, 1000]), seed=r.randrange(1 << 30)))
    lines, pend = [], []
    for case in cases:
        if ctx.out_of_time():
            break
        a, frames, outs = wavframes_run(u, case, root)
        ctx.case(case, nontrivial=case["n"] > 0, kind="wavframes:w%d" % case["width"])
        wavframes_check(ctx, case, a, outs)
        lines.append("wavframes %d %d %s" % (case["width"], case["channels"], ",".join(str(b) for b in frames) or "-"))
        pend.append((case, frames, outs))
    if driver is None:
        return
    got = driver.run(lines)
    ctx.corr_lines += len(lines)
    ctx.count("correspondence_lines", len(lines))
    for (case, frames, outs), o in zip(pend, got):
        for acc, res in zip(("path", "stream"), outs):
            if o == "bad-op" or not wavframes_model_agrees(case, frames, res, o):
                ctx.mismatch(dict(case, access=acc), o[:200], res if isinstance(res, str) else dict(shape=list(res.shape), first=res.ravel()[:6].tolist()),
                             "_wave_read_signal on the frames `wave` returns: model vs implementation")


def run(ctx, driver):
    warnings.simplefilter("ignore")
    with Scratch() as root:
        wavframes_phase(ctx, driver, root)
        names_phase(ctx, driver, root)
        errors_phase(ctx, driver, root)
        roundtrip_phase(ctx, driver, root)
        h5_phase(ctx, driver, root)
        wds_phase(ctx, root)


def run_oracle_only(ctx):
    run(ctx, None)


def replay(rp):
    case = rp.get("case", {})
    print("case:", common.canon(case)[:1500])
    kind = case.get("kind")
    ctx = common.Ctx(PROP, "quick", 0, 600)
    u = util()
    drv = common.Driver(PROP)

    def model(line):
        try:
            print("model:", drv.run([line])[0])
        except Exception as e:  # noqa
            print("model: driver unavailable (%s)" % str(e)[:200])

    with Scratch() as root:
        if kind == "name":
            contents = probe_contents()
            name = case["name"]
            if case.get("via") == "wds":
                print("impl (wds_read_signal, per container written):", probe_wds(u, name, contents)[:2])
                model("wds %s %s 0" % (enc(name), extra_word(name)))
            else:
                if writable(name):
                    print("impl (read_signal on a file of that name, per container written):", probe_path(u, name, contents, root))
                model("read 0 %s ~ ~ ~ %s" % (enc(name), extra_word(name)))
            print("documented:", documented_kind(name, sf_types()))
        elif kind == "wavframes":
            a, frames, outs = wavframes_run(u, case, root)
            for acc, res in zip(("path", "stream"), outs):
                print("impl (%s):" % acc, res if isinstance(res, str) else describe(res))
            print("stored:", describe(a.astype({1: np.int8, 2: np.int16, 4: np.int32}.get(case["width"], np.int64))))
            wavframes_check(ctx, case, a, outs)
            model("wavframes %d %d %s" % (case["width"], case["channels"], ",".join(str(b) for b in frames) or "-"))
        elif kind == "roundtrip":
            lines, expect = [], []
            roundtrip_case(ctx, u, case, root, lines, expect)
            if case["container"] not in ("kaldi_table", "kaldi_input"):
                path, exp, fa, key, data = build(case, root)
                try:
                    got = read_case(u, case if not (case["container"] == "raw" and case["access"] == "path") else dict(case, access="forced"),
                                    path, fa, key if case["container"] != "raw" else None, data,
                                    case.get("dtype_arg") if case["container"] != "raw" else str(exp.dtype))
                    print("impl:", describe(got))
                except Exception as e:  # noqa
                    print("impl: %s: %s" % (type(e).__name__, str(e)[:200]))
                print("stored:", describe(exp) if exp is not None else None)
            for ln in lines:
                model(ln)
        elif kind == "error":
            contents = probe_contents()
            data = contents[case["content"]][0]
            try:
                if case["what"] == "stream_needs_force_as":
                    print("impl: returned", describe(u.read_signal(io.BytesIO(data))))
                elif case["what"] == "kaldi_on_stream":
                    with KaldiRecorder():
                        print("impl: returned", describe(u.read_signal(io.BytesIO(data), force_as=case["force_as"])))
                else:
                    print("impl: returned", describe(u.read_signal(io.BytesIO(data), force_as=case["force_as"])))
            except BaseException as e:  # noqa
                print("impl: %s: %s" % (type(e).__name__, str(e)[:200]))
            model("read 1 - %s ~ ~ -" % enc_opt(case.get("force_as")))
        elif kind == "wds":
            contents = probe_contents()
            if case["mode"] == "valid":
                key, data = case["key"], contents[case["content"]][0]
            else:
                key, data = wds_input(case, contents)
            print("key=%r, %d bytes, head=%r" % (key, len(data), data[:24]))
            try:
                print("impl: returned", describe(u.wds_read_signal(key, data)))
            except BaseException as e:  # noqa
                print("impl: RAISED %s: %s" % (type(e).__name__, str(e)[:200]))
            model("wds %s %s 0" % (enc(key), extra_word(key)))
        elif kind == "h5tree":
            import h5py

            with h5py.File(os.path.join(root, "tree.hdf5"), "w") as f:
                write_tree(f, case["tree"])
            try:
                print("impl:", describe(u.read_signal("tree.hdf5")))
            except Exception as e:  # noqa
                print("impl: %s: %s" % (type(e).__name__, str(e)[:200]))
            print("oracle (depth-first, ascending names):", first_dataset(case["tree"]))
            model("h5first " + " ".join(tree_tokens(case["tree"])))
    print("oracle:", rp.get("oracle"), "| expected", rp.get("expected"), "| got", rp.get("got"))
    print("re-run: %d oracle violations" % len(ctx.violations))
    for v in ctx.violations[:3]:
        print("  violation:", v["oracle"], v["tags"], "expected", v["expected"], "got", v["got"])
    return 1 if ctx.violations else 0

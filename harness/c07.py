"""C07 - impulse and frequency responses agree, within the advertised supports."""
import math

import numpy as np

from . import common
from .translate import banktime as tr

PROP = "C07"
MODULES = ["PdsVerif.Props.C07"]
MODEL_MODULES = ["PdsVerif.Model.BankTime"]
REQUIRED = ["PdsVerif.C07." + n for n in """
    impulse_real_iff zero_phase_flags
    tri_supports_straddle fbank_supports_straddle gabor_supports_straddle zero_phase_supports_straddle
    gabor_logenv_eq gabor_env_eq gabor_peak gabor_time_tail_iff gabor_time_tail gabor_support_tail
    gabor_raises_iff_peak_below
    gammatone_env_eq gammatone_env_mode gammatone_env_antitone_beyond_mode gammatone_time_tail
    newton_step_eq newton_step_moves_right newton_start_gt_mode newton_loop_sound env_le_at_Tstar
    newton_loop_terminates newton_terminates
    gammatone_causal_starts_at_0 gammatone_support_tail max_centered_support_shift
    tri_time_tail tri_time_tail_analytic tri_outside_support_far
    tri_impulse_closed_form tri_impulse_closed_form_zero tri_real_eq_two_re
    """.split()]
RULE = (
    "banks: 4 classes x {mel, bark, linear, octave} x rates {4000, 8000, 11025, 16000, 22050, 44100} x "
    "(low_hz, high_hz) ranges x num_filts x flags (analytic | scale_l2_norm, erb | order 1..8, max_centered); "
    "filters: first, last, middle and random ones of each bank; buffer widths per filter: "
    "W0 = ceil(max(temporal support, 2*rate/bandwidth)) and W0+1, about 1.5x, 2x, 3x and up to 4x the support, "
    "odd and even. A case is (bank configuration, filter, width); distinct by full tuple; all are non-trivial "
    "(each evaluates four oracle clauses on whole buffers). Correspondence lines: supports of every filter of "
    "every bank, the class table, impulse-response samples (inside, at the edge of, and outside the support)."
)
TRUSTED = [
    "translator harness/translate/banktime.py (filters.py/config.py -> Generated/BankTime.lean): arithmetic, "
    "complex exponents split into real part (log-envelope) and imaginary part (phase), class table",
    "hand-modelled control structure of Model/BankTime.lean: the Newton while-loop (fuel), the n == 1 branch, the "
    "store pattern of the get_impulse_response loops (images t and t - W; gammatone period range)",
    "np.abs(np.exp(z)) = exp(Re z); int() truncates toward zero; np.ceil/np.floor; `//` is floor division",
    "filter parameters (std, alpha, c) are read from the instance when the attributes exist, else recomputed from "
    "the constructor arguments by an independent replica (both paths cross-checked and counted on every bank); "
    "vertex / centre frequencies always come from the public supports_hz / centers_hz",
    "np.fft.ifft is the inverse DFT (oracle)",
]
ASSUMPTIONS = [
    "RESIDUE (oracle only, not proved): |IDFT(get_frequency_response) - get_impulse_response| <= 2*threshold is an "
    "aliasing/truncation bound (sum over the periodic images in time and in frequency); the theorems bound the "
    "principal image only. Same for the factor 2 (2.5) outside `supports` (`supports_hz`).",
    "the frequency-domain clause (outside supports_hz < 2.5*threshold) is tested by the oracle only here; its exact "
    "inequalities belong to C06 (gabor_outside_le_eps / gammatone_outside_le_eps)",
    "triangular: each image val(t)/denom of the closed form is proved <= threshold (real bank) / <= threshold/2 "
    "(analytic bank) at every sample outside `supports`; the buffer holds two images (t and t - W), their sum is "
    "tested only. Fbank (inverse FFT of sampled square roots of a mel triangle): `supports` is proved to straddle 0 "
    "for l < m < r, its time tail is tested only (every Fbank oracle case is counted as a hypothesis-gap case)",
    "theorem hypotheses: std > 0; alpha > 0, c > 0 (c = exp(log_c) in the constructor), order n >= 2 for the Newton "
    "branch (the n == 1 branch is modelled, outside the property); vertices l < m < r for the triangular banks; "
    "Gabor K > 0 needs peak > threshold (otherwise the constructor raises or returns K = 0: counted as gap)",
    "float evaluation of the Newton search may stop one iteration earlier/later than the real-number model; "
    "integer supports are compared allowing +-1 sample at such ties (counted)",
]
LEVEL_TEXT = (
    "Proved over the reals for all parameters, about definitions regenerated from filters.py on every run: supports of "
    "the zero-phase banks straddle 0 as computed (tri/Fbank (-(ceil(K/2)+1), floor(K/2)+1), Gabor (-K, K), K>0 iff "
    "the peak exceeds the threshold); Gabor envelope <= threshold iff |t| >= std*sqrt(R), hence outside `supports`; "
    "gammatone envelope c t^(n-1) e^(-alpha t): unique maximiser (n-1)/alpha, strictly decreasing beyond it; the "
    "uncapped Newton loop moves right by at least 1/alpha per step from a start beyond the mode and terminates "
    "within an explicit computable fuel; on exit every sample after the returned support is <= threshold and every "
    "sample at or before the left end is 0; causal supports start at 0; max_centered supports are the causal ones "
    "shifted by floor(-(n-1)/alpha); is_real iff not analytic (tri/Fbank), false for Gabor/gammatone, equal to the "
    "dtype returned; the triangular closed form (real and analytic, and the t = 0 term) equals the inverse Fourier "
    "integral of the triangle over C, and each of its images is below the threshold outside `supports`. The "
    "2*threshold IDFT agreement, the aliased sums and the Fbank time tail are oracle-tested only."
)
LEVEL_NOTE = (
    "Trusted: translator banktime.py, hand-modelled loop/store structure, float correspondence at 1e-9 relative, "
    "parameters std/alpha/c read from the instance (replica cross-check). Residue: aliasing/truncation bound "
    "(IDFT vs impulse within 2*threshold; sums of images) is testing only; Fbank time tail tested only."
)
TECHNIQUE = "Lean 4 proofs over translator-generated definitions (reals, Mathlib analysis) + Float correspondence + dense oracle"

EPS_FACT = dict(idft=2.0, time=2.0, freq=2.5)


def translate(repo):
    return tr.generate(repo)


# ------------------------------------------------------------------------------------------------
# bank configurations
# ------------------------------------------------------------------------------------------------
def scale_arg(name, low):
    if isinstance(name, dict):   # a fully specified scale (fixed corner configurations)
        return dict(name)
    if name == "linear":
        return dict(name="linear", low_hz=0.0, slope_hz=1.0)
    if name == "octave":
        return dict(name="octave", low_hz=max(low, 20.0))
    return name


def build(cfg):
    from pydrobert.speech import filters

    kind = cfg["bank"]
    common_kw = dict(num_filts=cfg["num_filts"], low_hz=cfg["low"], high_hz=cfg["high"], sampling_rate=cfg["rate"])
    sc = scale_arg(cfg["scale"], cfg["low"])
    if kind == "tri":
        return filters.TriangularOverlappingFilterBank(sc, analytic=cfg["analytic"], **common_kw)
    if kind == "fbank":
        return filters.Fbank(analytic=cfg["analytic"], **common_kw)
    if kind == "gabor":
        return filters.GaborFilterBank(sc, scale_l2_norm=cfg["l2"], erb=cfg["erb"], **common_kw)
    if kind == "gammatone":
        return filters.ComplexGammatoneFilterBank(sc, order=cfg["order"], max_centered=cfg["max_centered"],
                                                  scale_l2_norm=cfg["l2"], erb=cfg["erb"], **common_kw)
    raise ValueError(kind)


def gen_configs(ctx, n):
    r = ctx.rng
    out = []
    # a fixed corner set first (every class / flag combination at least once), then random ones
    fixed = []
    for kind in ("tri", "fbank"):
        for an in (False, True):
            fixed.append(dict(bank=kind, scale="mel", rate=8000, low=0.0, high=None, num_filts=11, analytic=an))
    for l2 in (False, True):
        for erb in (False, True):
            fixed.append(dict(bank="gabor", scale="mel", rate=8000, low=0.0, high=None, num_filts=11, l2=l2, erb=erb))
    for mc in (False, True):
        for erb in (False, True):
            for order in (3, 4, 6):
                fixed.append(dict(bank="gammatone", scale="mel", rate=8000, low=0.0, high=None, num_filts=7,
                                  order=order, max_centered=mc, l2=False, erb=erb))
    # a linear scale with slope != 1 and an offset: the bank layout goes through both directions of the scale
    for an in (False, True):
        fixed.append(dict(bank="tri", scale=dict(name="linear", low_hz=40.0, slope_hz=1.25), rate=8000, low=0.0, high=3000.0, num_filts=6, analytic=an))
    fixed.append(dict(bank="tri", scale=dict(name="linear", low_hz=10.0, slope_hz=2.0), rate=8000, low=100.0, high=None, num_filts=5, analytic=False))
    fixed.append(dict(bank="gabor", scale=dict(name="linear", low_hz=40.0, slope_hz=0.5), rate=8000, low=0.0, high=None, num_filts=7, l2=False, erb=False))
    fixed.append(dict(bank="gammatone", scale="mel", rate=16000, low=20.0, high=None, num_filts=5, order=6,
                      max_centered=True, l2=False, erb=False))
    fixed.append(dict(bank="gammatone", scale="bark", rate=8000, low=20.0, high=None, num_filts=5, order=2,
                      max_centered=True, l2=False, erb=False))
    fixed.append(dict(bank="gammatone", scale="mel", rate=8000, low=20.0, high=None, num_filts=5, order=1,
                      max_centered=False, l2=False, erb=False))
    fixed.append(dict(bank="gammatone", scale="mel", rate=8000, low=20.0, high=None, num_filts=5, order=4,
                      max_centered=True, l2=True, erb=True))
    if ctx.tier == "thorough":
        # systematic grid: every class x scale x rate x flag combination once (orders 3..8)
        for rate in (4000, 8000, 11025, 16000, 22050, 44100):
            for scale in ("mel", "bark", "linear", "octave"):
                low = 20.0 if scale == "octave" else 0.0
                for an in (False, True):
                    fixed.append(dict(bank="tri", scale=scale, rate=rate, low=low, high=None, num_filts=9, analytic=an))
                    if scale == "mel":
                        fixed.append(dict(bank="fbank", scale="mel", rate=rate, low=low, high=None, num_filts=9, analytic=an))
                for erb in (False, True):
                    for l2 in (False, True):
                        fixed.append(dict(bank="gabor", scale=scale, rate=rate, low=low, high=None, num_filts=9, l2=l2, erb=erb))
                    for mc in (False, True):
                        for order in (3, 4, 5, 6, 7, 8):
                            fixed.append(dict(bank="gammatone", scale=scale, rate=rate, low=low, high=None, num_filts=6,
                                              order=order, max_centered=mc, l2=False, erb=erb))
        ctx.extra["systematic_grid_banks"] = len(fixed)
    r.shuffle(fixed)
    out += fixed
    while len(out) < n:
        kind = r.choice(["tri", "fbank", "gabor", "gammatone", "gammatone"])
        rate = r.choice([4000, 8000, 11025, 16000, 22050, 44100])
        scale = "mel" if kind == "fbank" else r.choice(["mel", "bark", "linear", "octave"])
        low = r.choice([0.0, 20.0, 60.0, 133.3, float(r.randrange(0, 400))])
        nyq = rate // 2
        high = r.choice([None, None, float(nyq), float(nyq) - 100.0, float(nyq) * 0.75, float(nyq) / 2])
        if high is not None and high <= low + 200:
            high = None
        if scale == "octave":
            low = max(low, 20.0)  # the octave scale maps 0 Hz to -inf
        cfg = dict(bank=kind, scale=scale, rate=rate, low=low, high=high, num_filts=r.choice([1, 2, 3, 5, 8, 13, 24, 40]))
        if kind in ("tri", "fbank"):
            cfg["analytic"] = r.random() < 0.5
        elif kind == "gabor":
            cfg["l2"] = r.random() < 0.4
            cfg["erb"] = r.random() < 0.5
        else:
            cfg["order"] = r.choice([1, 2, 3, 3, 4, 4, 5, 6, 7, 8])
            cfg["max_centered"] = r.random() < 0.5
            cfg["l2"] = r.random() < 0.25
            cfg["erb"] = r.random() < 0.5
        out.append(cfg)
    return out[:n]


def in_property(cfg):
    """the property's quantifier: zero-phase banks, and gammatone of order >= 3 without L2 scaling"""
    if cfg["bank"] == "gammatone":
        return cfg["order"] >= 3 and not cfg["l2"]
    return True


# ------------------------------------------------------------------------------------------------
# filter parameters: from the instance when present, else an independent replica of the constructor
# ------------------------------------------------------------------------------------------------
def replica_params(cfg, bank):
    from pydrobert.speech import scales, config
    from pydrobert.speech.alias import alias_factory_subclass_from_arg
    from pydrobert.speech.util import hertz_to_angular

    sf = alias_factory_subclass_from_arg(scales.ScalingFunction, scale_arg(cfg["scale"], cfg["low"]))
    rate = cfg["rate"]
    high = cfg["high"] if cfg["high"] is not None else rate // 2
    nf = cfg["num_filts"]
    lo_s, hi_s = sf.hertz_to_scale(cfg["low"]), sf.hertz_to_scale(high)
    d = (hi_s - lo_s) / (nf + 1)
    edges = [sf.scale_to_hertz(lo_s + d * (i + 0.5)) for i in range(nf + 1)]
    res = []
    for a, b in zip(edges[:-1], edges[1:]):
        ctr = (a + b) / 2
        if cfg["bank"] == "gabor":
            bc = math.sqrt(math.pi) / 2 if cfg["erb"] else math.sqrt(0.3 * math.log(10))
            res.append(dict(std=bc / hertz_to_angular(ctr - a, rate)))
        else:
            n = cfg["order"]
            lf, ldf = math.log(math.factorial(n - 1)), math.log(math.factorial(2 * n - 2))
            if cfg["erb"]:
                ac = math.log(2) * (2 * n - 1) + 2 * lf - ldf - math.log(2 * math.pi)
            else:
                ac = -0.5 * math.log(4 * 2 ** (1 / n) - 4)
            la = ac + math.log(hertz_to_angular(b - a, rate))
            if cfg["l2"]:
                lc = n * (la + math.log(2)) - 0.5 * (math.log(2) + la + ldf)
            else:
                lc = n * la - lf
            res.append(dict(alpha=math.exp(la), c=math.exp(lc)))
    return res


def filter_params(ctx, cfg, bank):
    """list (one dict per filter) of the numbers the model's functions take"""
    from pydrobert.speech.util import hertz_to_angular

    rate = bank.sampling_rate
    nf = bank.num_filts
    out = []
    if cfg["bank"] in ("tri", "fbank"):
        for i in range(nf):
            lo, hi = bank.supports_hz[i]
            out.append(dict(l=float(hertz_to_angular(lo, rate)), m=float(hertz_to_angular(bank.centers_hz[i], rate)),
                            r=float(hertz_to_angular(hi, rate))))
        return out
    rep = None
    try:
        rep = replica_params(cfg, bank)
    except Exception as e:  # noqa
        ctx.count("replica_error:" + type(e).__name__)
    priv = None
    try:
        if cfg["bank"] == "gabor":
            priv = [dict(std=float(s)) for s in bank._stds]
        else:
            priv = [dict(alpha=float(a), c=float(c)) for a, c in zip(bank._alphas, bank._cs)]
        if len(priv) != nf:
            priv = None
    except AttributeError:
        ctx.count("params_from_replica")
    if priv is not None and rep is not None:
        ok = all(common.close(p[k], q[k], rel=1e-9) for p, q in zip(priv, rep) for k in p)
        ctx.count("replica_agrees" if ok else "replica_disagrees")
    src = priv if priv is not None else rep
    if src is None:
        return None
    for i in range(nf):
        d = dict(src[i])
        d["ca"] = float(hertz_to_angular(bank.centers_hz[i], rate))
        out.append(d)
    return out


# ------------------------------------------------------------------------------------------------
# property oracle (independent of the model)
# ------------------------------------------------------------------------------------------------
def widths_for(ctx, sup_len, wmin, cap):
    r = ctx.rng
    w0 = int(math.ceil(max(sup_len, wmin, 1)))
    top = max(w0, 4 * sup_len)
    cand = [w0, w0 + 1, int(1.5 * w0) | 1, 2 * w0, 3 * w0 + 1, top, top - 1, r.randrange(w0, top + 1)]
    out = []
    for w in cand:
        if w >= w0 and w <= max(top, w0 + 1) and w not in out:
            out.append(w)
    small = [w for w in out if w <= cap]
    return small, len(out) - len(small)


def temp_mask(left, right, W):
    """samples (modulo W) outside the closed support [left, right]"""
    mask = np.ones(W, dtype=bool)
    lp, rp = int(math.floor(left / W)), int(math.ceil(right / W))
    idx = np.arange(W)
    for p in range(lp, rp + 1):
        t = idx + p * W
        mask &= (t < left) | (t > right)
    return mask


def freq_mask(lo, hi, rate, W, real):
    mask = np.ones(W, dtype=bool)
    lp, rp = int(math.floor(lo / rate)), int(math.ceil(hi / rate))
    idx = np.arange(W)
    for p in range(lp, rp + 1):
        f = (idx / W + p) * rate
        mask &= (f < lo) | (f > hi)
    if real:
        mask[1:] &= mask[-1:0:-1].copy()
    return mask


def oracle_filter(ctx, cfg, bank, i, W, eps):
    """all clauses of the property on one (filter, width); returns the two buffers"""
    case = dict(cfg, filt=i, width=W)
    kind = cfg["bank"]
    tags = dict(bank=kind)
    if kind == "gammatone":
        tags.update(max_centered=cfg["max_centered"], erb=cfg["erb"], order=cfg["order"])
    left, right = bank.supports[i]
    lo, hi = bank.supports_hz[i]
    # a caller may do what it likes with the arrays it is handed (the test-suite squares them in place,
    # circshift_fourier(copy=False) rotates them): a later request on the same bank must not see that
    for scratch in (bank.get_impulse_response(i, W), bank.get_frequency_response(i, W),
                    bank.get_truncated_response(i, W)[1]):
        try:
            scratch[...] = 12345.0
        except (ValueError, TypeError):  # read-only results are fine too
            pass
    x = bank.get_impulse_response(i, W)
    X = bank.get_frequency_response(i, W)
    ctx.case(case, kind="oracle:" + kind)
    if kind == "fbank":
        ctx.gap_cases += 1  # no theorem covers the Fbank time tail
    if len(x) != W or len(X) != W:
        ctx.violation(case, W, [len(x), len(X)], "buffers have the requested width", tags=dict(tags, clause="width"))
        return x, X
    if not (np.all(np.isfinite(x)) and np.all(np.isfinite(X))):
        ctx.violation(case, "finite", "non-finite values", "responses are finite", tags=dict(tags, clause="finite"))
        return x, X
    d = float(np.max(np.abs(np.fft.ifft(X) - x)))
    ctx.extra["max_idft_err_over_eps"] = max(ctx.extra.get("max_idft_err_over_eps", 0.0), d / eps)
    if not d <= EPS_FACT["idft"] * eps:
        ctx.violation(case, "<= %g" % (EPS_FACT["idft"] * eps), d,
                      "|ifft(get_frequency_response(i, W)) - get_impulse_response(i, W)| <= 2*EFFECTIVE_SUPPORT_THRESHOLD",
                      tags=dict(tags, clause="idft"))
    is_real = bool(bank.is_real)
    realobj = bool(np.isrealobj(x))
    if realobj != is_real or (not is_real and not float(np.max(np.abs(np.imag(x)))) > 0.0):
        ctx.violation(case, is_real, dict(real_dtype=realobj, max_imag=float(np.max(np.abs(np.imag(x))))),
                      "impulse response is real exactly when is_real", tags=dict(tags, clause="real_iff"))
    tm = temp_mask(left, right, W)
    if tm.any():
        ctx.count("time_mask_nonempty")
        v = float(np.max(np.abs(x[tm])))
        ctx.extra["max_outside_time_over_eps"] = max(ctx.extra.get("max_outside_time_over_eps", 0.0), v / eps)
        if not v < EPS_FACT["time"] * eps:
            ctx.violation(case, "< %g" % (EPS_FACT["time"] * eps), v,
                          "|impulse response| outside `supports` (samples modulo W) < 2*threshold",
                          tags=dict(tags, clause="outside_time"))
    fm = freq_mask(lo, hi, bank.sampling_rate, W, is_real)
    if fm.any():
        ctx.count("freq_mask_nonempty")
        v = float(np.max(np.abs(X[fm])))
        ctx.extra["max_outside_freq_over_eps"] = max(ctx.extra.get("max_outside_freq_over_eps", 0.0), v / eps)
        if not v < EPS_FACT["freq"] * eps:
            ctx.violation(case, "< %g" % (EPS_FACT["freq"] * eps), v,
                          "|frequency response| outside `supports_hz` (Hz modulo rate, mirrored for real banks) < 2.5*threshold",
                          tags=dict(tags, clause="outside_freq"))
    return x, X


def oracle_supports(ctx, cfg, bank):
    kind = cfg["bank"]
    for i, (left, right) in enumerate(bank.supports):
        case = dict(cfg, filt=i)
        if bank.is_zero_phase:
            if not (left < 0 < right):
                ctx.violation(case, "left < 0 < right", [left, right], "zero-phase supports straddle sample 0",
                              tags=dict(bank=kind, clause="straddle"))
        elif kind == "gammatone" and not cfg["max_centered"]:
            if left != 0:
                ctx.violation(case, 0, left, "causal gammatone supports start at sample 0",
                              tags=dict(bank=kind, clause="causal_start"))
    if bool(bank.is_zero_phase) != (kind != "gammatone"):
        ctx.violation(dict(cfg), kind != "gammatone", bool(bank.is_zero_phase), "is_zero_phase: tri, Fbank, Gabor only",
                      tags=dict(bank=kind, clause="zero_phase_flag"))


def live_threshold_pass(ctx):
    """EFFECTIVE_SUPPORT_THRESHOLD is a documented configuration knob: banks built after it was changed advertise
    supports for the value in force.  Oracle only (the generated model carries the default): a fixed set of banks built
    under a lowered threshold must meet the property's bounds for that threshold."""
    from pydrobert.speech import config

    eps0 = config.EFFECTIVE_SUPPORT_THRESHOLD
    fixed = [dict(bank="tri", scale="mel", rate=8000, low=0.0, high=None, num_filts=7, analytic=False),
             dict(bank="fbank", scale="mel", rate=8000, low=0.0, high=None, num_filts=7, analytic=True),
             dict(bank="gabor", scale="mel", rate=8000, low=0.0, high=None, num_filts=7, l2=False, erb=False),
             dict(bank="gabor", scale="bark", rate=8000, low=0.0, high=None, num_filts=7, l2=False, erb=True)]
    for order in (3, 4, 6):
        for mc in (False, True):
            fixed.append(dict(bank="gammatone", scale="mel", rate=8000, low=0.0, high=None, num_filts=7, order=order,
                              max_centered=mc, l2=False, erb=order == 4))
    cap = 6000 if ctx.tier == "quick" else 20000
    try:
        for eps in (1e-4,) if ctx.tier == "quick" else (1e-4, 2e-3):
            config.EFFECTIVE_SUPPORT_THRESHOLD = eps
            for cfg0 in fixed:
                if ctx.out_of_time():
                    return
                cfg = dict(cfg0, threshold=eps)
                try:
                    bank = build(cfg)
                except Exception as e:
                    ctx.count("bank_ctor_error:" + type(e).__name__)
                    continue
                ctx.count("live_threshold_bank:" + cfg["bank"])
                oracle_supports(ctx, cfg, bank)
                for i in (0, bank.num_filts // 2, bank.num_filts - 1):
                    left, right = bank.supports[i]
                    lo, hi = bank.supports_hz[i]
                    if not (hi > lo) or right - left <= 0:
                        continue
                    w0 = int(math.ceil(max(right - left, 2.0 * bank.sampling_rate / (hi - lo), 1)))
                    for W in (w0,) if ctx.tier == "quick" else (w0, 2 * w0 + 1):
                        if W <= (2500 if ctx.tier == "quick" else cap):
                            oracle_filter(ctx, cfg, bank, i, W, eps)
                        else:
                            ctx.count("live_threshold_width_skipped")
    finally:
        config.EFFECTIVE_SUPPORT_THRESHOLD = eps0


# ------------------------------------------------------------------------------------------------
# run
# ------------------------------------------------------------------------------------------------
def fb(x):
    return common.fbits(x)


def b01(b):
    return "1" if b else "0"


def pick_filters(ctx, nf, k):
    r = ctx.rng
    s = {0, nf - 1, nf // 2}
    while len(s) < min(k, nf):
        s.add(r.randrange(nf))
    return sorted(s)[:k] if len(s) > k else sorted(s)


def run(ctx, driver):
    from pydrobert.speech import config

    eps = float(config.EFFECTIVE_SUPPORT_THRESHOLD)
    r = ctx.rng
    nb = ctx.scale(400, 5000)
    cap = 6000 if ctx.tier == "quick" else 20000
    per_bank_s = 1.5 if ctx.tier == "quick" else 3.0
    cfgs = gen_configs(ctx, nb)
    lines, checks = [], []  # checks: (case, kind, payload)

    def add(line, case, kind, payload):
        lines.append(line)
        checks.append((case, kind, payload))

    add("thr", dict(const="threshold"), "float", eps)
    for bk in ("tri", "fbank", "gabor", "gammatone"):
        for a in (False, True):
            for w in (False, True):
                add("tbl %s %s %s" % (bk, b01(a), b01(w)), dict(table=bk, analytic=a, wrap=w), "table", None)
    table_seen = {}
    import time as _t

    for cfg in cfgs:
        if ctx.out_of_time():
            break
        try:
            bank = build(cfg)
        except Exception as e:
            # Gabor: int(np.ceil(nan)) when the peak is already below the threshold; invalid ranges
            ctx.count("bank_ctor_error:" + type(e).__name__)
            ctx.count("out_of_scope")
            continue
        kind = cfg["bank"]
        scope = in_property(cfg)
        hz = [v for pr in bank.supports_hz for v in pr] + list(bank.centers_hz)
        if not all(math.isfinite(v) for v in hz) or any(not (a < b) for a, b in zip(bank.centers_hz, bank.centers_hz[1:])):
            ctx.count("out_of_scope")  # degenerate layout (non-finite or non-increasing frequencies)
            ctx.count("degenerate_layout")
            continue
        ctx.count("bank:" + kind + ("" if scope else ":outside_property"))
        nf = bank.num_filts
        rate = bank.sampling_rate
        params = filter_params(ctx, cfg, bank)
        # ---- class table (structural) ----------------------------------------------------------
        flags = (bool(bank.is_real), bool(bank.is_analytic), bool(bank.is_zero_phase))
        an = bool(cfg.get("analytic", False))
        wrap = (not bank.is_analytic) if kind in ("gabor", "gammatone") else False
        table_seen[(kind, an, wrap)] = flags
        # ---- supports of every filter: oracle + correspondence ----------------------------------
        if scope:
            oracle_supports(ctx, cfg, bank)
        if params is not None:
            for i in range(nf):
                p = params[i]
                sup = [int(bank.supports[i][0]), int(bank.supports[i][1])]
                case = dict(cfg, filt=i)
                if kind in ("tri", "fbank"):
                    add("%s %s %s %s" % ("trisup" if kind == "tri" else "fbsup", fb(p["l"]), fb(p["m"]), fb(p["r"])),
                        case, "support", sup)
                elif kind == "gabor":
                    add("gabsup %s %s" % (b01(cfg["l2"]), fb(p["std"])), case, "support", sup)
                else:
                    n = cfg["order"]
                    off = (-(n - 1) / p["alpha"]) if cfg["max_centered"] else 0.0
                    add("gtoff %s %s %s" % (b01(cfg["max_centered"]), fb(float(n)), fb(p["alpha"])), case, "float", off)
                    add("gtsup %s %s %s %s %s" % (b01(n == 1), fb(p["c"]), fb(p["alpha"]), fb(float(n)), fb(off)),
                        case, "gtsupport", sup)
        if not scope:
            ctx.count("out_of_scope")
            continue
        # ---- per filter / width: oracle on whole buffers, correspondence on sampled taps ---------
        t_bank = _t.time()
        for i in pick_filters(ctx, nf, 3 if ctx.tier == "quick" else 4):
            left, right = bank.supports[i]
            lo, hi = bank.supports_hz[i]
            if not (hi > lo) or right - left <= 0:
                ctx.count("degenerate_support")
                continue
            ws, skipped = widths_for(ctx, right - left, 2.0 * rate / (hi - lo), cap)
            ctx.count("widths_skipped_too_long", skipped)
            r.shuffle(ws)
            for W in ws[: (3 if ctx.tier == "quick" else 6)]:
                if _t.time() - t_bank > per_bank_s or ctx.out_of_time():
                    ctx.count("widths_skipped_time")
                    break
                ctx.count("width_parity:%s" % ("odd" if W % 2 else "even"))
                ctx.count("width_over_support:%d" % min(4, W // max(1, right - left)))
                x, X = oracle_filter(ctx, cfg, bank, i, W, eps)
                if params is None or len(x) != W:
                    continue
                p = params[i]
                ks = {0, 1, W - 1, W // 2, right % W, (right + 1) % W, left % W, (left - 1) % W}
                while len(ks) < min(12, W):
                    ks.add(r.randrange(W))
                for k in sorted(ks):
                    case = dict(cfg, filt=i, width=W, sample=k)
                    val = [float(np.real(x[k])), float(np.imag(x[k]))]
                    scale = max(float(np.max(np.abs(x))), 1e-300)
                    if kind == "gabor":
                        add("gabimp %s %s %s %d %d" % (b01(cfg["l2"]), fb(p["std"]), fb(p["ca"]), k, W), case, "cpx", (val, scale))
                    elif kind == "gammatone":
                        n = cfg["order"]
                        off = (-(n - 1) / p["alpha"]) if cfg["max_centered"] else 0.0
                        add("gtimp %s %s %s %s %s %d %d %d %d" % (fb(p["c"]), fb(p["alpha"]), fb(float(n)), fb(p["ca"]), fb(off),
                                                                   left, right, W, k), case, "cpx", (val, scale))
                    elif kind == "tri":
                        add("triimp %s %s %s %s %d %d" % (b01(cfg["analytic"]), fb(p["l"]), fb(p["m"]), fb(p["r"]), k, W),
                            case, "cpx", (val, scale))
    # ---- the threshold is a live configuration knob ---------------------------------------------------
    live_threshold_pass(ctx)
    # ---- run the model ----------------------------------------------------------------------------
    outs = driver.run(lines)
    ctx.corr_lines += len(lines)
    ctx.count("correspondence_lines", len(lines))
    for (case, kind, payload), o in zip(checks, outs):
        ctx.count("corr:" + kind)
        if o == "bad-op":
            ctx.mismatch(case, o, payload, "driver rejected the line")
            continue
        if kind == "float":
            mv = common.bits_to_float(o)
            if not common.close(mv, payload, rel=1e-12, abs_=0.0):
                ctx.mismatch(case, mv, payload, "generated constant / expression vs implementation")
        elif kind == "table":
            key = (case["table"], case["analytic"], case["wrap"])
            got = [t == "1" for t in o.split()]
            if len(got) != 4 or got[0] != got[3]:
                ctx.mismatch(case, o, None, "model table: impulse dtype real must equal is_real")
            if key in table_seen and tuple(got[:3]) != table_seen[key]:
                ctx.mismatch(case, got[:3], list(table_seen[key]), "is_real / is_analytic / is_zero_phase: model table vs implementation")
        elif kind == "support":
            if o.startswith("err"):
                ctx.mismatch(case, o, payload, "model raises where the implementation returned a support")
                continue
            got = [int(t) for t in o.split()]
            if got != payload:
                if max(abs(got[0] - payload[0]), abs(got[1] - payload[1])) <= 1:
                    ctx.count("support_off_by_one_float_tie")
                else:
                    ctx.mismatch(case, got, payload, "supports: model vs implementation")
        elif kind == "gtsupport":
            if o == "nofuel":
                ctx.mismatch(case, o, payload, "Newton search: the proved fuel bound did not suffice at Float")
                continue
            t = o.split()
            got = [int(t[0]), int(t[1])]
            ctx.count("newton_iters:%d" % min(int(t[2]), 40))
            ctx.extra["max_newton_fuel"] = max(ctx.extra.get("max_newton_fuel", 0), int(t[3]))
            ctx.extra["max_newton_iters"] = max(ctx.extra.get("max_newton_iters", 0), int(t[2]))
            if got != payload:
                if got[0] == payload[0] and abs(got[1] - payload[1]) <= 1:
                    ctx.count("support_off_by_one_float_tie")
                else:
                    ctx.mismatch(case, got, payload, "gammatone supports (Newton search): model vs implementation")
        elif kind == "cpx":
            (val, scale) = payload
            t = o.split()
            mv = [common.bits_to_float(t[0]), common.bits_to_float(t[1])]
            tol = 1e-9 * scale
            if not (abs(mv[0] - val[0]) <= tol and abs(mv[1] - val[1]) <= tol):
                ctx.mismatch(case, mv, val, "impulse response sample: model vs implementation (1e-9 of the peak)")


# ------------------------------------------------------------------------------------------------
def replay(rp):
    from pydrobert.speech import config

    case = rp.get("case", {})
    print(common.canon(case))
    if "bank" not in case:
        print("oracle:", rp.get("oracle"), "expected", rp.get("expected"), "got", rp.get("got"))
        return 0
    cfg = {k: v for k, v in case.items() if k not in ("filt", "width", "sample")}
    if case.get("threshold") is not None:
        # recorded under a changed configuration knob (live_threshold_pass): set it before the bank is built
        config.EFFECTIVE_SUPPORT_THRESHOLD = case["threshold"]
    bank = build(cfg)
    eps = float(config.EFFECTIVE_SUPPORT_THRESHOLD)
    i = case.get("filt", 0)
    print("impl: supports[%d]=%r supports_hz=%r is_real=%r is_zero_phase=%r" % (
        i, bank.supports[i], bank.supports_hz[i], bank.is_real, bank.is_zero_phase))
    ctx = common.Ctx(PROP, "quick", 0, 600)
    oracle_supports(ctx, cfg, bank)
    if "width" in case:
        W = case["width"]
        x, X = oracle_filter(ctx, cfg, bank, i, W, eps)
        left, right = bank.supports[i]
        tm = temp_mask(left, right, W)
        print("impl: width=%d  max|ifft(X)-x|=%.3g (%.2f eps)  max|x| outside supports=%.3g eps" % (
            W, float(np.max(np.abs(np.fft.ifft(X) - x))), float(np.max(np.abs(np.fft.ifft(X) - x))) / eps,
            (float(np.max(np.abs(x[tm]))) / eps) if tm.any() else 0.0))
    for v in ctx.violations:
        print("oracle FAILS:", v["oracle"], "expected", v["expected"], "got", v["got"])
    if not ctx.violations:
        print("oracle holds on this case")
    print("recorded:", rp.get("oracle"), "expected", rp.get("expected"), "got", rp.get("got"))
    return 1 if ctx.violations else 0

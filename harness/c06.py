"""C06 - frequency-domain representations of a filter agree."""
import math
from fractions import Fraction

import numpy as np

from . import common

PROP = "C06"
MODULES = ["PdsVerif.Props.C06"]
MODEL_MODULES = ["PdsVerif.Model.BankIndex"]
REQUIRED = ["PdsVerif.C06." + n for n in """halfLen_doc compact_defined start_in_range trunc_values trunc_len_le
    real_within_half rebuildComplex_get rebuildReal_get real_hermitian rebuild_eq_full_tri rebuild_eq_full_fbank
    half_is_prefix half_is_prefix_periodic analytic_neg_zero full_hermitian start_in_range_periodic
    trunc_len_le_periodic gabor_no_fallback_narrow gammatone_no_fallback_narrow fallback_whole_period
    periodic_rebuild_get periodic_periods gabor_outside_le_eps gabor_wrap_le gabor_diff_le_wrap gabor_far_le
    gammatone_outside_le_eps gammatone_wrap_le gammatone_diff_le_wrap gabor_within_2eps gammatone_within_2eps
    lattice_in_support_iff tap_period_mem""".split()]
RULE = (
    "library banks: 6 kinds (triangular / Fbank real and analytic, Gabor, complex gammatone) x 4 scales x rates "
    "(500 Hz .. 48 kHz, integer and fractional) x (low, high) ranges incl. the exact Nyquist x num_filts 1..40 "
    "(1..3 force supports wider than the period: whole-period fallback / wrap-around) x flags (analytic, erb, "
    "scale_l2_norm, order 1..6, max_centered); per bank the first, last, a middle and a random filter; per filter DFT "
    "widths 2..9 exhaustively sampled, powers of two and their odd neighbours up to 4096, and random widths. "
    "A case is (bank spec, filter, width): distinct by that tuple; all non-trivial. Recipes: every (W <= 12|20, start, "
    "len) with integer taps against NumPy's slice assignment, including shapes NumPy rejects."
)
TRUSTED = [
    "abstract sample values: both methods evaluate the same expression of the bin index (hz = rate*idx/width and the "
    "triangle / mel-triangle); this is compared value-for-value by the correspondence (which tap sits in which bin)",
    "NumPy basic slicing / slice assignment semantics as modelled (normBound, setSlice incl. length-1 broadcast and "
    "shape-mismatch ValueError), exercised exhaustively for small widths by the `recipe` correspondence",
    "support edges enter the model as the exact rationals of the floats returned by the public supports_hz / "
    "sampling_rate; float evaluation of width*f/rate is compared with the exact ceil/floor and may legitimately differ "
    "only when width*f/rate is within 1e-9 of an integer (counted as float_boundary)",
    "for the Gabor / gammatone fallback predicate and support constants the harness re-derives std / alpha / c from the "
    "constructor arguments (documented layout) and feeds them to the Lean Float model, whose diff_ang is compared with "
    "the public supports_hz at 1e-9",
]
ASSUMPTIONS = [
    "CompactOK: filter edges 0 <= low <= high <= rate/2 as exact fractions (float vertices that overshoot Nyquist by an "
    "ulp are counted as hypothesis_gap_cases; the model still evaluates them and is compared)",
    "gabor/gammatone <= 2*EFFECTIVE_SUPPORT_THRESHOLD: proved over the reals for every frequency x and every sub-list of "
    "the periods -1,0,1 (gabor_within_2eps needs peak >= eps, true of every constructible bank; both need 'fallback not "
    "taken'); the identification bin b <-> x = 2*pi*b/W, float supports_ang <-> centre +- diff_ang and the round-off of the "
    "response values are not in a theorem (glue lemmas lattice_in_support_iff, tap_period_mem, periodic_rebuild_get, "
    "periodic_periods are) - the oracle checks the assembled claim on the implementation",
    "Fbank: truncated takes the square root of the whole array, full of each scalar; NumPy's two pow paths differ by "
    "<= 1 ulp, so 'identical' is checked at 1e-12 absolute (exact equality is counted)",
    "float round-off of the response values themselves is outside every theorem",
]
LEVEL_TEXT = (
    "Proved for every width >= 2 and every support 0 <= low <= high <= Nyquist (no bounds): both asserts hold, start bin "
    "in [0,W), truncated length <= W and start+len <= W/2+1, recipe(truncated) = full response bin for bin for the "
    "triangular and Fbank banks (real: mirror recipe with the bin_idx=0 special case, analytic: wrap recipe), half=True "
    "is the prefix of documented length (= rfft length), Hermitian symmetry, analytic banks zero above Nyquist; what the "
    "wrap / mirror recipes (NumPy slice assignments) put in every bin; Gabor / gammatone: start = left_idx mod W in range, "
    "fallback predicate => support narrower than a period => len <= W and taps on distinct bins, fallback returns the "
    "full response unchanged, the periods summed; over the reals: a principal image outside supports_ang is <= eps "
    "(Gabor with/without l2 norm; gammatone any order/offset, complex H), <= eps/sqrt2 resp. eps/2 outside the wrap "
    "support, <= eps/4 two wrap radii away (Gabor), and - fallback not taken - the sum of the periodic images differs from "
    "the image inside the support (or from 0 when none is) by <= 2 eps for every frequency. Not in a theorem: float "
    "round-off of edges and values (the assembled '<= 2 eps' on arrays is oracle-tested)."
)
LEVEL_NOTE = (
    "Trusted: NumPy slice-assignment semantics as modelled (tested exhaustively for small widths), exact-rational reading "
    "of the float edges (float ceil/floor at exact multiples counted separately), harness re-derivation of std/alpha for "
    "the fallback predicate. Values are abstract; round-off is outside the theorems."
)
TECHNIQUE = "Lean 4 proofs (write-sequence / slice-assignment closed forms, omega; real analysis for the support radii and the sum of periodic images) + exact index correspondence"

EPS_NAME = "EFFECTIVE_SUPPORT_THRESHOLD"


# ------------------------------------------------------------------------------------------------
# bank specs (JSON-able) and construction


def make_scale(spec):
    from pydrobert.speech import scales

    name = spec["name"]
    if name == "mel":
        return scales.MelScaling()
    if name == "bark":
        return scales.BarkScaling()
    if name == "linear":
        return scales.LinearScaling(spec["low_hz"], spec.get("slope_hz", 1.0))
    if name == "octave":
        return scales.OctaveScaling(spec["low_hz"])
    raise ValueError(name)


def make_bank(spec):
    from pydrobert.speech import filters

    kind = spec["kind"]
    common_kw = dict(num_filts=spec["num_filts"], high_hz=spec["high_hz"], low_hz=spec["low_hz"],
                     sampling_rate=spec["rate"])
    if kind == "tri":
        return filters.TriangularOverlappingFilterBank(make_scale(spec["scale"]), analytic=spec["analytic"], **common_kw)
    if kind == "fbank":
        return filters.Fbank(analytic=spec["analytic"], **common_kw)
    if kind == "gabor":
        return filters.GaborFilterBank(make_scale(spec["scale"]), scale_l2_norm=spec["l2"], erb=spec["erb"], **common_kw)
    if kind == "gammatone":
        return filters.ComplexGammatoneFilterBank(make_scale(spec["scale"]), scale_l2_norm=spec["l2"], erb=spec["erb"],
                                                  order=spec["order"], max_centered=spec["max_centered"], **common_kw)
    raise ValueError(kind)


def random_spec(r):
    kind = r.choice(["tri", "tri", "fbank", "fbank", "gabor", "gabor", "gammatone", "gammatone"])
    rate = r.choice([500, 2000, 8000, 8000, 11025, 16000, 16000, 22050, 44100, 48000, 7999.5, round(r.uniform(1000, 20000), 3)])
    nyq = rate / 2
    lo = r.choice([0.0, 0.0, 20.0, 20.0, 100.0, 300.0, round(r.uniform(0, nyq / 3), 2)])
    hi = r.choice([None, None, nyq, float(int(nyq)), nyq * 0.75, round(r.uniform(lo + nyq / 4, nyq), 2)])
    if kind == "tri" and r.random() < 0.15:
        # the triangular bank accepts high_hz up to 1 Hz above the Nyquist frequency (and clamps it)
        hi = nyq + r.choice([1.0, 0.5, round(r.uniform(0.0, 1.0), 3)])
    if kind != "tri" and hi is not None and hi > rate // 2:
        hi = float(rate // 2)
    if hi is not None and hi <= lo:
        hi = None
    sname = r.choice(["mel", "bark", "linear", "octave"])
    if sname == "linear":
        scale = dict(name="linear", low_hz=r.choice([0.0, lo, 50.0]), slope_hz=r.choice([1.0, 1.0, 0.01, 3.5]))
    elif sname == "octave":
        scale = dict(name="octave", low_hz=r.choice([20.0, 55.0, 1.0]))
        if lo < 1.0:
            lo = r.choice([20.0, 30.0, 100.0])
            if hi is not None and hi <= lo:
                hi = None
    else:
        scale = dict(name=sname)
    if kind == "gammatone":  # polynomial tails: only narrow filters avoid the whole-period fallback
        nf = r.choice([1, 2, 3, 5, 10, 23, 40, 40, 64, 64, 100, 128])
    elif kind == "gabor":  # Gaussian tails: only the widest filters reach it
        nf = r.choice([1, 1, 1, 1, 2, 2, 3, 5, 8, 10, 23, 40])
    else:
        nf = r.choice([1, 1, 2, 2, 3, 3, 5, 8, 10, 23, 40])
    if kind == "gabor" and nf == 1 and r.random() < 0.5:
        scale = dict(name="linear", low_hz=0.0, slope_hz=1.0)
    spec = dict(kind=kind, rate=rate, low_hz=lo, high_hz=hi, num_filts=nf)
    if kind in ("tri", "fbank") and r.random() < 0.2:
        # outermost vertices placed exactly on bins of some width W (and of its multiples)
        W = r.choice([24, 40, 88, 100, 250, 360])
        ka = r.randrange(0, W // 8)
        kb = r.randrange(W // 4, W // 2)
        spec["low_hz"], spec["high_hz"] = max(ka * rate / W, spec["low_hz"] if kind != "fbank" and sname == "octave" else 0.0), kb * rate / W
        if spec["high_hz"] > spec["low_hz"]:
            spec["widths"] = [W, 2 * W, 5 * W]
            spec["filts"] = [nf - 1, 0]
    if kind == "fbank":
        spec["analytic"] = r.random() < 0.5
    else:
        spec["scale"] = scale
    if kind == "tri":
        spec["analytic"] = r.random() < 0.5
    if kind in ("gabor", "gammatone"):
        spec["l2"] = r.random() < 0.4
        spec["erb"] = r.random() < 0.4
    if kind == "gammatone":
        spec["order"] = r.choice([1, 2, 3, 4, 4, 4, 5, 5, 6, 6])
        spec["max_centered"] = r.random() < 0.4
    return spec


FIXED_SPECS = [
    # exact multiples: vertices 0, 1000, 2000, 3000, 4000 Hz at 8 kHz (width*f/rate integral for widths = 0 mod 8)
    dict(kind="tri", rate=8000, low_hz=0.0, high_hz=4000.0, num_filts=3, scale=dict(name="linear", low_hz=0.0, slope_hz=1.0), analytic=False),
    dict(kind="tri", rate=8000, low_hz=0.0, high_hz=4000.0, num_filts=3, scale=dict(name="linear", low_hz=0.0, slope_hz=1.0), analytic=True),
    dict(kind="tri", rate=16000, low_hz=20.0, high_hz=None, num_filts=40, scale=dict(name="mel"), analytic=False),
    dict(kind="fbank", rate=16000, low_hz=20.0, high_hz=None, num_filts=40, analytic=False),
    dict(kind="fbank", rate=8000, low_hz=0.0, high_hz=4000.0, num_filts=1, analytic=True),
    # high_hz within 1 Hz above the Nyquist frequency (accepted, clamped), with odd widths that have a bin between the
    # Nyquist frequency and high_hz (width > rate / (2 (high - nyq)))
    dict(kind="tri", rate=100, low_hz=5.0, high_hz=51.0, num_filts=3, scale=dict(name="linear", low_hz=0.0, slope_hz=1.0),
         analytic=False, widths=[51, 53, 101, 64, 201]),
    dict(kind="tri", rate=100, low_hz=5.0, high_hz=50.5, num_filts=4, scale=dict(name="mel"), analytic=True, widths=[101, 103, 128, 257]),
    dict(kind="tri", rate=8000, low_hz=20.0, high_hz=4001.0, num_filts=6, scale=dict(name="mel"), analytic=False, widths=[4001, 4003, 8193], filts=[5, 4]),
    # an edge exactly on a bin frequency at a fractional sampling rate (finding: float-unsafe asserts raised)
    dict(kind="tri", rate=13101.77, low_hz=300.0, high_hz=6550.885, num_filts=5, scale=dict(name="linear", low_hz=300.0, slope_hz=1.0),
         analytic=False, widths=[6, 12, 18], filts=[4]),
    dict(kind="fbank", rate=13101.77, low_hz=0.0, high_hz=None, num_filts=4, analytic=False, widths=[6, 10]),
    # the bank's outermost vertices exactly on DFT bins (3000 Hz = bin 33 of 88 at 8 kHz, 64 Hz = bin 2 of 250, ...): the
    # response there is exactly 0 - a bin frequency computed one ulp off lands outside the triangle
    dict(kind="fbank", rate=8000, low_hz=64.0, high_hz=3000.0, num_filts=20, analytic=False, widths=[88, 176, 250, 352, 440], filts=[19, 0]),
    dict(kind="fbank", rate=16000, low_hz=20.0, high_hz=3700.0, num_filts=23, analytic=False, widths=[160, 320, 800, 1600], filts=[22]),
    dict(kind="fbank", rate=48000, low_hz=60.0, high_hz=3000.0, num_filts=10, analytic=True, widths=[16, 80, 400, 800], filts=[9, 0]),
    dict(kind="tri", rate=8000, low_hz=64.0, high_hz=3000.0, num_filts=7, scale=dict(name="mel"), analytic=False, widths=[88, 176, 250, 440], filts=[6, 0]),
    # low_hz above the (default) top edge: the documented ValueError (finding F-C06: Fbank used to accept it)
    dict(kind="fbank", rate=500, low_hz=300.0, high_hz=None, num_filts=3, analytic=False),
    dict(kind="fbank", rate=500, low_hz=300.0, high_hz=None, num_filts=10, analytic=True),
    dict(kind="gabor", rate=16000, low_hz=20.0, high_hz=None, num_filts=40, scale=dict(name="mel"), l2=False, erb=False),
    dict(kind="gabor", rate=8000, low_hz=0.0, high_hz=None, num_filts=1, scale=dict(name="bark"), l2=True, erb=False),
    # supports wider than the period: whole-period fallback
    dict(kind="gabor", rate=8000, low_hz=0.0, high_hz=None, num_filts=1, scale=dict(name="linear", low_hz=0.0, slope_hz=1.0), l2=False, erb=False),
    dict(kind="gabor", rate=16000, low_hz=0.0, high_hz=None, num_filts=1, scale=dict(name="linear", low_hz=0.0, slope_hz=1.0), l2=True, erb=True),
    dict(kind="gabor", rate=2000, low_hz=100.0, high_hz=None, num_filts=2, scale=dict(name="mel"), l2=False, erb=False),
    dict(kind="gabor", rate=8000, low_hz=0.0, high_hz=None, num_filts=2, scale=dict(name="linear", low_hz=0.0, slope_hz=1.0), l2=False, erb=True),
    dict(kind="gammatone", rate=16000, low_hz=20.0, high_hz=None, num_filts=40, scale=dict(name="mel"), l2=False, erb=False, order=4, max_centered=False),
    dict(kind="gammatone", rate=8000, low_hz=0.0, high_hz=None, num_filts=1, scale=dict(name="mel"), l2=True, erb=True, order=2, max_centered=True),
    dict(kind="gammatone", rate=2000, low_hz=0.0, high_hz=None, num_filts=2, scale=dict(name="bark"), l2=False, erb=False, order=6, max_centered=False),
]

SMALL_W = list(range(2, 10))
EDGE_W = [15, 16, 17, 31, 32, 33, 63, 64, 65, 100, 127, 128, 129, 255, 256, 257, 400, 511, 512, 513, 1000, 1023, 1024,
          1025, 2047, 2048, 2049, 3001, 4095, 4096]


def pick_widths(r, n_small, n_edge, n_big):
    ws = set(r.sample(SMALL_W, n_small))
    ws |= set(r.sample([w for w in EDGE_W if w <= 600], n_edge))
    for _ in range(n_big):
        ws.add(r.choice([w for w in EDGE_W if w > 600] + [r.randrange(600, 4097)]))
    ws.add(r.randrange(10, 600))
    return sorted(ws)


# ------------------------------------------------------------------------------------------------
# the documented recipes (LinearFilterBank.get_truncated_response docstring), literally


def recipe_complex(width, bin_idx, trnc):
    full = np.zeros(width, dtype=trnc.dtype)
    wrap = min(bin_idx + len(trnc), width) - bin_idx
    full[bin_idx:bin_idx + wrap] = trnc[:wrap]
    full[:len(trnc) - wrap] = trnc[wrap:]
    return full


def recipe_real(width, bin_idx, trnc):
    full = np.zeros(width, dtype=trnc.dtype)
    full[bin_idx:bin_idx + len(trnc)] = trnc
    full[width - bin_idx - len(trnc) + 1:width - bin_idx + 1] = trnc[:None if bin_idx else 0:-1].conj()
    return full


def recipe_half(width, bin_idx, trnc):
    half_width = (width + width % 2) // 2 + 1 - width % 2
    half = np.zeros(half_width, dtype=trnc.dtype)
    half[bin_idx:bin_idx + len(trnc)] = trnc
    return half


# ------------------------------------------------------------------------------------------------
# independent layout of the Gabor / gammatone constants (documented construction; no private attribute)


def layout(spec, bank):
    """per filter: dict(center_ang, std | (order, log_peak, log_alpha)) re-derived from the constructor arguments"""
    rate = spec["rate"]
    sc = make_scale(spec["scale"])
    n = spec["num_filts"]
    high = spec["high_hz"] if spec["high_hz"] is not None else rate // 2
    s_lo, s_hi = sc.hertz_to_scale(spec["low_hz"]), sc.hertz_to_scale(high)
    delta = (s_hi - s_lo) / (n + 1)
    edges = [sc.scale_to_hertz(s_lo + delta * (i + 0.5)) for i in range(n + 1)]
    two_pi = 2 * np.pi
    out = []
    for left, right in zip(edges[:-1], edges[1:]):
        center = (left + right) / 2
        d = dict(center_ang=center * two_pi / rate)
        if spec["kind"] == "gabor":
            bconst = np.sqrt(np.pi) / 2 if spec["erb"] else np.sqrt(3 / 10 * np.log(10))
            d["std"] = float(bconst / ((center - left) * two_pi / rate))
        else:
            order = spec["order"]
            lf = np.log(math.factorial(order - 1))
            ldf = np.log(math.factorial(2 * order - 2))
            if spec["erb"]:
                ac = np.log(2) * (2 * order - 1) + 2 * lf - ldf - np.log(two_pi)
            else:
                ac = -0.5 * np.log(4 * (2 ** (1 / order)) - 4)
            la = ac + np.log((right - left) * two_pi / rate)
            if spec["l2"]:
                lc = order * (la + np.log(2)) - 0.5 * (np.log(2) + la + ldf)
            else:
                lc = order * la - lf
            d.update(order=order, log_alpha=float(la), log_peak=float(lc + lf))
        out.append(d)
    return out


def frac(x):
    f = Fraction(float(x))
    return f


def fs(f):
    return "%d/%d" % (f.numerator, f.denominator)


# ------------------------------------------------------------------------------------------------
# oracle on the implementation


def oracle_case(ctx, bank, spec, i, W, eps):
    """Independent statement of the property on (bank, filter i, width W). Returns observed data."""
    kind = spec["kind"]
    compact = kind in ("tri", "fbank")
    case = dict(bank=spec, filt=i, width=W)
    tags = dict(bank=kind)
    top = spec["high_hz"] if spec["high_hz"] is not None else (spec["rate"] / 2 if kind == "tri" else spec["rate"] // 2)
    if not spec["low_hz"] < top:
        tags["range"] = "inverted"  # low_hz >= high_hz: the constructor is documented to raise ValueError

    def viol(expected, got, text, clause):
        ctx.violation(case, expected, got, text, tags=dict(tags, clause=clause))

    try:
        b, tr = bank.get_truncated_response(i, W)
        full = bank.get_frequency_response(i, W)
        # `half` is the third parameter of the documented signature: given by keyword or by position
        half = bank.get_frequency_response(i, W, half=True) if (i + W) % 2 else bank.get_frequency_response(i, W, True)
        if (i + W) % 3 == 0:
            # what a method returns belongs to the caller: it may be overwritten (normalised in place, squared, ...) without
            # any effect on what the bank answers next
            keep = (np.array(tr, copy=True), np.array(full, copy=True), np.array(half, copy=True))
            for arr in (tr, full, half):
                arr = np.asarray(arr)
                if arr.flags.writeable and arr.size:
                    arr *= 0
                    arr += 7
            b2, tr = bank.get_truncated_response(i, W)
            full = bank.get_frequency_response(i, W)
            half = bank.get_frequency_response(i, W, half=True)
            ctx.count("caller_overwrote_results")
            if b2 != b or any(np.shape(a0) != np.shape(a1) or not np.array_equal(np.asarray(a0), np.asarray(a1))
                              for a0, a1 in zip(keep, (tr, full, half))):
                viol("the same answers as before", "different after the caller overwrote the arrays it had been given",
                     "responses do not depend on what callers did with earlier results", "results_owned_by_caller")
                tr, full, half = keep
    except Exception as e:  # noqa
        tags["exc"] = type(e).__name__
        viol("no exception", "%s: %s" % (type(e).__name__, e), "frequency-domain methods raise", "raises")
        return None
    tr = np.asarray(tr)
    ok_int = isinstance(b, (int, np.integer))
    if not ok_int or not (0 <= b < W):
        viol("0 <= bin_idx < width", repr(b), "start bin lies in [0, width)", "start_in_range")
        return None
    b = int(b)
    if len(full) != W:
        viol(W, len(full), "full response has width bins", "full_len")
        return None
    for nm, arr in (("truncated", tr), ("full", full), ("half", half)):
        if not np.all(np.isfinite(arr)):
            viol("finite", nm, "all values finite", "finite")
            return None
    if bank.is_real and b + len(tr) > W // 2 + 1:
        viol("bin_idx + len <= width//2 + 1", [b, len(tr)], "a real bank's truncated response stays within the half spectrum",
             "real_within_half")
    # recipe
    try:
        rb = recipe_real(W, b, tr) if bank.is_real else recipe_complex(W, b, tr)
    except Exception as e:  # noqa
        viol("recipe applies", "%s: %s" % (type(e).__name__, e), "documented rebuild recipe raises", "recipe_raises")
        rb = None
    if rb is not None:
        d = float(np.max(np.abs(rb - full))) if W else 0.0
        if compact:
            if np.array_equal(rb, full):
                ctx.count("compact_rebuild_bit_identical")
            else:
                ctx.count("compact_rebuild_within_1e-12")
            if not d <= 1e-12:
                viol("identical (<= 1e-12)", d, "recipe(truncated) == get_frequency_response for triangular / Fbank",
                     "rebuild_identical")
        else:
            ctx.count("periodic_diff_eps:%s" % ("0" if d == 0 else "<0.5" if d < 0.5 * eps else "<1" if d < eps else "<1.5" if d < 1.5 * eps else "<2" if d <= 2 * eps else ">2"))
            if not d <= 2 * eps:
                viol("<= 2*%s = %g" % (EPS_NAME, 2 * eps), d, "recipe(truncated) vs get_frequency_response", "rebuild_2eps")
    # half
    want_half = W // 2 + 1 if W % 2 == 0 else (W + 1) // 2
    if len(half) != want_half:
        viol(want_half, len(half), "half=True length: W//2+1 (even) / (W+1)//2 (odd)", "half_len")
    elif not np.allclose(half, full[:want_half], rtol=0, atol=1e-12):
        viol("half == full[:len]", float(np.max(np.abs(half - full[:want_half]))), "half=True equals the leading bins", "half_prefix")
    else:
        ctx.count("half_bit_identical" if np.array_equal(half, full[:want_half]) else "half_within_1e-12")
    if bank.is_real:
        try:
            hb = recipe_half(W, b, tr)
            if len(hb) != len(half) or not np.allclose(hb, half, rtol=0, atol=1e-12):
                viol("half recipe == half response", "differs", "documented half-spectrum recipe", "half_recipe")
        except Exception as e:  # noqa
            viol("half recipe applies", "%s: %s" % (type(e).__name__, e), "documented half-spectrum recipe raises", "half_recipe")
        # Hermitian
        idx = (W - np.arange(W)) % W
        if not np.allclose(full[idx], np.conj(full), rtol=0, atol=1e-12):
            viol("full[(W-k)%W] == conj(full[k])", float(np.max(np.abs(full[idx] - np.conj(full)))),
                 "real banks are Hermitian-symmetric", "hermitian")
    if compact and bank.is_analytic:
        neg = full[W // 2 + 1:]
        if np.any(neg != 0):
            viol("zero for W/2 < k < W", float(np.max(np.abs(neg))), "analytic triangular / Fbank vanish on negative frequencies",
                 "analytic_neg_zero")
    return dict(b=b, tr=tr, full=full, half=half)


# ------------------------------------------------------------------------------------------------
# correspondence helpers


def parse_pairs(s):
    if s == "-":
        return {}
    out = {}
    for p in s.split(","):
        k, v = p.split(":")
        out[int(k)] = int(v)
    return out


def near_integer(x):
    """x : Fraction. distance to the nearest integer, relative"""
    n = round(x)
    return abs(float(x - n)) <= 1e-9 * max(1.0, abs(float(x)))


ARRAYS_MAX_W = 300


def compact_line(spec, bank, i, W):
    lo_hz, hi_hz = bank.supports_hz[i]
    rate = frac(bank.sampling_rate)
    lo, hi = frac(lo_hz) / rate, frac(hi_hz) / rate
    arrays = 1 if W <= ARRAYS_MAX_W else 0
    line = "compact %s %d %d %s %s %d" % (spec["kind"], W, 1 if spec["analytic"] else 0, fs(lo), fs(hi), arrays)
    # CompactOK of Lemmas/BankIndex.lean (exact 0 <= lo <= hi <= 1/2, with the slack float vertices need)
    in_hyp = (W >= 2 and -1 < W * lo and 0 <= hi and lo <= hi and lo <= Fraction(1, 2)
              and W * (hi - Fraction(1, 2)) < Fraction(1, 2))
    if in_hyp and not (0 <= lo and hi <= Fraction(1, 2)):
        in_hyp = "slack"
    return line, lo, hi, in_hyp


def compare_compact(ctx, case, mo, obs, lo, hi, W):
    if mo in ("bad-op", "err"):
        ctx.mismatch(case, mo, [obs["b"], len(obs["tr"])], "model rejected / raised where the implementation did not")
        return
    t = mo.split()
    ms, ml, mh = int(t[0]), int(t[1]), int(t[2])
    b, tr, full, half = obs["b"], obs["tr"], obs["full"], obs["half"]
    if mh != len(half):
        ctx.mismatch(case, mh, len(half), "half length")
    if (ms, ml) != (b, len(tr)):
        if near_integer(W * lo) or near_integer(W * hi):
            ctx.count("float_boundary")  # compared through the rebuilt responses by the oracle
            return
        ctx.mismatch(case, [ms, ml], [b, len(tr)], "(bin_idx, len(truncated)): exact index arithmetic vs implementation")
        return
    if t[3] == "~":
        ctx.count("corr_index_only")
        return
    if t[5] != "1":
        ctx.mismatch(case, "rebuilt != full in the model", None, "model: recipe(truncated) vs full")
    for name, arr, pairs in (("full", full, parse_pairs(t[3])), ("half", half, parse_pairs(t[4]))):
        exp = np.zeros(len(arr))
        okidx = True
        for k, src in pairs.items():
            if not (0 <= k < len(arr)) or not (0 <= src - b < len(tr)):
                okidx = False
                break
            exp[k] = tr[src - b]
        if not okidx:
            ctx.mismatch(case, pairs, None, "model %s response names a bin / tap out of range" % name)
            continue
        # the implementation's array must hold, in every bin, the tap the model names (zero elsewhere)
        if not np.allclose(arr, exp, rtol=0, atol=1e-12):
            bad = int(np.argmax(np.abs(arr - exp)))
            ctx.mismatch(case, [bad, float(exp[bad])], [bad, float(arr[bad])], "%s response: which tap sits in which bin" % name)
    ctx.count("corr_arrays")


def periodic_lines(ctx, spec, bank, i, W, lay, eps):
    lo_hz, hi_hz = bank.supports_hz[i]
    rate = frac(bank.sampling_rate)
    lo, hi = frac(lo_hz) / rate, frac(hi_hz) / rate
    d = lay[i]
    if spec["kind"] == "gabor":
        cl = "consts gabor %d %s %s" % (1 if spec["l2"] else 0, common.fbits(eps), common.fbits(d["std"]))
    else:
        cl = "consts gammatone %s %s %s %s" % (common.fbits(float(d["order"])), common.fbits(d["log_peak"]),
                                                 common.fbits(d["log_alpha"]), common.fbits(eps))
    return cl, lo, hi


# ------------------------------------------------------------------------------------------------


def gen_banks(ctx):
    r = ctx.rng
    specs = [dict(s) for s in FIXED_SPECS]
    n = ctx.scale(600, 10000)
    while len(specs) < n:
        specs.append(random_spec(r))
    return specs


def run(ctx, driver):
    from pydrobert.speech import config

    eps = float(config.EFFECTIVE_SUPPORT_THRESHOLD)
    r = ctx.rng
    two_pi = 2 * np.pi
    compact_jobs = []  # (case, line, obs, lo, hi, W)
    periodic_jobs = []  # (case, consts_line, lo, hi, W, obs, center_ang, supports_hz, rate)
    budget_frac = 0.75
    specs = gen_banks(ctx)
    t_stop = ctx.t0 + (ctx.deadline - ctx.t0) * budget_frac
    import time

    for spec in specs:
        if time.time() > t_stop:
            ctx.note("bank generation stopped early (time)")
            break
        try:
            bank = make_bank(spec)
        except Exception as e:  # constructor guards, octave scale at 0 Hz ...: outside the quantifier
            ctx.count("out_of_scope")
            ctx.count("bank_ctor_error:" + type(e).__name__)
            continue
        kind = spec["kind"]
        nf = bank.num_filts
        filts = sorted({0, nf - 1, nf // 2, r.randrange(nf)} | {f for f in spec.get("filts", []) if f < nf})
        lay = None
        if kind in ("gabor", "gammatone"):
            try:
                lay = layout(spec, bank)
            except Exception as e:  # noqa
                ctx.note("layout failed: %r" % (e,))
        quick = ctx.tier == "quick"
        for i in filts:
            ws = pick_widths(r, 3 if quick else 5, 2 if quick else 4, 1 if (quick and r.random() < 0.5) else (0 if quick else 2))
            for W in sorted(set(ws) | set(spec.get("widths", []))):
                case = dict(bank=spec, filt=i, width=W)
                ctx.case(case, kind="%s%s" % (kind, ":analytic" if spec.get("analytic") else ""))
                ctx.count("width:%s" % ("2-9" if W < 10 else "10-99" if W < 100 else "100-999" if W < 1000 else "1000-4096"))
                ctx.count("width_parity:%s" % ("odd" if W % 2 else "even"))
                obs = oracle_case(ctx, bank, spec, i, W, eps)
                if obs is None:
                    continue
                if not bank.is_real and obs["b"] + len(obs["tr"]) > W:
                    ctx.count("wraps_around")
                if kind in ("tri", "fbank"):
                    line, lo, hi, in_hyp = compact_line(spec, bank, i, W)
                    if not in_hyp:
                        ctx.gap_cases += 1
                    elif in_hyp == "slack":
                        ctx.count("vertex_roundoff_within_CompactOK")
                    if len(obs["tr"]) == 0:
                        ctx.count("empty_truncated")
                    compact_jobs.append((case, line, obs, lo, hi, W))
                elif lay is not None:
                    cl, lo, hi = periodic_lines(ctx, spec, bank, i, W, lay, eps)
                    periodic_jobs.append((case, cl, lo, hi, W, dict(b=obs["b"], n=len(obs["tr"]), hl=len(obs["half"])),
                                          lay[i]["center_ang"], bank.supports_hz[i], float(bank.sampling_rate)))
    ctx.extra["oracle_done"] = True
    # ---------------- correspondence: compact banks
    outs = driver.run([j[1] for j in compact_jobs])
    ctx.corr_lines += len(compact_jobs)
    for (case, line, obs, lo, hi, W), mo in zip(compact_jobs, outs):
        compare_compact(ctx, case, mo, obs, lo, hi, W)
    # ---------------- correspondence: periodic banks, two rounds (constants, then indices)
    couts = driver.run([j[1] for j in periodic_jobs])
    ctx.corr_lines += len(periodic_jobs)
    plines, keep = [], []
    for job, co in zip(periodic_jobs, couts):
        case, cl, lo, hi, W, obs, center, sup_hz, rate = job
        if co in ("bad-op", "err"):
            ctx.mismatch(case, co, None, "consts op rejected")
            continue
        diff, wrapd = (common.bits_to_float(x) for x in co.split())
        # the Lean Float model of the constructor's closed forms vs the public supports_hz
        want = ((center - diff) * rate / two_pi, (center + diff) * rate / two_pi)
        if not (common.close(want[0], sup_hz[0], rel=1e-9, abs_=1e-9 * rate) and common.close(want[1], sup_hz[1], rel=1e-9, abs_=1e-9 * rate)):
            ctx.mismatch(case, list(want), list(sup_hz), "supports_hz: Lean Float model of diff_ang (harness-derived std/alpha) vs implementation")
            continue
        if not math.isfinite(wrapd):
            ctx.mismatch(case, wrapd, None, "wrap_diff_ang not finite in the model")
            continue
        wrap = frac(2 * wrapd) / frac(two_pi)
        kind = case["bank"]["kind"]
        plines.append("periodic %s %d %s %s %s" % (kind, W, fs(lo), fs(hi), fs(wrap)))
        keep.append((job, wrap))
    pouts = driver.run(plines)
    ctx.corr_lines += len(plines)
    for (job, wrap), mo in zip(keep, pouts):
        case, cl, lo, hi, W, obs, center, sup_hz, rate = job
        if mo in ("bad-op", "err"):
            ctx.mismatch(case, mo, obs, "model rejected / raised where the implementation did not")
            continue
        t = mo.split()
        ms, ml, fb, mh = int(t[0]), int(t[1]), t[2] == "1", int(t[3])
        ctx.count("fallback:%s:%s" % (case["bank"]["kind"], "taken" if fb else "not_taken"))
        if mh != obs["hl"]:
            ctx.mismatch(case, mh, obs["hl"], "half length")
        if (ms, ml) != (obs["b"], obs["n"]):
            kind = case["bank"]["kind"]
            edge = (wrap if kind == "gabor" else (hi - lo + wrap))
            if near_integer(W * lo) or near_integer(W * hi) or abs(float(edge) - 1.0) < 1e-9:
                ctx.count("float_boundary")
                continue
            ctx.mismatch(case, [ms, ml, fb], [obs["b"], obs["n"]], "(bin_idx, len(truncated)): exact index arithmetic / fallback predicate vs implementation")
            continue
        if not fb:
            # hypotheses of trunc_len_le_periodic / periodic_periods hold?
            if not (lo <= hi and hi >= 0 and hi - lo < 1):
                ctx.gap_cases += 1
            if t[4] != "0" or t[5] not in ("-1,0,1", "0,1"):
                ctx.count("periods_other:%s|%s" % (t[4], t[5]))
    # ---------------- the threshold is a live configuration knob
    live_threshold_pass(ctx)
    # ---------------- recipes vs NumPy, exhaustive small scope
    recipes(ctx, driver)
    ctx.count("correspondence_lines", ctx.corr_lines)


def live_threshold_pass(ctx):
    """EFFECTIVE_SUPPORT_THRESHOLD is a documented configuration knob: a bank built after it was changed must meet the
    property's bound for the value in force (oracle only: the generated model carries the default)."""
    from pydrobert.speech import config

    eps0 = config.EFFECTIVE_SUPPORT_THRESHOLD
    fixed = [dict(kind="gabor", rate=16000, low_hz=20.0, high_hz=None, num_filts=40, scale=dict(name="mel"), l2=False, erb=False),
             dict(kind="gabor", rate=8000, low_hz=0.0, high_hz=None, num_filts=10, scale=dict(name="bark"), l2=True, erb=True),
             dict(kind="gammatone", rate=16000, low_hz=20.0, high_hz=None, num_filts=40, scale=dict(name="mel"), l2=False, erb=False, order=4, max_centered=False),
             dict(kind="gammatone", rate=8000, low_hz=0.0, high_hz=None, num_filts=64, scale=dict(name="mel"), l2=False, erb=True, order=2, max_centered=True),
             dict(kind="tri", rate=8000, low_hz=20.0, high_hz=None, num_filts=10, scale=dict(name="mel"), analytic=False)]
    try:
        for eps in (1e-4, 5e-3):
            config.EFFECTIVE_SUPPORT_THRESHOLD = eps
            for spec0 in fixed:
                if ctx.out_of_time():
                    return
                spec = dict(spec0, threshold=eps)
                try:
                    bank = make_bank(spec)
                except Exception as e:
                    ctx.count("bank_ctor_error:" + type(e).__name__)
                    continue
                ctx.count("live_threshold_bank:" + spec["kind"])
                n = bank.num_filts
                for i in sorted({0, 2 % n, n // 2, n - 1}):
                    for W in (64, 127, 512, 1025):
                        oracle_case(ctx, bank, spec, i, W, eps)
    finally:
        config.EFFECTIVE_SUPPORT_THRESHOLD = eps0


def recipes(ctx, driver):
    maxw = 12 if ctx.tier == "quick" else 20
    jobs = []
    for W in range(1, maxw + 1):
        for start in range(0, W + 2):
            for ln in range(0, 2 * W + 2):
                jobs.append(("complex", W, start, ln))
                jobs.append(("real", W, start, ln))
    r = ctx.rng
    if ctx.tier == "quick":
        r.shuffle(jobs)
        jobs = jobs[:4000]
    outs = driver.run(["recipe %s %d %d %d" % j for j in jobs])
    ctx.corr_lines += len(jobs)
    for (kind, W, start, ln), mo in zip(jobs, outs):
        taps = np.arange(ln, dtype=np.int64)
        case = dict(recipe=kind, width=W, start=start, len=ln)
        ctx.case(case, kind="recipe:" + kind)
        try:
            if kind == "complex":
                full = np.full(W, -1000000, dtype=np.int64)
                wrap = min(start + ln, W) - start
                full[start:start + wrap] = taps[:wrap]
                full[:ln - wrap] = taps[wrap:]
            else:
                full = np.full(W, -1000000, dtype=np.int64)
                full[start:start + ln] = taps
                full[W - start - ln + 1:W - start + 1] = -(taps[:None if start else 0:-1] + 1)
            impl = ",".join("%d:%d" % (k, v) for k, v in enumerate(full) if v != -1000000) or "-"
        except ValueError:
            impl = "err"
        if mo != impl:
            ctx.mismatch(case, mo, impl, "NumPy slice-assignment recipe vs model")


def run_oracle_only(ctx):
    if ctx.extra.get("oracle_done"):
        return

    class _D:
        def run(self, lines, timeout=0):
            raise common.DriverError("no driver")

    try:
        run(ctx, _D())
    except common.DriverError:
        pass


def replay(rp):
    from pydrobert.speech import config

    case = rp.get("case", {})
    print(common.canon(case))
    if "bank" in case:
        spec, i, W = case["bank"], case["filt"], case["width"]
        if spec.get("threshold") is not None:
            config.EFFECTIVE_SUPPORT_THRESHOLD = spec["threshold"]   # recorded under a changed knob (live_threshold_pass)
        bank = make_bank(spec)
        eps = float(config.EFFECTIVE_SUPPORT_THRESHOLD)
        ctx = common.Ctx(PROP, "quick", 0, 600)
        obs = oracle_case(ctx, bank, spec, i, W, eps)
        if obs is not None:
            print("impl: bin_idx=%d len(truncated)=%d len(half)=%d supports_hz=%r" % (obs["b"], len(obs["tr"]), len(obs["half"]), bank.supports_hz[i]))
            try:
                rb = recipe_real(W, obs["b"], obs["tr"]) if bank.is_real else recipe_complex(W, obs["b"], obs["tr"])
                print("impl: max|rebuilt - full| = %g  (threshold %g)" % (float(np.max(np.abs(rb - obs["full"]))), eps))
            except Exception as e:  # noqa
                print("impl: recipe raises %s: %s" % (type(e).__name__, e))
        if spec["kind"] in ("tri", "fbank"):
            line = compact_line(spec, bank, i, W)[0]
            try:
                print("model:", line, "->", common.Driver(PROP).run([line])[0][:400])
            except Exception as e:  # noqa
                print("model: driver failed:", e)
        for v in ctx.violations:
            print("oracle VIOLATED: %s expected %s got %s" % (v["oracle"], v["expected"], v["got"]))
        if not ctx.violations:
            print("oracle: holds on this case")
    print("recorded oracle:", rp.get("oracle"), "expected", rp.get("expected"), "got", rp.get("got"))
    return 0

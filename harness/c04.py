"""C04 - a computer's output depends only on the current utterance."""
import itertools

import numpy as np

from . import common
from . import stft_common as sc

PROP = "C04"
MODULES = ["PdsVerif.Props.StftTie", "PdsVerif.Props.SiTie", "PdsVerif.Props.C04", "PdsVerif.Props.C04Si"]
MODEL_MODULES = ["PdsVerif.Model.StftDrv", "PdsVerif.Model.Si"]
REQUIRED = ["PdsVerif.StftTie." + n for n in ["full_pad_left_eq", "full_short_eq", "full_num_frames_eq", "full_pad_right_eq", "fin_pad_left_eq", "fin_num_frames_eq", "chunk_frame_length_eq", "chunk_num_frames_eq", "chunk_first_pad_eq", "torch_arith_eq_numpy", "torch_no_frame_eq"]] + ["PdsVerif.C04." + n for n in [
    "obs_equiv", "fresh_after_finalize", "history_independence", "finalize_not_started", "started_spec",
    "guard_full", "guard_fbf", "full_pure", "next_utterance_eq_full"]] + ["PdsVerif.C04Si." + n for n in [
    "si_chunk_history_independent", "si_chunk_started", "si_finalize_idle", "si_stream_idle", "si_full_idle",
    "si_full_history_independent", "si_stream_history_independent", "si_after_any_history", "si_full_refuses",
    "si_started_spec"]] + ["PdsVerif.SiTie." + n for n in ["reset_x_rem_eq", "reset_y_rem_eq", "reset_skip_eq", "reset_started_eq", "reset_zeroes_eq", "finalize_eq_gen"]]

def translate(repo):
    """framing arithmetic of compute.py / torch.py -> Generated/StftConsts.lean (theorems: Props/StftTie.lean)"""
    from .translate import stftconsts, siconsts
    files = dict(stftconsts.generate(repo))
    # the SI computer's reset / finalize bookkeeping -> Generated/SiConsts.lean (Props/SiTie.lean)
    files.update(siconsts.generate(repo))
    return files


RULE = (
    "operation histories over {compute_chunk(n) for n in 0..2L+1, finalize, compute_full(n), frame_by_frame(n,k)} on "
    "one STFT instance (tracer bank, integer window; every style / kaldi_shift, L<=9, S<=L) - random histories up to "
    "12 (quick) / 40 (thorough) calls and all histories of length <= 4 over a small alphabet in the thorough tier; "
    "each call's output and `started` are compared with the physical-buffer Lean model; then the same final "
    "utterance is run on a fresh instance (bit-identical oracle). Short-integration computers with an integer tracer "
    "bank (every configuration inside C03's WF): multi-utterance histories - utterances too short for a frame, empty "
    "chunks, idle finalize, refused compute_full, whole and streamed utterances - op by op against the SI model "
    "(Model/Si.lean through drivers/C03.lean, exact integers) and the next utterance against a fresh instance. "
    "Library-bank instances get the bit-identity oracle only, incl. exhaustive previous-utterance-length sweeps for an SI "
    "computer (translation > shift) and for STFT computers whose frame shift EXCEEDS the frame length. Distinct by (config, history)."
)
TRUSTED = [
    "np.empty / stale buffer cells are modelled as arbitrary junk values; CPython aliasing semantics (inputs are passed by value in the model; read-only arrays are used in every run)",
    "tracer bank + integer window make each output row an exact integer",
]
ASSUMPTIONS = [
    "STFT computers with frame_shift > frame_length (frames with gaps) are inside the property but outside the STFT theorems' scope: covered by the exhaustive history sweep only (the Kaldi style with frame_shift//2 > frame_length//2 cannot compute anything - np.pad rejects the negative width - and is left out)",
    "theorem scope: the STFT computer with 1 <= frame_shift <= frame_length; the short-integration computer in every configuration (C04Si: no well-formedness hypothesis - the theorems are about the preamble's reset, for any outcome of the arithmetic)",
    "the dtype of the empty array returned by finalize() with no utterance in progress is the previous utterance's dtype (observed; features of the next utterance are unaffected)",
]
LEVEL_TEXT = (
    "Proved for every operation history: the physical-buffer model (fixed array with junk / stale cells) refines the "
    "abstract model (run_refines), finalize maps every state to the abstract initial state, hence any later call "
    "sequence answers exactly as on a fresh instance (history_independence, obs_equiv: stale cells are never read); "
    "`started` follows its specification; compute_full / frame_by_frame refuse mid-utterance leaving every cell, "
    "counter and flag unchanged. The physical model is what the driver executes against the implementation. "
    "Short-integration computers (C04Si, about the line-by-line model of C03): the first chunk of an utterance, a "
    "streamed utterance and compute_full return the same frames (and successor state) from ANY idle state; finalize, "
    "a streamed utterance and compute_full always leave the computer idle; hence after any history of completed "
    "utterances the next one is computed as on a fresh instance (si_after_any_history); compute_full mid-utterance "
    "is refused. Tied by multi-utterance op-history correspondence (exact integers)."
)
LEVEL_NOTE = (
    "Trusted: junk-cell abstraction of np.empty, value semantics for inputs (checked with read-only arrays), tracer "
    "components. SI: the model's `reset` mirrors _compute_preamble by hand (tied by the histories that leave every field dirty); library-bank SI computers: oracle runs."
)
TECHNIQUE = "Lean 4 refinement (physical buffer -> abstract state) + invariant induction over op histories; op-history correspondence"


def random_history(r, L, S, maxlen):
    ops = []
    n = r.randrange(1, maxlen + 1)
    for _ in range(n):
        u = r.random()
        if u < 0.5:
            ops.append("c%d" % r.choice([0, 0, 1, 1, 2, S, L // 2, L // 2 + 1, L, L + 1, 2 * L + 1, r.randrange(0, 2 * L + 2)]))
        elif u < 0.75:
            ops.append("z")
        elif u < 0.9:
            ops.append("F%d" % r.choice([0, 1, L // 2, L // 2 + 1, L, 2 * L + 1]))
        else:
            ops.append("B%d:%d" % (r.choice([0, 1, L // 2 + 1, L, 2 * L + 1]), r.choice([1, 2, S, L, 1024])))
    return ops


def run(ctx, driver):
    r = ctx.rng
    cfgs = []
    maxL = 7 if ctx.tier == "quick" else 9
    for L in range(1, maxL + 1):
        for S in range(1, L + 1):
            for centered, kaldi in ((False, False), (True, False), (True, True)):
                cfgs.append((L, S, centered, kaldi))
    jobs = []
    budget = ctx.scale(1200, 30000)
    maxlen = 12 if ctx.tier == "quick" else 40
    while len(jobs) < budget:
        L, S, ce, ka = r.choice(cfgs)
        taps = sc.window_taps(r.choice(["pow", "ramp"]), L, seed=r.randrange(5))
        hist = random_history(r, L, S, maxlen)
        # always end with: finalize, then a probe utterance, finalize  (the "next utterance")
        N = r.choice([0, L // 2, L // 2 + 1, L, 2 * L + 1, r.randrange(0, 3 * L)])
        probe = ["c%d" % n for n in split(r, N)] + ["z"]
        jobs.append(((L, S, ce, ka), taps, hist + ["z"] + probe, len(probe), N))
    if ctx.tier == "thorough":
        alphabet = ["c0", "c1", "c3", "z", "F3", "B4:2"]
        for L, S, ce, ka in [(3, 2, False, False), (4, 2, True, False), (4, 1, True, True), (2, 1, True, True)]:
            for n in range(1, 5):
                for hist in itertools.product(alphabet, repeat=n):
                    taps = sc.window_taps("pow", L)
                    jobs.append(((L, S, ce, ka), taps, list(hist) + ["z", "c2", "c%d" % L, "z"], 3, L + 2))
    lines = [sc.ops_line(L, S, ce, ka, ops) for (L, S, ce, ka), _, ops, _, _ in jobs]
    outs = driver.run(lines)
    ctx.count("correspondence_lines", len(lines))
    for (cfg, taps, ops, nprobe, N), mout in zip(jobs, outs):
        if ctx.out_of_time():
            ctx.note("time budget reached")
            break
        L, S, ce, ka = cfg
        case = dict(computer="stft", L=L, S=S, centered=ce, kaldi=ka, window=taps, ops=ops)
        ctx.case(case, kind="history:len%d" % min(len(ops) // 5 * 5, 40))
        for o in ops:
            ctx.count("op:" + o[0])
        comp = sc.make_dc_computer(L, S, ce, ka, taps)
        impl = sc.run_ops_impl(comp, ops)
        rows, started = [], []
        broken = False
        for val, st in impl:
            started.append(st)
            if isinstance(val, str):
                rows.append(val)
            else:
                ir = sc.as_int_rows(val)
                if ir is None:
                    broken = True
                rows.append(ir)
        if broken:
            ctx.mismatch(case, None, None, "implementation value not an integer (tracer broke)")
            continue
        for v in rows:
            if v == "MODIFIED-INPUT":
                ctx.violation(case, "input unchanged", v, "input arrays are never modified", tags=dict(clause="input_untouched"))
            elif isinstance(v, str) and v != "ValueError":
                ctx.violation(case, "no exception other than the documented ValueError", v,
                              "calls on read-only inputs do not raise", tags=dict(clause="raises", exc=v))
        # ---- oracle 1: `started` specification
        st = False
        for i, op in enumerate(ops):
            k = op[0]
            exp_err = (k in "FB") and st
            if k == "c":
                st = True
            elif k == "z":
                st = False
            elif k == "B" and not st:
                st = False
            if started[i] != st:
                ctx.violation(dict(case, at=i), st, started[i], "started is true exactly from the first compute_chunk until the next finalize",
                              tags=dict(clause="started"))
                break
            if exp_err != (rows[i] == "ValueError"):
                ctx.violation(dict(case, at=i), "ValueError" if exp_err else "result", rows[i],
                              "compute_full / frame_by_frame_calculation raise ValueError exactly when mid-utterance",
                              tags=dict(clause="guard"))
                break
        # ---- oracle 2: the probe utterance on a fresh instance
        fresh = sc.make_dc_computer(L, S, ce, ka, taps)
        probe_ops = ops[-nprobe:]
        # the probe is the (k)-th utterance of the history: use the same signal id
        utt_id = sum(1 for o in ops[:-nprobe] if o == "z" or (o[0] == "B"))
        f_impl = run_probe(fresh, probe_ops, utt_of(ops, nprobe))
        h_rows = rows[-nprobe:]
        if f_impl != h_rows:
            ctx.violation(case, f_impl, h_rows, "after finalize, the next utterance's features equal those of a fresh instance (exact)",
                          tags=dict(clause="history_independence"))
        # ---- oracle 3: refused calls leave the utterance in progress undisturbed
        refused = [i for i, v in enumerate(rows) if v == "ValueError"]
        if refused:
            kept = [op for i, op in enumerate(ops) if i not in refused]
            # refused F/B calls consume a signal id in run_ops_impl; keep ids aligned by replaying with placeholders
            comp2 = sc.make_dc_computer(L, S, ce, ka, taps)
            impl2 = sc.run_ops_impl(comp2, [("F0" if i in refused else op) if False else op for i, op in enumerate(ops) if i not in refused])
            rows2 = [v if isinstance(v, str) else sc.as_int_rows(v) for v, _ in impl2]
            want = [v for i, v in enumerate(rows) if i not in refused]
            # compare only chunk / finalize outputs (F/B signals are numbered per call and may shift)
            cmp_idx = [j for j, op in enumerate(kept) if op[0] in "cz"]
            if [rows2[j] for j in cmp_idx] != [want[j] for j in cmp_idx]:
                ctx.violation(case, [want[j] for j in cmp_idx], [rows2[j] for j in cmp_idx],
                              "a refused compute_full / frame_by_frame_calculation leaves the utterance in progress undisturbed",
                              tags=dict(clause="guard_undisturbed"))
        # ---- correspondence with the physical-buffer model
        if mout == "bad-op":
            ctx.mismatch(case, mout, rows, "driver rejected the op line")
            continue
        exp, mst = sc.expected_from_model(mout, ops, taps, with_started=True)
        if exp != rows or mst != started:
            ctx.mismatch(case, [exp, mst], [rows, started], "per-call outputs and `started`: physical-buffer model vs implementation")
    library_history_oracle(ctx)


def utt_of(ops, nprobe):
    """signal id (utterance counter of run_ops_impl) at the start of the probe"""
    utt = 0
    st = False
    for op in ops[:-nprobe]:
        k = op[0]
        if k == "c":
            st = True
        elif k == "z":
            utt += 1
            st = False
        elif k == "B" and not st:
            utt += 1
    return utt


def run_probe(comp, probe_ops, utt):
    rows = []
    off = 0
    for op in probe_ops:
        if op[0] == "c":
            n = int(op[1:])
            x = sc.sig(utt, off + n)[off:]
            x = np.ascontiguousarray(x)
            x.setflags(write=False)
            rows.append(sc.as_int_rows(comp.compute_chunk(x)))
            off += n
        else:
            rows.append(sc.as_int_rows(comp.finalize()))
    return rows


def split(r, N):
    if N == 0:
        return [0] if r.random() < 0.5 else []
    k = r.randrange(1, min(N, 4) + 1)
    cuts = sorted(r.randrange(0, N + 1) for _ in range(k - 1))
    return [b - a for a, b in zip([0] + cuts, cuts + [N])]


def si_history_ops(r, S, M, tr, N):
    """a multi-utterance history for one SI computer over ONE signal x (the driver's `c<n>` ops consume x from the
    start after every `z`): pre-utterances chosen to leave every piece of bookkeeping dirty, then the compared
    utterance as compute_full and streamed"""
    ops = []
    small = [0, 1, 2, max(0, tr - S), max(0, tr - S) + 1, tr, tr + 1, S, S + 1, M, M + S - 1]
    for _ in range(r.randrange(1, 4)):
        u = r.random()
        if u < 0.55:       # a short utterance (often too short to yield a frame), possibly in pieces / with empty chunks
            k = min(N, r.choice(small))
            parts = [k] if r.random() < 0.5 else [k // 2, 0, k - k // 2]
            ops += ["c%d" % n for n in parts] + ["z"]
        elif u < 0.7:      # a longer streamed utterance
            k = r.randrange(0, N + 1)
            ops += ["c%d" % k, "z"]
        elif u < 0.8:      # finalize with nothing in progress
            ops += ["z"]
        elif u < 0.9:      # compute_full mid-utterance is refused; the utterance is then completed
            ops += ["c%d" % min(N, r.choice(small)), "F", "z"]
        else:              # a whole utterance through compute_full
            ops += ["F"]
    return ops


def si_history_correspondence(ctx):
    """short-integration computers, integer tracer banks: op histories through Model/Si.lean vs the implementation"""
    from . import c03
    r = ctx.rng
    jobs = []
    budget = ctx.scale(160, 3000)
    tries = 0
    while len(jobs) < budget and tries < 40 * budget:
        tries += 1
        case0 = c03.gen_config(r, ctx.tier)
        try:
            bank, comp = c03.make_int_computer(case0)
            M, tr, D = c03.params_of(case0, bank, comp)
        except Exception as e:
            ctx.count("si_ctor_error:" + type(e).__name__)
            continue
        if D > 96 or (case0["energy"] and not tr < M) or not c03.wf(case0, M, tr, D):
            continue   # outside WF the code's own assertions fire; C03's correspondence covers those configurations
        S = case0["S"]
        N = r.choice([M + S, 2 * S + 1, D, D + S + 1, r.randrange(1, 2 * D)])
        case = dict(case0)
        case["x"] = [r.randrange(-9, 10) for _ in range(N)]
        pre = si_history_ops(r, S, M, tr, N)
        probe = ["F"] + ["c%d" % n for n in c03.random_chunking(r, N)] + ["z"]
        case["ops"] = pre + probe
        jobs.append((case, comp, (M, tr, D), len(pre)))
    d3 = common.Driver("C03")
    outs = d3.run([c03.driver_line(case, M, tr, D, case["ops"]) for case, _, (M, tr, D), _ in jobs])
    ctx.count("si_history_lines", len(jobs))
    for (case, comp, (M, tr, D), npre), mout in zip(jobs, outs):
        if ctx.out_of_time():
            break
        ops = case["ops"]
        style = "centered" if case["centered"] else "causal"
        pub = {k: case[k] for k in ("S", "filters", "centered", "pad", "floor", "energy", "power", "real", "window", "x", "ops")}
        pub.update(computer="si", tracer="intfir", M=M, tr=tr, D=D)
        ctx.case(pub, kind="si_history:%s:%s" % (style, "tr>=S" if tr >= case["S"] else "tr<S"))
        for o in ops[:npre]:
            ctx.count("si_pre_op:" + o[0])
        impl = c03.run_ops_impl(comp, case["x"], ops)
        conv = []
        for st, val, code in impl:
            if st == "ok" and not isinstance(val, list):
                val = c03.int_rows(val)
                if val is None:
                    st = "non-integer"
            conv.append((st, val, code))
        tags = dict(computer="si", tracer="intfir", style=style)
        # ---- oracle: the probe utterance on the history-laden instance vs a fresh instance (exact)
        fresh = c03.make_int_computer(case)[1]
        ref = c03.run_ops_impl(fresh, case["x"], ["F"])[0]
        ref_rows = c03.int_rows(ref[1]) if ref[0] == "ok" else None
        full = conv[npre]
        if ref[0] == "ok" and ref_rows is not None:
            if full[0] != "ok":
                ctx.violation(pub, "no exception", full[0], "compute_full after a history of completed utterances raises",
                              tags=dict(clause="raises", **tags))
            elif full[1] != ref_rows:
                ctx.violation(pub, ref_rows, full[1], "history-laden instance vs fresh instance on the next utterance (integer tracer, exact)",
                              tags=dict(clause="history_independence", **tags))
            sr = c03.stream_rows(conv[npre + 1:])
            if sr is None:
                ctx.violation(pub, "no exception", [c[0] for c in conv[npre + 1:]], "streaming the next utterance raises",
                              tags=dict(clause="raises", **tags))
            elif sr != ref_rows:
                ctx.violation(pub, ref_rows, sr, "streamed next utterance vs fresh instance (integer tracer, exact)",
                              tags=dict(clause="history_independence", **tags))
        # ---- correspondence with the SI model, op by op
        if mout == "bad-op":
            ctx.mismatch(pub, mout, None, "driver rejected the op line")
            continue
        model = c03.parse_model(mout)
        if len(model) != len(conv):
            ctx.mismatch(pub, mout, None, "op count")
            continue
        for i, (m, c) in enumerate(zip(model, conv)):
            if m[0] != c[0] or (m[0] == "ok" and (m[1] != c[1] or m[2] != c[2])):
                ctx.mismatch(pub, m, c, "op %d (%s): SI model vs implementation" % (i, ops[i]))
                break


def si_previous_length_sweep(ctx):
    """every length 0 .. 3L-1 of a previous utterance, for one small short-integration configuration per frame style
    whose translation exceeds the frame shift (the overlap-save bookkeeping `_x_rem` / `_skip` / `_y_rem` that an
    utterance leaves behind depends on its length modulo the block size): the next utterance must be bit-identical to
    that of a fresh instance"""
    from pydrobert.speech import compute, filters

    bank = filters.GaborFilterBank("mel", num_filts=4, sampling_rate=8000)
    for style in ("centered", "causal"):
        def mk():
            return compute.SIFrameComputer(bank, frame_shift_ms=2.0, frame_style=style)
        c0 = mk()
        L = c0.frame_length
        x2 = np.random.RandomState(77).randn(3 * L + 7)
        ref = mk().compute_full(x2)
        for n1 in range(0, 3 * L):
            if ctx.out_of_time():
                return
            case = dict(computer="si", bank="gabor", style=style, L=L, S=c0.frame_shift, hist=[("full", n1, "float64")], N=len(x2), sweep="previous_length")
            ctx.case(case, kind="si_prev_len:" + style)
            a = mk()
            try:
                a.compute_full(np.random.RandomState(78).randn(n1))
                y = a.compute_full(x2)
            except Exception as e:
                ctx.violation(case, "no exception", "%s: %s" % (type(e).__name__, e), "history of calls raises",
                              tags=dict(clause="raises", computer="si", exc=type(e).__name__))
                continue
            if y.shape != ref.shape or y.tobytes() != ref.tobytes():
                ctx.violation(case, "bit-identical", "differs", "history-laden instance vs fresh instance on the next utterance (bit-identical)",
                              tags=dict(clause="history_independence", computer="si"))


def stft_gap_previous_length_sweep(ctx):
    """STFT computers whose frame shift EXCEEDS the frame length (frames with gaps between them - the buffered length
    goes negative, which the code supports): every length 0 .. 2S+4 of a previous utterance, streamed and finalized;
    then `started` must be false and the next utterance bit-identical to a fresh instance's"""
    from pydrobert.speech import compute, filters

    bank = filters.TriangularOverlappingFilterBank("mel", num_filts=4, sampling_rate=8000)
    for style, lms, sms in (("causal", 5.0, 12.0), ("centered", 5.0, 12.0), ("causal", 10.0, 30.0)):
        def mk():
            return compute.STFTFrameComputer(bank, frame_length_ms=lms, frame_shift_ms=sms, frame_style=style)
        try:
            c0 = mk()
        except Exception as e:   # a shift longer than the frame refused at construction: no such computer, nothing to check
            ctx.count("stft_gap_ctor_error:" + type(e).__name__)
            continue
        L, S = c0.frame_length, c0.frame_shift
        x2 = np.random.RandomState(79).randn(3 * S + 11)
        ref = mk().compute_full(x2)
        for n1 in range(0, 2 * S + 5):
            if ctx.out_of_time():
                return
            case = dict(computer="stft", bank="tri", style=style, L=L, S=S, hist=[("chunk+finalize", n1, "float64")], N=len(x2),
                        sweep="previous_length_gap")
            ctx.case(case, kind="stft_gap_prev_len:" + style)
            a = mk()
            try:
                a.compute_chunk(np.random.RandomState(80).randn(n1))
                a.finalize()
                st = bool(a.started)
                y = a.compute_full(x2)
            except Exception as e:
                ctx.violation(case, "no exception", "%s: %s" % (type(e).__name__, e), "history of calls raises",
                              tags=dict(clause="raises", computer="stft", exc=type(e).__name__))
                continue
            if st:
                ctx.violation(case, False, True, "started is false after finalize", tags=dict(clause="started_spec_library", computer="stft"))
            if y.shape != ref.shape or y.tobytes() != ref.tobytes():
                ctx.violation(case, "bit-identical", "differs", "history-laden instance vs fresh instance on the next utterance (bit-identical)",
                              tags=dict(clause="history_independence", computer="stft"))


def copy_and_buffer_probe(ctx):
    """(a) a copy (copy.deepcopy / pickle round trip) taken MID-utterance is a computer too: once it is not mid-utterance
    (finalized if it says it is started) it behaves like a fresh instance; (b) a caller that refills ONE preallocated array
    for every utterance (same object, new contents) gets each utterance's own features"""
    from pydrobert.speech import compute, filters

    bank = filters.TriangularOverlappingFilterBank("mel", num_filts=4, sampling_rate=8000)
    gbank = filters.GaborFilterBank("mel", num_filts=8, low_hz=100.0, high_hz=2000.0, sampling_rate=8000)
    makers = [("stft causal", lambda: compute.STFTFrameComputer(bank, frame_shift_ms=5.0, frame_style="causal")),
              ("stft centered", lambda: compute.STFTFrameComputer(bank, frame_shift_ms=5.0, frame_style="centered")),
              ("si centered", lambda: compute.SIFrameComputer(gbank, frame_shift_ms=2.0, frame_style="centered"))]
    rs = np.random.RandomState(81)
    for name, mk in makers:
        L = mk().frame_length
        x1, x2 = rs.randn(2 * L + 17), rs.randn(3 * L + 5)
        ref_parts = []
        f = mk()
        for c in (x2[:L + 3], x2[L + 3:]):
            ref_parts.append(f.compute_chunk(c))
        ref_parts.append(f.finalize())
        ref = np.concatenate(ref_parts)
        for how in ("deepcopy", "pickle"):
            case = dict(computer=name.split()[0], config=name, probe="copy taken mid-utterance", copy=how, L=L)
            ctx.case(case, kind="copy_mid_utterance:" + name.split()[0])
            try:
                a = mk()
                a.compute_chunk(x1[: L + L // 2 + 1])          # an utterance in progress, samples buffered
                cl = dict(common.clone_routes(a))[how]
                if isinstance(cl, Exception):      # computers that refuse to be copied: no copy, nothing to check
                    ctx.count("not_copyable:" + how)
                    continue
                said_started = bool(cl.started)
                if said_started:
                    cl.finalize()
                parts = [cl.compute_chunk(x2[:L + 3]), cl.compute_chunk(x2[L + 3:]), cl.finalize()]
                got = np.concatenate(parts)
            except Exception as e:
                ctx.violation(case, "no exception", "%s: %s" % (type(e).__name__, str(e)[:150]), "history of calls raises",
                              tags=dict(clause="raises", computer=name.split()[0], exc=type(e).__name__))
                continue
            if got.shape != ref.shape or got.tobytes() != ref.tobytes():
                ctx.violation(case, "bit-identical to a fresh instance", "differs (copy said started=%s)" % said_started,
                              "a computer that is not mid-utterance behaves like a fresh instance (here: a %s copy)" % how,
                              tags=dict(clause="history_independence", computer=name.split()[0]))
        # (b) one preallocated array, refilled in place between utterances
        case = dict(computer=name.split()[0], config=name, probe="same array object refilled between compute_full calls", L=L)
        ctx.case(case, kind="buffer_refilled:" + name.split()[0])
        try:
            a = mk()
            buf = np.empty(len(x2))
            buf[:] = rs.randn(len(x2))
            a.compute_full(buf)
            buf[:] = x2
            got = a.compute_full(buf)
            want = mk().compute_full(x2.copy())
        except Exception as e:
            ctx.violation(case, "no exception", "%s: %s" % (type(e).__name__, str(e)[:150]), "history of calls raises",
                          tags=dict(clause="raises", computer=name.split()[0], exc=type(e).__name__))
            continue
        if got.shape != want.shape or got.tobytes() != want.tobytes():
            ctx.violation(case, "bit-identical to a fresh instance", "differs", "after a completed compute_full the next utterance's "
                          "features are those of a fresh instance (the caller reuses one array object for every utterance)",
                          tags=dict(clause="history_independence", computer=name.split()[0]))


def interleaved_instances_probe(ctx):
    """TWO independently built computers of the same configuration, both mid-utterance at once (one per channel of a stereo
    recording), fed their chunks alternately: what each returns depends on ITS utterance only - bit-identical to a fresh
    instance given the same chunks with nothing else alive"""
    from pydrobert.speech import compute, filters

    def banks():
        return (filters.TriangularOverlappingFilterBank("mel", num_filts=4, sampling_rate=8000),
                filters.GaborFilterBank("mel", num_filts=8, low_hz=100.0, high_hz=2000.0, sampling_rate=8000))
    makers = [("stft causal", lambda: compute.STFTFrameComputer(banks()[0], frame_shift_ms=5.0, frame_style="causal")),
              ("stft centered", lambda: compute.STFTFrameComputer(banks()[0], frame_shift_ms=5.0, frame_style="centered")),
              ("si causal", lambda: compute.SIFrameComputer(banks()[1], frame_shift_ms=2.0, frame_style="causal"))]
    rs = np.random.RandomState(82)
    for name, mk in makers:
        L = mk().frame_length
        for csize in (37, L + 3, 2 * L + 1):
            xs = [rs.randn(5 * L + 11), rs.randn(5 * L + 11)]
            xs[0].setflags(write=False), xs[1].setflags(write=False)

            def alone(x):
                f = mk()
                parts = [f.compute_chunk(x[o:o + csize]) for o in range(0, len(x), csize)] + [f.finalize()]
                return np.concatenate(parts)
            refs = [alone(xs[0]), alone(xs[1])]
            case = dict(computer=name.split()[0], config=name, probe="two live instances fed alternately", chunk=csize, L=L)
            ctx.case(case, kind="interleaved_instances:" + name.split()[0])
            try:
                a, b = mk(), mk()
                pa, pb = [], []
                for o in range(0, len(xs[0]), csize):
                    pa.append(a.compute_chunk(xs[0][o:o + csize]))
                    pb.append(b.compute_chunk(xs[1][o:o + csize]))
                pa.append(a.finalize())
                pb.append(b.finalize())
                got = [np.concatenate(pa), np.concatenate(pb)]
            except Exception as e:
                ctx.violation(case, "no exception", "%s: %s" % (type(e).__name__, str(e)[:150]), "history of calls raises",
                              tags=dict(clause="raises", computer=name.split()[0], exc=type(e).__name__))
                continue
            for k in (0, 1):
                if got[k].shape != refs[k].shape or got[k].tobytes() != refs[k].tobytes():
                    ctx.violation(dict(case, which=k), "bit-identical to the same stream on a lone instance", "differs",
                                  "a computer's output depends only on its own utterance (another live instance of the same configuration is fed in between)",
                                  tags=dict(clause="history_independence", computer=name.split()[0], how="interleaved_instances"))


def library_history_oracle(ctx):
    """library banks, STFT and SI: history-laden instance vs fresh instance, bit-identical"""
    copy_and_buffer_probe(ctx)
    interleaved_instances_probe(ctx)
    si_history_correspondence(ctx)
    si_previous_length_sweep(ctx)
    stft_gap_previous_length_sweep(ctx)
    from pydrobert.speech import compute, filters

    r = ctx.rng
    n = ctx.scale(40, 400)
    for _ in range(n):
        if ctx.out_of_time():
            break
        rate = 8000
        kind = r.choice(["gabor", "tri", "gammatone", "fbank"])
        try:
            if kind == "gabor":
                bank = filters.GaborFilterBank("mel", num_filts=4, sampling_rate=rate)
            elif kind == "tri":
                bank = filters.TriangularOverlappingFilterBank("mel", num_filts=4, sampling_rate=rate)
            elif kind == "fbank":
                bank = filters.Fbank(num_filts=4, sampling_rate=rate)
            else:
                bank = filters.ComplexGammatoneFilterBank("mel", num_filts=4, sampling_rate=rate)
        except Exception as e:
            ctx.count("bank_ctor_error:" + type(e).__name__)
            continue
        which = r.choice(["stft", "si"])
        style = r.choice(["causal", "centered"])
        kw = dict(frame_shift_ms=r.choice([2.0, 5.0]), frame_style=style, include_energy=r.random() < 0.5)

        def make():
            if which == "stft":
                return compute.STFTFrameComputer(bank, frame_length_ms=r_len, kaldi_shift=kaldi, **kw)
            return compute.SIFrameComputer(bank, **kw)

        r_len = r.choice([None, 10.0, 20.0])
        kaldi = r.random() < 0.3
        try:
            a, b = make(), make()
        except Exception as e:
            ctx.count("computer_ctor_error:" + type(e).__name__)
            continue
        L, S = a.frame_length, a.frame_shift
        if which == "stft" and S > L:
            ctx.count("out_of_scope")
            continue
        if which == "si":
            sup = max((rr if style == "causal" else (rr - ll) // 2) for ll, rr in bank.supports)
            if not S < sup:
                ctx.count("out_of_scope")
                continue
        rs = np.random.RandomState(r.randrange(1 << 30))
        hist_desc = []
        ok = True
        # `started` and the refusals, on a third instance of this library computer: an utterance that opens with an EMPTY
        # chunk is in progress like any other
        try:
            c3 = make()
            obs = [bool(c3.started)]
            c3.compute_chunk(np.zeros(0))
            obs.append(bool(c3.started))
            refused = []
            for call in (lambda: c3.compute_full(rs.randn(2 * L + 3)), lambda: compute.frame_by_frame_calculation(c3, rs.randn(L + 1), 7)):
                try:
                    call()
                    refused.append("returned")
                except ValueError:
                    refused.append("ValueError")
            obs.append(bool(c3.started))
            c3.compute_chunk(rs.randn(L // 2 + 1))
            c3.finalize()
            obs.append(bool(c3.started))
            spec_case = dict(computer=which, bank=kind, style=style, L=L, S=S, ops=["started?", "compute_chunk(empty)", "started?",
                             "compute_full", "frame_by_frame", "started?", "compute_chunk", "finalize", "started?"])
            ctx.case(spec_case, kind="library_started:" + which)
            if obs != [False, True, True, False] or refused != ["ValueError", "ValueError"]:
                ctx.violation(spec_case, dict(started=[False, True, True, False], refusals=["ValueError", "ValueError"]),
                              dict(started=obs, refusals=refused),
                              "started is true exactly from the first compute_chunk (an empty one included) until finalize; compute_full and "
                              "frame_by_frame_calculation refuse mid-utterance", tags=dict(clause="started_spec_library", computer=which))
        except Exception as e:
            ctx.violation(dict(computer=which, bank=kind, style=style, L=L, S=S, ops="started / refusal probe"), "no exception",
                          "%s: %s" % (type(e).__name__, e), "history of calls raises", tags=dict(clause="raises", computer=which, exc=type(e).__name__))
        try:
            for _u in range(r.randrange(1, 4)):
                N = r.choice([0, 1, L // 2, L, 3 * L + 5])
                # utterances of different float dtypes on one instance (the very first may be float32):
                # nothing allocated for one utterance's dtype may survive into the next
                x = rs.randn(N).astype(r.choice([np.float64, np.float32, np.float32]))
                x.setflags(write=False)
                mode = r.choice(["chunks", "full", "fbf", "short"])
                hist_desc.append((mode, N, str(x.dtype)))
                if mode == "full":
                    a.compute_full(x)
                elif mode == "fbf":
                    compute.frame_by_frame_calculation(a, x, r.choice([1, 50, 1024]))
                else:
                    off = 0
                    for cl in split(r, N):
                        a.compute_chunk(x[off : off + cl])
                        off += cl
                    if r.random() < 0.3 and a.started:
                        try:
                            a.compute_full(x)
                            ctx.violation(dict(computer=which, hist=hist_desc), "ValueError", "returned", "compute_full refuses mid-utterance", tags=dict(clause="guard", computer=which))
                        except ValueError:
                            pass
                    a.finalize()
                    if r.random() < 0.3:
                        a.finalize()
            N = r.choice([L // 2 + 1, L, 2 * L + 3, 4 * L + 1])
            x = rs.randn(N).astype(r.choice([np.float64, np.float64, np.float32]))
            x.setflags(write=False)
            chunks = split(r, N)
            outs = []
            for comp in (a, b):
                off, parts = 0, []
                for cl in chunks:
                    parts.append(comp.compute_chunk(x[off : off + cl]))
                    off += cl
                parts.append(comp.finalize())
                outs.append(np.concatenate(parts))
        except Exception as e:
            ctx.violation(dict(computer=which, bank=kind, hist=hist_desc), "no exception", "%s: %s" % (type(e).__name__, e),
                          "history of calls raises", tags=dict(clause="raises", computer=which, exc=type(e).__name__))
            continue
        case = dict(computer=which, bank=kind, style=style, L=L, S=S, hist=hist_desc, N=N, chunks=chunks, dtype=str(x.dtype))
        ctx.case(case, kind="library:" + which)
        if outs[0].shape != outs[1].shape or outs[0].tobytes() != outs[1].tobytes():
            ctx.violation(case, "bit-identical", "differs", "history-laden instance vs fresh instance on the next utterance (bit-identical)",
                          tags=dict(clause="history_independence", computer=which))


def replay(rp):
    case = rp.get("case", {})
    print(common.canon(case))
    if case.get("computer") == "stft" and "ops" in case and "window" in case:
        comp = sc.make_dc_computer(case["L"], case["S"], case["centered"], case["kaldi"], case["window"])
        impl = sc.run_ops_impl(comp, case["ops"])
        print("impl:", [(sc.as_int_rows(v) if not isinstance(v, str) else v, st) for v, st in impl])
        d = common.Driver("C04")
        out = d.run([sc.ops_line(case["L"], case["S"], case["centered"], case["kaldi"], case["ops"])])[0]
        print("model:", sc.expected_from_model(out, case["ops"], case["window"], with_started=True))
    if case.get("computer") == "si" and case.get("tracer") == "intfir" and "ops" in case:
        from . import c03
        bank, comp = c03.make_int_computer(case)
        M, tr, D = c03.params_of(case, bank, comp)
        impl = c03.run_ops_impl(comp, case["x"], case["ops"])
        print("impl :", [(st, c03.int_rows(v) if st == "ok" and not isinstance(v, list) else v) for st, v, _ in impl])
        out = common.Driver("C03").run([c03.driver_line(case, M, tr, D, case["ops"])])[0]
        print("model:", [(m[0], m[1]) for m in c03.parse_model(out)])
        fresh = c03.make_int_computer(case)[1]
        ref = c03.run_ops_impl(fresh, case["x"], ["F"])[0]
        print("fresh instance, compute_full:", ref[0], c03.int_rows(ref[1]) if ref[0] == "ok" else None)
    print("oracle:", rp.get("oracle"), "expected", rp.get("expected"), "got", rp.get("got"))
    return 0

"""C15 - Deltas and Stack produce the documented layout and values."""
import itertools
from fractions import Fraction as Fr

import numpy as np

from . import common

PROP = "C15"
MODULES = ["PdsVerif.Props.PostArithTie", "PdsVerif.Props.C15"]  # imports Lemmas.Tensor, Lemmas.Post (helper lemmas; same forbidden-token grep)
MODEL_MODULES = ["PdsVerif.Model.Tensor", "PdsVerif.Model.Post"]
REQUIRED = [
    "PdsVerif.C15." + n
    for n in """deltas_filts_eq deltas_filt_length deltas_filt_recursion deltas_filt_eq_kaldi_scales
    deltas_filt_normaliser deltas_lane_value deltas_edge_eq_kaldi deltas_shape_concat deltas_shape_stack
    deltas_value_concat deltas_value_stack deltas_block0_is_input_concat deltas_block0_is_input_stack
    deltas_error_iff deltas_pure ext_inside ext_edge ext_constant ext_wrap ext_reflect ext_symmetric
    stack_new_pos stack_2d_eq_nd stack_2d_path_eq_nd_path stack_shape stack_value stack_drop stack_pad
    stack_short stack_error_iff stack_pure""".split()
] + ["PdsVerif.PostArithTie." + n for n in ["base_len_eq", "baseFilter_eq_gen", "max_offset_eq", "slice_lo_eq", "slice_hi_eq",
                                            "delta1d_eq_gen", "shape_facts", "stack_new_eq_gen", "stack_axis_eq",
                                            "stack_time_axis_eq", "stack_rem_eq", "stack_pad_before_eq", "stack_pad_after_eq",
                                            "stack_T_padded_eq", "stack_nT_eq", "stack_nF_eq", "stack_T_kept_eq",
                                            "stack_prepare_eq_gen", "stack_pathNd_eq_gen", "stack_apply_eq_gen", "stack_shape_facts"]]


def translate(repo):
    """arithmetic of Deltas (base filter, recursion, max_offset, slice bounds, pad widths) and of Stack (init guard, both
    `%`, rem, pad widths, padded length, nT, nF, kept length, the strided slices and the statement order of both branches)
    -> Generated/PostArith.lean (theorems: Props/PostArithTie.lean)"""
    from .translate import postarith
    return postarith.generate(repo)


RULE = (
    "small-integer tensors of rank 1-4 (dims 0-5 incl. singleton and empty non-filtered axes; the filtered / time "
    "axis 0-11 long), every axis / target_axis / time_axis in and slightly outside the legal range (negative too), "
    "num_deltas 0-3, context windows 1-4, concatenate on/off, the np.pad modes constant (with constant_values), edge, "
    "reflect, symmetric, wrap, maximum, minimum, mean, median, linear_ramp (with end_values), num_vectors 1-5, dtypes "
    "int32/int64/float32/float64, in_place on/off.  A case is (op, configuration, shape, data, dtype, axis); distinct "
    "by that tuple; a case is non-trivial unless the tensor has no elements."
)
TRUSTED = [
    "index semantics given to the NumPy primitives in Model/Tensor.lean (basic slicing with a step, .T, C-order reshape, "
    "concatenate, stack, np.pad modes incl. their periodic iteration, np.correlate/np.convolve 'full', Python slice "
    "bounds) - each is exercised by the correspondence run on every case",
    "the loop `for other in np.ndindex(...): out[slice] = g(in[slice])` is modelled as a lane-wise map (mapLanes)",
    "value semantics: NumPy view/copy aliasing behind `in_place` is not modelled; input-unchanged is checked by runs",
    "float64 round-off and the final .astype(dtype) are outside the theorems (model runs in exact rationals; the cast "
    "is a parameter `cast`); compared at 1e-12*scale (float64), 1e-6*scale (float32), exact truncation for ints except "
    "when the exact value is within 1e-9 of a non-zero integer",
    "Kaldi's DeltaFeatures is transcribed (Model/Post.lean, namespace Kaldi) with its scatter loop written as the "
    "equivalent gather",
]
ASSUMPTIONS = [
    "context_window >= 1 (the class documents 'Positive'; 0 makes every tap 0/0 = nan)",
    "num_vectors >= 1 in the Stack theorems (guaranteed by Stack.__init__: theorem stack_new_pos)",
    "Deltas value / shape theorems assume rank >= 1 (rank 0 is modelled and compared, not covered by a theorem)",
    "Deltas theorems are over an arbitrary field and an arbitrary cast function; Stack theorems over an arbitrary "
    "type; tensors well-formed (len(data) = prod(shape))",
    "purity theorems are statements about a value-semantics model (the model cannot alias); input-unchanged and "
    "no-aliasing are checked on the implementation on every case",
    "pad modes outside the modelled set (reflect_type='odd', stat_length, 'empty', callables) are out of scope and not "
    "generated; mean/median/linear_ramp are generated for Stack only with float dtypes (np.pad rounds them for ints)",
    "an empty *filtered* axis (T=0) is outside the property's quantifier: only the error class / empty result is "
    "compared with the model",
    "rank-0 input, a target_axis outside NumPy's range, and Stack with axis == time_axis (always the case for rank 1) "
    "are errors in code and model alike (ZeroDivisionError / AxisError / RuntimeError) and outside the quantifier",
]
LEVEL_TEXT = (
    "Full proof, for every rank, shape, axis / target_axis / time_axis (negative included), num_deltas, context window, "
    "pad mode and num_vectors: output shapes, block 0 = input, every delta block equals sum_j filt_d[j]*ext(lane)(t+j-dW) "
    "as implemented by pad + correlate('full') + crop, the code's filters equal Kaldi's scales (and = integer taps / Z^d), "
    "edge mode equals Kaldi's Process, Stack value formula, 2-D reshape path = N-D strided path as tensors, drop / pad / "
    "T<n behaviour, exact error conditions.  The model is tied to the code by translation (postarith.py -> "
    "Generated/PostArith.lean, Props/PostArithTie.lean: Deltas' base filter, recursion, max_offset and slice bounds; Stack's "
    "init guard and the whole integer part of apply - both %, rem, pad widths, padded length, nT, nF, kept length, N-D slices, "
    "statement order of both branches) and by exact-rational correspondence through the public API."
)
LEVEL_NOTE = (
    "Trusted: Lean kernel, std axioms, the index semantics assigned to the NumPy primitives (exercised on every case), "
    "value semantics for in_place (input-unchanged is tested, not proved), float round-off / dtype cast outside theorems. "
    "context_window >= 1."
)
TECHNIQUE = "Lean 4 proof over a hand-written executable tensor model + translator tie (Deltas and Stack arithmetic regenerated from post.py) + exact-rational correspondence + naive-loop oracle"

DTYPES = ["int32", "int64", "float32", "float64"]
SELECT_MODES = ["constant", "edge", "reflect", "symmetric", "wrap", "maximum", "minimum"]
ARITH_MODES = ["mean", "median", "linear_ramp"]


def post_mod():
    from pydrobert.speech import post

    return post


# ------------------------------------------------------------------------------------------------
# independent statement of the property (naive loops, exact rationals)
# ------------------------------------------------------------------------------------------------


def ext_value(mode, kw, lane, i, l, r):
    """value at integer position i of the lane extended by pad mode `mode` (documented np.pad meaning)"""
    T = len(lane)
    if 0 <= i < T:
        return lane[i]
    if mode == "constant":
        cv = kw.get("constant_values", 0)
        cl, cr = cv if isinstance(cv, (tuple, list)) else (cv, cv)
        return Fr(cl) if i < 0 else Fr(cr)
    if mode == "edge":
        return lane[0] if i < 0 else lane[T - 1]
    if mode == "reflect":
        if T == 1:
            return lane[0]
        p = 2 * (T - 1)
        k = i % p
        return lane[k] if k < T else lane[p - k]
    if mode == "symmetric":
        p = 2 * T
        k = i % p
        return lane[k] if k < T else lane[p - 1 - k]
    if mode == "wrap":
        return lane[i % T]
    if mode == "maximum":
        return max(lane)
    if mode == "minimum":
        return min(lane)
    if mode == "mean":
        return sum(lane, Fr(0)) / T
    if mode == "median":
        s = sorted(lane)
        return s[T // 2] if T % 2 else (s[T // 2 - 1] + s[T // 2]) / 2
    if mode == "linear_ramp":
        ev = kw.get("end_values", 0)
        el, er = ev if isinstance(ev, (tuple, list)) else (ev, ev)
        if i < 0:
            k = i + l
            return Fr(el) + (lane[0] - Fr(el)) * k / l
        k = i - T
        return Fr(er) + (lane[T - 1] - Fr(er)) * (r - 1 - k) / r
    raise KeyError(mode)


def kaldi_scales(order, window):
    """Kaldi's DeltaFeatures constructor, in exact rationals (scatter loop as in feature-functions.cc)"""
    scales = [[Fr(1)]]
    for _ in range(order):
        prev = scales[-1]
        cur = [Fr(0)] * (len(prev) + 2 * window)
        prev_offset = (len(prev) - 1) // 2
        cur_offset = prev_offset + window
        normalizer = 0
        for j in range(-window, window + 1):
            normalizer += j * j
            for k in range(-prev_offset, prev_offset + 1):
                cur[j + k + cur_offset] += j * prev[k + prev_offset]
        scales.append([c / normalizer for c in cur])
    return scales


def deltas_oracle(x, axis, c):
    """expected (shape, {multi-index: Fraction}) by the documented formula; x is an int ndarray (object-free)"""
    nd = x.ndim
    ax = axis % nd
    D, W = c["num_deltas"], c["context_window"]
    ta = c["target_axis"]
    scales = kaldi_scales(D, W)
    shape = list(x.shape)
    if c["concatenate"]:
        ta %= nd
        oshape = list(shape)
        oshape[ta] *= D + 1
    else:
        ta %= nd + 1
        oshape = shape[:ta] + [D + 1] + shape[ta:]
    out = {}
    T = shape[ax]
    lanes = {}
    for idx in itertools.product(*[range(s) for s in oshape]):
        if c["concatenate"]:
            d, j = divmod(idx[ta], shape[ta])
            src = list(idx)
            src[ta] = j
        else:
            d = idx[ta]
            src = list(idx[:ta] + idx[ta + 1:])
        if d == 0:
            out[idx] = Fr(int(x[tuple(src)]))
            continue
        t = src[ax]
        key = tuple(src[:ax] + [None] + src[ax + 1:])
        if key not in lanes:
            sl = list(src)
            sl[ax] = slice(None)
            lanes[key] = [Fr(int(v)) for v in x[tuple(sl)]]
        lane = lanes[key]
        sc = scales[d]
        m = d * W
        acc = Fr(0)
        for j in range(-m, m + 1):
            acc += sc[j + m] * ext_value(c["pad_mode"], c["pad_kwargs"], lane, t + j, m, m)
        out[idx] = acc
    return oshape, out


def stack_oracle(x, axis, c):
    nd = x.ndim
    ax = axis % nd
    ta = c["time_axis"] % nd
    n = c["num_vectors"]
    shape = list(x.shape)
    T, F = shape[ta], shape[ax]
    if c["pad_mode"] is None:
        nT = T // n
    else:
        nT = -(-T // n)
    padw = nT * n - T if nT * n > T else 0
    oshape = list(shape)
    oshape[ta] = nT
    oshape[ax] = F * n
    out = {}
    for idx in itertools.product(*[range(s) for s in oshape]):
        v, f = divmod(idx[ax], F)
        src = list(idx)
        src[ax] = f
        t = idx[ta] * n + v
        if t < T:
            src[ta] = t
            out[idx] = Fr(int(x[tuple(src)]))
        else:
            sl = list(src)
            sl[ta] = slice(None)
            lane = [Fr(int(u)) for u in x[tuple(sl)]]
            out[idx] = ext_value(c["pad_mode"], c["pad_kwargs"], lane, t, 0, padw)
    return oshape, out


def trunc(q):
    return int(q) if q >= 0 else -int(-q)


def value_ok(q, v, dtype, scale):
    """does implementation value v represent exact value q in dtype (round-off only as the property allows)?"""
    if dtype.startswith("int"):
        want = trunc(q)
        if int(v) == want:
            return True
        n = round(q)
        if n != 0 and abs(q - n) < Fr(1, 10 ** 9):  # float64 intermediate may land just below the integer
            return int(v) in (n, n - (1 if n > 0 else -1))
        return False
    tol = (1e-6 if dtype == "float32" else 1e-12) * scale
    return abs(float(q) - float(v)) <= tol


# ------------------------------------------------------------------------------------------------
# case generation
# ------------------------------------------------------------------------------------------------


def gen_pad(r, arith_ok=True, allow_none=False):
    modes = list(SELECT_MODES) + (ARITH_MODES if arith_ok else [])
    if allow_none and r.random() < 0.35:
        return None, {}
    mode = r.choice(modes)
    kw = {}
    if mode == "constant" and r.random() < 0.7:
        kw["constant_values"] = r.choice([r.randint(-5, 5), [r.randint(-5, 5), r.randint(-5, 5)]])
    if mode == "linear_ramp" and r.random() < 0.7:
        kw["end_values"] = r.choice([r.randint(-5, 5), [r.randint(-5, 5), r.randint(-5, 5)]])
    return mode, kw


def gen_shape(r, rank, special_axis, special_len, small):
    hi = 3 if small else 5
    shape = []
    for i in range(rank):
        if i == special_axis:
            shape.append(special_len)
        else:
            u = r.random()
            shape.append(0 if u < 0.06 else 1 if u < 0.25 else r.randint(2, hi))
    return shape


def gen_data(r, shape):
    n = int(np.prod(shape)) if shape else 1
    u = r.random()
    if u < 0.1:
        return list(range(n))  # distinct: identifies which element went where
    lim = r.choice([3, 9, 40])
    return [r.randint(-lim, lim) for _ in range(n)]


def gen_deltas(ctx):
    r = ctx.rng
    rank = r.choice([1, 1, 2, 2, 2, 3, 3, 4])
    D = r.choice([0, 1, 1, 2, 2, 3])
    W = r.choice([1, 2, 2, 3, 4])
    ax = r.randrange(rank)
    T = r.choice([0, 1, 1, 2, 3, 4, 5, 6, 7, 9]) if r.random() < 0.9 else r.randint(0, 11)
    shape = gen_shape(r, rank, ax, T, small=(rank >= 3 or D * W > 4))
    axis = ax - rank if r.random() < 0.4 else ax
    if r.random() < 0.05:
        axis += rank * r.choice([-2, 1, 2])  # `axis % ndim` accepts any integer
    concat = r.random() < 0.55
    lim = rank if concat else rank + 1
    ta = r.randrange(-lim, lim)
    if r.random() < 0.04:
        ta = r.choice([lim, -lim - 1, lim + 1])
    mode, kw = gen_pad(r)
    return dict(op="deltas", shape=shape, data=gen_data(r, shape), dtype=r.choice(DTYPES), axis=axis,
                num_deltas=D, context_window=W, target_axis=ta, concatenate=concat, pad_mode=mode,
                pad_kwargs=kw, in_place=r.random() < 0.5)


def gen_stack(ctx):
    r = ctx.rng
    rank = r.choice([1, 2, 2, 2, 2, 3, 3, 3, 4, 4])
    n = r.choice([1, 2, 2, 3, 3, 4, 5])
    dtype = r.choice(DTYPES)
    if rank == 1:
        ta = ax = 0
    else:
        ta, ax = r.sample(range(rank), 2)
        if r.random() < 0.04:
            ax = ta
    u = r.random()
    T = r.randint(0, n - 1) if u < 0.2 else n * r.randint(0, 3) if u < 0.4 else r.randint(0, 11)
    shape = gen_shape(r, rank, ta, T, small=rank >= 3)
    axis = ax - rank if r.random() < 0.4 else ax
    time_axis = ta - rank if r.random() < 0.4 else ta
    if r.random() < 0.05:
        axis += rank * r.choice([-1, 1])
    if r.random() < 0.05:
        time_axis += rank * r.choice([-1, 1])
    mode, kw = gen_pad(r, arith_ok=dtype.startswith("float"), allow_none=True)
    return dict(op="stack", shape=shape, data=gen_data(r, shape), dtype=dtype, axis=axis, num_vectors=n,
                time_axis=time_axis, pad_mode=mode, pad_kwargs=kw, in_place=r.random() < 0.5)


CORPUS = [
    # the repo's own examples
    dict(op="stack", shape=[10, 3], data=list(range(30)), dtype="int64", axis=1, num_vectors=3, time_axis=0,
         pad_mode=None, pad_kwargs={}, in_place=False),
    dict(op="stack", shape=[3, 10], data=list(range(30)), dtype="int64", axis=0, num_vectors=3, time_axis=1,
         pad_mode=None, pad_kwargs={}, in_place=False),
    dict(op="stack", shape=[5, 2, 2], data=list(range(20)), dtype="int64", axis=-1, num_vectors=2, time_axis=0,
         pad_mode="edge", pad_kwargs={}, in_place=False),
    dict(op="stack", shape=[5, 2, 2], data=list(range(20)), dtype="int64", axis=-1, num_vectors=2, time_axis=0,
         pad_mode=None, pad_kwargs={}, in_place=False),
    # T < n with and without padding, 2-D and N-D
    dict(op="stack", shape=[2, 3], data=list(range(6)), dtype="float64", axis=1, num_vectors=4, time_axis=0,
         pad_mode=None, pad_kwargs={}, in_place=False),
    dict(op="stack", shape=[2, 3], data=list(range(6)), dtype="float64", axis=1, num_vectors=4, time_axis=0,
         pad_mode="reflect", pad_kwargs={}, in_place=True),
    dict(op="stack", shape=[2, 1, 3], data=list(range(6)), dtype="int32", axis=2, num_vectors=4, time_axis=0,
         pad_mode="wrap", pad_kwargs={}, in_place=False),
    # Deltas: rank 1, pad wider than the signal, every family of mode
    dict(op="deltas", shape=[3], data=[1, 4, 9], dtype="float64", axis=0, num_deltas=2, context_window=2,
         target_axis=0, concatenate=False, pad_mode="reflect", pad_kwargs={}, in_place=False),
    dict(op="deltas", shape=[2, 3], data=[1, 2, 4, 8, 16, 32], dtype="int32", axis=1, num_deltas=2, context_window=1,
         target_axis=0, concatenate=False, pad_mode="mean", pad_kwargs={}, in_place=False),
    dict(op="deltas", shape=[4, 2], data=[0, 5, 1, 3, 4, 1, 9, 0], dtype="float32", axis=0, num_deltas=3,
         context_window=4, target_axis=-1, concatenate=True, pad_mode="edge", pad_kwargs={}, in_place=False),
    dict(op="deltas", shape=[5, 4, 0, 0, 1], data=[], dtype="float64", axis=1, num_deltas=2, context_window=2,
         target_axis=2, concatenate=True, pad_mode="edge", pad_kwargs={}, in_place=False),
]


# ------------------------------------------------------------------------------------------------
# running one case
# ------------------------------------------------------------------------------------------------


def make_input(c):
    return np.array(c["data"], dtype=c["dtype"]).reshape(c["shape"])


def np_pad_kwargs(kw):
    return {k: (tuple(v) if isinstance(v, list) else v) for k, v in kw.items()}


def run_impl(c, x):
    """returns ('ok', ndarray) or ('err', class name)"""
    post = post_mod()
    try:
        # one case in four is built through the documented configuration route (a mapping handed to
        # alias_factory_subclass_from_arg, as the command-line tools do) instead of by calling the class; which ones
        # is a function of the case, not of the RNG
        import json as _json, zlib as _zlib
        via_config = _zlib.crc32(_json.dumps(c, sort_keys=True, default=str).encode()) % 4 == 0
        if via_config:
            from pydrobert.speech.alias import alias_factory_subclass_from_arg
            if c["op"] == "deltas":
                m = dict(alias="deltas", num_deltas=c["num_deltas"], target_axis=c["target_axis"], concatenate=c["concatenate"],
                         context_window=c["context_window"], pad_mode=c["pad_mode"], **np_pad_kwargs(c["pad_kwargs"]))
            else:
                m = dict(name="stack", num_vectors=c["num_vectors"], time_axis=c["time_axis"], pad_mode=c["pad_mode"],
                         **np_pad_kwargs(c["pad_kwargs"]))
            o = alias_factory_subclass_from_arg(post.PostProcessor, m)
        elif c["op"] == "deltas":
            o = post.Deltas(c["num_deltas"], c["target_axis"], c["concatenate"], c["context_window"],
                            c["pad_mode"], **np_pad_kwargs(c["pad_kwargs"]))
        else:
            o = post.Stack(c["num_vectors"], c["time_axis"], c["pad_mode"], **np_pad_kwargs(c["pad_kwargs"]))
        return "ok", o.apply(x, c["axis"], in_place=c["in_place"])
    except Exception as e:  # noqa: BLE001 - the class name is the observation
        return "err", type(e).__name__


def pad_token(mode, kw):
    if mode is None:
        return "none"
    if mode == "constant":
        cv = kw.get("constant_values", 0)
        cl, cr = cv if isinstance(cv, (tuple, list)) else (cv, cv)
        return "constant:%d:%d" % (cl, cr)
    if mode == "linear_ramp":
        ev = kw.get("end_values", 0)
        el, er = ev if isinstance(ev, (tuple, list)) else (ev, ev)
        return "linear_ramp:%d:%d" % (el, er)
    return mode


def ints(l):
    return ",".join(str(int(v)) for v in l) if len(l) else "-"


def line_of(c):
    if c["op"] == "deltas":
        return "deltas %d %d %d %d %s %s %d %s %s" % (
            c["num_deltas"], c["context_window"], c["target_axis"], 1 if c["concatenate"] else 0,
            pad_token(c["pad_mode"], c["pad_kwargs"]), "trunc" if c["dtype"].startswith("int") else "id",
            c["axis"], ints(c["shape"]), ints(c["data"]))
    return "stack %d %d %s %d %d %s %s" % (
        c["num_vectors"], c["time_axis"], pad_token(c["pad_mode"], c["pad_kwargs"]), 1 if c["in_place"] else 0, c["axis"],
        ints(c["shape"]), ints(c["data"]))


def parse_model(o):
    """'ok shape data' -> ('ok', shape, [Fraction]) ; 'err:Name' -> ('err', name)"""
    if o.startswith("err:"):
        return ("err", o[4:])
    p = o.split(" ")
    if p[0] != "ok" or len(p) != 3:
        return ("bad", o)
    shape = [] if p[1] == "-" else [int(v) for v in p[1].split(",")]
    data = [] if p[2] == "-" else [Fr(v) for v in p[2].split(",")]
    return ("ok", shape, data)


def in_quantifier(c):
    """is the case inside the property's quantifier (a result, not an error, is promised)?"""
    rank = len(c["shape"])
    if rank == 0:
        return False
    if c["op"] == "deltas":
        lim = rank if c["concatenate"] else rank + 1
        if not (-lim <= c["target_axis"] < lim):
            return False
        if c["shape"][c["axis"] % rank] == 0:
            return False  # empty filtered axis
        return True
    if c["axis"] % rank == c["time_axis"] % rank or c["num_vectors"] < 1:
        return False
    return True


def explicit_error(c):
    """the exception class post.py raises by an explicit `raise` on this case, if any"""
    if c["op"] != "stack":
        return None
    if c["num_vectors"] < 1:
        return "ValueError"
    rank = len(c["shape"])
    if rank and c["axis"] % rank == c["time_axis"] % rank:
        return "RuntimeError"
    return None


def scale_of(c):
    m = max([abs(v) for v in c["data"]] + [1])
    for v in c["pad_kwargs"].values():
        m = max([m] + [abs(u) for u in (v if isinstance(v, list) else [v])])
    return float(m)


def check_case(ctx, c, model_out=None):
    """oracle on the implementation (+ correspondence when model_out is given). Returns a small report."""
    x = make_input(c)
    x0 = x.copy()
    kind, res = run_impl(c, x)
    rep = dict(impl=(kind, res if kind == "err" else list(res.shape)))
    inq = in_quantifier(c)
    scale = scale_of(c)
    op = c["op"]
    ctx.count(op + ":rank%d" % len(c["shape"]))
    ctx.count(op + ":" + c["dtype"])
    ctx.count(op + ":pad=" + str(c["pad_mode"]))
    if op == "deltas":
        ctx.count("deltas:D%d,W%d" % (c["num_deltas"], c["context_window"]))
        ctx.count("deltas:" + ("concat" if c["concatenate"] else "stack"))
    else:
        n, T = c["num_vectors"], (c["shape"][c["time_axis"] % len(c["shape"])] if c["shape"] else 0)
        ctx.count("stack:" + ("n<1" if n < 1 else "T<n" if T < n else "T%n=0" if T % n == 0 else "T%n!=0"))
    if kind == "err":
        ctx.count("impl_error:" + res)
    want = oshape = None
    if inq and kind == "ok":
        xi = np.array(c["data"], dtype=np.int64).reshape(c["shape"])
        oshape, want = (deltas_oracle if op == "deltas" else stack_oracle)(xi, c["axis"], c)
    # ---- correspondence -------------------------------------------------------------------
    if model_out is not None:
        m = parse_model(model_out)
        rep["model"] = m[:2]
        if m[0] == "bad":
            ctx.mismatch(c, model_out, rep["impl"], "driver rejected the case")
        elif m[0] == "err" or kind == "err":
            if not (m[0] == "err" and kind == "err"):
                ctx.mismatch(c, m[:2], rep["impl"], "one raises, the other returns")
            elif m[1] != res:
                # the class is part of the tie only where post.py itself raises; which NumPy / Python exception an
                # input outside the documented domain runs into is incidental (a refactor may change it)
                if explicit_error(c) is not None:
                    ctx.mismatch(c, m[:2], rep["impl"], "error class differs for an error post.py raises itself")
                else:
                    ctx.count("error_class_differs_outside_domain")
        else:
            if list(res.shape) != m[1]:
                ctx.mismatch(c, m[1], list(res.shape), "shape differs")
            else:
                flat = res.reshape(-1)
                exact_needed = op == "stack" and c["pad_mode"] not in ARITH_MODES
                for k, (q, v) in enumerate(zip(m[2], flat)):
                    if exact_needed:
                        good = q.denominator == 1 and int(q) == v
                    elif c["dtype"].startswith("int") and op == "deltas":
                        # the model already truncated (cast = trunc): exact, except where the float64 intermediate may
                        # land just below a non-zero integer (decided from the oracle's exact value)
                        good = q.denominator == 1 and int(q) == int(v)
                        if not good and want is not None and list(oshape) == m[1]:
                            good = value_ok(want[tuple(int(i) for i in np.unravel_index(k, res.shape))], v,
                                            c["dtype"], scale)
                    else:
                        good = value_ok(q, v, c["dtype"], scale)
                    if not good:
                        ctx.mismatch(c, str(q), repr(v), "value differs at flat position %d" % k)
                        break
    # ---- property oracle on the implementation ----------------------------------------------
    if not inq:
        ctx.count("out_of_scope")
        return rep
    tags = dict(op=op)
    if kind == "err":
        ctx.violation(c, "a result", res, "the call is inside the documented domain and must not raise",
                      tags=dict(tags, clause="raises"))
        return rep
    if str(res.dtype) != c["dtype"]:
        ctx.violation(c, c["dtype"], str(res.dtype), "result has the input's dtype", tags=dict(tags, clause="dtype"))
    if not c["in_place"] and not (np.array_equal(x, x0) and x.shape == x0.shape):
        ctx.violation(c, x0.tolist(), x.tolist(), "input is not modified when in_place=False",
                      tags=dict(tags, clause="input_modified"))
    if not c["in_place"] and res.size and np.shares_memory(res, x):
        ctx.violation(c, "fresh array", "shares memory with the input",
                      "result does not alias the input when in_place=False", tags=dict(tags, clause="aliases_input"))
    if list(res.shape) != list(oshape):
        ctx.violation(c, oshape, list(res.shape), "documented output shape", tags=dict(tags, clause="shape"))
        return rep
    for idx, q in want.items():
        v = res[idx]
        if op == "stack" and c["pad_mode"] not in ARITH_MODES:
            good = q.denominator == 1 and int(q) == v
        else:
            good = value_ok(q, v, c["dtype"], scale)
        if not good:
            ctx.violation(c, "%s at %s" % (q, list(idx)), repr(v.item()),
                          "out[idx] equals the documented formula (naive loops, exact rationals)",
                          tags=dict(tags, clause="value"))
            break
    # ---- 2-D path vs N-D path (Stack): same data with a singleton axis appended goes down the N-D branch
    if op == "stack" and len(c["shape"]) == 2:
        c3 = dict(c, shape=c["shape"] + [1], axis=c["axis"] % 2, time_axis=c["time_axis"] % 2)
        k3, r3 = run_impl(c3, make_input(c3))
        if k3 == "err" or r3.shape != res.shape + (1,) or not np.array_equal(r3[..., 0], res, equal_nan=True):
            ctx.violation(c, dict(shape=list(res.shape), values=res.tolist()),
                          r3 if k3 == "err" else dict(shape=list(r3.shape), values=r3.tolist()),
                          "2-D input and the same input with a trailing singleton axis (N-D branch) agree",
                          tags=dict(tags, clause="2d_vs_nd"))
    return rep


def sweep(ctx):
    """every axis / target_axis / time_axis combination (negative too) on small fixed shapes"""
    r = ctx.rng
    out = []
    big = ctx.tier == "thorough"
    for rank in (1, 2, 3, 4) if big else (1, 2, 3):
        for ax in range(-rank, rank):
            shape = [2] * rank
            shape[ax % rank] = 3
            for concat in (True, False):
                lim = rank if concat else rank + 1
                for ta in range(-lim, lim):
                    for D, W in ((1, 1), (2, 2)) + (((3, 1), (1, 4)) if big else ()):
                        for mode in ("edge", "reflect") + (("constant", "wrap", "symmetric") if big else ()):
                            out.append(dict(op="deltas", shape=shape, data=gen_data(r, shape), dtype=r.choice(DTYPES),
                                            axis=ax, num_deltas=D, context_window=W, target_axis=ta,
                                            concatenate=concat, pad_mode=mode, pad_kwargs={}, in_place=False))
    for rank in (2, 3, 4):
        for ax in range(-rank, rank):
            for ta in range(-rank, rank):
                for n in (2, 3):
                    for T in (0, 1, 5, 6) + ((2, 3, 7) if big else ()):
                        for mode in (None, "edge") + (("wrap", "reflect", "minimum") if big else ()):
                            shape = [2] * rank
                            shape[ta % rank] = T
                            out.append(dict(op="stack", shape=shape, data=gen_data(r, shape), dtype=r.choice(DTYPES),
                                            axis=ax, num_vectors=n, time_axis=ta, pad_mode=mode, pad_kwargs={},
                                            in_place=r.random() < 0.5))
    return out


def cases_for(ctx):
    nd = ctx.scale(3000, 40000)
    ns = ctx.scale(4000, 60000)
    cases = list(CORPUS) + sweep(ctx)
    cases += [gen_deltas(ctx) for _ in range(nd)]
    cases += [gen_stack(ctx) for _ in range(ns)]
    # structurally special: rank 0 (every combination), num_vectors < 1
    for D, cc, ta in itertools.product((0, 1), (True, False), (0, -1, 1)):
        cases.append(dict(op="deltas", shape=[], data=[3], dtype="float64", axis=0, num_deltas=D, context_window=2,
                          target_axis=ta, concatenate=cc, pad_mode="edge", pad_kwargs={}, in_place=False))
    cases.append(dict(op="stack", shape=[], data=[3], dtype="float64", axis=0, num_vectors=2, time_axis=0,
                      pad_mode=None, pad_kwargs={}, in_place=False))
    for n in (0, -1):
        cases.append(dict(op="stack", shape=[2, 2], data=[1, 2, 3, 4], dtype="float64", axis=1, num_vectors=n,
                          time_axis=0, pad_mode=None, pad_kwargs={}, in_place=False))
    return cases


# sha256[:16] of `__init__` + `apply` source at the time the model was written (informational: the tie is the
# correspondence run, so a behaviour-preserving rewrite only produces a note)
MODELLED_SOURCE = {"Deltas": "0f0ca9b98bb4e4b0", "Stack": "d3b5db053c65d6a7"}


def source_note(ctx):
    import hashlib
    import inspect

    post = post_mod()
    changed = []
    for name, want in MODELLED_SOURCE.items():
        try:
            cls = getattr(post, name)
            src = "".join(inspect.getsource(getattr(cls, m)) for m in ("__init__", "apply"))
            got = hashlib.sha256(src.encode()).hexdigest()[:16]
        except Exception as e:  # noqa: BLE001
            got = "unreadable: %s" % type(e).__name__
        if got != want:
            changed.append(name)
    ctx.extra["modelled_source_changed"] = changed
    if changed:
        ctx.note("source of %s differs from the text the model was mirrored from; the tie rests on the "
                 "correspondence run" % ", ".join(changed))


def reuse_phase(ctx):
    """ONE post-processor object applied to inputs of different rank in turn (a 2-D matrix, a batch, a matrix again) with
    negative axes: `apply` reads its configuration, it does not rewrite it - every result equals that of a fresh object"""
    P = post_mod()
    rs = np.random.RandomState(1501)
    inputs = [rs.randint(-9, 9, size=(6, 3)).astype(np.float64), rs.randint(-9, 9, size=(2, 6, 3)).astype(np.float64),
              rs.randint(-9, 9, size=(4, 3)).astype(np.float64), rs.randint(-9, 9, size=(2, 2, 6, 3)).astype(np.float64)]
    makers = [("Stack(2, time_axis=-2)", lambda: P.Stack(2, time_axis=-2), {}),
              ("Stack(3, time_axis=-2, pad_mode='edge')", lambda: P.Stack(3, time_axis=-2, pad_mode="edge"), {}),
              ("Deltas(2, target_axis=-1)", lambda: P.Deltas(2, target_axis=-1), dict(axis=-2)),
              ("Deltas(1, target_axis=-3, concatenate=False)", lambda: P.Deltas(1, target_axis=-3, concatenate=False), dict(axis=-2))]
    for name, mk, kw in makers:
        for order in ([0, 1, 2, 3], [3, 1, 0, 2], [1, 0, 1, 2]):
            obj = mk()
            for step, k in enumerate(order):
                case = dict(kind="reuse", processor=name, shapes_in_turn=[list(inputs[j].shape) for j in order[: step + 1]], apply_kwargs=kw)
                ctx.case(case, kind="reuse:" + name.split("(")[0])
                try:
                    got = obj.apply(inputs[k].copy(), **kw)
                    want = mk().apply(inputs[k].copy(), **kw)
                except Exception as e:
                    ctx.violation(case, "a result", "%s: %s" % (type(e).__name__, str(e)[:150]), "apply on a re-used object raises",
                                  tags=dict(clause="raises", where="reuse"))
                    break
                if got.shape != want.shape or not np.array_equal(got, want):
                    ctx.violation(case, list(want.shape), list(got.shape) if got.shape != want.shape else "values differ",
                                  "a re-used post-processor gives what a fresh one gives (2-D and N-D inputs alike, negative axes)",
                                  tags=dict(clause="reuse_equals_fresh"))
                    break


def locality_phase(ctx):
    """a delta at frame t is a weighted sum over the frames inside its window: one non-finite feature value (the log-energy
    of a digitally silent frame is -inf when no floor is applied; a NaN from upstream) touches the deltas whose window
    covers it and no others - every other delta is finite and equals the delta of the same features with that entry replaced"""
    P = post_mod()
    rs = np.random.RandomState(1502)
    for bad in (-np.inf, np.inf, np.nan):
        for nd, W, shape, axis, pos in ((1, 1, (40, 3), 0, (12, 2)), (2, 2, (3, 50), -1, (1, 25)), (1, 3, (2, 30, 2), 1, (0, 7, 1))):
            x = rs.randn(*shape)
            xb = x.copy()
            xb[pos] = bad
            case = dict(kind="locality", bad=repr(bad), num_deltas=nd, context_window=W, shape=list(shape), axis=axis, at=list(pos))
            ctx.case(case, kind="locality")
            try:
                with np.errstate(all="ignore"):
                    # blocks stacked along a NEW leading axis, so that the time axis keeps its length
                    got = P.Deltas(nd, target_axis=0, concatenate=False, context_window=W).apply(xb, axis=axis)
                    ref = P.Deltas(nd, target_axis=0, concatenate=False, context_window=W).apply(x, axis=axis)
            except Exception as e:
                ctx.violation(case, "a result", "%s: %s" % (type(e).__name__, str(e)[:150]), "Deltas.apply raises", tags=dict(clause="raises", where="locality"))
                continue
            reach = nd * W                      # the d-th delta filter has half-width d * W
            t = np.arange(shape[axis % len(shape)])
            far = np.abs(t - pos[axis % len(shape)]) > reach
            # the lanes that do not hold the bad entry at all, and the far frames of the lane that does
            if got.shape != ref.shape or got.shape != (nd + 1,) + tuple(shape):
                ctx.violation(case, [nd + 1] + list(shape), list(got.shape), "output shape does not depend on the values", tags=dict(clause="shape", where="locality"))
                continue
            g = np.moveaxis(got, (axis % len(shape)) + 1, -1)
            rf = np.moveaxis(ref, (axis % len(shape)) + 1, -1)
            if g.shape != rf.shape:
                ctx.violation(case, list(ref.shape), list(got.shape), "output shape does not depend on the values", tags=dict(clause="shape", where="locality"))
                continue
            gf, rff = g[..., far], rf[..., far]
            if not (np.all(np.isfinite(gf)) and np.array_equal(gf, rff)):
                ctx.violation(case, "finite and equal to the deltas without the bad entry, outside its reach of %d frames" % reach,
                              "%d non-finite / differing entries" % int(np.sum(~np.isfinite(gf)) + np.sum(gf != rff)),
                              "delta blocks are regression-filtered copies: a delta depends only on the frames inside its window",
                              tags=dict(clause="value", where="locality"))


def run(ctx, driver, with_driver=True):
    source_note(ctx)
    reuse_phase(ctx)
    locality_phase(ctx)
    cases = cases_for(ctx)
    outs = [None] * len(cases)
    if with_driver:
        lines = [line_of(c) for c in cases]
        B = 4000
        outs = []
        for i in range(0, len(lines), B):
            outs += driver.run(lines[i:i + B])
        ctx.corr_lines += len(lines)
        ctx.count("correspondence_lines", len(lines))
    for c, o in zip(cases, outs):
        if ctx.out_of_time():
            ctx.note("stopped early: out of time")
            break
        nontrivial = int(np.prod(c["shape"])) > 0 if c["shape"] else True
        ctx.case({k: v for k, v in c.items() if k != "data"} | {"data": c["data"][:12]}, nontrivial=nontrivial)
        check_case(ctx, c, o)


def run_oracle_only(ctx):
    run(ctx, None, with_driver=False)


def replay(rp):
    c = rp.get("case")
    print(common.canon(c))
    if not isinstance(c, dict) or "op" not in c:
        print("nothing to replay:", rp.get("kind"), rp.get("broken"))
        return 0
    x = make_input(c)
    kind, res = run_impl(c, x)
    print("impl :", kind, res if kind == "err" else (list(res.shape), str(res.dtype), res.tolist()))
    try:
        o = common.Driver(PROP).run([line_of(c)])[0]
    except Exception as e:  # noqa: BLE001
        o = "driver failed: %s" % e
    print("model:", o)
    if in_quantifier(c):
        xi = np.array(c["data"], dtype=np.int64).reshape(c["shape"])
        oshape, want = (deltas_oracle if c["op"] == "deltas" else stack_oracle)(xi, c["axis"], c)
        print("oracle:", oshape, [str(want[k]) for k in sorted(want)])
    else:
        print("oracle: case is outside the property's quantifier")
    ctx = common.Ctx(PROP, "quick", 0, 60)
    check_case(ctx, c, o if o.startswith(("ok", "err")) else None)
    for v in ctx.violations:
        print("VIOLATION-REPRODUCED:", v["oracle"], "expected", v["expected"], "got", v["got"])
    for m in ctx.mismatches:
        print("MODEL-MISMATCH:", m["what"], "model", m["model"], "impl", m["impl"])
    print("recorded:", rp.get("oracle"), "expected", rp.get("expected"), "got", rp.get("got"))
    return 1 if ctx.violations else 0

"""C20 - windows and helper functions follow their documented closed forms."""
import cmath
import math
import statistics

import numpy as np

from . import common
from .translate import utilfns as tr

PROP = "C20"
MODULES = ["PdsVerif.Props.C20"]
MODEL_MODULES = ["PdsVerif.Model.Windows", "PdsVerif.Model.Circshift"]
REQUIRED = [
    "PdsVerif.C20." + n
    for n in """window_len gamma_window_len gamma_window_raises_iff
    bartlett_nonneg blackman_nonneg hamming_nonneg hann_nonneg blackman_poly_nonneg gamma_nonneg
    norms_closed_form shapes hann_sum blackman_sum hamming_sum hamming_sum_bound bartlett_sum bartlett_sum_bound
    window_sum_bound
    gamma_sample_kernel gamma_density_form gamma_window_mode gamma_samples_le_mode gamma_window_unimodal
    circshift_spec circshift_spec_fullband circshift_default_size circshift_copy_pure circshift_inplace circshift_raises_iff
    circshift_plan_bounds circshift_out_len circshift_model_phase
    gauss_quant_closed_form gauss_quant_affine gauss_quant_rational_strictMono gauss_quant_mono
    gauss_quant_strictMono gauss_quant_antisymm
    ang_hz_inverse hz_ang_inverse nyquist_is_pi""".split()
]
RULE = (
    "windows: every width 0..160 plus widths drawn from [161,4096] (thorough: every width 0..4096) x the four NumPy-based "
    "classes; GammaWindow: order in 1..20 (and 0 for the error path), peak in (0,1), widths hugging 0,1,2 and up to 4096; "
    "circshift_fourier: segment length 0..40, start 0..24, dft_size omitted / None / equal / larger / smaller than "
    "start+len / 0, integer shifts that are 0, negative, larger than D, and huge, copy True/False, dtype complex128 / "
    "complex64 / float64; gauss_quant: p log-spaced in both tails down to 1e-20 (and below, for the cut-off), uniform in "
    "(0,1), within 1e-k of 0.5, with random mu/std; hertz/angular: random frequencies and rates. A case is the tuple of "
    "arguments; distinct by value; all are non-trivial except width/len 0."
)
TRUSTED = [
    "translator harness/translate/utilfns.py (util.py scalar functions whole; for the window classes the NumPy shape called, "
    "the divisor expression and every GammaWindow sub-expression) - theorems are over these generated definitions at the reals",
    "NumPy's own np.bartlett/blackman/hamming/hanning (numpy 2.x source mirrored as Model.Windows.npWindow), np.exp on complex "
    "input, broadcasting and in-place `*=`: named in the model, exercised by the Float correspondence, not verified",
    "hand-written list plumbing of GammaWindow.get_impulse_response (width guards, reversed arange, ret[:offs] = kernel) and "
    "of circshift_fourier (default fill, `%`, arange % D, copy / dtype branch): tied by correspondence through the public API",
    "Float correspondence: model's executable definitions at Float vs the implementation at 1e-10 relative "
    "(+1e-13 x largest sample absolute, for the cancelling Blackman end samples)",
    "statistics.NormalDist().inv_cdf (Wichura AS241) as the reference quantile in the oracle",
]
ASSUMPTIONS = [
    "the 1e-6 accuracy of the Odeh-Evans approximation for min(p,1-p) >= 1e-20 is approximation theory: NOT proved, sampled "
    "against statistics.NormalDist().inv_cdf on a dense grid (measured max error about 1.5e-8)",
    "all theorems are over the reals / complex numbers: IEEE round-off (e.g. np.blackman end samples of -1.4e-17, window sums "
    "equal to 1 only to 1e-15, float monotonicity of gauss_quant) is sampled, not proved",
    "window sums: exactly 1 needs width >= 3 (Hann), >= 4 (Blackman), odd width >= 3 (Bartlett); Hamming is 1 + 0.08/(0.54(width-1)), "
    "even-width Bartlett is 1 - 1/(width-1)^2; widths 1 and 2 are covered only by the uniform bound |sum-1| <= 2/width",
    "gamma_window_mode / unimodal: order >= 2 and peak*width < width (alpha > 0); order 1 has no interior mode and the code "
    "ignores `peak` by design (alpha = 5/width) - counted as hypothesis-gap cases, oracle: pure exponential ending at alpha",
    "circshift_spec: integer shifts, start_idx >= 0, dft_size >= 1 (dft_size 0 raises ZeroDivisionError, proved and compared); "
    "fractional shifts and negative start/dft_size are outside the property's quantifier and are not generated",
    "gauss_quant_strictMono needs std > 0 and 1e-20 <= p <= 1-1e-20; outside, the cut-off plateaus (+-10) make it only monotone",
]
LEVEL_TEXT = (
    "Proof over the reals/complex numbers of: length = width for all five windows and all widths; non-negativity of all five; "
    "the generated normalisers are the closed-form areas and the exact sums follow from the roots-of-unity sum (Hann = 1 for "
    "width>=3, Blackman = 1 for width>=4, Hamming = 1+0.08/(0.54(width-1)), Bartlett = 1 or 1-1/(width-1)^2) with "
    "|sum-1| <= 2/width for every width >= 1; GammaWindow samples are the reflected gamma density, bounded by the kernel at "
    "t=(n-1)/alpha = width-peak*width, increasing before / decreasing after it; DFT shift theorem for circshift_fourier at "
    "index level for every segment, integer shift, start and DFT size (given or defaulted), default-size, copy-purity and "
    "in-place theorems; Odeh-Evans: generated body = published closed form, affine in mu/std, strictly increasing rational "
    "part, monotone on (0,1) and strictly so on [1e-20,1-1e-20], antisymmetric; angular/hertz mutual inverses. Partial: the "
    "1e-6 accuracy of Odeh-Evans is sampled only."
)
LEVEL_NOTE = (
    "Trusted: Lean kernel, std axioms, the utilfns translator, NumPy's window shapes / complex exp / in-place semantics as "
    "mirrored in the model (Float correspondence at 1e-10), NormalDist.inv_cdf as reference. Not proved: Odeh-Evans 1e-6 "
    "accuracy (sampled), IEEE round-off. Hypotheses: order>=2 & peak<1 for the mode theorem, integer shift / start>=0 / D>=1 "
    "for the shift theorem. Defect fixed on branch fix/C20-circshift-default (default dft_size raised TypeError)."
)
TECHNIQUE = "Lean 4 proof over translator-generated definitions and an index-level model (reals/complex) + Float correspondence"

KINDS = ["bartlett", "blackman", "hamming", "hann"]
NP_SHAPE = dict(bartlett=np.bartlett, blackman=np.blackman, hamming=np.hamming, hann=np.hanning)


def translate(repo):
    return tr.generate(repo)


WINDOW_ALIASES = dict(bartlett=["bartlett", "triangular", "tri"], blackman=["blackman", "black"], hamming=["hamming"],
                      hann=["hanning", "hann"], gamma=["gamma"])


class Maker:
    """hands out window objects the ways users get them, in turn: by calling the class, and by every documented alias
    through WindowFunction.from_alias - after filter banks and a computer have been built by alias too (some aliases,
    'tri' / 'triangular', name a filter bank as well as a window: resolution must stay within the family asked)"""

    def __init__(self, cls, aliases):
        from pydrobert.speech import filters

        self.cls, self.routes, self.n, self.family = cls, [None] + list(aliases), 0, filters.WindowFunction

    def __call__(self, *args):
        route = self.routes[self.n % len(self.routes)]
        self.n += 1
        if route in ("@retuned", "@subclass") and not (len(args) == 2 and args[0] >= 1):
            route = None
        if route == "@retuned":
            # `order` and `peak` are documented public attributes: an object built with other values and retuned IS the window
            # with the new values
            o = self.cls(args[0] + 3, min(0.9, args[1] / 2 + 0.05))
            o.get_impulse_response(7)
            try:
                o.order, o.peak = args
            except AttributeError:   # parameters made read-only: build it the ordinary way
                return self.cls(*args)
            return o
        if route == "@subclass":
            # a user's subclass that sets the documented attributes itself after the base constructor ran
            base = self.cls

            class UserGamma(base):
                aliases = set()

                def __init__(self, order, peak):
                    super().__init__()
                    self.order, self.peak = order, peak

            return UserGamma(*args)
        return self.cls(*args) if route is None else self.family.from_alias(route, *args)


def window_classes():
    from pydrobert.speech import filters, compute

    # other families first: banks by alias, and a computer whose nested configuration names a window by alias
    for al in ("tri", "triangular", "gabor", "fbank"):
        try:
            filters.LinearFilterBank.from_alias(al, *([] if al == "fbank" else ["mel"]))
        except Exception:
            pass
    try:
        compute.FrameComputer.from_alias("stft", {"name": "tri", "scaling_function": "mel", "num_filts": 4}, window_function="hamming")
    except Exception:
        pass
    np_cls = {k: Maker(c, WINDOW_ALIASES[k]) for k, c in dict(bartlett=filters.BartlettWindow, blackman=filters.BlackmanWindow,
                                                               hamming=filters.HammingWindow, hann=filters.HannWindow).items()}
    return np_cls, Maker(filters.GammaWindow, list(WINDOW_ALIASES["gamma"]) + ["@retuned", "@subclass"])


def util_mod():
    from pydrobert.speech import util

    return util


# ---------------------------------------------------------------------------------------------
# oracles (independent Python statements of the property; each returns a list of (clause, expected, got, text))
# ---------------------------------------------------------------------------------------------


def oracle_np_window(kind, width, w):
    bad = []
    if not (isinstance(w, np.ndarray) and w.ndim == 1 and w.shape[0] == width):
        return [("window_len", width, list(np.shape(w)), "get_impulse_response(width) has exactly `width` samples")]
    if width == 0:
        return bad
    if not np.all(np.isfinite(w)):
        return [("window_nonneg", "finite", "non-finite", "window samples are finite")]
    shape = NP_SHAPE[kind](width)
    big = float(np.max(np.abs(w)))
    # one ulp of the largest *term* of the shape (0.42, 0.5, 0.08 ... are O(1)) after division by the Theta(width) area:
    # np.blackman's end samples are 0.42 - 0.5 + 0.08 = -1.4e-17 in floats, which is round-off, not a violation
    ulp = float(np.spacing(1.0)) * max(big, 1.0 / max(1, width - 1))
    mn = float(w.min())
    if mn < -ulp:
        bad.append(("window_nonneg", ">= -%g" % ulp, mn, "samples are non-negative (up to one ulp of the largest sample)"))
    # the numpy shape divided by a constant: w * sum(shape) == shape * sum(w)
    S, s = float(shape.sum()), float(w.sum())
    dev = float(np.max(np.abs(w * S - shape * s)))
    if dev > 1e-12 * max(1.0, abs(S)) * max(big, 1e-300) + 1e-300:
        bad.append(("window_shape", 0.0, dev, "window is NumPy's %s shape divided by one constant" % NP_SHAPE[kind].__name__))
    if abs(s - 1.0) > 2.0 / width + 1e-12:
        bad.append(("window_sum", "|sum-1| <= 2/width", s, "samples sum to 1 up to O(1/width)"))
    return bad


def oracle_gamma(order, peak, width, w):
    """order >= 1, peak*width < width."""
    bad = []
    if not (isinstance(w, np.ndarray) and w.ndim == 1 and w.shape[0] == width):
        return [("window_len", width, list(np.shape(w)), "get_impulse_response(width) has exactly `width` samples")]
    if width == 0:
        return bad
    if not np.all(np.isfinite(w)):
        return [("window_nonneg", "finite", "non-finite", "window samples are finite")]
    if float(w.min()) < 0:
        bad.append(("window_nonneg", ">= 0", float(w.min()), "gamma window samples are non-negative"))
    if width == 1:
        if w[0] != 1.0:
            bad.append(("gamma_density", 1.0, float(w[0]), "width-1 gamma window is [1.]"))
        return bad
    t = np.arange(width - 1, -1, -1, dtype=float)
    if order >= 2:
        # reflected gamma density with its mode at t* = width - peak*width
        tstar = width - peak * width
        alpha = (order - 1) / tstar
        with np.errstate(divide="ignore", invalid="ignore", over="ignore", under="ignore"):
            ln = order * math.log(alpha) - math.lgamma(order) + (order - 1) * np.log(np.where(t > 0, t, 1.0)) - alpha * t
            ref = np.where(t > 0, np.exp(ln), 0.0)
        scale = float(np.max(ref))
        dev = float(np.max(np.abs(w - ref)))
        if dev > 1e-9 * scale + 1e-300:
            bad.append(("gamma_density", 0.0, dev, "samples are alpha^n/(n-1)! t^(n-1) exp(-alpha t), t = width-1-k, "
                        "alpha = (n-1)/(width - peak*width)"))
        if scale > 1e-290:
            kstar = min(max(peak * width - 1.0, 0.0), width - 1.0)
            am = int(np.argmax(w))
            if abs(am - kstar) > 1.0 + 1e-9:
                bad.append(("gamma_argmax", kstar, am, "largest sample within one sample of peak*width - 1"))
    else:
        # order 1: a pure exponential density a*exp(-a t) whose value at t = 0 is a
        a = float(w[-1])
        if not a > 0:
            bad.append(("gamma_density", "> 0", a, "order-1 gamma window ends at alpha > 0"))
        else:
            ref = a * np.exp(-a * t)
            dev = float(np.max(np.abs(w - ref)))
            if dev > 1e-9 * a:
                bad.append(("gamma_density", 0.0, dev, "order-1 samples are a exp(-a t) with a the last sample"))
            if int(np.argmax(w)) != width - 1:
                bad.append(("gamma_argmax", width - 1, int(np.argmax(w)), "order-1 maximum is the last sample"))
    return bad


def run_circshift(util, c):
    """-> (kind, out, filt_after, same_object) ; kind in ok / err:<Class>"""
    dt = dict(c128=np.complex128, c64=np.complex64, f64=np.float64)[c["dtype"]]
    vals = np.array([complex(a, b) for a, b in c["filt"]], dtype=np.complex128)
    filt = vals.real.astype(dt) if c["dtype"] == "f64" else vals.astype(dt)
    orig = filt.copy()
    kw = {}
    args = [filt, c["shift"]]
    mode = c["dft_mode"]
    if mode == "omitted":
        kw = dict(start_idx=c["start"], copy=c["copy"])
    elif mode == "none":
        kw = dict(start_idx=c["start"], dft_size=None, copy=c["copy"])
    else:
        kw = dict(start_idx=c["start"], dft_size=c["dft"], copy=c["copy"])
    it = c.get("int_type")
    if it:
        # the integer arguments as NumPy integer scalars (what len(), shape arithmetic and np.argmax hand to a caller): an
        # integer is an integer whatever its Python type
        T = dict(int64=np.int64, int32=np.int32, intp=np.intp)[it]
        conv = lambda v: v if v is None or not (-2 ** 31 < v < 2 ** 31) else T(v)
        args = [filt, conv(c["shift"])]
        kw = {k: (conv(v) if k in ("start_idx", "dft_size") else v) for k, v in kw.items()}
    try:
        out = util.circshift_fourier(*args, **kw)
    except Exception as e:  # noqa
        return "err:" + type(e).__name__, str(e), orig, filt, False
    return "ok", out, orig, filt, out is filt


def oracle_circshift(c, kind, out, orig, filt_after, same):
    """ifft-based statement of the shift theorem + purity; independent of the Lean model."""
    bad = []
    n = len(c["filt"])
    D = c["dft"] if c["dft_mode"] == "given" else c["start"] + n
    if D == 0:
        if kind != "err:ZeroDivisionError":
            bad.append(("circshift_zero", "ZeroDivisionError", kind, "dft size 0 cannot be shifted (modulo by zero)"))
        return bad
    if kind != "ok":
        clause = "circshift_default" if c["dft_mode"] != "given" else "circshift_call"
        return [(clause, "returns an array", kind + ": " + str(out)[:120],
                 "circshift_fourier accepts every documented argument combination (dft_size defaults to len(filt)+start_idx)")]
    if not (isinstance(out, np.ndarray) and out.shape == (n,) and out.dtype == np.complex128):
        return [("circshift_shape", [n, "complex128"], [list(np.shape(out)), str(getattr(out, "dtype", None))],
                 "result is a complex128 vector of the segment's length")]
    ks = (np.arange(c["start"], c["start"] + n)) % D
    X = np.zeros(D, dtype=complex)
    Xo = np.zeros(D, dtype=complex)
    np.add.at(X, ks, orig.astype(complex))
    np.add.at(Xo, ks, out)
    x, xo = np.fft.ifft(X), np.fft.ifft(Xo)
    want = np.roll(x, c["shift"] % D)
    scale = max(1.0, float(np.max(np.abs(x))) if D else 1.0)
    dev = float(np.max(np.abs(xo - want))) if D else 0.0
    if dev > 1e-9 * scale * max(1.0, D / 64):
        bad.append(("circshift_shift", 0.0, dev, "ifft(output) == roll(ifft(input), shift) on the size-D spectrum"))
    inplace = (not c["copy"]) and c["dtype"] == "c128"
    if not inplace:
        if same or (n and np.shares_memory(out, filt_after)):
            bad.append(("circshift_copy", "fresh array", "aliases input", "copy=True (or non-complex128 input) returns a new array"))
        if not np.array_equal(filt_after.view(np.uint8), orig.view(np.uint8)):
            bad.append(("circshift_copy", "input unchanged", "input modified", "copy=True leaves the input bit-identical"))
    return bad


def nd_ref(p):
    return statistics.NormalDist().inv_cdf(p)


# ---------------------------------------------------------------------------------------------
# generators
# ---------------------------------------------------------------------------------------------


def gen_widths(ctx):
    if ctx.tier == "thorough":
        return list(range(0, 4097))
    r = ctx.rng
    ws = set(range(0, 161)) | {255, 256, 257, 400, 1023, 1024, 2048, 4095, 4096}
    target = len(ws) + ctx.scale(110, 400)
    while len(ws) < target:
        ws.add(int(round(10 ** r.uniform(math.log10(161), math.log10(4096)))))
    return sorted(ws)


def pick_sel(r, width, full_upto):
    if width <= full_upto:
        return "all", list(range(width))
    idx = {0, 1, 2, width - 3, width - 2, width - 1, width // 2, (width - 1) // 2, width // 4}
    while len(idx) < 40:
        idx.add(r.randrange(width))
    idx = sorted(idx)
    return ",".join(map(str, idx)), idx


def gen_gamma_params(ctx):
    r = ctx.rng
    out = []
    n = ctx.scale(700, 6000)
    base_w = [0, 1, 2, 3, 4, 5, 8, 16, 25, 100, 400, 1000, 4096]
    for order in (1, 2, 3, 4, 6):
        for peak in (0.75, 0.5, 0.9):
            for w in (0, 1, 2, 3, 7, 40, 400):
                out.append((order, peak, w))
    while len(out) < n:
        order = r.choice([1, 2, 2, 3, 4, 4, 5, 6, 8, 12, 20, r.randint(1, 20)])
        peak = r.choice([0.75, 0.5, 0.25, 0.9, 0.99, 0.01, round(r.uniform(0.01, 0.99), 3), r.uniform(0.0, 0.999)])
        w = r.choice(base_w + [r.randint(2, 64), r.randint(2, 600), r.randint(2, 4096)])
        out.append((order, peak, w))
    for w in (0, 1, 2, 5, 64):  # error path: math.factorial(-1)
        out.append((0, 0.75, w))
    return out


def gen_circshift(ctx):
    r = ctx.rng
    n = ctx.scale(3000, 40000)
    cases = []

    def rnd_c():
        # modulus in [0.5, 2]: keeps the recovered phase well conditioned
        return cmath.rect(r.uniform(0.5, 2.0), r.uniform(-math.pi, math.pi))

    def mk(ln, start, dft_mode, dft, shift, copy, dtype):
        vals = [rnd_c() for _ in range(ln)]
        if dtype == "f64":
            vals = [complex(r.choice([-1, 1]) * abs(v), 0.0) for v in vals]
        if dtype == "c64":
            vals = [complex(np.complex64(v)) for v in vals]
        return dict(filt=[[v.real, v.imag] for v in vals], start=start, dft_mode=dft_mode, dft=dft, shift=shift,
                    copy=copy, dtype=dtype)

    # the documented one-liner: circshift_fourier(filt, shift)
    cases.append(mk(8, 0, "omitted", None, 3, True, "c128"))
    cases.append(mk(8, 0, "none", None, -3, False, "c128"))
    cases.append(mk(5, 3, "omitted", None, 11, True, "c128"))
    cases.append(mk(0, 0, "omitted", None, 1, True, "c128"))  # D = 0
    cases.append(mk(3, 0, "given", 0, 1, True, "c128"))  # D = 0
    # shifts that exceed the DFT size by twelve and more orders of magnitude (the shift is an integer: only shift mod D
    # matters, exactly - a phase ramp evaluated at the unreduced shift loses all its digits)
    cases.append(mk(8, 0, "given", 400, 2 ** 45 * 400 + 5, True, "c128"))
    cases.append(mk(16, 3, "omitted", None, 10 ** 15 + 7, False, "c128"))
    cases.append(mk(5, 0, "given", 7, -(10 ** 18) - 3, True, "c64"))
    cases.append(mk(12, 2, "none", None, 3 * 10 ** 12 + 1, True, "f64"))
    while len(cases) < n:
        ln = r.choice([0, 1, 2, 3, 4, 5, 8, 16, r.randint(0, 40)])
        start = r.choice([0, 0, 1, 2, r.randint(0, 24)])
        nat = start + ln
        u = r.random()
        if u < 0.35:
            dft_mode, dft = r.choice(["omitted", "none"]), None
            D = nat
        else:
            dft_mode = "given"
            dft = r.choice([nat, nat, nat + 1, nat + r.randint(1, 40), 2 * nat + 1, max(1, nat // 2), max(1, ln),
                            1, 2, r.randint(1, 64), 0 if r.random() < 0.05 else nat + 3])
            D = dft
        sh = r.choice([0, 1, -1, 2, -2, D, -D, D + 1, D - 1, 2 * D + 3, -3 * D - 2, r.randint(-200, 200),
                       r.randint(-10 ** 6, 10 ** 6)])
        cases.append(mk(ln, start, dft_mode, dft, sh, r.random() < 0.5, r.choice(["c128", "c128", "c128", "c64", "f64"])))
    # every seventh case hands its integers over as NumPy integer scalars (fixed by position, not by the RNG)
    for i, c in enumerate(cases):
        D = c["dft"] if c["dft_mode"] == "given" else c["start"] + len(c["filt"])
        if i % 7 == 5 and D >= 1:   # (D = 0 is the error path: NumPy integers do not raise ZeroDivisionError there)
            c["int_type"] = ["int64", "int32", "intp"][(i // 7) % 3]
    return cases


def gen_probs(ctx):
    r = ctx.rng
    n = ctx.scale(6000, 100000)
    ps = [0.5, 0.25, 0.75, 1e-20, 1.0000001e-20, 0.99e-20, 1e-21, 1e-25, 1e-300, 5e-324, 1 - 2 ** -53, 1 - 2 ** -52,
          0.5 - 2 ** -54, 0.5 + 2 ** -53, 0.4999999, 0.5000001, 0.1, 0.9, 0.01, 0.99, 1e-10, 1 - 1e-10]
    while len(ps) < n:
        u = r.random()
        if u < 0.3:
            ps.append(10 ** r.uniform(-20, math.log10(0.5)))
        elif u < 0.5:
            ps.append(1 - 10 ** r.uniform(-15.9, math.log10(0.5)))
        elif u < 0.75:
            ps.append(r.uniform(0, 1))
        elif u < 0.9:
            ps.append(0.5 + r.choice([-1, 1]) * 10 ** r.uniform(-16, -1))
        else:
            ps.append(10 ** r.uniform(-40, -19))
    return [p for p in ps if 0.0 < p < 1.0]


# ---------------------------------------------------------------------------------------------
# run
# ---------------------------------------------------------------------------------------------


def report(ctx, case, bad):
    for clause, exp, got, text in bad:
        ctx.violation(case, exp, got, text, tags=dict(clause=clause, **{k: case[k] for k in ("window", "fn") if k in case}))


def parse_sel_out(o):
    ln, _, vals = o.partition(";")
    return int(ln), [common.bits_to_float(v) for v in vals.split(",") if v]


def run(ctx, driver):
    np_cls, gamma_cls = window_classes()
    util = util_mod()
    r = ctx.rng
    lines, checks = [], []  # checks[i](out_line) for lines[i]
    full_upto = 128 if ctx.tier == "quick" else 64

    # ---- A. NumPy-based windows ------------------------------------------------------------
    for width in gen_widths(ctx):
        if ctx.out_of_time():
            break
        for kind in KINDS:
            # the caller owns what it is handed (the frame computers multiply windows into buffers in place):
            # scribble on one result, then ask a new instance of the class for the same width
            try:
                np_cls[kind]().get_impulse_response(width)[...] = -535.0
            except (ValueError, TypeError):
                pass
            case = dict(window=kind, width=width)
            ctx.case(case, nontrivial=width > 0, kind="win_" + kind)
            try:
                w = np_cls[kind]().get_impulse_response(width)
            except Exception as e:
                ctx.violation(dict(case, route=np_cls[kind].routes[(np_cls[kind].n - 1) % len(np_cls[kind].routes)]), "a window of `width` samples",
                              "%s: %s" % (type(e).__name__, str(e)[:150]), "every window (built by class or by any documented alias) returns its samples",
                              tags=dict(clause="window_raises", window=kind))
                continue
            ctx.count("width_0" if width == 0 else "width_1_2" if width <= 2 else "width_3_64" if width <= 64
                      else "width_65_1024" if width <= 1024 else "width_1025_4096")
            report(ctx, case, oracle_np_window(kind, width, w))
            if isinstance(w, np.ndarray) and w.ndim == 1:
                sel, idx = pick_sel(r, width, full_upto)
                lines.append("win %s %d %s" % (kind, width, sel))
                checks.append(("sel", case, w, idx))

    # ---- B. GammaWindow --------------------------------------------------------------------
    for order, peak, width in gen_gamma_params(ctx):
        case = dict(window="gamma", order=order, peak=peak, width=width)
        ctx.case(case, nontrivial=width > 1, kind="gamma_order_%s" % ("0" if order == 0 else "1" if order == 1 else ">=2"))
        try:
            try:
                gamma_cls(order, peak).get_impulse_response(width)[...] = -535.0
            except (ValueError, TypeError, IndexError):
                pass
            w = gamma_cls(order, peak).get_impulse_response(width)
            kind = "ok"
        except Exception as e:  # noqa
            w, kind = None, "err:" + type(e).__name__
        if order == 0:
            ctx.count("out_of_scope")  # not a gamma density; only the error class is compared with the model
        elif kind != "ok":
            ctx.violation(case, "returns a window", kind, "GammaWindow(order>=1, 0<=peak<1) yields a window",
                          tags=dict(clause="gamma_call", window="gamma"))
        else:
            if order == 1 and width >= 2:
                ctx.gap_cases += 1  # mode theorem needs order >= 2
            report(ctx, case, oracle_gamma(order, peak, width, w))
        sel, idx = pick_sel(r, width, full_upto)
        lines.append("gam %d %s %d %s" % (order, common.fbits(peak), width, sel))
        checks.append(("sel", case, w if kind == "ok" else kind, idx))

    # ---- C. circshift_fourier --------------------------------------------------------------
    for c in gen_circshift(ctx):
        n = len(c["filt"])
        kind, out, orig, filt_after, same = run_circshift(util, c)
        ctx.case(c, nontrivial=n > 0, kind="cs_" + c["dft_mode"])
        D = c["dft"] if c["dft_mode"] == "given" else c["start"] + n
        ctx.count("cs_shift_" + ("zero" if c["shift"] == 0 else "neg" if c["shift"] < 0 else
                                 "ge_D" if D and c["shift"] >= D else "in_range"))
        ctx.count("cs_%s_%s" % ("copy" if c["copy"] else "inplace", c["dtype"]))
        if D and D < c["start"] + n:
            ctx.count("cs_wraps")
        report(ctx, dict(c, fn="circshift_fourier"), oracle_circshift(c, kind, out, orig, filt_after, same))
        fl = ",".join(common.fbits(v) for ab in ([x.real, x.imag] for x in orig.astype(complex)) for v in ab) or "-"
        lines.append("cs %d %d %s %d %d %s" % (c["shift"], c["start"], "none" if c["dft_mode"] != "given" else c["dft"],
                                                1 if c["copy"] else 0, 1 if c["dtype"] == "c128" else 0, fl))
        checks.append(("cs", c, (kind, out, orig, filt_after, same), None))

    # ---- D. gauss_quant --------------------------------------------------------------------
    ps = sorted(set(gen_probs(ctx)))
    zs = []
    for p in ps:
        z = float(util.gauss_quant(p))
        zs.append(z)
        case = dict(fn="gauss_quant", p=p)
        tail = min(p, 1 - p)
        ctx.case(case, kind="gq_tail_lt_1e-20" if tail < 1e-20 else "gq_tail_1e-20_1e-6" if tail < 1e-6 else "gq_body")
        if tail >= 1e-20:
            ref = nd_ref(p)
            if not abs(z - ref) <= 1e-6:
                ctx.violation(case, ref, z, "gauss_quant(p) within 1e-6 of the normal quantile when min(p,1-p) >= 1e-20",
                              tags=dict(clause="gq_accuracy", fn="gauss_quant"))
        mu, std = r.choice([(0.0, 1.0), (r.uniform(-50, 50), 10 ** r.uniform(-3, 3)), (r.uniform(-1, 1), r.uniform(0, 2))])
        za = float(util.gauss_quant(p, mu, std))
        if not common.close(za, mu + std * z, rel=1e-12, abs_=1e-12 * (abs(mu) + abs(std))):
            ctx.violation(dict(case, mu=mu, std=std), mu + std * z, za, "gauss_quant(p, mu, std) == mu + std*gauss_quant(p)",
                          tags=dict(clause="gq_affine", fn="gauss_quant"))
        lines.append("gq %s %s %s" % (common.fbits(p), common.fbits(mu), common.fbits(std)))
        checks.append(("scalar", dict(case, mu=mu, std=std), za, 1e-12 * (abs(mu) + abs(std) + 1)))
    for i in range(1, len(ps)):
        if zs[i] < zs[i - 1] - 1e-13:
            ctx.violation(dict(fn="gauss_quant", p=ps[i], prev=ps[i - 1]), "z(prev) <= z(p)", [zs[i - 1], zs[i]],
                          "gauss_quant is increasing in p", tags=dict(clause="gq_mono", fn="gauss_quant"))
        elif min(ps[i - 1], 1 - ps[i]) >= 1e-20 and ps[i] > ps[i - 1] * (1 + 1e-9) and 1 - ps[i - 1] > (1 - ps[i]) * (1 + 1e-9) \
                and not zs[i] > zs[i - 1]:
            ctx.violation(dict(fn="gauss_quant", p=ps[i], prev=ps[i - 1]), "z(prev) < z(p)", [zs[i - 1], zs[i]],
                          "gauss_quant is strictly increasing between the cut-offs", tags=dict(clause="gq_mono", fn="gauss_quant"))

    # ---- E. hertz <-> angular --------------------------------------------------------------
    for _ in range(ctx.scale(600, 10000)):
        f = r.choice([0.0, 440.0, r.uniform(-1e5, 1e5), 10 ** r.uniform(-6, 6)])
        rate = r.choice([8000.0, 16000.0, 44100.0, 1.0, 10 ** r.uniform(-3, 6), -16000.0])
        a = float(util.hertz_to_angular(f, rate))
        back = float(util.angular_to_hertz(a, rate))
        case = dict(fn="hertz_angular", hertz=f, rate=rate)
        ctx.case(case, kind="ang_hz")
        if not common.close(back, f, rel=1e-12, abs_=1e-300):
            ctx.violation(case, f, back, "angular_to_hertz(hertz_to_angular(f)) == f", tags=dict(clause="ang_hz", fn="hertz_angular"))
        if not common.close(a, 2 * math.pi * f / rate, rel=1e-13, abs_=1e-300):
            ctx.violation(case, 2 * math.pi * f / rate, a, "hertz_to_angular(f) == 2 pi f / rate",
                          tags=dict(clause="ang_hz", fn="hertz_angular"))
        a2 = float(util.hertz_to_angular(float(util.angular_to_hertz(f, rate)), rate))
        if not common.close(a2, f, rel=1e-12, abs_=1e-300):
            ctx.violation(dict(fn="hertz_angular", angle=f, rate=rate), f, a2, "hertz_to_angular(angular_to_hertz(a)) == a",
                          tags=dict(clause="ang_hz", fn="hertz_angular"))
        lines.append("h2a %s %s" % (common.fbits(f), common.fbits(rate)))
        checks.append(("scalar", case, a, 1e-300))
        lines.append("a2h %s %s" % (common.fbits(f), common.fbits(rate)))
        checks.append(("scalar", dict(fn="angular_to_hertz", angle=f, rate=rate), float(util.angular_to_hertz(f, rate)), 1e-300))

    # ---- correspondence ----------------------------------------------------------------------
    outs = driver.run(lines)
    ctx.corr_lines += len(lines)
    ctx.count("correspondence_lines", len(lines))
    for line, (what, case, impl, extra), o in zip(lines, checks, outs):
        if o == "bad-op":
            ctx.mismatch(case, o, "?", "driver rejected: " + line[:80])
            continue
        if what == "sel":
            if isinstance(impl, str) or o.startswith("err:"):
                if o != impl:
                    ctx.mismatch(case, o, impl if isinstance(impl, str) else "ok", "error class")
                continue
            ln, vals = parse_sel_out(o)
            if ln != len(impl):
                ctx.mismatch(case, ln, len(impl), "window length")
                continue
            scale = float(np.max(np.abs(impl))) if len(impl) else 1.0
            for i, mv in zip(extra, vals):
                if not common.close(mv, float(impl[i]), rel=1e-10, abs_=1e-13 * scale):
                    ctx.mismatch(dict(case, index=i), mv, float(impl[i]), "model (Float) vs implementation sample")
                    break
        elif what == "scalar":
            mv = common.bits_to_float(o)
            if not common.close(mv, impl, rel=1e-10, abs_=extra):
                ctx.mismatch(case, mv, impl, "generated Float model vs implementation")
        elif what == "cs":
            corr_circshift(ctx, case, impl, o)


def unpairs(s):
    if s == "-":
        return np.zeros(0, dtype=complex)
    v = [common.bits_to_float(x) for x in s.split(",")]
    return np.array([complex(v[i], v[i + 1]) for i in range(0, len(v), 2)], dtype=complex)


def corr_circshift(ctx, c, impl, o):
    kind, out, orig, filt_after, same = impl
    small = {k: c[k] for k in ("start", "dft_mode", "dft", "shift", "copy", "dtype")}
    small["len"] = len(c["filt"])
    if o.startswith("err:") or kind != "ok":
        if o != kind:
            ctx.mismatch(small, o, kind, "circshift error class")
        return
    D, s, m_same, ks, rs, m_out, m_after = o.split(" ")
    D, s = int(D), int(s)
    ks = [int(x) for x in ks.split(",")] if ks != "-" else []
    rs = [int(x) for x in rs.split(",")] if rs != "-" else []
    m_out, m_after = unpairs(m_out), unpairs(m_after)
    n = len(orig)
    if not (isinstance(out, np.ndarray) and out.shape == (n,)):
        ctx.mismatch(small, n, list(np.shape(out)), "circshift output shape")
        return
    if (m_same == "1") != bool(same):
        ctx.mismatch(small, m_same, same, "returned array is the input object")
    x = orig.astype(complex)
    # exact: which phase (as an integer residue r: factor = exp(-2 pi i r / D)) met which entry
    if n and D <= 1 << 20:
        ratio = out / x
        r_impl = np.rint(-np.angle(ratio) * D / (2 * math.pi)).astype(np.int64) % D
        amp_ok = np.all(np.abs(np.abs(ratio) - 1.0) < 1e-6)
        if not amp_ok or list(r_impl) != rs:
            ctx.mismatch(small, rs, [int(v) for v in r_impl], "phase residue per entry (exact integers)")
            return
    # values
    scale = max(1.0, float(np.max(np.abs(x))) if n else 1.0)
    if n and float(np.max(np.abs(out - m_out))) > 1e-10 * scale * max(1.0, D / 64):
        ctx.mismatch(small, None, float(np.max(np.abs(out - m_out))), "output values (Float model vs implementation)")
        return
    # exact: which entries of the caller's array were touched
    after = filt_after.astype(complex)
    touched = [j for j in range(n) if after[j] != x[j] or math.copysign(1, after[j].real) != math.copysign(1, x[j].real)]
    if m_same == "0":
        if touched or not np.array_equal(m_after, x):
            ctx.mismatch(small, [], touched, "entries of the input touched (copy / non-complex128 branch)")
    else:
        must = [j for j in range(n) if rs[j] != 0]  # genuine rotation of a non-zero entry
        never = [j for j in range(n) if s * ks[j] == 0]  # factor exactly 1
        if any(j not in touched for j in must) or any(j in touched for j in never):
            ctx.mismatch(small, dict(must=must, never=never), touched, "entries of the input touched (in-place branch)")
        elif n and float(np.max(np.abs(after - m_after))) > 1e-10 * scale * max(1.0, D / 64):
            ctx.mismatch(small, None, float(np.max(np.abs(after - m_after))), "input after the in-place call")


# ---------------------------------------------------------------------------------------------
# replay
# ---------------------------------------------------------------------------------------------


def replay(rp):
    c = rp.get("case", {})
    print(common.canon({k: v for k, v in c.items() if k != "filt"}))
    np_cls, gamma_cls = window_classes()
    util = util_mod()
    bad = []
    if c.get("window") in KINDS:
        w = np_cls[c["window"]]().get_impulse_response(c["width"])
        print("impl: len=%d sum=%r min=%r head=%r" % (len(w), float(np.sum(w)), float(np.min(w)) if len(w) else None, w[:4].tolist()))
        bad = oracle_np_window(c["window"], c["width"], w)
    elif c.get("window") == "gamma":
        try:
            w = gamma_cls(c["order"], c["peak"]).get_impulse_response(c["width"])
            print("impl: len=%d argmax=%r max=%r" % (len(w), int(np.argmax(w)) if len(w) else None, float(np.max(w)) if len(w) else None))
            if c["order"] >= 1:
                bad = oracle_gamma(c["order"], c["peak"], c["width"], w)
        except Exception as e:  # noqa
            print("impl: raised %s: %s" % (type(e).__name__, e))
            bad = [("gamma_call", "returns", type(e).__name__, "GammaWindow yields a window")] if c["order"] >= 1 else []
    elif c.get("fn") == "circshift_fourier":
        kind, out, orig, filt_after, same = run_circshift(util, c)
        print("impl: %s %s" % (kind, out if kind != "ok" else np.array2string(out, precision=6)))
        bad = oracle_circshift(c, kind, out, orig, filt_after, same)
    elif c.get("fn") == "gauss_quant":
        p = c["p"]
        z = float(util.gauss_quant(p, c.get("mu", 0.0), c.get("std", 1.0)))
        print("impl: gauss_quant(%r, %r, %r) = %r ; reference normal quantile %r" % (
            p, c.get("mu", 0.0), c.get("std", 1.0), z, nd_ref(p) if 0 < p < 1 else None))
        if "prev" in c:
            print("impl: gauss_quant(prev=%r) = %r" % (c["prev"], float(util.gauss_quant(c["prev"]))))
        z0 = float(util.gauss_quant(p))
        if min(p, 1 - p) >= 1e-20 and abs(z0 - nd_ref(p)) > 1e-6:
            bad.append(("gq_accuracy", nd_ref(p), z0, "within 1e-6 of the normal quantile"))
        if "prev" in c and float(util.gauss_quant(c["prev"])) > z0 + 1e-13:
            bad.append(("gq_mono", "increasing", [float(util.gauss_quant(c["prev"])), z0], "increasing in p"))
    elif c.get("fn") == "hertz_angular":
        if "hertz" in c:
            a = util.hertz_to_angular(c["hertz"], c["rate"])
            print("impl: h2a=%r a2h(h2a)=%r" % (a, util.angular_to_hertz(a, c["rate"])))
        else:
            h = util.angular_to_hertz(c["angle"], c["rate"])
            print("impl: a2h=%r h2a(a2h)=%r" % (h, util.hertz_to_angular(h, c["rate"])))
    for clause, exp, got, text in bad:
        print("oracle FAILS [%s]: %s ; expected %r got %r" % (clause, text, exp, got))
    if not bad:
        print("oracle: holds on this case now")
    print("recorded: oracle=%r expected=%r got=%r" % (rp.get("oracle"), rp.get("expected"), rp.get("got")))
    # model side (one driver line) for the window / scalar cases
    try:
        drv = common.Driver(PROP)
        if c.get("window") in KINDS:
            print("model:", drv.run(["win %s %d %s" % (c["window"], c["width"], "all" if c["width"] <= 8 else "0,1,2")])[0][:200])
        elif c.get("window") == "gamma":
            print("model:", drv.run(["gam %d %s %d %s" % (c["order"], common.fbits(c["peak"]), c["width"],
                                                         "all" if c["width"] <= 8 else "0,1,2")])[0][:200])
        elif c.get("fn") == "gauss_quant":
            o = drv.run(["gq %s %s %s" % (common.fbits(c["p"]), common.fbits(c.get("mu", 0.0)), common.fbits(c.get("std", 1.0)))])[0]
            print("model:", common.bits_to_float(o))
        elif c.get("fn") == "circshift_fourier":
            fl = ",".join(common.fbits(v) for ab in c["filt"] for v in ab) or "-"
            o = drv.run(["cs %d %d %s %d %d %s" % (c["shift"], c["start"], "none" if c["dft_mode"] != "given" else c["dft"],
                                                    1 if c["copy"] else 0, 1 if c["dtype"] == "c128" else 0, fl)])[0]
            if o.startswith("err:"):
                print("model:", o)
            else:
                D, s_, same, ks, rs, m_out, _ = o.split(" ")
                print("model: D=%s shift%%D=%s in_place=%s bins=%s phase residues=%s" % (D, s_, same, ks, rs))
                print("model out:", np.array2string(unpairs(m_out), precision=6))
    except Exception as e:  # noqa
        print("model: driver unavailable (%s)" % e)
    return 1 if bad else 0

"""C13 - shorten-compressed SPHERE audio decodes losslessly."""
import glob
import hashlib
import io
import os
import random
import signal
import warnings
import wave

import numpy as np

from . import common
from .translate import shorten as tr

PROP = "C13"
MODULES = ["PdsVerif.Props.C13"]
MODEL_MODULES = ["PdsVerif.Model.ShortenBits", "PdsVerif.Model.Shorten", "PdsVerif.Model.ShortenDrv"]
REQUIRED = [
    "PdsVerif.C13." + n
    for n in """uvar_roundtrip var_roundtrip ulong_roundtrip fold_unfold
    word_reader_refines_bits decodeFile_eq_decodeBits monitor_irrelevant
    decode_encode decode_encode_file decode_encode_monitored no_fuel_error fuel_irrelevant
    encoder_exists encoder_exists_ulaw ulaw_outward_rows_bijective
    early_end early_end_file early_end_magic_only bad_cmd bad_version bad_version_file bad_type""".split()
]
RULE = (
    "streams written by an independent randomised Python shorten encoder: version 1-2, 1-4 channels, allocated block "
    "size 1-300 with BLOCKSIZE changes at frame boundaries (shorter last block included), running-mean length 0-4, "
    "sample types S16HL/S16LH/AU1/AU2 (few of the other five types), bit shifts (PCM 0-8, mu-law 0-12) changed between "
    "blocks, every command (DIFF0-3, QLPC order 0-8 with maxnlpc 0-8, ZERO, BLOCKSIZE, BITSHIFT, QUIT), residual widths "
    "0-40 bits, nskip 0-3, signals = random walks / sinusoids / noise / constants / extremes; each wrapped in a SPHERE "
    "header and read through read_signal(force_as='sph') from a stream with dtype None / int32 / uint8.  Malformed: the "
    "same streams truncated at every position class (first word, header, mid block, last word, exact, with trailing "
    "bytes), with an unknown command, a bad version byte, a bad sample type.  A case is (stream bytes, dtype); distinct "
    "by digest of the bytes; all have at least one sample."
)
TRUSTED = [
    "translator harness/translate/shorten.py (ast: module constants incl. every FN_*/TYPE_*/*SIZE, NWRAP, LPCQUANT, "
    "V2LPCQOFFSET, BUFSIZ, tables ULAW2PCM / ULAW_OUTWARD, type limit `ftype >= 9`, initial-mean chain, block-command "
    "set, convert set, first read size) -> Generated/ShortenConsts.lean",
    "the decoder is written once as a program (Prog) over the single primitive uvar_get - every other read in the "
    "Python code goes through it - and run with two readers: the bit list (L0) and the word buffer (L1, what the "
    "driver runs)",
    "Python semantics given to the primitives the model names: struct.unpack('>l'/'b'), file_.read(n) returning the "
    "next min(n, rest) bytes, memoryview slicing, `x & (2**n - 1)` = x mod 2**n and `x >> n` = floor division on "
    "negative Python ints, `~x = -x-1`, NumPy basic slicing / overlapping slice assignment / fancy indexing / .T.flat "
    "/ sum, c99_div = int(float(a)/b) = truncation toward zero (exact below 2**53)",
    "NumPy int32 cells and scalars are modelled by unbounded Int together with a monitor (Prog.chk / runM) that is "
    "true when no stored value, LPC sum, shifted mean, Python-int operand or table index leaves the range in which "
    "NumPy and Int agree; the driver reports the monitor per stream, streams where it is false are hypothesis-gap "
    "cases (not compared); monitor_irrelevant proves it never changes a result",
    "the loops `for i in range(nwrap, blocksize+nwrap): cbuffer[i] = ...` are modelled as folds over the reversed "
    "prefix cbuffer[:i], written back with one slice assignment; buffer[chan] and offset[chan] are kept per channel",
    "outside the model: SPHERE header parsing (read_header; the harness writes consistent sample_count / "
    "channel_count), the capacity of `data`, the final cast into the result dtype (values are compared after the same "
    "cast), failures other than IOError (block size 0 or above the allocated size, no channels, nlpc > maxnlpc: the "
    "model answers `unsupported` and such streams are not compared)",
]
ASSUMPTIONS = [
    "WF (hypothesis of decode_encode / early_end / bad_cmd): version 1-2, type < 9, >= 1 channel, block size >= 1, "
    "every residual list as long as the current block size, BLOCKSIZE only at a frame boundary with 1 <= n <= "
    "allocated size, QLPC order <= maxnlpc and only in blocks with blocksize >= nwrap = max(3, maxnlpc).  The last "
    "condition cannot be dropped (Props/C13.lean shortQlpcProgram: the decoder leaves the offset-subtracted history "
    "behind, the implementation returns the same wrong sample).  Streams with QLPC in shorter blocks are generated "
    "with later block sizes non-increasing and predictor orders <= block size (there the textbook semantics still "
    "holds; counted as hypothesis-gap cases, oracle applied) and without that restriction (out of scope, model vs "
    "implementation only)",
    "int32 range (monitor true): a correspondence hypothesis, not needed by the Int-model theorems; gap cases counted",
    "encoder_exists is shown with DIFF0, nmean = 0, one block per channel (block size = number of frames), any "
    "residual width; mu-law existence (AU1/AU2, bit shift 0) through an explicit inverse of row 0 of ULAW_OUTWARD; "
    "with a non-zero shift the mu-law rows are only proved to be permutations and checked against a pinned digest",
    "early_end_file characterises truncation by `the complete 32-bit words of the body hold a strict prefix of the "
    "encoded bits`; the byte-position arithmetic (which cuts satisfy it) is exercised by the generator, not proved",
]
LEVEL_TEXT = (
    "Full proof over unbounded Int for all residual values / widths / block sizes / channel counts / mean lengths / "
    "bit shifts / LPC orders / command sequences: Rice-code round trips (uvar, var with sign folding, ulong); the "
    "signed 32-bit big-endian word reader with 1024-byte buffer refill refines the bit-list reader, error case "
    "included, and hence the decoder that exists equals the bit-list decoder on the file's words; decode(encode p ++ "
    "rest) = sem p for every well-formed program by induction over commands with the interpreter-state invariant "
    "(wrap buffer = window of the full history, offset window, in-place QLPC offset trick, bit shift, mu-law fix-up, "
    "interleave), also for the bytes of encodeFile through the word reader; every PCM / mu-law sample array is the "
    "meaning of a well-formed program; every strict prefix of an encoded stream, an unknown command, a bad version "
    "byte, a bad type give IOError; loop fuels are never exhausted and irrelevant.  Tied to the code by translator "
    "(constants, tables) and exact correspondence through read_signal on streams from an independent Python encoder "
    "(which also ties the Lean encoder / sem to it byte for byte)."
)
LEVEL_NOTE = (
    "Trusted: Lean kernel, std axioms, translator for constants/tables, semantics of the struct / NumPy primitives "
    "named in the model, int32-vs-Int monitor (gap cases counted), SPHERE header parse and result-dtype cast outside "
    "the model. QLPC only in blocks >= nwrap (necessary: witness in Props). Two fix: commits on "
    "fix/C13-shorten-masktab (mask table of Python ints; magic-only stream raises the IOError)."
)
TECHNIQUE = "Lean 4 proof (three-layer refinement, core Lean only) + translator for constants/tables + exact correspondence via an independent encoder"

# pinned digests of the tables as shipped by shorten / sph2pipe (see `table_digest`)
PINNED = {}

# ------------------------------------------------------------------------------------------------
# independent knowledge about the format


def g711_ulaw2linear(b):
    """ITU-T G.711 mu-law expansion (the classic Sun implementation)."""
    b = ~b & 0xFF
    t = ((b & 0x0F) << 3) + 0x84
    t <<= (b & 0x70) >> 4
    return (0x84 - t) if (b & 0x80) else (t - 0x84)


def au_outward0(ftype, v):
    """shift-0 mapping from shorten's internal signed value to a mu-law byte, from first principles:
    mu-law bytes ordered by amplitude; AU2 keeps negative zero next to zero, AU1 puts it at -128."""
    if ftype == 8:  # AU2
        return 255 - v if v >= 0 else 128 + v
    if v >= 0:
        return 255 - v
    return 127 if v == -128 else 127 + v


def trunc_div(a, b):
    q = abs(a) // b
    return q if a >= 0 else -q


def bit_len(n):
    k = 0
    while (1 << k) <= n:
        k += 1
    return k


class BitWriter:
    def __init__(self):
        self.bits = []

    def uvar(self, k, n):
        self.bits.extend([0] * (n >> k))
        self.bits.append(1)
        for i in range(k - 1, -1, -1):
            self.bits.append((n >> i) & 1)

    def var(self, k, v):
        self.uvar(k + 1, (2 * (-v - 1) + 1) if v < 0 else 2 * v)

    def ulong(self, n):
        nb = bit_len(n)
        self.uvar(2, nb)
        self.uvar(nb, n)

    def tobytes(self, pad_to=32):
        bits = self.bits + [0] * ((-len(self.bits)) % pad_to)
        out = bytearray()
        for i in range(0, len(bits), 8):
            b = 0
            for x in bits[i:i + 8]:
                b = (b << 1) | x
            out.append(b)
        return bytes(out)


FN = dict(DIFF0=0, DIFF1=1, DIFF2=2, DIFF3=3, QUIT=4, BLOCKSIZE=5, BITSHIFT=6, QLPC=7, ZERO=8)
PCM_TYPES = (3, 5)
AU_TYPES = (0, 8)
INIT_MEAN = {0: 0, 1: 0, 2: 8, 3: 0, 4: 0x8000, 5: 0, 6: 0x8000, 7: 0, 8: 0}


class Stream:
    """One generated stream: parameters, commands, bytes and what it must decode to."""

    def __init__(self):
        self.cmds = []  # tokens for the Lean `prog.*` operations
        self.expected = []  # frame-major raw output (PCM samples / mu-law bytes)
        self.classes = set()
        self.in_wf = True  # hypotheses of decode_encode hold
        self.in_scope = True  # inside the property's quantifier
        self.cmd_bit_positions = []  # bit offset of the start of every command (for malformed variants)


def gen_signal(r, style, n, prev, lo, hi):
    """n internal samples in [lo, hi] continuing from prev"""
    out = []
    x = min(max(prev, lo), hi)
    if style == "walk":
        step = r.choice([1, 3, 20, 200, 2000])
        for _ in range(n):
            x = min(max(x + r.randint(-step, step), lo), hi)
            out.append(x)
    elif style == "sine":
        import math
        amp = r.uniform(0.05, 1.0) * min(-lo, hi)
        w = r.uniform(0.01, 1.5)
        ph = r.uniform(0, 6.28)
        for i in range(n):
            out.append(min(max(int(round(amp * math.sin(w * i + ph))), lo), hi))
    elif style == "noise":
        a = r.choice([1, 8, 100, 5000, max(1, min(-lo, hi))])
        a = min(a, min(-lo, hi))
        out = [r.randint(max(lo, -a), min(hi, a)) for _ in range(n)]
    elif style == "const":
        c = r.choice([lo, hi, 0, -1, 1, x, r.randint(lo, hi)])
        out = [c] * n
    else:  # extremes
        out = [r.choice([lo, hi, 0, -1, lo + 1, hi - 1]) for _ in range(n)]
    return out


def gen_stream(r, outward, profile="valid"):
    """Random stream from the independent encoder.  `outward` = ULAW_OUTWARD rows (ast-extracted; used only for
    mu-law with a non-zero shift).  profile: valid (QLPC only in blocks >= nwrap) | shrinking / qlpc_short (block
    sizes never grow, predictor order <= block size, QLPC wherever order <= block size) | qlpc_anywhere (QLPC in
    any block: out of scope) | wide (values / coefficients beyond int32: monitor false) | othertype (S8/U8/U16/ULAW)"""
    s = Stream()
    version = r.choice([1, 2, 2])
    if profile == "othertype":
        ftype = r.choice([1, 2, 4, 6, 7])
        s.in_scope = False
    else:
        ftype = r.choice([3, 5, 0, 8, 3, 5])
    au = ftype in AU_TYPES
    nchan = r.choice([1, 1, 2, 2, 3, 4])
    bs0 = r.choice([1, 2, 3, 4, 5, 7, 8, 9, 16, 31, 32, 33, 64, 100, 256, 300, r.randint(1, 300), r.randint(1, 40)])
    maxnlpc = r.choice([0, 0, 1, 2, 3, 4, 8, r.randint(0, 8)])
    nmean = r.choice([0, 4, r.randint(0, 4), r.randint(0, 4)])
    nskip = r.choice([0, 0, 0, 0, 1, 3])
    nwrap = max(3, maxnlpc)
    lpcqoffset = 32 if version > 1 else 0
    s.hdr = dict(version=version, ftype=ftype, nchan=nchan, bs0=bs0, maxnlpc=maxnlpc, nmean=nmean, nskip=nskip)
    w = BitWriter()
    for v in (ftype, nchan, bs0, maxnlpc, nmean, nskip):
        w.ulong(v)
    skip = [r.choice([0, 1, 127, r.randint(0, 127), r.randint(0, 400)]) for _ in range(nskip)]
    for b in skip:
        w.uvar(7, b)
    s.skip = skip
    nframes = r.choice([1, 1, 2, 3, 4, 6]) if bs0 > 64 else r.choice([1, 2, 3, 5, 8, 12])
    hist = [[] for _ in range(nchan)]  # internal samples, chronological
    means = [[] for _ in range(nchan)]
    bs, shift = bs0, 0
    max_shift = 12 if au else 8
    styles = ["walk", "walk", "sine", "noise", "const", "ext"]
    shrinking = profile in ("shrinking", "qlpc_short")
    for fr in range(nframes):
        # block size change only at a frame boundary
        last = fr == nframes - 1
        if (last and r.random() < 0.6) or r.random() < 0.15:
            nb = min(bs0, r.choice([1, 2, 3, r.randint(1, bs0), r.randint(1, bs0), max(1, bs0 - 1)]))
            if shrinking:
                nb = min(nb, bs)
            if nb != bs or r.random() < 0.1:
                s.cmd_bit_positions.append(len(w.bits))
                w.uvar(2, FN["BLOCKSIZE"])
                w.ulong(nb)
                s.cmds.append("b:%d" % nb)
                s.classes.add("BLOCKSIZE")
                if nb < bs and last:
                    s.classes.add("short_last_block")
                bs = nb
        frame = []
        for c in range(nchan):
            if r.random() < 0.12:
                shift = r.choice([0, 1, 2, 3, r.randint(0, max_shift)])
                s.cmd_bit_positions.append(len(w.bits))
                w.uvar(2, FN["BITSHIFT"])
                w.uvar(2, shift)
                s.cmds.append("s:%d" % shift)
                s.classes.add("BITSHIFT")
            if shift:
                s.classes.add("shifted_block")
            # running-mean offset of this block
            if nmean:
                win = (means[c][::-1] + [INIT_MEAN[ftype]] * nmean)[:nmean]
                tot = (0 if version < 2 else nmean // 2) + sum(win)
                coff = trunc_div(tot, nmean)
                if version >= 2:
                    coff >>= shift
            else:
                coff = INIT_MEAN[ftype]
            # value range of the internal signal
            if au:
                lo, hi = -128, 127
            elif profile == "wide" and r.random() < 0.5:
                lo, hi = -(1 << 40), (1 << 40)
                s.classes.add("beyond_int32")
            elif ftype in PCM_TYPES or ftype == 1:
                lim = 1 << (15 - min(shift, 15)) if ftype != 1 else 1 << max(0, 7 - shift)
                lo, hi = -lim, lim - 1
            else:  # unsigned / generic types: keep small non-negative material
                lo, hi = 0, (1 << max(1, 15 - shift)) - 1
            choices = ["ZERO", "DIFF0", "DIFF1", "DIFF2", "DIFF3", "DIFF1", "DIFF2"]
            if maxnlpc or r.random() < 0.2:
                if bs >= nwrap or shrinking or profile == "qlpc_anywhere":
                    choices += ["QLPC", "QLPC", "QLPC"]
            cmd = r.choice(choices)
            order = dict(ZERO=0, DIFF0=0, DIFF1=1, DIFF2=2, DIFF3=3).get(cmd)
            coefs = []
            if cmd == "QLPC":
                nl = r.randint(0, maxnlpc)
                if shrinking:
                    nl = min(nl, bs)
                order = nl
                kind = r.random()
                if kind < 0.4:
                    base = r.choice([[32], [64, -32], [96, -96, 32], [48, -20, 7, -3]])
                    coefs = (base + [r.randint(-8, 8) for _ in range(nl)])[:nl]
                elif kind < 0.9:
                    coefs = [r.randint(-64, 64) for _ in range(nl)]
                else:
                    coefs = [r.choice([-1000, 1000, 0, 31, -33]) for _ in range(nl)]
                if profile == "wide" and r.random() < 0.3:
                    coefs = [r.choice([-(1 << 12), 1 << 11, 5]) for _ in range(nl)]
            if shrinking and cmd != "ZERO" and order > bs:
                cmd, order = "DIFF1" if bs >= 1 else "DIFF0", min(1, bs)
                coefs = []
            if cmd == "QLPC" and bs < nwrap:
                s.in_wf = False  # outside the theorem's hypothesis
                if profile == "qlpc_anywhere":
                    s.in_scope = False  # and, without the shrinking discipline, outside the property
                s.classes.add("qlpc_in_short_block")
            prev = hist[c][-1] if hist[c] else 0
            if cmd == "ZERO":
                x = [0] * bs
            else:
                x = gen_signal(r, r.choice(styles), bs, prev, lo, hi)
            # residuals by the textbook predictors over the whole history (zero before the start)
            h = hist[c]
            res = []
            if cmd != "ZERO":
                full = h + x
                base = len(h)

                def at(i):
                    return full[i] if i >= 0 else 0

                for i in range(bs):
                    j = base + i
                    if cmd == "DIFF0":
                        pred = coff
                    elif cmd == "DIFF1":
                        pred = at(j - 1)
                    elif cmd == "DIFF2":
                        pred = 2 * at(j - 1) - at(j - 2)
                    elif cmd == "DIFF3":
                        pred = 3 * at(j - 1) - 3 * at(j - 2) + at(j - 3)
                    else:
                        acc = lpcqoffset
                        for k, a in enumerate(coefs):
                            acc += a * (at(j - 1 - k) - coff)
                        pred = coff + (acc >> 5)
                    res.append(x[i] - pred)
            # residual width
            if res:
                mean_abs = sum(abs(v) for v in res) // len(res)
                resn = max(0, bit_len(mean_abs) + r.choice([-1, 0, 0, 0, 1, 2]))
                if r.random() < 0.03:
                    resn = r.choice([0, 31, 32, 33, 40])
                worst = max(abs(v) for v in res)
                while (2 * worst + 1) >> (resn + 1) > 64:
                    resn += 1
                if resn + 1 > 32:
                    s.classes.add("code_wider_than_a_word")
            s.cmd_bit_positions.append(len(w.bits))
            if cmd == "ZERO":
                w.uvar(2, FN["ZERO"])
                s.cmds.append("z")
            elif cmd == "QLPC":
                w.uvar(2, FN["QLPC"])
                w.uvar(3, resn)
                w.uvar(2, len(coefs))
                for a in coefs:
                    w.var(5, a)
                for v in res:
                    w.var(resn, v)
                s.cmds.append("q:%d:%s:%s" % (resn, ints(coefs), ints(res)))
            else:
                w.uvar(2, FN[cmd])
                w.uvar(3, resn)
                for v in res:
                    w.var(resn, v)
                s.cmds.append("d:%d:%d:%s" % (order, resn, ints(res)))
            s.classes.add(cmd if cmd != "QLPC" else "QLPC%d" % len(coefs))
            hist[c] = h + x
            if nmean:
                m = trunc_div((0 if version < 2 else bs // 2) + sum(x), bs)
                if version >= 2:
                    m <<= shift
                means[c].append(m)
            # what comes out
            if au:
                if shift == 0:
                    y = [au_outward0(ftype, v) for v in x]
                else:
                    row = outward[shift]
                    if ftype == 0:
                        y = [row[v + 128] for v in x]
                    else:
                        y = [row[v + 128] if v >= 0 else (127 if v == -1 else row[v + 129]) for v in x]
                    s.classes.add("ulaw_table_row>0")
            else:
                y = [v << shift for v in x]
            frame.append(y)
        for i in range(bs):
            for c in range(nchan):
                s.expected.append(frame[c][i])
    s.quit_bit = len(w.bits)
    w.uvar(2, FN["QUIT"])
    s.nbits = len(w.bits)
    s.stream = w.tobytes()
    s.body = b"ajkg" + bytes([version]) + s.stream
    s.nsamp = len(s.expected) // nchan
    s.classes.add("v%d" % version)
    s.classes.add("type%d" % ftype)
    s.classes.add("nchan%d" % nchan)
    s.classes.add("nmean%d" % nmean)
    if nskip:
        s.classes.add("nskip")
    s.profile = profile
    return s


def ints(l):
    return ",".join(map(str, l)) if l else "-"


def prog_tokens(s):
    h = s.hdr
    return "%d %d %d %d %d %d %s %s" % (h["version"], h["ftype"], h["nchan"], h["bs0"], h["maxnlpc"], h["nmean"],
                                        ints(s.skip), " ".join(s.cmds))


# ------------------------------------------------------------------------------------------------
# the implementation through its public API


def sphere_header(nchan, nsamp, au, byte_format="01"):
    # header layout as a function of the case: the plain 1024-byte header, or a 2048- / 3072-byte header whose descriptive
    # fields fill the first block so that the fields the decoder needs (and `end_head`) lie BEYOND the first 1024 bytes
    size = [1024, 1024, 2048, 3072][(nchan + nsamp) % 4]
    lines = ["NIST_1A", "%7d" % size]
    if size > 1024:
        lines += ["utterance_note_%02d -s40 %s" % (k, "x" * 40) for k in range(16 if size == 2048 else 33)]
    lines += ["channel_count -i %d" % nchan, "sample_count -i %d" % nsamp, "sample_rate -i 8000"]
    hdr_size = size
    if au:
        lines += ["sample_n_bytes -i 1", "sample_byte_format -s1 1", "sample_coding -s27 ulaw,embedded-shorten-v2.00"]
    else:
        lines += ["sample_n_bytes -i 2", "sample_byte_format -s2 %s" % byte_format,
                  "sample_coding -s26 pcm,embedded-shorten-v2.00"]
    lines += ["end_head"]
    h = ("\n".join(lines) + "\n").encode()
    assert 1024 * (hdr_size > 1024) < len(h) <= hdr_size, (len(h), hdr_size)
    return h + b" " * (hdr_size - len(h))


class ImplTimeout(Exception):
    pass


def _on_vtalarm(*_):
    raise ImplTimeout()


IMPL_CPU_LIMIT = 4.0  # seconds of CPU for one read_signal call (a decoder stuck on a truncated stream)


def impl_decode(body, nchan, nsamp, au, dtype, byte_format="01"):
    """-> ("ok", flat list, shape) | ("err", class name)"""
    from pydrobert.speech import util

    blob = sphere_header(nchan, nsamp, au, byte_format) + body
    # how the file reaches the reader: a BytesIO, a forward-only stream (no seek / tell, short reads), or the second record
    # of a seekable stream
    f = [io.BytesIO, lambda b: common.PipeStream(b, short=4099), common.offset_stream][nsamp % 3](blob)
    old = signal.signal(signal.SIGVTALRM, _on_vtalarm)
    signal.setitimer(signal.ITIMER_VIRTUAL, IMPL_CPU_LIMIT)
    try:
        with warnings.catch_warnings():
            warnings.simplefilter("ignore")
            try:
                try:
                    arr = util.read_signal(f, dtype=dtype, force_as="sph")
                except io.UnsupportedOperation:
                    # a reader that insists on a seekable stream says so (io.UnsupportedOperation is an OSError: keep it apart
                    # from the decoder's own IOError): read it the ordinary way
                    arr = util.read_signal(io.BytesIO(blob), dtype=dtype, force_as="sph")
            except IOError:
                return ("err", "IOError")
            except ImplTimeout:
                return ("err", "no result after %gs CPU" % IMPL_CPU_LIMIT)
            except Exception as e:  # noqa
                return ("err", type(e).__name__)
    finally:
        signal.setitimer(signal.ITIMER_VIRTUAL, 0)
        signal.signal(signal.SIGVTALRM, old)
    arr = np.asarray(arr)
    return ("ok", arr.reshape(-1).tolist(), tuple(arr.shape), str(arr.dtype))


def cast(vals, dtype):
    if dtype is None or dtype == "int16":
        return [((v + 32768) % 65536) - 32768 for v in vals]
    if dtype == "uint8":
        return [v % 256 for v in vals]
    if dtype == "int32":
        return [((v + (1 << 31)) % (1 << 32)) - (1 << 31) for v in vals]
    raise ValueError(dtype)


def parse_model(line):
    """driver line -> ("ok", monitor flag, values) | ("err", kind)"""
    if line.startswith("ok "):
        _, fl, vals = line.split(" ")
        return ("ok", fl == "1", [] if vals == "-" else [int(x) for x in vals.split(",")])
    if line.startswith("err:"):
        return ("err", line[4:])
    return ("bad", line)


def table_digest(rows):
    return hashlib.sha256(repr(rows).encode()).hexdigest()


PINNED["ULAW_OUTWARD"] = "6599cd97c06150ea71be05f01b8deb24d62407bdb27e3f2f071a6cf336abf850"


def reference_vectors():
    d = os.path.join(common.REPO, "tests", "audio")
    out = []
    for sph in sorted(glob.glob(os.path.join(d, "*_shn.sph"))):
        wav = sph.replace("_shn.sph", ".wav")
        if os.path.isfile(wav):
            out.append((sph, wav))
    return out


def read_wav(path):
    with wave.open(path, "rb") as w:
        n, ch, sw = w.getnframes(), w.getnchannels(), w.getsampwidth()
        raw = w.readframes(n)
    assert sw == 2
    a = np.frombuffer(raw, dtype="<i2")
    return a.tolist(), ch


# ------------------------------------------------------------------------------------------------


def check_stream(ctx, s, dtype_name, tag):
    """oracle on the implementation for one valid stream; returns the impl result"""
    au = s.hdr["ftype"] in AU_TYPES
    dtype = None if dtype_name is None else np.dtype(dtype_name)
    bf = "10" if s.hdr["ftype"] == 3 else "01"
    got = impl_decode(s.body, s.hdr["nchan"], s.nsamp, au, dtype, bf)
    return got


def expected_for(s, dtype_name):
    au = s.hdr["ftype"] in AU_TYPES
    vals = s.expected
    if au and dtype_name != "uint8":
        vals = [g711_ulaw2linear(b) for b in vals]
    return cast(vals, dtype_name)


def small_case(s, dtype_name, extra=None):
    c = dict(hdr=s.hdr, profile=s.profile, nsamp=s.nsamp, ncmds=len(s.cmds), dtype=dtype_name,
             digest=hashlib.blake2b(s.body, digest_size=8).hexdigest())
    if extra:
        c.update(extra)
    return c


def replay_case(s, dtype_name, body=None, extra=None):
    c = small_case(s, dtype_name, extra)
    c["body_hex"] = (body if body is not None else s.body).hex()
    c["au"] = s.hdr["ftype"] in AU_TYPES
    return c


def run(ctx, driver):
    r = ctx.rng
    _, tables, _, _ = tr.extract(common.REPO)
    outward = tables["ULAW_OUTWARD"]
    ulaw2pcm = tables["ULAW2PCM"]
    # ---- tables against independent knowledge ------------------------------------------------
    ctx.case(dict(table="ULAW2PCM"), kind="table")
    g711 = [g711_ulaw2linear(b) for b in range(256)]
    if list(ulaw2pcm) != g711:
        bad = [i for i in range(256) if i >= len(ulaw2pcm) or ulaw2pcm[i] != g711[i]][:4]
        ctx.violation(dict(table="ULAW2PCM", entries=bad), [g711[i] for i in bad],
                      [ulaw2pcm[i] if i < len(ulaw2pcm) else None for i in bad],
                      "ULAW2PCM equals ITU-T G.711 mu-law expansion", tags=dict(clause="ulaw2pcm_table"))
    ctx.case(dict(table="ULAW_OUTWARD"), kind="table")
    for ft in AU_TYPES:
        for v in range(-128, 128):
            idx = v + 128 if (ft == 0 or v >= 0) else v + 129
            got = 127 if (ft == 8 and v == -1) else outward[0][idx]
            if got != au_outward0(ft, v):
                ctx.violation(dict(table="ULAW_OUTWARD", row=0, ftype=ft, v=v), au_outward0(ft, v), got,
                              "row 0 of ULAW_OUTWARD orders mu-law bytes by amplitude", tags=dict(clause="outward_row0"))
                break
    dg = table_digest(outward)
    if dg != PINNED["ULAW_OUTWARD"]:
        ctx.violation(dict(table="ULAW_OUTWARD", digest=dg), PINNED["ULAW_OUTWARD"], dg,
                      "ULAW_OUTWARD equals the table shipped with shorten / sph2pipe (pinned digest)",
                      tags=dict(clause="outward_table"))

    lines, todo = [], []  # driver lines and what to do with each answer

    def add(line, fn):
        lines.append(line)
        todo.append(fn)

    # ---- reference vectors -------------------------------------------------------------------
    from pydrobert.speech import util

    for sph, wav in reference_vectors():
        name = os.path.basename(sph)
        ctx.case(dict(vector=name), kind="reference_vector")
        want, ch = read_wav(wav)
        for from_file in (True, False):
            try:
                with warnings.catch_warnings():
                    warnings.simplefilter("ignore")
                    if from_file:
                        arr = util.read_signal(sph)
                    else:
                        with open(sph, "rb") as f:
                            arr = util.read_signal(f, force_as="sph")
                got = np.asarray(arr).reshape(-1).tolist()
                shape_ok = arr.shape == ((len(want) // ch, ch) if ch > 1 else (len(want),))
            except Exception as e:  # noqa
                got, shape_ok = "%s: %s" % (type(e).__name__, str(e)[:100]), True
            if got != want or not shape_ok:
                ctx.violation(dict(vector=name, from_file=from_file), "samples of %s" % os.path.basename(wav),
                              got if isinstance(got, str) else "differs (first at %s)" % first_diff(got, want),
                              "sph2pipe reference vector decodes to its reference WAV",
                              tags=dict(clause="reference_vector", vector=name))
        if ctx.tier == "thorough" or name.startswith("123_1"):
            body = open(sph, "rb").read()[1024:]

            def fn(o, name=name, want=want):
                m = parse_model(o)
                if m[0] != "ok" or m[2] != want:
                    ctx.mismatch(dict(vector=name), m[:2], "reference WAV", "model on a reference vector")
                elif not m[1]:
                    ctx.note("monitor false on reference vector %s" % name)

            add("sph.decode 1 %s" % body.hex(), fn)

    # ---- generated valid streams -------------------------------------------------------------
    n = ctx.scale(600, 8000)
    profiles = ["valid"] * 10 + ["shrinking", "qlpc_short", "qlpc_anywhere", "wide", "othertype"]
    streams = []
    for i in range(n):
        if ctx.out_of_time():
            break
        prof = r.choice(profiles)
        s = gen_stream(r, outward, prof)
        streams.append(s)
        au = s.hdr["ftype"] in AU_TYPES
        dts = [None, "int32"] if not au else [None, "uint8", "int32"]
        dt = r.choice(dts)
        if "beyond_int32" in s.classes or s.profile == "othertype":
            dt = "int32"
        got = check_stream(ctx, s, dt, "valid")
        for c in s.classes:
            ctx.count("cls:" + c)
        ctx.count("profile:" + prof)
        ctx.case(small_case(s, dt), kind="valid_stream")
        oracle_on = s.in_scope and "beyond_int32" not in s.classes
        if not s.in_scope:
            ctx.count("out_of_scope")
        if oracle_on:
            want = expected_for(s, dt)
            shape = (s.nsamp, s.hdr["nchan"]) if s.hdr["nchan"] > 1 else (s.nsamp,)
            if got[0] != "ok" or got[1] != want or got[2] != shape:
                ctx.violation(replay_case(s, dt), dict(first=want[:8], n=len(want), shape=shape),
                              describe(got, want), "decode(independent encoder output) == original samples",
                              tags=dict(clause="lossless", profile=prof))
        convert = 0 if dt == "uint8" else 1

        def fn(o, s=s, dt=dt, got=got, oracle_on=oracle_on):
            m = parse_model(o)
            compare(ctx, s, dt, m, got, s.body)
            if m[0] == "ok" and m[1] and not s.in_wf and oracle_on:
                ctx.gap_cases += 1
            if m[0] == "ok" and not m[1]:
                ctx.gap_cases += 1
                ctx.count("monitor_false")

        add("sph.decode %d %s" % (convert, s.body.hex()), fn)
        # spec side of the model against the independent encoder (bytes and samples)
        if s.in_wf and i % 2 == 0:
            def fe(o, s=s):
                if o != s.body.hex():
                    ctx.mismatch(small_case(s, None), o[:60], s.body.hex()[:60], "Lean encodeFile vs Python encoder bytes")

            add("prog.enc " + prog_tokens(s), fe)

            def fs(o, s=s, convert=convert, dt=dt):
                m = parse_model(o.replace("ok ", "ok 1 ", 1))
                want = s.expected
                if convert and s.hdr["ftype"] in AU_TYPES:
                    want = [g711_ulaw2linear(b) for b in want]
                if m[0] != "ok" or m[2] != want:
                    ctx.mismatch(small_case(s, dt), describe(m, want), want[:8], "Lean sem vs the encoder's samples")

            add("prog.sem %d %s" % (convert, prog_tokens(s)), fs)

    # ---- malformed streams -------------------------------------------------------------------
    nm = ctx.scale(400, 5000)
    base = [s for s in streams if s.in_scope and "beyond_int32" not in s.classes] or streams
    for i in range(nm):
        if ctx.out_of_time() or not base:
            break
        s = r.choice(base)
        au = s.hdr["ftype"] in AU_TYPES
        kind = r.choice(["trunc", "trunc", "trunc", "badcmd", "badversion", "badtype", "trailing"])
        if ctx.hist.get("impl_no_result", 0) >= 6:
            break  # the decoder hangs on malformed input: already reported, do not wait for more
        needed = 5 + 4 * ((s.nbits + 31) // 32)
        expect_err = True
        extra = dict(malformed=kind)
        if kind == "trunc":
            pos_class = r.choice(["magic_only", "first_word", "header", "middle", "last_word", "one_short", "exact",
                                  "beyond"])
            if pos_class == "magic_only":
                cut = 4
            elif pos_class == "first_word":
                cut = r.randint(5, 8)
            elif pos_class == "header":
                cut = r.randint(5, min(needed - 1, 5 + 12))
            elif pos_class == "middle":
                cut = r.randint(5, needed - 1)
            elif pos_class == "last_word":
                cut = r.randint(max(5, needed - 4), needed - 1)
            elif pos_class == "one_short":
                cut = needed - 1
            elif pos_class == "exact":
                cut = needed
                expect_err = False
            else:
                cut = needed
                expect_err = False
            body = s.body[:cut]
            if pos_class == "beyond":
                body = body + bytes(r.randint(0, 255) for _ in range(r.randint(1, 7)))
            extra.update(cut=cut, needed=needed, pos=pos_class)
            ctx.count("trunc:" + pos_class)
        elif kind == "trailing":
            body = s.body + bytes(r.randint(0, 255) for _ in range(r.choice([1, 2, 3, 4, 5, 1000, 1019, 1020, 1024, 2048])))
            expect_err = False
        elif kind == "badversion":
            v = r.choice([0, 3, 4, 7, 8, 127, 128, 255])
            body = s.body[:4] + bytes([v]) + s.body[5:]
            extra.update(version=v)
        elif kind == "badtype":
            w = BitWriter()
            w.ulong(r.choice([9, 10, 15, 16, 128, 1000]))
            w.bits += bits_of(s.stream)[:200]
            body = s.body[:5] + w.tobytes()
        else:  # badcmd: overwrite the stream from a command boundary on with an unknown function code
            posn = r.choice(s.cmd_bit_positions + [s.quit_bit])
            w = BitWriter()
            w.bits = bits_of(s.stream)[:posn]
            code = r.choice([9, 10, 11, 12, 15, 20, 64])
            w.uvar(2, code)
            w.bits += [r.randint(0, 1) for _ in range(64)]
            body = s.body[:5] + w.tobytes()
            extra.update(code=code, at_bit=posn)
        dt = None
        got = impl_decode(body, s.hdr["nchan"], s.nsamp, au, None, "10" if s.hdr["ftype"] == 3 else "01")
        ctx.case(small_case(s, dt, extra), kind="malformed:" + kind)
        if got[0] == "err" and got[1].startswith("no result"):
            ctx.count("impl_no_result")
        if expect_err:
            if got != ("err", "IOError"):
                ctx.violation(replay_case(s, dt, body, extra), "IOError", describe(got, None),
                              "a stream that ends early or carries an unknown command / version / type raises IOError",
                              tags=dict(clause="error", malformed=kind))
        else:
            want = expected_for(s, dt)
            if got[0] != "ok" or got[1] != want:
                ctx.violation(replay_case(s, dt, body, extra), dict(first=want[:8], n=len(want)), describe(got, want),
                              "bytes after the QUIT command (padding, trailing data) do not matter",
                              tags=dict(clause="lossless", malformed=kind))

        def fn(o, s=s, got=got, body=body, extra=extra):
            m = parse_model(o)
            compare(ctx, s, None, m, got, body, extra)
            if m[0] == "err":
                ctx.count("model_err:" + m[1])

        add("sph.decode 1 %s" % body.hex(), fn)

    # ---- the driver ---------------------------------------------------------------------------
    outs = driver.run(lines)
    ctx.corr_lines += len(lines)
    for o, fn in zip(outs, todo):
        fn(o)
    ctx.count("correspondence_lines", len(lines))


def bits_of(b):
    out = []
    for x in b:
        for i in range(7, -1, -1):
            out.append((x >> i) & 1)
    return out


def first_diff(a, b):
    for i, (x, y) in enumerate(zip(a, b)):
        if x != y:
            return "%d: %r != %r" % (i, x, y)
    return "length %d != %d" % (len(a), len(b))


def describe(got, want):
    if got[0] == "err":
        return "raised " + got[1]
    if got[0] == "bad":
        return got[1]
    vals = got[2] if isinstance(got[1], bool) else got[1]
    d = dict(first=vals[:8], n=len(vals))
    if want is not None and vals != want:
        d["first_diff"] = first_diff(vals, want)
    if not isinstance(got[1], bool):
        d["shape"] = got[2]
    return d


def compare(ctx, s, dt, m, got, body, extra=None):
    """model answer `m` vs implementation answer `got`"""
    case = small_case(s, dt, extra)
    if m[0] == "bad":
        ctx.mismatch(case, m[1], got[:2], "driver rejected the line")
    elif m[0] == "err":
        if m[1] == "Unsupported":
            ctx.count("model_unsupported")
        elif m[1].startswith("IOError"):
            if got != ("err", "IOError"):
                ctx.mismatch(dict(case, body_hex=body.hex()[:4000]), m[1], describe(got, None), "model raises IOError")
        else:
            ctx.mismatch(case, m[1], describe(got, None), "model error")
    else:
        if not m[1]:
            return  # outside the int32 range hypothesis: not compared
        want = cast(m[2], dt)
        if got[0] != "ok" or got[1] != want:
            ctx.mismatch(dict(case, body_hex=body.hex()[:4000]), describe(m, None), describe(got, want),
                         "decoded samples")


def translate(repo):
    files, _ = tr.generate(repo)
    return files


def replay(rp):
    c = rp.get("case", {})
    print(common.canon({k: v for k, v in c.items() if k != "body_hex"}))
    if "vector" in c:
        from pydrobert.speech import util

        sph = os.path.join(common.REPO, "tests", "audio", c["vector"])
        want, _ = read_wav(sph.replace("_shn.sph", ".wav"))
        try:
            with warnings.catch_warnings():
                warnings.simplefilter("ignore")
                arr = util.read_signal(sph)
            got = np.asarray(arr).reshape(-1).tolist()
            print("impl: ok, %d samples, %s" % (len(got), "equal to the reference WAV" if got == want else
                                                "DIFFERENT from the reference WAV (first at %s)" % first_diff(got, want)))
        except Exception as e:  # noqa
            print("impl: raised %s: %s" % (type(e).__name__, e))
        print("oracle:", rp.get("oracle"))
        return 0
    if "body_hex" not in c:
        print("oracle:", rp.get("oracle"), "expected", rp.get("expected"), "got", rp.get("got"))
        return 0
    body = bytes.fromhex(c["body_hex"])
    dt = c.get("dtype")
    got = impl_decode(body, c["hdr"]["nchan"], c["nsamp"], c["au"], None if dt is None else np.dtype(dt),
                      "10" if c["hdr"]["ftype"] == 3 else "01")
    print("impl :", describe(got, None))
    try:
        o = common.Driver(PROP).run(["sph.decode %d %s" % (0 if dt == "uint8" else 1, body.hex())])[0]
        m = parse_model(o)
        print("model:", m[1] if m[0] != "ok" else dict(monitor=m[1], first=cast(m[2], dt)[:8], n=len(m[2])))
    except Exception as e:  # noqa
        print("model: driver failed: %s" % e)
    print("oracle:", rp.get("oracle"), "| expected", rp.get("expected"), "| got", rp.get("got"))
    return 0

"""C02 - STFT coefficients equal their documented definition."""
import numpy as np

from . import common
from . import stft_common as sc

PROP = "C02"
MODULES = ["PdsVerif.Props.StftTie", "PdsVerif.Props.FrameCoeffTie", "PdsVerif.Props.DftSizeTie", "PdsVerif.Props.C02"]
MODEL_MODULES = ["PdsVerif.Model.StftDrv"]
REQUIRED = ["PdsVerif.StftTie." + n for n in ["full_pad_left_eq", "full_short_eq", "full_num_frames_eq", "full_pad_right_eq", "fin_pad_left_eq", "fin_num_frames_eq", "chunk_frame_length_eq", "chunk_num_frames_eq", "chunk_first_pad_eq", "torch_arith_eq_numpy", "torch_no_frame_eq"]] + ["PdsVerif.FrameCoeffTie." + n for n in ["np_nonlin_append", "np_loop_eq", "np_finish_spec", "coeff_eq_spec", "np_energy_spec", "torch_energy_eq_np", "torch_coeff_eq_np"]] + ["PdsVerif.C02." + n for n in [
    "full_short", "full_count", "full_frame_spec", "full_frames_length", "frame_origin", "walk_covers",
    "walk_idx_in_range", "walk_bins_distinct", "full_spectrum_sum", "walk_sum_eq_full_spectrum", "read_eq_full_bin", "coefficient_eq_full_dft_sum", "stft_coefficient_spec", "rebuilt_ne_zero", "real_full_spectrum_eq_twice_half", "walk_real_within_half", "real_doubling", "default_len_bin"]] + ["PdsVerif.DftSizeTie." + n for n in ["stft_dft_size_padded", "stft_dft_size_unpadded", "pow2_clog_least", "stft_dft_size_pow2", "stft_dft_size_ge", "si_dft_size_spec", "si_dft_size_ge"]]

def translate(repo):
    """framing arithmetic of compute.py / torch.py -> Generated/StftConsts.lean (theorems: Props/StftTie.lean);
    real-valued tail of the coefficient computation -> Generated/FrameCoeff.lean (theorems: Props/FrameCoeffTie.lean)"""
    from .translate import stftconsts, framecoeff, dftsize
    files = dict(stftconsts.generate(repo))
    files.update(framecoeff.generate(repo))
    # the DFT size rule of the constructors -> Generated/DftSize.lean (theorems: Props/DftSizeTie.lean)
    files.update(dftsize.generate(repo))
    return files


RULE = (
    "walk: (DFT size D in 2..67 (all residues mod 4), start bin < D, truncated length <= D, integer/gaussian-integer taps) "
    "driven through the public STFT computer with a SpecBank tracer and a signal irfft(A) of integer magnitudes A, "
    "so a coefficient is the integer sum_j A[bin_j]*|tap_j|; framing: (L, S, style, kaldi) x N with one-hot integer "
    "windows (each coefficient names one source index); oracle: library banks x scales x flags against an independent "
    "full-spectrum evaluation. Distinct by full parameter tuple; trivial = empty result."
)
TRUSTED = [
    "np.fft.rfft returns bins 0..D//2 of NumPy's documented DFT X[k] = sum_n x[n] exp(-2 pi i k n / D) of the zero-padded real frame "
    "(Hermitian symmetry X[D-b] = conj X[b] is no longer trusted: Dft.dft_mirror, used by read_eq_full_bin / coefficient_eq_full_dft_sum)",
    "np.pad 'symmetric' semantics as modelled (symIdx); tracer components SpecBank / DCBank / IntWindow",
]
ASSUMPTIONS = [
    "real_doubling needs the bank's taps at DC and (even D) Nyquist to be zero, as for the library's triangular / Fbank banks; checked on library banks by the oracle",
    "window values, log/energy formulas and float round-off are compared by the oracle at 1e-9 relative, not proved",
]
LEVEL_TEXT = (
    "Proved for all sizes: compute_full's frame count, every frame's exact sample indices (documented origin per "
    "style/kaldi_shift, symmetric reflection), frame length exactly L; the segment walk (incl. the mirrored, conjugated "
    "pass) pairs tap j with full-spectrum bin (start+j) mod D for every D, start, len, with a proved fuel bound; real "
    "banks stay in the half spectrum and doubling equals the full-spectrum sum; default frame length leaves a bin inside "
    "each support. The real-valued tail of _compute_frame (per-segment |.|^p sums, val += ..., real-bank doubling, log "
    "floor, the energy coefficient) is regenerated from compute.py on every run and proved to be the documented formula: "
    "stft_coefficient_spec - for every DFT size, support, real frame, bank taps and every way the walk is cut into "
    "segments the stored coefficient is logFloor((2 if real) * sum over the FULL spectrum of |X[b]*H[b]|^p) with X the "
    "documented DFT (Hermitian symmetry of a real frame's DFT proved, not assumed); the DFT size rule of the constructor "
    "is regenerated too and proved to be the least power of two >= the frame length (DftSizeTie). Model tied to the code by "
    "exact-integer tracers through the public API; coefficient values on library banks checked against an independent "
    "full-spectrum oracle."
)
LEVEL_NOTE = (
    "Trusted: rfft = the documented DFT (Hermitian symmetry is proved), np.pad symmetric, tracer banks. the framecoeff translator. Partial: window "
    "values and float round-off are oracle-tested only; real_doubling assumes zero DC/Nyquist taps (library banks: bounded by the oracle)."
)
TECHNIQUE = "Lean 4 proofs (walk = spec by induction with fuel; framing closed form) + exact-integer tracer correspondence"


def int_taps(r, n):
    choices = [1, 2, 3, 4, 6, 7, complex(3, 4), complex(-5, 12), complex(0, 2), -3, complex(8, -6)]
    return [r.choice(choices) for _ in range(n)]


def walk_cases(ctx):
    r = ctx.rng
    out = []
    Ds = list(range(2, 24)) if ctx.tier == "quick" else list(range(2, 68))
    for D in Ds:
        starts = range(D) if (ctx.tier == "thorough" and D <= 40) else sorted({0, 1, D // 2 - 1, D // 2, D // 2 + 1, D - 1} | {r.randrange(D) for _ in range(3)})
        for start in starts:
            if start < 0 or start >= D:
                continue
            lens = sorted({1, 2, D // 2, D // 2 + 1, D - 1, D} | {r.randrange(1, D + 1) for _ in range(2)})
            if ctx.tier == "thorough" and D <= 16:
                lens = list(range(1, D + 1))
            for ln in lens:
                if 1 <= ln <= D:
                    out.append((D, start, ln))
    return out


def run(ctx, driver):
    from pydrobert.speech.compute import STFTFrameComputer
    from .tracers import SpecBank, IntWindow

    r = ctx.rng
    # ---------------- walk: correspondence + oracle through the public computer
    wc = walk_cases(ctx)
    r.shuffle(wc)
    wc = wc[: ctx.scale(1500, 40000)]
    lines = ["walk %d %d %d" % c for c in wc]
    outs = driver.run(lines)
    ctx.count("correspondence_lines", len(lines))
    for (D, start, ln), mo in zip(wc, outs):
        if ctx.out_of_time():
            break
        taps = int_taps(r, ln)
        half = D // 2 + 1
        A = np.asarray([r.randrange(1, 30) for _ in range(half)], dtype=np.float64)
        x = np.fft.irfft(A, n=D)
        bank = SpecBank([(start, np.asarray(taps, dtype=np.complex128))])
        case = dict(kind="walk", D=D, start=start, len=ln, taps=[str(t) for t in taps], A=A.tolist())
        ctx.case(case, kind="walk:Dmod4=%d" % (D % 4))
        vals = {}
        for power in (False, True):
            comp = STFTFrameComputer(bank, frame_length_ms=D, frame_shift_ms=D, frame_style="causal",
                                     window_function=IntWindow(mode="ones"), use_log=False, use_power=power,
                                     pad_to_nearest_power_of_two=False)
            got = comp.compute_full(x)
            vals[power] = float(got[0, 0]) if got.shape == (1, 1) else None
        # oracle: independent full-spectrum evaluation, H rebuilt by the documented (complex) recipe
        X = np.fft.fft(x)
        H = np.zeros(D, dtype=np.complex128)
        tr = np.asarray(taps, dtype=np.complex128)
        wrap = min(start + ln, D) - start
        H[start : start + wrap] = tr[:wrap]
        H[: ln - wrap] = tr[wrap:]
        for power in (False, True):
            want = float(np.sum(np.abs(X * H) ** (2 if power else 1)))
            g = vals[power]
            if g is None or not common.close(g, want, rel=1e-9, abs_=1e-7):
                ctx.violation(dict(case, use_power=power), want, g,
                              "coefficient == sum over the full DFT spectrum of |X*H|^p, H rebuilt from the truncated response",
                              tags=dict(clause="full_spectrum_sum", Dmod4=D % 4))
        # the same filter with a frame SHORTER than the DFT (odd / even frame lengths, zero-padded spectrum):
        # oracle only (the spectrum is no longer the synthetic A)
        for Lp in sorted({D - 1, D // 2 + 1, max(1, D - 2)}):
            if not (1 <= Lp < D) or 2 ** int(np.ceil(np.log2(Lp))) != D:
                continue
            xp = np.asarray([r.randrange(-9, 10) for _ in range(Lp)], dtype=np.float64)
            compp = STFTFrameComputer(bank, frame_length_ms=Lp, frame_shift_ms=Lp, frame_style="causal",
                                      window_function=IntWindow(mode="ones"), use_log=False, use_power=False,
                                      pad_to_nearest_power_of_two=True)
            gp = compp.compute_full(xp)
            wantp = float(np.sum(np.abs(np.fft.fft(xp, n=D) * H)))
            ctx.count("walk_padded_frame")
            if gp.shape != (1, 1) or not common.close(float(gp[0, 0]), wantp, rel=1e-9, abs_=1e-7):
                ctx.violation(dict(case, frame_length=Lp, x=xp.tolist(), padded=True), wantp, gp.tolist(),
                              "coefficient == full-spectrum sum with a zero-padded DFT (frame shorter than the DFT)",
                              tags=dict(clause="full_spectrum_sum_padded", Lodd=bool(Lp % 2)))
        # correspondence: model hits -> expected integer
        if mo in ("bad-op",):
            ctx.mismatch(case, mo, vals[False], "driver rejected")
            continue
        hits = [] if mo == "-" else [tuple(int(v) for v in h.split(",")) for h in mo.split("|")]
        try:
            exp = sum(A[i] * abs(taps[j]) for i, cj, j in hits)
        except IndexError:
            ctx.mismatch(case, mo, vals[False], "model hit index out of the half spectrum")
            continue
        if vals[False] is None or abs(vals[False] - exp) > 1e-6:
            ctx.mismatch(case, exp, vals[False], "sum_j A[idx_j]*|tap_j| : model walk vs implementation")
    # ---------------- framing: one-hot windows name source indices exactly
    framing(ctx, driver)
    # ---------------- library banks vs independent full-spectrum oracle
    library_oracle(ctx)


def sym_index(N, p):
    """independent statement of symmetric (edge-repeating) reflection"""
    while p < 0 or p >= N:
        if p < 0:
            p = -1 - p
        else:
            p = 2 * N - 1 - p
    return p


def framing(ctx, driver):
    r = ctx.rng
    jobs = []
    maxL = 7 if ctx.tier == "quick" else 11
    for L in range(1, maxL + 1):
        # compute_full also supports frame_shift > frame_length (frames with gaps); the Kaldi left padding
        # L//2 - S//2 must stay non-negative (np.pad rejects a negative pad)
        for S in list(range(1, L + 1)) + [L + 1, L + 2, 2 * L + 1, 3 * L]:
            for centered, kaldi in ((False, False), (True, False), (True, True)):
                if kaldi and S // 2 > L // 2:
                    continue
                for N in sorted({0, L // 2, L // 2 + 1, L, 2 * L + 1, r.randrange(0, 3 * L + 2), S, 2 * S + 1, S + S // 2, S + S // 2 + 1}):
                    j = r.randrange(L)
                    jobs.append((L, S, centered, kaldi, N, j))
    r.shuffle(jobs)
    jobs = jobs[: ctx.scale(600, 6000)]
    lines = [sc.ops_line(L, S, ce, ka, ["F%d" % N]) for L, S, ce, ka, N, j in jobs]
    outs = driver.run(lines)
    ctx.count("correspondence_lines", len(lines))
    for (L, S, centered, kaldi, N, j), mo in zip(jobs, outs):
        taps = sc.window_taps("hot%d" % j, L)
        comp = sc.make_dc_computer(L, S, centered, kaldi, taps)
        x = sc.sig(0, N)
        x.setflags(write=False)
        case = dict(kind="framing", L=L, S=S, centered=centered, kaldi=kaldi, N=N, hot=j)
        ctx.case(case, nontrivial=N >= L // 2 + 1, kind="framing")
        try:
            got = comp.compute_full(x)
        except Exception as e:
            ctx.violation(case, "frames", "%s: %s" % (type(e).__name__, e), "compute_full raises on a valid configuration / signal",
                          tags=dict(clause="raises", exc=type(e).__name__))
            continue
        rows = sc.as_int_rows(got)
        # oracle: documented count and ranges
        if N < L // 2 + 1:
            want = []
        else:
            nf = (N + S // 2) // S
            if not centered:
                origin = 0
            elif kaldi:
                origin = -(L // 2) + S // 2
            else:
                origin = -((L + 1) // 2) + 1
            want = [int(x[sym_index(N, k * S + origin + j)]) for k in range(nf)]
        if rows != want:
            ctx.violation(case, want, rows, "frame k sample j = signal[k*S + origin + j] with symmetric reflection; (N+S//2)//S frames",
                          tags=dict(clause="frame_spec", style="causal" if not centered else ("kaldi" if kaldi else "centered")))
        exp = sc.expected_from_model(mo, ["F%d" % N], taps, same_signal=True) if mo != "bad-op" else None
        if exp is None or exp[0] != rows:
            ctx.mismatch(case, exp, rows, "compute_full frames: model vs implementation (one-hot window)")


def rebuild_full(bank, idx, D):
    """documented recipes of LinearFilterBank.get_truncated_response"""
    b, tr = bank.get_truncated_response(idx, D)
    full = np.zeros(D, dtype=np.complex128)
    if bank.is_real:
        full[b : b + len(tr)] = tr
        full[D - b - len(tr) + 1 : D - b + 1] = tr[: None if b else 0 : -1].conj()
    else:
        wrap = min(b + len(tr), D) - b
        full[b : b + wrap] = tr[:wrap]
        full[: len(tr) - wrap] = tr[wrap:]
    return full


LIB_RTOL, LIB_ATOL = 1e-8, 1e-10   # "to round-off": double-precision evaluation of sums of a few hundred terms


def lib_close(got, want, upper):
    """want - tol <= got <= upper + tol, element-wise (upper = want except where round-off slack applies)"""
    tol = LIB_ATOL + LIB_RTOL * np.maximum(np.abs(want), np.abs(upper))
    return (got >= want - tol) & (got <= upper + tol)


def library_want(bank, flags, style, kaldi, wname, x, L, S, D, nfr, ncoef):
    """the property's formula, evaluated independently of the computer (full DFT, rebuilt responses)"""
    from pydrobert.speech import filters, config

    N = len(x)
    if style == "causal":
        origin = 0
    elif kaldi:
        origin = -(L // 2) + S // 2
    else:
        origin = -((L + 1) // 2) + 1
    if wname is None:
        wf = filters.GammaWindow() if style == "causal" else filters.HannWindow()
    else:
        wf = {"hann": filters.HannWindow, "hamming": filters.HammingWindow, "bartlett": filters.BartlettWindow,
              "blackman": filters.BlackmanWindow, "gamma": filters.GammaWindow}[wname]()
    win = wf.get_impulse_response(L)
    Hs = [rebuild_full(bank, i, D) for i in range(bank.num_filts)]
    p = 2 if flags["use_power"] else 1
    want = np.zeros((nfr, ncoef))
    # A real bank's coefficient is computed as twice the half-spectrum sum, which counts the DC and (even D) Nyquist
    # bins twice.  Their taps are zero in exact arithmetic (a vertex that lies ON the Nyquist frequency); in floating
    # point a vertex a few ulp beyond it leaves a tap of the order sqrt(eps) ~ 1e-8.  Taps that small (relative to the
    # filter's peak) are round-off: the bins' double-counted contribution is allowed as slack, larger ones are not.
    slack = np.zeros((nfr, ncoef))
    selfdual = [0] + ([D // 2] if D % 2 == 0 else [])
    for k in range(nfr):
        fr = np.asarray([x[sym_index(N, k * S + origin + i)] for i in range(L)])
        col = 0
        if flags["include_energy"]:
            e = float(np.sum(fr * fr) / L)
            if not flags["use_power"]:
                e = e ** 0.5
            want[k, 0] = e
            col = 1
        X = np.fft.fft(fr * win, n=D)
        for i, H in enumerate(Hs):
            want[k, col + i] = np.sum(np.abs(X * H) ** p)
            if bank.is_real:
                peak = float(np.max(np.abs(H))) if len(H) else 0.0
                for b in selfdual:
                    if 0 < abs(H[b]) <= 1e-6 * peak:
                        slack[k, col + i] += abs(X[b] * H[b]) ** p
    upper = want + slack
    if flags["use_log"]:
        want = np.log(np.maximum(want, config.LOG_FLOOR_VALUE))
        upper = np.log(np.maximum(upper, config.LOG_FLOOR_VALUE))
    return want, upper


def library_oracle(ctx):
    from pydrobert.speech import config

    floor0 = config.LOG_FLOOR_VALUE
    try:
        return library_oracle_(ctx, floor0)
    finally:
        config.LOG_FLOOR_VALUE = floor0


def library_oracle_(ctx, floor0):
    from pydrobert.speech import compute, filters, config

    r = ctx.rng
    n = ctx.scale(80, 800)
    # corner configurations that every run covers (then random ones): complex banks whose lowest filter wraps below
    # 0 Hz, and "analytic" complex banks (raised low edge) whose top filter still crosses the Nyquist frequency
    # (all parameters fixed: nothing about them is left to the RNG)
    corners = [("gabor", "mel", 8000, 0.0, 4000.0, 6), ("gammatone", "mel", 8000, 0.0, 4000.0, 6),
               ("gabor", "mel", 8000, 500.0, 4000.0, 10), ("gabor", "bark", 4000, 500.0, 2000.0, 6),
               ("gammatone", "mel", 4000, 1000.0, 2000.0, 6), ("gammatone", "bark", 8000, 1000.0, 4000.0, 10),
               ("gabor", "mel", 16000, 1000.0, 8000.0, 20), ("gammatone", "bark", 4000, 500.0, 2000.0, 20),
               # a linear scale with slope != 1 and an offset (both directions of the scale are used to lay the bank
               # out), and triangular banks whose high_hz lies within the accepted 1 Hz above the Nyquist frequency
               ("tri", dict(name="linear", low_hz=40.0, slope_hz=1.25), 1000, 0.0, 300.0, 4),
               ("tri", "mel", 1000, 20.0, 500.25, 4), ("tri", "bark", 8000, 100.0, 4000.5, 6),
               ("tri_analytic", dict(name="linear", low_hz=10.0, slope_hz=0.5), 4000, 0.0, 1500.0, 5),
               # frame lengths that ARE powers of two (64, 128, 256 samples), padded: the DFT size is the first power of
               # two at or beyond the frame length, i.e. the frame length itself (7th entry: frame length in ms)
               ("tri", "mel", 8000, 20.0, 3800.0, 4, 8.0), ("fbank", "mel", 8000, 20.0, 3800.0, 4, 16.0),
               ("gabor", "mel", 8000, 100.0, 3800.0, 4, 32.0),
               # finite signals of huge / tiny magnitude, magnitude spectrum (8th entry: the signal's scale): |z| must not be
               # computed through re**2 + im**2
               ("fbank", "mel", 8000, 20.0, 3800.0, 4, None, 1e157), ("gabor", "mel", 8000, 100.0, 3800.0, 4, None, 1e157),
               ("tri", "mel", 8000, 20.0, 3800.0, 4, None, 1e-200), ("gammatone", "mel", 8000, 100.0, 3800.0, 4, None, 1e-200)]
    for it in range(n):
        if ctx.out_of_time():
            break
        corner = corners[it] if it < len(corners) else None
        config.LOG_FLOOR_VALUE = floor0
        rate = r.choice([4000, 8000, 11025])
        kind = r.choice(["gabor", "tri", "fbank", "gammatone", "tri_analytic"])
        scale = r.choice(["mel", "bark", dict(name="linear", low_hz=0.0), dict(name="octave", low_hz=30.0),
                          dict(name="linear", low_hz=40.0, slope_hz=r.choice([1.25, 0.5, 2.0]))])
        nf = r.choice([3, 6, 10])
        lo = r.choice([0.0, 20.0, 200.0, 500.0, 1000.0])
        hi = r.choice([rate / 2, rate / 2 - 100.0, rate / 4])
        if hi <= lo:
            hi = float(rate // 2)
        corner_flen = corner_level = None
        if corner:
            kind, scale, rate, lo, hi, nf = corner[:6]
            corner_flen = corner[6] if len(corner) > 6 else None
            corner_level = corner[7] if len(corner) > 7 else None
        if isinstance(scale, dict) and scale.get("name") == "octave" and lo < 30.0:
            lo = 30.0
        fb_analytic = r.random() < 0.3
        try:
            if kind == "gabor":
                bank = filters.GaborFilterBank(scale, num_filts=nf, low_hz=lo, high_hz=hi, sampling_rate=rate)
            elif kind == "gammatone":
                bank = filters.ComplexGammatoneFilterBank(scale, num_filts=nf, low_hz=lo, high_hz=hi, sampling_rate=rate)
            elif kind == "fbank":
                bank = filters.Fbank(num_filts=nf, low_hz=lo, high_hz=hi, sampling_rate=rate, analytic=fb_analytic)
            else:
                bank = filters.TriangularOverlappingFilterBank(scale, num_filts=nf, low_hz=lo, high_hz=hi,
                                                               sampling_rate=rate, analytic=(kind == "tri_analytic"))
        except Exception as e:
            ctx.count("bank_ctor_error:" + type(e).__name__)
            continue
        flags = dict(use_log=r.random() < 0.5, use_power=r.random() < 0.5, include_energy=r.random() < 0.5,
                     pad_to_nearest_power_of_two=r.random() < 0.5)
        style = r.choice(["causal", "centered"])
        kaldi = r.random() < 0.3
        flen = r.choice([None, 5.0, 12.5, 25.0, 3.1])
        shift = r.choice([2.0, 5.0, 10.0, 1.3])
        wname = r.choice(["hann", "hamming", "bartlett", "blackman", "gamma", None])
        if corner:
            flags = dict(use_log=False, use_power=it % 2 == 0, include_energy=it % 4 >= 2, pad_to_nearest_power_of_two=it % 3 == 0)
            style, kaldi, flen, shift, wname = "centered", False, 25.0, 10.0, "hann"
            if corner_flen is not None:
                flen, shift = corner_flen, corner_flen / 4
                flags["pad_to_nearest_power_of_two"] = True
            if corner_level is not None:
                flags.update(use_power=False, use_log=corner_level > 1, include_energy=False)
        try:
            comp = compute.STFTFrameComputer(bank, frame_length_ms=flen, frame_shift_ms=shift, frame_style=style,
                                             kaldi_shift=kaldi, window_function=wname, **flags)
        except Exception as e:
            ctx.count("computer_ctor_error:" + type(e).__name__)
            continue
        L, S = comp.frame_length, comp.frame_shift
        if S < 1 or S > L:
            ctx.count("out_of_scope")
            continue
        floor_changed = None
        if flags["use_log"] and it % 3 == 1:
            # LOG_FLOOR_VALUE is a configuration knob read when the log is taken: raise it AFTER the computer was
            # built (restored at the top of the next iteration / on exit); the oracle below reads the live value too
            config.LOG_FLOOR_VALUE = floor_changed = 1e-2
            ctx.count("log_floor_changed_after_ctor")
        D = int(2 ** np.ceil(np.log2(L))) if flags["pad_to_nearest_power_of_two"] else L
        N = r.choice([L // 2, L // 2 + 1, L, 2 * L + 5, r.randrange(L, 4 * L)])
        # loud, quiet and silent signals (the log floor and the energy coefficient only matter when a frame is quiet)
        level = r.choice([1.0, 1.0, 1e-2, 1e-4, 0.0])
        if corner:
            N, level = 2 * L + 5, 1.0
            if corner_level is not None:
                level = corner_level
        xseed = r.randrange(1 << 30)
        x = np.random.RandomState(xseed).randn(N) * level
        x.setflags(write=False)
        # everything needed to rebuild the case (see `library_replay`)
        case = dict(kind="library", log_floor_after_ctor=floor_changed, level=level, xseed=xseed, bank=kind, scale=scale, fb_analytic=fb_analytic,
                    num_filts=nf, rate=rate, low=lo, high=hi, frame_length_ms=flen, frame_shift_ms=shift, L=L, S=S, D=D,
                    style=style, kaldi=kaldi, window=wname, N=N, **flags)
        ctx.case(case, kind="library:" + kind)
        strict = bool(flags["use_log"]) and level in (0.0, 1e-4)
        if strict:
            case["caller_fp_state"] = "errstate(divide/invalid=raise) + RuntimeWarning as error"
            ctx.count("strict_fp_state")
        try:
            with common.strict_fp(strict):
                got = comp.compute_full(x)
        except Exception as e:
            ctx.violation(case, "no exception", "%s: %s" % (type(e).__name__, e), "compute_full raises",
                          tags=dict(clause="raises", exc=type(e).__name__))
            continue
        if corner or it % 4 == 0:
            # a copy of a computer is a computer with the same configuration (copy.deepcopy, pickle round trip): same features,
            # bit for bit - the copy is taken AFTER the original was used
            for how, cl in common.clone_routes(comp):
                ccase = dict(case, copy=how)
                ctx.case(ccase, kind="library_copy:" + how)
                if isinstance(cl, Exception):      # computers that refuse to be copied: no copy, nothing to check
                    ctx.count("not_copyable:" + how)
                    continue
                try:
                    got_c = cl.compute_full(x)
                except Exception as e:
                    ctx.violation(ccase, "a computer", "%s: %s" % (type(e).__name__, str(e)[:150]), "a copied computer computes",
                                  tags=dict(clause="copy_equivalence", how="raises"))
                    continue
                if got_c.shape != got.shape or got_c.tobytes() != got.tobytes():
                    ctx.violation(ccase, "the original's features", "differs (max |diff| %s)" % (float(np.nanmax(np.abs(got_c - got))) if got_c.shape == got.shape and got.size else "shape"),
                                  "a %s copy of the computer returns the same features" % how, tags=dict(clause="copy_equivalence"))
        ncoef = bank.num_filts + int(flags["include_energy"])
        if N < L // 2 + 1:
            if got.shape != (0, ncoef):
                ctx.violation(case, [0, ncoef], list(got.shape), "short signal: empty (0, num_coeffs) result", tags=dict(clause="short_shape"))
            continue
        nfr = (N + S // 2) // S
        if got.shape != (nfr, ncoef):
            ctx.violation(case, [nfr, ncoef], list(got.shape), "(N + S//2)//S frames of num_filts(+1) coefficients", tags=dict(clause="shape"))
            continue
        want, upper = library_want(bank, flags, style, kaldi, wname, x, L, S, D, nfr, ncoef)
        if np.any(upper > want):
            ctx.count("selfdual_tap_roundoff_slack")
        if not lib_close(got, want, upper).all():
            bad = np.argwhere(~lib_close(got, want, upper))[0].tolist()
            ctx.violation(case, float(want[tuple(bad)]), float(got[tuple(bad)]),
                          "coefficient == documented definition (independent full-spectrum evaluation); at %s" % bad,
                          tags=dict(clause="library_value", bank=kind, real=bool(bank.is_real)))
        # default frame length keeps a non-zero bin per filter
        if flen is None:
            for i in range(bank.num_filts):
                _, tr = bank.get_truncated_response(i, D)
                if not np.any(np.abs(tr) > 0):
                    ctx.violation(dict(case, filt=i), "non-zero bin", "all-zero truncated response",
                                  "default frame length keeps at least one non-zero DFT bin per filter", tags=dict(clause="default_len_bin"))


def replay(rp):
    """re-run the stored case against the implementation, the independent oracle and the model"""
    from pydrobert.speech.compute import STFTFrameComputer
    from .tracers import SpecBank, IntWindow

    case = rp.get("case", {})
    print(common.canon(case))
    if case.get("kind") == "walk":
        D, start, ln = case["D"], case["start"], case["len"]
        taps = [complex(t) for t in case["taps"]]
        A = np.asarray(case["A"], dtype=np.float64)
        x = np.fft.irfft(A, n=D)
        bank = SpecBank([(start, np.asarray(taps, dtype=np.complex128))])
        for power in (False, True):
            comp = STFTFrameComputer(bank, frame_length_ms=D, frame_shift_ms=D, frame_style="causal",
                                     window_function=IntWindow(mode="ones"), use_log=False, use_power=power,
                                     pad_to_nearest_power_of_two=False)
            got = comp.compute_full(x)
            X = np.fft.fft(x)
            H = bank.get_frequency_response(0, D)
            print("use_power=%s impl=%r oracle(full spectrum)=%r" % (power, got.tolist(), float(np.sum(np.abs(X * H) ** (2 if power else 1)))))
        out = common.Driver("C02").run(["walk %d %d %d" % (D, start, ln)])[0]
        print("model hits (half-spectrum idx, conj, tap):", out)
    elif case.get("kind") == "framing":
        L, S, ce, ka, N, j = case["L"], case["S"], case["centered"], case["kaldi"], case["N"], case["hot"]
        taps = sc.window_taps("hot%d" % j, L)
        comp = sc.make_dc_computer(L, S, ce, ka, taps)
        print("impl rows:", sc.as_int_rows(comp.compute_full(sc.sig(0, N))))
        out = common.Driver("C02").run([sc.ops_line(L, S, ce, ka, ["F%d" % N])])[0]
        print("model rows:", sc.expected_from_model(out, ["F%d" % N], taps, same_signal=True))
    elif case.get("kind") == "library" and "xseed" in case:
        return library_replay(case, rp)
    print("oracle:", rp.get("oracle"), "expected", rp.get("expected"), "got", rp.get("got"))
    return 0


def library_replay(case, rp):
    """rebuild the recorded bank / computer / signal and compare the implementation with the independent evaluation"""
    from pydrobert.speech import compute, filters, config

    kind, scale, nf, lo, hi, rate = (case[k] for k in ("bank", "scale", "num_filts", "low", "high", "rate"))
    if kind == "gabor":
        bank = filters.GaborFilterBank(scale, num_filts=nf, low_hz=lo, high_hz=hi, sampling_rate=rate)
    elif kind == "gammatone":
        bank = filters.ComplexGammatoneFilterBank(scale, num_filts=nf, low_hz=lo, high_hz=hi, sampling_rate=rate)
    elif kind == "fbank":
        bank = filters.Fbank(num_filts=nf, low_hz=lo, high_hz=hi, sampling_rate=rate, analytic=case["fb_analytic"])
    else:
        bank = filters.TriangularOverlappingFilterBank(scale, num_filts=nf, low_hz=lo, high_hz=hi, sampling_rate=rate,
                                                       analytic=(kind == "tri_analytic"))
    flags = {k: case[k] for k in ("use_log", "use_power", "include_energy", "pad_to_nearest_power_of_two")}
    comp = compute.STFTFrameComputer(bank, frame_length_ms=case["frame_length_ms"], frame_shift_ms=case["frame_shift_ms"],
                                     frame_style=case["style"], kaldi_shift=case["kaldi"], window_function=case["window"], **flags)
    if case.get("log_floor_after_ctor") is not None:
        config.LOG_FLOOR_VALUE = case["log_floor_after_ctor"]
    L, S, D, N = comp.frame_length, comp.frame_shift, case["D"], case["N"]
    x = np.random.RandomState(case["xseed"]).randn(N) * case["level"]
    got = comp.compute_full(x)
    ncoef = bank.num_filts + int(flags["include_energy"])
    nfr = (N + S // 2) // S if N >= L // 2 + 1 else 0
    print("impl: shape", got.shape, "documented shape", (nfr, ncoef))
    ok = got.shape == (nfr, ncoef)
    if ok and nfr:
        want, upper = library_want(bank, flags, case["style"], case["kaldi"], case["window"], x, L, S, D, nfr, ncoef)
        err = np.abs(got - want)
        k = np.unravel_index(int(np.argmax(err / (1e-10 + 1e-8 * np.abs(want)))), err.shape)
        print("max |impl - definition| = %.3g at %s: impl %.17g definition %.17g" % (float(err.max()), list(k), got[k], want[k]))
        ok = bool(lib_close(got, want, upper).all())
        if np.any(upper > want):
            print("(round-off slack for double-counted DC/Nyquist taps below 1e-6 of the peak: max %.3g)" % float((upper - want).max()))
    print("recorded:", rp.get("oracle"), "expected", rp.get("expected"), "got", rp.get("got"))
    print("REPRODUCED" if not ok else "not reproduced (the property holds on this input now)")
    return 0 if ok else 1
